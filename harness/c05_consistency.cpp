// C05 - result accessors, counts, ordering and status are mutually consistent, for the six Krylov solver classes,
// over histories of init / compute / accessor calls.
#include "vf/eigen_assert.hpp"
#include <Eigen/Core>
#include "vf/oracle.hpp"
#include "vf/families.hpp"
#include "vf/runner.hpp"
#include <Spectra/SymGEigsSolver.h>
#include <Spectra/SymGEigsShiftSolver.h>
#include <Spectra/MatOp/DenseSymMatProd.h>
#include <Spectra/MatOp/DenseCholesky.h>
#include <Spectra/MatOp/SymShiftInvert.h>

#ifndef VF_REAL
#define VF_REAL double
#endif
typedef VF_REAL Real;
using vf::ld;
using vf::cld;
using vf::CMatL;
using vf::CVecL;
using vf::Index;
using Spectra::CompInfo;
static const ld EPS = (ld) std::numeric_limits<Real>::epsilon();
static const ld CTOL = 64;

// observer: remembers the operator's call counter at the last "extended" event and counts restarts
struct Probe
{
    const vf::OpCounters* op = nullptr;
    long calls_at_last_extended = 0;
    long compressed = 0;
    long compressed_since_init = 0;
};
static void probe_cb(void* ctx, const Spectra::verif::FacView& v)
{
    Probe* p = static_cast<Probe*>(ctx);
    if (v.event == Spectra::verif::EvExtended || v.event == Spectra::verif::EvInit)
        p->calls_at_last_extended = p->op->calls;
    if (v.event == Spectra::verif::EvCompressed)
    {
        p->compressed++;
        p->compressed_since_init++;
    }
    if (v.event == Spectra::verif::EvInit)
        p->compressed_since_init = 0;
}

// key such that ascending key order is the order the sorting rule names (applied to the returned, back-transformed values)
static ld sort_key(int rule, cld x)
{
    switch (rule)
    {
        case 0: return -std::abs(x);
        case 1: return -x.real();
        case 2: return -std::abs(x.imag());
        case 3: return -x.real();
        case 4: return std::abs(x);
        case 5: return x.real();
        case 6: return std::abs(x.imag());
        default: return x.real();  // 7 SmallestAlge
    }
}

static void krylov_case(vf::Draw& d, vf::Case& c)
{
    int family = (int) d.range("family", 0, 5);
    vf::Problem<Real> P = vf::draw_problem<Real>(d, family, (Index) vf::options().geti("nmax", 24), 8);
    c.add_desc(P.desc);
    c.cls(std::string(vf::FAMILY_NAMES[family]));
    if (P.cls.find("+extreme") != std::string::npos)
        c.cls(P.cls.find("+extreme_huge") != std::string::npos ? "extreme_scale/huge" : "extreme_scale/tiny");
    if (!P.ok)
    {
        c.rejected = true;
        return;
    }
    const Index n = P.n, nev = P.nev;
    // condition of the system the shift operators solve in working precision (upper bound by Frobenius norms)
    ld opfac = 1;
    if (vf::family_has_shift(family))
    {
        CMatL M = P.A - P.sigma * CMatL::Identity(n, n);
        opfac = std::max((ld) 1, vf::fro_scaled(M) * vf::fro_scaled(CMatL(M.inverse())));
    }
    vf::with_family<Real>(P, [&](auto& op, auto& make, auto scalar_tag) {
        typedef decltype(scalar_tag) S;
        typedef Eigen::Matrix<S, Eigen::Dynamic, 1> Vec;
        auto eigs = make();
        Probe probe;
        probe.op = &op;
        Spectra::verif::ObserverSlot saved = Spectra::verif::observer_slot();
        Spectra::verif::observer_slot().fn = &probe_cb;
        Spectra::verif::observer_slot().ctx = &probe;
        struct Restore
        {
            Spectra::verif::ObserverSlot s;
            ~Restore() { Spectra::verif::observer_slot() = s; }
        } restore{saved};

        // before any compute(): NotComputed, empty accessors
        VF_CHECK(eigs->info() == CompInfo::NotComputed, "info_before_compute", "info() = " << vf::info_name(eigs->info()) << " before any compute()");
        {
            auto ev0 = eigs->eigenvalues();
            auto ex0 = eigs->eigenvectors();
            VF_CHECK(ev0.size() == 0 && ex0.cols() == 0 && ex0.rows() == n, "accessors_before_compute", "eigenvalues().size()=" << ev0.size() << " eigenvectors() is " << ex0.rows() << "x" << ex0.cols());
        }
        long calls_at_init = 0;
        long niter_budget = 0;
        bool computed = false;
        std::ostringstream hist;
        auto do_init = [&]() {
            calls_at_init = op.calls;
            niter_budget = 0;
            if (d.flag("init_with_vector"))
            {
                vf::Lcg g((uint64_t) d.range("start_seed", 0, 255));
                Vec v(n);
                for (Index i = 0; i < n; i++)
                    v[i] = (S) (Real) g.u();
                eigs->init(v.data());
                hist << "init(v) ";
            }
            else
            {
                eigs->init();
                hist << "init() ";
            }
            // init() does not touch the results of an earlier compute? It resets them: accessors are empty again
            auto ev0 = eigs->eigenvalues();
            VF_CHECK(ev0.size() == 0, "accessors_after_init", "eigenvalues().size()=" << ev0.size() << " right after init()");
            VF_CHECK((long) eigs->num_operations() == op.calls - calls_at_init, "num_operations", "after init(): num_operations()=" << eigs->num_operations() << " but the operator was applied " << (op.calls - calls_at_init) << " times");
        };
        auto do_compute = [&]() {
            int nr, ns;
            const int* rules = vf::family_rules(family, nr);
            const int* srules = vf::family_sort_rules(family, ns);
            int sel = rules[d.range("selection", 0, nr - 1)];
            int sort = srules[d.range("sorting", 0, ns - 1)];
            static const long MAXITS[6] = {0, 1, 2, 3, 5, 1000};
            long maxit = MAXITS[d.range("maxit", 0, 5)];
            ld tol = std::pow((ld) 10, -(ld) d.range("tol_exp", 2, 14));
            hist << "compute(" << vf::ALL_RULE_NAMES[sel] << ",maxit=" << maxit << ",tol=1e-" << (int) std::round(-std::log10((double) tol)) << "," << vf::ALL_RULE_NAMES[sort] << ") ";
            probe.compressed = 0;
            probe.calls_at_last_extended = op.calls;  // if this compute() does not extend the factorization, its probes start here
            long ret = (long) eigs->compute(vf::ALL_RULES[sel], (Index) maxit, (Real) tol, vf::ALL_RULES[sort]);
            computed = true;
            niter_budget += maxit + 1;
            // operator applications after the last extension of the factorization are not part of the iteration
            // (GenEigsComplexShiftSolver probes the operator to select the root)
            long probe_calls = op.calls - probe.calls_at_last_extended;
            auto evals = eigs->eigenvalues();
            auto evecs = eigs->eigenvectors();
            // (a) counts
            VF_CHECK(ret == (long) evals.size() && ret == (long) evecs.cols() && evecs.rows() == n, "counts",
                     "compute() returned " << ret << ", eigenvalues().size()=" << evals.size() << ", eigenvectors() is " << evecs.rows() << "x" << evecs.cols());
            VF_CHECK(ret >= 0 && ret <= nev, "count_range", "compute() returned " << ret << " with nev=" << nev);
            // (b) status
            CompInfo info = eigs->info();
            VF_CHECK((info == CompInfo::Successful) == (ret == nev), "status", "info()=" << vf::info_name(info) << " but " << ret << " of " << nev << " pairs returned");
            VF_CHECK(info == CompInfo::Successful || info == CompInfo::NotConverging, "status", "info()=" << vf::info_name(info) << " after compute()");
            // accessors are pure
            VF_CHECK(vf::bits_equal(evals, eigs->eigenvalues()) && vf::bits_equal(evecs, eigs->eigenvectors()), "accessor_not_pure", "two consecutive accessor calls differ");
            // (d) eigenvectors(m)
            for (Index m = 0; m <= nev + 2; m++)
            {
                auto part = eigs->eigenvectors(m);
                Index want = std::min<Index>(m, ret);
                VF_CHECK(part.cols() == want && part.rows() == n, "eigenvectors_m", "eigenvectors(" << m << ") is " << part.rows() << "x" << part.cols() << ", expected " << want << " columns");
                // (the product V*Y is evaluated with a different number of columns, so the two results may differ in the last bits)
                if (want > 0)
                {
                    ld diff = vf::maxabs(vf::widen(part) - vf::widen(evecs.leftCols(want)));
                    VF_CHECK(diff <= 8 * (ld) n * EPS, "eigenvectors_m", "eigenvectors(" << m << ") differs from the first " << want << " columns of eigenvectors() by " << vf::num(diff));
                }
            }
            // (e) ordering
            CVecL th = vf::widen(evals);
            VF_CHECK(vf::all_finite(th), "nonfinite", "NaN/Inf eigenvalue");
            for (Index i = 0; i + 1 < ret; i++)
                // ties to within rounding of the key (evaluated by the library in working precision) may come in either order
                VF_CHECK(sort_key(sort, th[i]) <= sort_key(sort, th[i + 1]) + 4 * EPS * (std::abs(th[i]) + std::abs(th[i + 1])), "ordering", "values " << th[i] << ", " << th[i + 1] << " at positions " << i << "," << i + 1 << " are not in " << vf::ALL_RULE_NAMES[sort] << " order");
            // (f) pairing: the Rayleigh quotient of x_i through the iterated operator is nu(lambda_i) (true for every Ritz pair)
            if (ret > 0)
            {
                CMatL X = vf::widen(evecs);
                const ld rfac = (ld) (1 + probe.compressed_since_init);
                for (Index i = 0; i < ret; i++)
                {
                    cld rq = (X.col(i).adjoint() * (P.OP * X.col(i)))(0, 0) / (X.col(i).adjoint() * X.col(i))(0, 0);
                    cld nu = vf::nu_of_lambda(P, th[i]);
                    if (family == vf::FAM_GENCPLX)
                    {
                        // lambda(nu) = Re sigma + (1 +- sqrt(1 - 4 nu^2 (Im sigma)^2)) / (2 nu) has a branch point where the discriminant vanishes;
                        // near it (and beyond it, for a Ritz value that overshoots) nu(lambda) cannot be compared at rounding level
                        ld disc = 1 - 4 * std::norm(rq) * P.sigma.imag() * P.sigma.imag();
                        if (disc < (ld) 0.05)
                        {
                            c.cls("pairing_undecidable_near_branch_point");
                            continue;
                        }
                    }
                    ld err = std::abs(rq - nu);
                    ld bound = CTOL * (ld) n * EPS * rfac * opfac * P.normOP;
                    // the map lambda -> nu is applied to a value carrying rounding errors of its own
                    if (vf::family_has_shift(family))
                        bound += CTOL * EPS * std::abs(nu) * std::max((ld) 1, std::abs(nu) * (std::abs(th[i]) + std::abs(P.sigma)));
                    VF_CHECK(err <= bound, "pairing", "Rayleigh quotient of vector " << i << " through the iterated operator is " << rq << " but its eigenvalue " << th[i] << " corresponds to " << nu << " (|diff| " << vf::num(err) << " > " << vf::num(bound) << ")");
                    vf::report().stat("pairing error/bound", (double) (err / bound));
                }
            }
            // (g) operation count
            long expected_ops = op.calls - calls_at_init - (family == vf::FAM_GENCPLX ? probe_calls : 0);
            c.feat["probe_calls"] = (double) probe_calls;
            VF_CHECK((long) eigs->num_operations() == expected_ops || family == vf::FAM_GENCPLX, "num_operations",
                     "num_operations()=" << eigs->num_operations() << " but the operator was applied " << expected_ops << " times since init()");
            // (h) restarts and iterations
            VF_CHECK(probe.compressed <= maxit, "restart_bound", probe.compressed << " implicit restarts performed with maxit=" << maxit);
            VF_CHECK((long) eigs->num_iterations() <= niter_budget && (long) eigs->num_iterations() >= 1, "num_iterations", "num_iterations()=" << eigs->num_iterations() << " with sum(maxit+1)=" << niter_budget);
            if (ret > 0 && ret < nev)
                c.cls("partial_convergence");
            if (ret == 0)
                c.cls("nothing_converged");
            if (maxit <= 1)
                c.cls("maxit<=1");
            if ((ret > 0 && ret < nev) || maxit <= 1)
                c.nontrivial = true;
            return probe_calls;
        };
        try
        {
            do_init();
            int nops = (int) d.range("history_len", 1, 4);
            long probe_total = 0;  // complex shift: probe solves since the last init
            for (int k = 0; k < nops; k++)
            {
                int what = (k == nops - 1) ? 1 : (int) d.range("op", 0, 2);
                if (what == 0)
                {
                    do_init();
                    probe_total = 0;
                }
                else if (what == 1)
                {
                    probe_total += do_compute();
                    if (family == vf::FAM_GENCPLX)
                    {
                        long expected = op.calls - calls_at_init - probe_total;
                        VF_CHECK((long) eigs->num_operations() == expected, "num_operations",
                                 "num_operations()=" << eigs->num_operations() << " but the iteration applied the operator " << expected << " times since init() (" << probe_total << " root-selection probes excluded)");
                    }
                }
                else if (computed)
                {
                    // accessor calls between computes must not change anything
                    auto a1 = eigs->eigenvalues();
                    auto x1 = eigs->eigenvectors((Index) d.range("nvec", 0, nev + 2));
                    auto a2 = eigs->eigenvalues();
                    VF_CHECK(vf::bits_equal(a1, a2), "accessor_not_pure", "eigenvalues() changed after an eigenvectors(m) call");
                    hist << "accessors ";
                    c.nontrivial = true;
                    c.cls("accessor_between_computes");
                }
            }
        }
        catch (const std::runtime_error& e)
        {
            c.rejected = true;
            c.cls(std::string("runtime_error: ") + e.what());
        }
        c.add_desc(hist.str());
    });
}

// ---------------------------------------------------------------------------------------------------------------------------------
// Generalized symmetric solvers (library wrappers, dense): the same bookkeeping clauses; ordering is checked on the BACK-TRANSFORMED
// values; pairing through the Rayleigh quotient of the iterated operator in the inner product of the mode:
//   Cholesky / RegularInverse: x^T A x / x^T B x = lambda;  ShiftInvert: nu = x^T B (A - sigma B)^-1 B x, lambda = sigma + 1/nu;
//   Buckling: nu = x^T K (K - sigma K_G)^-1 K x, lambda = sigma nu / (nu - 1);  Cayley: nu = x^T B (A - sigma B)^-1 (A + sigma B) x, lambda = sigma (nu + 1)/(nu - 1)
template <typename Solver>
static void geigs_drive(Solver& eigs, vf::Draw& d, vf::Case& c, int mode, Index n, Index nev, const vf::MatL& P /* inner product */, const vf::MatL& OP, ld sigma, ld opnorm, ld opfac)
{
    using vf::MatL;
    VF_CHECK(eigs.info() == CompInfo::NotComputed, "info_before_compute", "info() = " << vf::info_name(eigs.info()) << " before any compute()");
    VF_CHECK(eigs.eigenvalues().size() == 0 && eigs.eigenvectors().cols() == 0 && eigs.eigenvectors().rows() == n, "accessors_before_compute", "accessors not empty before compute()");
    eigs.init();
    int ncomp = (int) d.range("computes", 1, 2);
    for (int k = 0; k < ncomp; k++)
    {
        int sel = vf::SYM_RULES[d.range("selection", 0, 4)];
        int sort = vf::SYM_SORT_RULES[d.range("sorting", 0, 3)];
        static const long MAXITS[6] = {0, 1, 2, 3, 5, 1000};
        long maxit = MAXITS[d.range("maxit", 0, 5)];
        ld tol = std::pow((ld) 10, -(ld) d.range("tol_exp", 2, 14));
        long ret = (long) eigs.compute(vf::ALL_RULES[sel], (Index) maxit, (Real) tol, vf::ALL_RULES[sort]);
        auto evals = eigs.eigenvalues();
        auto evecs = eigs.eigenvectors();
        VF_CHECK(ret == (long) evals.size() && ret == (long) evecs.cols() && evecs.rows() == n, "counts", "compute() returned " << ret << ", eigenvalues().size()=" << evals.size() << ", eigenvectors() is " << evecs.rows() << "x" << evecs.cols());
        VF_CHECK(ret >= 0 && ret <= nev, "count_range", "compute() returned " << ret << " with nev=" << nev);
        CompInfo info = eigs.info();
        VF_CHECK((info == CompInfo::Successful) == (ret == nev) && (info == CompInfo::Successful || info == CompInfo::NotConverging), "status", "info()=" << vf::info_name(info) << " but " << ret << " of " << nev << " pairs returned");
        for (Index m = 0; m <= nev + 1; m++)
        {
            auto part = eigs.eigenvectors(m);
            Index want = std::min<Index>(m, ret);
            VF_CHECK(part.cols() == want && part.rows() == n, "eigenvectors_m", "eigenvectors(" << m << ") is " << part.rows() << "x" << part.cols() << ", expected " << want << " columns");
            if (want > 0)
                VF_CHECK(vf::maxabs(vf::widen(part) - vf::widen(evecs.leftCols(want))) <= 8 * (ld) n * EPS * std::max((ld) 1, vf::maxabs(vf::widen(evecs))), "eigenvectors_m", "eigenvectors(" << m << ") is not the first " << want << " columns");
        }
        vf::VecL th = vf::widen_real(evals);
        bool finite = vf::all_finite(th);
        if (!finite)
        {
            c.cls("generalized/infinite_eigenvalue(singular K_G)");
            continue;
        }
        for (Index i = 0; i + 1 < ret; i++)
            VF_CHECK(sort_key(sort, cld(th[i], 0)) <= sort_key(sort, cld(th[i + 1], 0)) + 4 * EPS * (std::abs(th[i]) + std::abs(th[i + 1])), "ordering",
                     "back-transformed values " << vf::num(th[i]) << ", " << vf::num(th[i + 1]) << " at positions " << i << "," << i + 1 << " are not in " << vf::ALL_RULE_NAMES[sort] << " order");
        MatL X = vf::widen_real(evecs);
        for (Index i = 0; i < ret; i++)
        {
            vf::VecL x = X.col(i);
            ld xx = x.dot(P * x);
            ld rq = x.dot(P * (OP * x)) / xx;
            ld lam = th[i], nu;
            if (mode <= 1)
                nu = lam;
            else if (mode == 2)
                nu = 1 / (lam - sigma);
            else if (mode == 3)
                nu = lam / (lam - sigma);
            else
                nu = (lam + sigma) / (lam - sigma);
            ld err = std::abs(rq - nu);
            ld bound = CTOL * (ld) n * EPS * opfac * opnorm * (ld) (1 + maxit) + CTOL * EPS * std::abs(nu) * std::max((ld) 1, std::abs(nu) * (std::abs(lam) + std::abs(sigma)));
            VF_CHECK(err <= bound, "pairing", "Rayleigh quotient of vector " << i << " through the iterated operator is " << vf::num(rq) << " but its eigenvalue " << vf::num(lam) << " corresponds to " << vf::num(nu) << " (|diff| " << vf::num(err) << " > " << vf::num(bound) << ")");
            vf::report().stat("generalized pairing error/bound", (double) (err / bound));
        }
        if ((ret > 0 && ret < nev) || maxit <= 1)
            c.nontrivial = true;
        if (ret > 0 && ret < nev)
            c.cls("partial_convergence");
    }
}

static void geigs_case(vf::Draw& d, vf::Case& c)
{
    using vf::MatL;
    typedef Eigen::Matrix<Real, Eigen::Dynamic, Eigen::Dynamic> Mat;
    int mode = (int) d.range("gmode", 0, 4);
    static const char* MN[5] = {"SymGEigsSolver<Cholesky>", "SymGEigsSolver<RegularInverse>", "SymGEigsShiftSolver<ShiftInvert>", "SymGEigsShiftSolver<Buckling>", "SymGEigsShiftSolver<Cayley>"};
    vf::HermRecipe R = vf::make_herm<Real>(d, false, 3, (Index) vf::options().geti("nmax", 24), 3);
    const Index n = R.n;
    Index nev, ncv;
    vf::draw_nev_ncv(d, n, false, nev, ncv);
    // SPD matrix with condition <= 1e3
    vf::Lcg g((uint64_t) d.range("B_seed", 0, 65535));
    int ke = (int) d.range("B_log10_kappa", 0, 3);
    vf::VecL ev(n);
    for (Index i = 0; i < n; i++)
        ev[i] = std::pow((ld) 10, -(ld) ke * (ld) i / (ld) std::max<Index>(n - 1, 1));
    MatL Q = vf::random_orthogonal(n, g);
    MatL Bl = Q * ev.asDiagonal() * Q.transpose();
    Mat Bs = ((Bl + Bl.transpose()) / 2).cast<Real>();
    MatL B = Bs.cast<ld>();
    Mat As = vf::Narrow<Real>::mat(R.A);
    MatL A = As.cast<ld>();
    std::ostringstream os;
    os << MN[mode] << "<" << vf::Sc<Real>::name() << "> class=" << R.name << " n=" << n << " scale=1e" << R.scale_exp << " nev=" << nev << " ncv=" << ncv << " kappa(B)=1e" << ke;
    c.cls(MN[mode]);
    if (vf::fro_scaled(R.A) == 0)
    {
        c.add_desc(os.str());
        c.rejected = true;
        return;
    }
    // sigma by construction away from the generalized eigenvalues
    ld sigma = 0;
    MatL OP, P = B;
    ld opfac = std::pow((ld) 10, (ld) ke);
    if (mode >= 2)
    {
        const MatL& Kp = (mode == 3) ? B : A;      // buckling: K = B (positive definite), K_G = A
        const MatL& Km = (mode == 3) ? A : B;
        Eigen::GeneralizedSelfAdjointEigenSolver<MatL> ges(mode == 3 ? MatL(A / R.scale) : MatL(A / R.scale), B, Eigen::EigenvaluesOnly);
        vf::VecL mu = ges.eigenvalues() * R.scale;  // eigenvalues of (A, B); buckling eigenvalues of (B, A) are 1/mu
        ld lo = mu[0], hi = mu[n - 1], spread = std::max(hi - lo, (std::abs(lo) + std::abs(hi)) * (ld) 1e-3);
        ld s = d.flag("sigma_below") ? lo - spread / 5 : hi + spread / 5;
        if (mode == 3)
            s = 1 / (std::abs(s) > 0 ? s : spread);  // 1/sigma outside the spectrum of (K_G, K)
        if (s == 0)
            s = spread / 5;
        sigma = (ld) (Real) s;
        MatL M = Kp - sigma * Km;
        Eigen::FullPivLU<MatL> lu(M);
        if (!lu.isInvertible())
        {
            c.add_desc(os.str() + " singular shifted pencil");
            c.rejected = true;
            return;
        }
        MatL Mi = lu.inverse();
        opfac = std::max(opfac, vf::fro_scaled(M) * vf::fro_scaled(Mi));
        if (mode == 2)
            OP = Mi * B;
        else if (mode == 3)
            OP = Mi * B;  // (K - sigma K_G)^-1 K
        else
            OP = Mi * (A + sigma * B);
        os << " sigma=" << vf::num(sigma);
    }
    else
        OP = B.inverse() * A;  // both Cholesky and RegularInverse iterate with an operator similar to B^-1 A; in the B inner product x^T B (B^-1 A) x = x^T A x
    ld opnorm = vf::fro_scaled(OP);
    c.add_desc(os.str());
    try
    {
        if (mode == 0)
        {
            Spectra::DenseSymMatProd<Real> aop(As);
            Spectra::DenseCholesky<Real> bop(Bs);
            Spectra::SymGEigsSolver<Spectra::DenseSymMatProd<Real>, Spectra::DenseCholesky<Real>, Spectra::GEigsMode::Cholesky> eigs(aop, bop, nev, ncv);
            geigs_drive(eigs, d, c, mode, n, nev, P, OP, sigma, opnorm, opfac);
        }
        else if (mode == 1)
        {
            struct LLTB
            {
                using Scalar = Real;
                Mat Bm;
                Eigen::LLT<Mat> llt;
                explicit LLTB(const Mat& b) :
                    Bm(b), llt(b) {}
                Index rows() const { return Bm.rows(); }
                Index cols() const { return Bm.cols(); }
                void perform_op(const Real* x, Real* y) const { Eigen::Map<Eigen::Matrix<Real, Eigen::Dynamic, 1>>(y, Bm.rows()).noalias() = Bm * Eigen::Map<const Eigen::Matrix<Real, Eigen::Dynamic, 1>>(x, Bm.cols()); }
                void solve(const Real* x, Real* y) const { Eigen::Map<Eigen::Matrix<Real, Eigen::Dynamic, 1>>(y, Bm.rows()) = llt.solve(Eigen::Map<const Eigen::Matrix<Real, Eigen::Dynamic, 1>>(x, Bm.cols())); }
            };
            Spectra::DenseSymMatProd<Real> aop(As);
            LLTB bop(Bs);
            Spectra::SymGEigsSolver<Spectra::DenseSymMatProd<Real>, LLTB, Spectra::GEigsMode::RegularInverse> eigs(aop, bop, nev, ncv);
            geigs_drive(eigs, d, c, mode, n, nev, P, OP, sigma, opnorm, opfac);
        }
        else
        {
            typedef Spectra::SymShiftInvert<Real, Eigen::Dense, Eigen::Dense> OpT;
            Spectra::DenseSymMatProd<Real> bop(Bs);
            if (mode == 2)
            {
                OpT op(As, Bs);
                Spectra::SymGEigsShiftSolver<OpT, Spectra::DenseSymMatProd<Real>, Spectra::GEigsMode::ShiftInvert> eigs(op, bop, nev, ncv, (Real) sigma);
                geigs_drive(eigs, d, c, mode, n, nev, P, OP, sigma, opnorm, opfac);
            }
            else if (mode == 3)
            {
                OpT op(Bs, As);
                Spectra::SymGEigsShiftSolver<OpT, Spectra::DenseSymMatProd<Real>, Spectra::GEigsMode::Buckling> eigs(op, bop, nev, ncv, (Real) sigma);
                geigs_drive(eigs, d, c, mode, n, nev, P, OP, sigma, opnorm, opfac);
            }
            else
            {
                OpT op(As, Bs);
                Spectra::SymGEigsShiftSolver<OpT, Spectra::DenseSymMatProd<Real>, Spectra::GEigsMode::Cayley> eigs(op, bop, nev, ncv, (Real) sigma);
                geigs_drive(eigs, d, c, mode, n, nev, P, OP, sigma, opnorm, opfac);
            }
        }
    }
    catch (const std::invalid_argument& e)
    {
        c.rejected = true;
        c.cls(std::string("invalid_argument: ") + e.what());
    }
    catch (const std::runtime_error& e)
    {
        c.rejected = true;
        c.cls(std::string("runtime_error: ") + e.what());
    }
}

static void run_case(vf::Draw& d, vf::Case& c)
{
    if (d.one_in("generalized", 4))
        geigs_case(d, c);
    else
        krylov_case(d, c);
}

int main(int argc, char** argv)
{
    return vf::run_main(argc, argv, "C05", run_case);
}
