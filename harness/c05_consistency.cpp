// C05 - result accessors, counts, ordering and status are mutually consistent, for the six Krylov solver classes,
// over histories of init / compute / accessor calls.
#include "vf/eigen_assert.hpp"
#include <Eigen/Core>
#include "vf/oracle.hpp"
#include "vf/families.hpp"
#include "vf/runner.hpp"

#ifndef VF_REAL
#define VF_REAL double
#endif
typedef VF_REAL Real;
using vf::ld;
using vf::cld;
using vf::CMatL;
using vf::CVecL;
using vf::Index;
using Spectra::CompInfo;
static const ld EPS = (ld) std::numeric_limits<Real>::epsilon();
static const ld CTOL = 64;

// observer: remembers the operator's call counter at the last "extended" event and counts restarts
struct Probe
{
    const vf::OpCounters* op = nullptr;
    long calls_at_last_extended = 0;
    long compressed = 0;
    long compressed_since_init = 0;
};
static void probe_cb(void* ctx, const Spectra::verif::FacView& v)
{
    Probe* p = static_cast<Probe*>(ctx);
    if (v.event == Spectra::verif::EvExtended || v.event == Spectra::verif::EvInit)
        p->calls_at_last_extended = p->op->calls;
    if (v.event == Spectra::verif::EvCompressed)
    {
        p->compressed++;
        p->compressed_since_init++;
    }
    if (v.event == Spectra::verif::EvInit)
        p->compressed_since_init = 0;
}

// key such that ascending key order is the order the sorting rule names (applied to the returned, back-transformed values)
static ld sort_key(int rule, cld x)
{
    switch (rule)
    {
        case 0: return -std::abs(x);
        case 1: return -x.real();
        case 2: return -std::abs(x.imag());
        case 3: return -x.real();
        case 4: return std::abs(x);
        case 5: return x.real();
        case 6: return std::abs(x.imag());
        default: return x.real();  // 7 SmallestAlge
    }
}

static void run_case(vf::Draw& d, vf::Case& c)
{
    int family = (int) d.range("family", 0, 5);
    vf::Problem<Real> P = vf::draw_problem<Real>(d, family, (Index) vf::options().geti("nmax", 24));
    c.add_desc(P.desc);
    c.cls(std::string(vf::FAMILY_NAMES[family]));
    if (!P.ok)
    {
        c.rejected = true;
        return;
    }
    const Index n = P.n, nev = P.nev;
    // condition of the system the shift operators solve in working precision (upper bound by Frobenius norms)
    ld opfac = 1;
    if (vf::family_has_shift(family))
    {
        CMatL M = P.A - P.sigma * CMatL::Identity(n, n);
        opfac = std::max((ld) 1, vf::fro_scaled(M) * vf::fro_scaled(CMatL(M.inverse())));
    }
    vf::with_family<Real>(P, [&](auto& op, auto& make, auto scalar_tag) {
        typedef decltype(scalar_tag) S;
        typedef Eigen::Matrix<S, Eigen::Dynamic, 1> Vec;
        auto eigs = make();
        Probe probe;
        probe.op = &op;
        Spectra::verif::ObserverSlot saved = Spectra::verif::observer_slot();
        Spectra::verif::observer_slot().fn = &probe_cb;
        Spectra::verif::observer_slot().ctx = &probe;
        struct Restore
        {
            Spectra::verif::ObserverSlot s;
            ~Restore() { Spectra::verif::observer_slot() = s; }
        } restore{saved};

        // before any compute(): NotComputed, empty accessors
        VF_CHECK(eigs->info() == CompInfo::NotComputed, "info_before_compute", "info() = " << vf::info_name(eigs->info()) << " before any compute()");
        {
            auto ev0 = eigs->eigenvalues();
            auto ex0 = eigs->eigenvectors();
            VF_CHECK(ev0.size() == 0 && ex0.cols() == 0 && ex0.rows() == n, "accessors_before_compute", "eigenvalues().size()=" << ev0.size() << " eigenvectors() is " << ex0.rows() << "x" << ex0.cols());
        }
        long calls_at_init = 0;
        long niter_budget = 0;
        bool computed = false;
        std::ostringstream hist;
        auto do_init = [&]() {
            calls_at_init = op.calls;
            niter_budget = 0;
            if (d.flag("init_with_vector"))
            {
                vf::Lcg g((uint64_t) d.range("start_seed", 0, 255));
                Vec v(n);
                for (Index i = 0; i < n; i++)
                    v[i] = (S) (Real) g.u();
                eigs->init(v.data());
                hist << "init(v) ";
            }
            else
            {
                eigs->init();
                hist << "init() ";
            }
            // init() does not touch the results of an earlier compute? It resets them: accessors are empty again
            auto ev0 = eigs->eigenvalues();
            VF_CHECK(ev0.size() == 0, "accessors_after_init", "eigenvalues().size()=" << ev0.size() << " right after init()");
            VF_CHECK((long) eigs->num_operations() == op.calls - calls_at_init, "num_operations", "after init(): num_operations()=" << eigs->num_operations() << " but the operator was applied " << (op.calls - calls_at_init) << " times");
        };
        auto do_compute = [&]() {
            int nr, ns;
            const int* rules = vf::family_rules(family, nr);
            const int* srules = vf::family_sort_rules(family, ns);
            int sel = rules[d.range("selection", 0, nr - 1)];
            int sort = srules[d.range("sorting", 0, ns - 1)];
            static const long MAXITS[6] = {0, 1, 2, 3, 5, 1000};
            long maxit = MAXITS[d.range("maxit", 0, 5)];
            ld tol = std::pow((ld) 10, -(ld) d.range("tol_exp", 2, 14));
            hist << "compute(" << vf::ALL_RULE_NAMES[sel] << ",maxit=" << maxit << ",tol=1e-" << (int) std::round(-std::log10((double) tol)) << "," << vf::ALL_RULE_NAMES[sort] << ") ";
            probe.compressed = 0;
            probe.calls_at_last_extended = op.calls;  // if this compute() does not extend the factorization, its probes start here
            long ret = (long) eigs->compute(vf::ALL_RULES[sel], (Index) maxit, (Real) tol, vf::ALL_RULES[sort]);
            computed = true;
            niter_budget += maxit + 1;
            // operator applications after the last extension of the factorization are not part of the iteration
            // (GenEigsComplexShiftSolver probes the operator to select the root)
            long probe_calls = op.calls - probe.calls_at_last_extended;
            auto evals = eigs->eigenvalues();
            auto evecs = eigs->eigenvectors();
            // (a) counts
            VF_CHECK(ret == (long) evals.size() && ret == (long) evecs.cols() && evecs.rows() == n, "counts",
                     "compute() returned " << ret << ", eigenvalues().size()=" << evals.size() << ", eigenvectors() is " << evecs.rows() << "x" << evecs.cols());
            VF_CHECK(ret >= 0 && ret <= nev, "count_range", "compute() returned " << ret << " with nev=" << nev);
            // (b) status
            CompInfo info = eigs->info();
            VF_CHECK((info == CompInfo::Successful) == (ret == nev), "status", "info()=" << vf::info_name(info) << " but " << ret << " of " << nev << " pairs returned");
            VF_CHECK(info == CompInfo::Successful || info == CompInfo::NotConverging, "status", "info()=" << vf::info_name(info) << " after compute()");
            // accessors are pure
            VF_CHECK(vf::bits_equal(evals, eigs->eigenvalues()) && vf::bits_equal(evecs, eigs->eigenvectors()), "accessor_not_pure", "two consecutive accessor calls differ");
            // (d) eigenvectors(m)
            for (Index m = 0; m <= nev + 2; m++)
            {
                auto part = eigs->eigenvectors(m);
                Index want = std::min<Index>(m, ret);
                VF_CHECK(part.cols() == want && part.rows() == n, "eigenvectors_m", "eigenvectors(" << m << ") is " << part.rows() << "x" << part.cols() << ", expected " << want << " columns");
                // (the product V*Y is evaluated with a different number of columns, so the two results may differ in the last bits)
                if (want > 0)
                {
                    ld diff = vf::maxabs(vf::widen(part) - vf::widen(evecs.leftCols(want)));
                    VF_CHECK(diff <= 8 * (ld) n * EPS, "eigenvectors_m", "eigenvectors(" << m << ") differs from the first " << want << " columns of eigenvectors() by " << vf::num(diff));
                }
            }
            // (e) ordering
            CVecL th = vf::widen(evals);
            VF_CHECK(vf::all_finite(th), "nonfinite", "NaN/Inf eigenvalue");
            for (Index i = 0; i + 1 < ret; i++)
                // ties to within rounding of the key (evaluated by the library in working precision) may come in either order
                VF_CHECK(sort_key(sort, th[i]) <= sort_key(sort, th[i + 1]) + 4 * EPS * (std::abs(th[i]) + std::abs(th[i + 1])), "ordering", "values " << th[i] << ", " << th[i + 1] << " at positions " << i << "," << i + 1 << " are not in " << vf::ALL_RULE_NAMES[sort] << " order");
            // (f) pairing: the Rayleigh quotient of x_i through the iterated operator is nu(lambda_i) (true for every Ritz pair)
            if (ret > 0)
            {
                CMatL X = vf::widen(evecs);
                const ld rfac = (ld) (1 + probe.compressed_since_init);
                for (Index i = 0; i < ret; i++)
                {
                    cld rq = (X.col(i).adjoint() * (P.OP * X.col(i)))(0, 0) / (X.col(i).adjoint() * X.col(i))(0, 0);
                    cld nu = vf::nu_of_lambda(P, th[i]);
                    if (family == vf::FAM_GENCPLX)
                    {
                        // lambda(nu) = Re sigma + (1 +- sqrt(1 - 4 nu^2 (Im sigma)^2)) / (2 nu) has a branch point where the discriminant vanishes;
                        // near it (and beyond it, for a Ritz value that overshoots) nu(lambda) cannot be compared at rounding level
                        ld disc = 1 - 4 * std::norm(rq) * P.sigma.imag() * P.sigma.imag();
                        if (disc < (ld) 0.05)
                        {
                            c.cls("pairing_undecidable_near_branch_point");
                            continue;
                        }
                    }
                    ld err = std::abs(rq - nu);
                    ld bound = CTOL * (ld) n * EPS * rfac * opfac * P.normOP;
                    // the map lambda -> nu is applied to a value carrying rounding errors of its own
                    if (vf::family_has_shift(family))
                        bound += CTOL * EPS * std::abs(nu) * std::max((ld) 1, std::abs(nu) * (std::abs(th[i]) + std::abs(P.sigma)));
                    VF_CHECK(err <= bound, "pairing", "Rayleigh quotient of vector " << i << " through the iterated operator is " << rq << " but its eigenvalue " << th[i] << " corresponds to " << nu << " (|diff| " << vf::num(err) << " > " << vf::num(bound) << ")");
                    vf::report().stat("pairing error/bound", (double) (err / bound));
                }
            }
            // (g) operation count
            long expected_ops = op.calls - calls_at_init - (family == vf::FAM_GENCPLX ? probe_calls : 0);
            c.feat["probe_calls"] = (double) probe_calls;
            VF_CHECK((long) eigs->num_operations() == expected_ops || family == vf::FAM_GENCPLX, "num_operations",
                     "num_operations()=" << eigs->num_operations() << " but the operator was applied " << expected_ops << " times since init()");
            // (h) restarts and iterations
            VF_CHECK(probe.compressed <= maxit, "restart_bound", probe.compressed << " implicit restarts performed with maxit=" << maxit);
            VF_CHECK((long) eigs->num_iterations() <= niter_budget && (long) eigs->num_iterations() >= 1, "num_iterations", "num_iterations()=" << eigs->num_iterations() << " with sum(maxit+1)=" << niter_budget);
            if (ret > 0 && ret < nev)
                c.cls("partial_convergence");
            if (ret == 0)
                c.cls("nothing_converged");
            if (maxit <= 1)
                c.cls("maxit<=1");
            if ((ret > 0 && ret < nev) || maxit <= 1)
                c.nontrivial = true;
            return probe_calls;
        };
        try
        {
            do_init();
            int nops = (int) d.range("history_len", 1, 4);
            long probe_total = 0;  // complex shift: probe solves since the last init
            for (int k = 0; k < nops; k++)
            {
                int what = (k == nops - 1) ? 1 : (int) d.range("op", 0, 2);
                if (what == 0)
                {
                    do_init();
                    probe_total = 0;
                }
                else if (what == 1)
                {
                    probe_total += do_compute();
                    if (family == vf::FAM_GENCPLX)
                    {
                        long expected = op.calls - calls_at_init - probe_total;
                        VF_CHECK((long) eigs->num_operations() == expected, "num_operations",
                                 "num_operations()=" << eigs->num_operations() << " but the iteration applied the operator " << expected << " times since init() (" << probe_total << " root-selection probes excluded)");
                    }
                }
                else if (computed)
                {
                    // accessor calls between computes must not change anything
                    auto a1 = eigs->eigenvalues();
                    auto x1 = eigs->eigenvectors((Index) d.range("nvec", 0, nev + 2));
                    auto a2 = eigs->eigenvalues();
                    VF_CHECK(vf::bits_equal(a1, a2), "accessor_not_pure", "eigenvalues() changed after an eigenvectors(m) call");
                    hist << "accessors ";
                    c.nontrivial = true;
                    c.cls("accessor_between_computes");
                }
            }
        }
        catch (const std::runtime_error& e)
        {
            c.rejected = true;
            c.cls(std::string("runtime_error: ") + e.what());
        }
        c.add_desc(hist.str());
    });
}

int main(int argc, char** argv)
{
    return vf::run_main(argc, argv, "C05", run_case);
}
