// vf/gen.hpp - deterministic content expansion and matrix recipes built from Draw.
// Matrix *content* for the larger classes is a pure function of drawn integers: a drawn 16-bit
// seed expanded by the fixed LCG below (so a tape replays bit-identically everywhere).
#pragma once
#include "draw.hpp"
#include "oracle.hpp"
#include <Eigen/QR>
#include <vector>

namespace vf {

struct Lcg
{
    uint64_t s;
    explicit Lcg(uint64_t seed) :
        s(seed * 6364136223846793005ULL + 1442695040888963407ULL)
    {
        next();
        next();
    }
    uint64_t next()
    {
        s = s * 6364136223846793005ULL + 1442695040888963407ULL;
        return s >> 11;
    }
    // uniform in (-1, 1), 32 significant bits (exactly representable in float after rounding once)
    ld u() { return (ld) ((long) (next() & 0xFFFFFFFFULL) - 2147483648L) / (ld) 2147483648.0L; }
    // dyadic rational k/64 in [-2, 2]
    ld dy() { return (ld) ((long) (next() % 257) - 128) / 64; }
    long below(long k) { return (long) (next() % (uint64_t) k); }
};

// Random orthogonal (real) or unitary (complex) matrix in long double from an LCG (Householder QR of a random matrix)
inline MatL random_orthogonal(Eigen::Index n, Lcg& g)
{
    MatL A(n, n);
    for (Eigen::Index j = 0; j < n; j++)
        for (Eigen::Index i = 0; i < n; i++)
            A(i, j) = g.u();
    Eigen::HouseholderQR<MatL> qr(A);
    MatL Q = qr.householderQ();
    return Q;
}
inline CMatL random_unitary(Eigen::Index n, Lcg& g)
{
    CMatL A(n, n);
    for (Eigen::Index j = 0; j < n; j++)
        for (Eigen::Index i = 0; i < n; i++)
            A(i, j) = cld(g.u(), g.u());
    Eigen::HouseholderQR<CMatL> qr(A);
    CMatL Q = qr.householderQ();
    return Q;
}

// A = Q diag(ev) Q^T, symmetrised exactly
inline MatL sym_from_spectrum(const VecL& ev, const MatL& Q)
{
    MatL A = Q * ev.asDiagonal() * Q.transpose();
    MatL S = (A + A.transpose()) / 2;
    return S;
}
inline CMatL herm_from_spectrum(const VecL& ev, const CMatL& Q)
{
    CMatL D = CMatL::Zero(ev.size(), ev.size());
    for (Eigen::Index i = 0; i < ev.size(); i++)
        D(i, i) = ev[i];
    CMatL A = Q * D * Q.adjoint();
    CMatL S = (A + A.adjoint()) / cld(2);
    for (Eigen::Index i = 0; i < ev.size(); i++)
        S(i, i) = cld(S(i, i).real(), 0);
    return S;
}

}  // namespace vf
