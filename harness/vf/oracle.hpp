// vf/oracle.hpp - reference arithmetic in long double, independent of Spectra.
#pragma once
#include <Eigen/Core>
#include <Eigen/Dense>
#include <complex>
#include <limits>
#include <cmath>
#include <string>
#include <sstream>
#include <cstring>

namespace vf {

typedef long double ld;
typedef Eigen::Index Index;
typedef std::complex<long double> cld;
typedef Eigen::Matrix<ld, Eigen::Dynamic, Eigen::Dynamic> MatL;
typedef Eigen::Matrix<ld, Eigen::Dynamic, 1> VecL;
typedef Eigen::Matrix<cld, Eigen::Dynamic, Eigen::Dynamic> CMatL;
typedef Eigen::Matrix<cld, Eigen::Dynamic, 1> CVecL;

template <typename S>
struct Sc
{
    typedef typename Eigen::NumTraits<S>::Real Real;
    static constexpr bool is_complex = Eigen::NumTraits<S>::IsComplex;
    static ld eps() { return (ld) std::numeric_limits<Real>::epsilon(); }
    static const char* name();
};
template <> inline const char* Sc<float>::name() { return "float"; }
template <> inline const char* Sc<double>::name() { return "double"; }
template <> inline const char* Sc<long double>::name() { return "long double"; }
template <> inline const char* Sc<std::complex<float>>::name() { return "complex<float>"; }
template <> inline const char* Sc<std::complex<double>>::name() { return "complex<double>"; }
template <> inline const char* Sc<std::complex<long double>>::name() { return "complex<long double>"; }

// widen any real/complex Eigen expression to complex long double
template <typename Derived>
inline CMatL widen(const Eigen::MatrixBase<Derived>& m)
{
    CMatL r(m.rows(), m.cols());
    for (Eigen::Index j = 0; j < m.cols(); j++)
        for (Eigen::Index i = 0; i < m.rows(); i++)
            r(i, j) = cld((ld) std::real(m(i, j)), (ld) std::imag(m(i, j)));
    return r;
}
template <typename Derived>
inline MatL widen_real(const Eigen::MatrixBase<Derived>& m)
{
    MatL r(m.rows(), m.cols());
    for (Eigen::Index j = 0; j < m.cols(); j++)
        for (Eigen::Index i = 0; i < m.rows(); i++)
            r(i, j) = (ld) m(i, j);
    return r;
}
// narrow a long double matrix to the scalar type under test (real or complex target)
template <typename S>
struct Narrow
{
    static Eigen::Matrix<S, Eigen::Dynamic, Eigen::Dynamic> mat(const CMatL& m)
    {
        Eigen::Matrix<S, Eigen::Dynamic, Eigen::Dynamic> r(m.rows(), m.cols());
        for (Eigen::Index j = 0; j < m.cols(); j++)
            for (Eigen::Index i = 0; i < m.rows(); i++)
                r(i, j) = conv(m(i, j), (S*) nullptr);
        return r;
    }
    template <typename T>
    static T conv(const cld& x, T*) { return (T) x.real(); }
    template <typename T>
    static std::complex<T> conv(const cld& x, std::complex<T>*) { return std::complex<T>((T) x.real(), (T) x.imag()); }
};

template <typename Derived>
inline ld fro(const Eigen::MatrixBase<Derived>& m)
{
    ld s = 0;
    for (Eigen::Index j = 0; j < m.cols(); j++)
        for (Eigen::Index i = 0; i < m.rows(); i++)
        {
            ld a = (ld) std::abs(m(i, j));
            s += a * a;
        }
    return std::sqrt(s);
}
// Frobenius norm robust to huge/tiny entries (scaled)
template <typename Derived>
inline ld fro_scaled(const Eigen::MatrixBase<Derived>& m)
{
    ld mx = 0;
    for (Eigen::Index j = 0; j < m.cols(); j++)
        for (Eigen::Index i = 0; i < m.rows(); i++)
            mx = std::max(mx, (ld) std::abs(m(i, j)));
    if (mx == 0 || !std::isfinite((double) mx))
        return mx;
    ld s = 0;
    for (Eigen::Index j = 0; j < m.cols(); j++)
        for (Eigen::Index i = 0; i < m.rows(); i++)
        {
            ld a = (ld) std::abs(m(i, j)) / mx;
            s += a * a;
        }
    return mx * std::sqrt(s);
}
template <typename Derived>
inline ld maxabs(const Eigen::MatrixBase<Derived>& m)
{
    ld mx = 0;
    for (Eigen::Index j = 0; j < m.cols(); j++)
        for (Eigen::Index i = 0; i < m.rows(); i++)
        {
            ld a = (ld) std::abs(m(i, j));
            if (!(a <= mx))  // also catches NaN
                mx = a;
        }
    return mx;
}
template <typename Derived>
inline bool all_finite(const Eigen::MatrixBase<Derived>& m)
{
    for (Eigen::Index j = 0; j < m.cols(); j++)
        for (Eigen::Index i = 0; i < m.rows(); i++)
            if (!std::isfinite((double) std::real(m(i, j))) || !std::isfinite((double) std::imag(m(i, j))))
                return false;
    return true;
}

// bitwise equality of two Eigen objects of the same scalar type (values; long double padding ignored)
template <typename A, typename B>
inline bool bits_equal(const Eigen::MatrixBase<A>& a, const Eigen::MatrixBase<B>& b)
{
    if (a.rows() != b.rows() || a.cols() != b.cols())
        return false;
    for (Eigen::Index j = 0; j < a.cols(); j++)
        for (Eigen::Index i = 0; i < a.rows(); i++)
        {
            auto x = a(i, j);
            auto y = b(i, j);
            ld xr = (ld) std::real(x), yr = (ld) std::real(y), xi = (ld) std::imag(x), yi = (ld) std::imag(y);
            bool same_r = (xr == yr && std::signbit(xr) == std::signbit(yr)) || (std::isnan(xr) && std::isnan(yr));
            bool same_i = (xi == yi && std::signbit(xi) == std::signbit(yi)) || (std::isnan(xi) && std::isnan(yi));
            if (!same_r || !same_i)
                return false;
        }
    return true;
}

template <typename T>
inline std::string num(T x)
{
    std::ostringstream os;
    os.precision(6);
    os << (double) x;
    return os.str();
}

template <typename Derived>
inline std::string show(const Eigen::MatrixBase<Derived>& m, int maxn = 6)
{
    std::ostringstream os;
    os.precision(17);
    os << "[";
    for (Eigen::Index i = 0; i < m.rows() && i < maxn; i++)
    {
        os << (i ? ";" : "");
        for (Eigen::Index j = 0; j < m.cols() && j < maxn; j++)
            os << (j ? "," : "") << m(i, j);
    }
    if (m.rows() > maxn || m.cols() > maxn)
        os << ";...";
    os << "]";
    return os.str();
}

}  // namespace vf
