// vf/faccheck.hpp - C07 oracle: checks the Krylov factorization invariant on a view handed over by the
// guarded H1 observer (or assembled by a direct-drive harness). All arithmetic in long double.
#pragma once
#include "oracle.hpp"
#include "report.hpp"
#include <Spectra/Util/VerifHooks.h>

namespace vf {

struct FacOracle
{
    // the operator the factorization iterates with, and the inner-product matrix (identity if empty)
    CMatL OP;
    CMatL B;       // empty => identity
    ld normOP = 0; // Frobenius norm of OP
    ld kappaB = 1;      // multiplies the orthogonality bounds
    ld kappaB_true = 1; // cond(B): the advertised ||f||_B is a quadratic form evaluated in working precision
    CMatL Lt;           // upper Cholesky factor of B (B = Lt^H Lt): ||x||_B = ||Lt x||_2; empty => identity
    ld eps = 0;
    ld tiny = 0;        // sqrt(smallest normal number) of the scalar type: below it a computed norm underflows
    bool lanczos = false;
    ld ctol = 64;
    ld op_err_factor = 1;  // condition number of the linear system the user's operator solves in working precision (1 for plain products)
    long restarts = 0;       // EvCompressed events so far (since the last EvInit)
    long fail_restarts = 0;  // restarts at the time of the first violation
    ld min_pos_beta = std::numeric_limits<ld>::infinity();  // smallest positive ||f|| advertised at any event so far
    long checks = 0;
    // running maxima in units of (1+r) n eps ||OP|| etc. (calibration record)
    ld worst_fac = 0, worst_orth = 0, worst_vf = 0, worst_hess = 0;
    // first violation (the observer cannot throw through library frames safely in all builds, so it records)
    bool failed = false;
    std::string fail_kind, fail_detail;
    // last event log for diagnostics
    std::string trail;

    // installs the inner-product matrix and rescales the operator norm to the induced B-norm
    void set_B(const CMatL& Bm, ld kappa)
    {
        B = Bm;
        kappaB_true = kappa;
        Eigen::LLT<CMatL> llt(Bm);
        Lt = llt.matrixU();
    }
    // Frobenius norm of OP in the B inner product: ||Lt OP Lt^{-1}||_F
    void set_norm_from_OP()
    {
        if (Lt.size())
        {
            CMatL Li = Lt.inverse();
            normOP = fro_scaled(CMatL(Lt * OP * Li));
        }
        else
            normOP = fro_scaled(OP);
    }
    void fail(const std::string& kind, const std::string& detail)
    {
        if (!failed)
        {
            failed = true;
            fail_restarts = restarts;
            fail_kind = kind;
            fail_detail = detail + " | events: " + trail;
        }
    }

    template <typename S>
    void check(const Spectra::verif::FacView& v, const char* evname)
    {
        typedef Eigen::Matrix<S, Eigen::Dynamic, Eigen::Dynamic> Mat;
        typedef Eigen::Matrix<S, Eigen::Dynamic, 1> Vec;
        const Index n = v.n, m = v.m, k = v.k;
        Eigen::Map<const Mat> Vs((const S*) v.V, n, m);
        Eigen::Map<const Mat> Hs((const S*) v.H, m, m);
        Eigen::Map<const Vec> fs((const S*) v.f, n);
        if (k < 1 || k > m)
        {
            fail("dimension", std::string(evname) + ": advertised dimension k=" + std::to_string(k) + " outside [1," + std::to_string(m) + "]");
            return;
        }
        CMatL V = widen(Vs.leftCols(k));
        CMatL H = widen(Hs.topLeftCorner(k, k));
        CVecL f = widen(fs);
        if (!all_finite(V) || !all_finite(H) || !all_finite(f))
        {
            fail("nonfinite", std::string(evname) + ": NaN/Inf in V, H or f at k=" + std::to_string(k));
            return;
        }
        checks++;
        const ld rfac = (ld) (1 + restarts);
        const ld unit = rfac * (ld) n * eps;
        // A V = V H + f e_k'
        CMatL R = OP * V - V * H;
        R.col(k - 1) -= f;
        // measured in the norm of the inner product (the basis is B-orthonormal, so its 2-norm can be sqrt(cond(B)))
        ld rf = Lt.size() ? fro(CMatL(Lt * R)) : fro(R);
        const ld facmul = std::max(op_err_factor, kappaB);
        if (normOP > 0)
            worst_fac = std::max(worst_fac, rf / (unit * normOP * facmul));
        if (rf > ctol * facmul * unit * normOP)
            fail("factorization", std::string(evname) + ": ||OP V - V H - f e_k'||_F = " + num(rf) + " > " + num(ctol * facmul * unit * normOP) + " at k=" + std::to_string(k) + " (restarts=" + std::to_string(restarts) + ", ||OP||=" + num(normOP) + ")");
        // V^H B V = I, V^H B f = 0
        CMatL BV = B.size() ? CMatL(B * V) : V;
        CVecL Bf = B.size() ? CVecL(B * f) : f;
        ld orth = maxabs(V.adjoint() * BV - CMatL::Identity(k, k));
        worst_orth = std::max(worst_orth, orth / (unit * kappaB));
        if (std::getenv("VF_DEBUG"))
            std::fprintf(stderr, "  %-22s k=%ld r=%ld fac=%.3Lg orth=%.3Lg (%.1Lf n eps) beta=%.3Lg\n", evname, (long) k, restarts, rf, orth, orth / ((ld) n * eps), v.beta);
        if (orth > ctol * unit * kappaB)
            fail("orthonormality", std::string(evname) + ": max|V^H B V - I| = " + num(orth) + " > " + num(ctol * unit * kappaB) + " at k=" + std::to_string(k) + " (restarts=" + std::to_string(restarts) + ")");
        ld vf_err = maxabs(V.adjoint() * Bf);
        if (normOP > 0)
            worst_vf = std::max(worst_vf, vf_err / (unit * kappaB * normOP));
        if (vf_err > ctol * unit * kappaB * normOP)
            fail("residual_orthogonality", std::string(evname) + ": max|V^H B f| = " + num(vf_err) + " > " + num(ctol * unit * kappaB * normOP) + " at k=" + std::to_string(k) + " ||f||=" + num(f.norm()));
        // structure of H
        ld below = 0;
        for (Index j = 0; j < k; j++)
            for (Index i = j + 2; i < k; i++)
                below = std::max(below, (ld) std::abs(H(i, j)));
        if (lanczos)
        {
            for (Index j = 0; j < k; j++)
                for (Index i = 0; i + 2 <= j; i++)
                    below = std::max(below, (ld) std::abs(H(i, j)));
            ld asym = 0, imag = 0;
            for (Index i = 0; i + 1 < k; i++)
                asym = std::max(asym, (ld) std::abs(H(i + 1, i) - std::conj(H(i, i + 1))));
            for (Index j = 0; j < k; j++)
                for (Index i = 0; i < k; i++)
                    imag = std::max(imag, std::abs(H(i, j).imag()));
            if (asym > ctol * unit * normOP || imag > ctol * unit * normOP)
                fail("lanczos_symmetry", std::string(evname) + ": H not real symmetric: asym=" + num(asym) + " imag=" + num(imag));
        }
        if (normOP > 0)
            worst_hess = std::max(worst_hess, below / ((ld) n * eps * normOP));
        if (below > ctol * (ld) n * eps * normOP)
            fail("hessenberg_shape", std::string(evname) + ": H has entry " + num(below) + " outside the " + (lanczos ? "tridiagonal" : "Hessenberg") + " band at k=" + std::to_string(k));
        // advertised beta = B-norm of f
        ld bnorm = std::sqrt(std::abs((f.adjoint() * Bf)(0, 0)));
        if (std::abs((ld) v.beta - bnorm) > 8 * (ld) n * eps * std::max(bnorm, (ld) v.beta) * kappaB_true + tiny * std::sqrt((ld) n))
            fail("f_norm", std::string(evname) + ": advertised ||f|| = " + num(v.beta) + " but B-norm of f is " + num(bnorm));
    }

    template <typename S>
    void on_event(const Spectra::verif::FacView& v)
    {
        using namespace Spectra::verif;
        char buf[96];
        std::snprintf(buf, sizeof buf, "%d(k=%ld,i=%ld,b=%.3Lg) ", v.event, v.k, v.i, v.beta);
        trail += buf;
        if (v.beta > 0 && (v.event == EvInit || v.event == EvExtended || v.event == EvCompressed || (v.event == EvExpandBasis && v.aux > 0)))
            min_pos_beta = std::min(min_pos_beta, (ld) v.beta);
        if (trail.size() > 400)
            trail = "... " + trail.substr(trail.size() - 300);
        switch (v.event)
        {
            case EvInit:
                restarts = 0;
                check<S>(v, "after init");
                break;
            case EvExtended:
                check<S>(v, "after extension");
                break;
            case EvCompressed:
                restarts++;
                check<S>(v, "after implicit restart");
                break;
            case EvExpandBasis:
            case EvForcedZero:
                if (std::getenv("VF_DEBUG"))
                {
                    typedef Eigen::Matrix<S, Eigen::Dynamic, Eigen::Dynamic> Mat;
                    typedef Eigen::Matrix<S, Eigen::Dynamic, 1> Vec;
                    Eigen::Map<const Mat> Vs((const S*) v.V, v.n, v.m);
                    Eigen::Map<const Vec> fs((const S*) v.f, v.n);
                    Index cols = v.event == EvExpandBasis ? v.i : v.i + 1;
                    CMatL V = widen(Vs.leftCols(cols));
                    CVecL f = widen(fs);
                    ld o = maxabs(V.adjoint() * V - CMatL::Identity(cols, cols));
                    ld vf_ = maxabs(V.adjoint() * f);
                    std::fprintf(stderr, "  event %d cols=%ld |V'V-I|=%.3Lg |V'f|=%.3Lg |f|=%.3Lg beta=%.3Lg aux=%.3Lg\n", v.event, (long) cols, o, vf_, f.norm(), v.beta, v.aux);
                }
                break;
            default:
                break;
        }
    }
};

template <typename S>
inline void fac_oracle_cb(void* ctx, const Spectra::verif::FacView& v)
{
    static_cast<FacOracle*>(ctx)->template on_event<S>(v);
}

template <typename S>
struct ObserveFac
{
    Spectra::verif::ObserverSlot saved;
    explicit ObserveFac(FacOracle* o)
    {
        saved = Spectra::verif::observer_slot();
        Spectra::verif::observer_slot().fn = &fac_oracle_cb<S>;
        Spectra::verif::observer_slot().ctx = o;
    }
    ~ObserveFac() { Spectra::verif::observer_slot() = saved; }
};

}  // namespace vf
