// vf/families.hpp - one dispatcher over the six Krylov solver classes with counting user-functor operators,
// used by the bookkeeping (C05), purity (C06), fault-injection (C14) and threading (C20) harnesses.
// All in one real scalar type `Real` defined by the including TU (VF_REAL).
#pragma once
#include "solverkit.hpp"
#include <Eigen/LU>
#include <Spectra/SymEigsSolver.h>
#include <Spectra/HermEigsSolver.h>
#include <Spectra/SymEigsShiftSolver.h>
#include <Spectra/GenEigsSolver.h>
#include <Spectra/GenEigsRealShiftSolver.h>
#include <Spectra/GenEigsComplexShiftSolver.h>
#include <memory>

namespace vf {

enum Family
{
    FAM_SYM = 0,
    FAM_HERM = 1,
    FAM_SYMSHIFT = 2,
    FAM_GEN = 3,
    FAM_GENREAL = 4,
    FAM_GENCPLX = 5
};
static const char* const FAMILY_NAMES[6] = {"SymEigsSolver", "HermEigsSolver", "SymEigsShiftSolver", "GenEigsSolver", "GenEigsRealShiftSolver", "GenEigsComplexShiftSolver"};
inline bool family_is_general(int f) { return f >= 3; }
inline bool family_has_shift(int f) { return f == 2 || f == 4 || f == 5; }

// Common bookkeeping of the counting operators
struct WorkBoundExceeded
{
    long calls;
};
struct OpCounters
{
    mutable long calls = 0;
    mutable long fault_at = -1;
    mutable long fault_nonce = 0;
    mutable int fault_kind = 0;      // dynamic type of the injected exception (see InjectedFault)
    mutable long set_shift_calls = 0;
    mutable long call_limit = -1;    // throw WorkBoundExceeded beyond this many applications (C13)
    mutable long bad_pointers = 0;   // null / overlapping operand pointers seen
    mutable bool nan_operand_seen = false;
    void on_call() const
    {
        calls++;
        if (fault_at > 0 && calls == fault_at)
            throw_injected_fault(fault_nonce, fault_kind);
        if (call_limit >= 0 && calls > call_limit)
            throw WorkBoundExceeded{calls};
    }
    // the operands must be valid, distinct, length-n ranges; every element is read so that sanitizers validate the ranges
    template <typename S>
    void check_operands(const S* x_in, S* y_out, Index n) const
    {
        if (!x_in || !y_out || (x_in < y_out + n && y_out < x_in + n))
            bad_pointers++;
        else
            for (Index i = 0; i < n; i++)
            {
                if (!std::isfinite((double) std::abs(x_in[i])))
                    nan_operand_seen = true;
                y_out[i] = S(0);
            }
    }
};

// real shift-and-invert functor: y = (M - sigma I)^{-1} x through a dense LU in the scalar type
template <typename S>
class ShiftFunctor : public OpCounters
{
public:
    using Scalar = S;
    typedef Eigen::Matrix<S, Eigen::Dynamic, Eigen::Dynamic> Mat;
    typedef Eigen::Matrix<S, Eigen::Dynamic, 1> Vec;
    Mat M;
    Eigen::PartialPivLU<Mat> lu;
    explicit ShiftFunctor(const Mat& m) :
        M(m) {}
    Index rows() const { return M.rows(); }
    Index cols() const { return M.cols(); }
    void set_shift(const S& sigma)
    {
        set_shift_calls++;
        Mat T = M;
        T.diagonal().array() -= sigma;
        lu.compute(T);
    }
    void perform_op(const S* x_in, S* y_out) const
    {
        on_call();
        check_operands(x_in, y_out, M.cols());
        Eigen::Map<const Vec> x(x_in, M.cols());
        Eigen::Map<Vec> y(y_out, M.rows());
        y = lu.solve(x);
    }
};
// complex shift functor: y = Re[(M - sigma I)^{-1} x]
template <typename S>
class ComplexShiftFunctor : public OpCounters
{
public:
    using Scalar = S;
    typedef std::complex<S> C;
    typedef Eigen::Matrix<S, Eigen::Dynamic, Eigen::Dynamic> Mat;
    typedef Eigen::Matrix<C, Eigen::Dynamic, Eigen::Dynamic> CMat;
    typedef Eigen::Matrix<S, Eigen::Dynamic, 1> Vec;
    typedef Eigen::Matrix<C, Eigen::Dynamic, 1> CVec;
    Mat M;
    Eigen::PartialPivLU<CMat> lu;
    S cur_sigmar = 0, cur_sigmai = 0;
    explicit ComplexShiftFunctor(const Mat& m) :
        M(m) {}
    Index rows() const { return M.rows(); }
    Index cols() const { return M.cols(); }
    void set_shift(const S& sigmar, const S& sigmai)
    {
        set_shift_calls++;
        cur_sigmar = sigmar;
        cur_sigmai = sigmai;
        CMat T = M.template cast<C>();
        T.diagonal().array() -= C(sigmar, sigmai);
        lu.compute(T);
    }
    void perform_op(const S* x_in, S* y_out) const
    {
        on_call();
        check_operands(x_in, y_out, M.cols());
        Eigen::Map<const Vec> x(x_in, M.cols());
        Eigen::Map<Vec> y(y_out, M.rows());
        CVec xc = x.template cast<C>();
        CVec yc = lu.solve(xc);
        y = yc.real();
    }
};
// plain product functor with the shared counters
template <typename S>
class ProdFunctor : public OpCounters
{
public:
    using Scalar = S;
    typedef Eigen::Matrix<S, Eigen::Dynamic, Eigen::Dynamic> Mat;
    typedef Eigen::Matrix<S, Eigen::Dynamic, 1> Vec;
    Mat M;
    explicit ProdFunctor(const Mat& m) :
        M(m) {}
    Index rows() const { return M.rows(); }
    Index cols() const { return M.cols(); }
    void perform_op(const S* x_in, S* y_out) const
    {
        on_call();
        check_operands(x_in, y_out, M.cols());
        Eigen::Map<const Vec> x(x_in, M.cols());
        Eigen::Map<Vec> y(y_out, M.rows());
        y.noalias() = M * x;
    }
};

// A generated problem for one family
template <typename Real>
struct Problem
{
    int family = 0;
    Index n = 0, nev = 0, ncv = 0;
    CMatL A;            // user's matrix (complex long double view; real families have zero imaginary parts)
    ld normA = 0;
    ld scale = 1;
    long scale_exp = 0;
    std::string cls;
    cld sigma = 0;      // shift families
    std::vector<cld> ref_ev;
    CMatL OP;           // the iterated operator in long double
    ld normOP = 0;
    bool ok = true;     // false: degenerate (zero matrix, singular shift) -> reject
    std::string desc;
};

// Draws a problem for the family: matrix recipe, (nev, ncv), shift (placed >= 1 % of the spectral radius from every eigenvalue)
template <typename Real>
inline Problem<Real> draw_problem(Draw& d, int family, Index nmax, int extreme_one_in = 0)
{
    typedef std::complex<Real> Cplx;
    Problem<Real> P;
    P.family = family;
    if (family_is_general(family))
    {
        GenRecipe R = make_gen<Real>(d, 3, nmax);
        P.n = R.n;
        P.A = widen(R.A);
        P.scale = R.scale;
        P.scale_exp = R.scale_exp;
        P.cls = R.name;
        Eigen::EigenSolver<MatL> es(MatL(R.A / R.scale), false);
        for (Index i = 0; i < P.n; i++)
            P.ref_ev.push_back(es.eigenvalues()[i] * R.scale);
    }
    else
    {
        HermRecipe R = (family == FAM_HERM) ? make_herm<Cplx>(d, true, 2, nmax) : make_herm<Real>(d, false, 2, nmax);
        P.n = R.n;
        P.A = R.A;
        P.scale = R.scale;
        P.scale_exp = R.scale_exp;
        P.cls = R.name;
        Eigen::SelfAdjointEigenSolver<CMatL> es(CMatL(R.A / cld(R.scale)), Eigen::EigenvaluesOnly);
        for (Index i = 0; i < P.n; i++)
            P.ref_ev.push_back(cld(es.eigenvalues()[i] * R.scale, 0));
    }
    // Extreme scales (plain families only, on request): a matrix that is perfectly representable while the SQUARES of its entries and
    // eigenvalues leave the floating-point range (1e+-150..250 in double / long double, 1e20..1e30 in float). Anything in the library that
    // forms |z|^2, x*x or an unscaled norm on the way to a result turns into 0 / inf / a tie there.
    if (extreme_one_in > 0 && !family_has_shift(family) && d.one_in("extreme_scale", extreme_one_in))
    {
        const bool is_float = std::is_same<Real, float>::value;
        const bool huge = is_float ? true : d.flag("extreme_huge");
        const long e = is_float ? d.range("extreme_exp", 20, 30) : d.range("extreme_exp", 150, 250);
        const ld f = std::pow((ld) 10, (ld) (huge ? e : -e));
        P.A *= cld(f);
        for (cld& l : P.ref_ev)
            l *= f;
        P.scale *= f;
        P.scale_exp += huge ? e : -e;
        P.cls += huge ? "+extreme_huge" : "+extreme_tiny";
    }
    P.normA = fro_scaled(P.A);
    draw_nev_ncv(d, P.n, family_is_general(family), P.nev, P.ncv);
    std::ostringstream os;
    os << FAMILY_NAMES[family] << "<" << Sc<Real>::name() << "> class=" << P.cls << " n=" << P.n << " scale=1e" << P.scale_exp << " nev=" << P.nev << " ncv=" << P.ncv;
    if (P.normA == 0)
    {
        P.ok = false;
        P.desc = os.str() + " zero matrix";
        return P;
    }
    P.OP = P.A;
    if (family_has_shift(family))
    {
        ld rad = 0, lo = std::numeric_limits<ld>::infinity(), hi = -lo;
        for (const cld& l : P.ref_ev)
        {
            rad = std::max(rad, std::abs(l));
            lo = std::min(lo, l.real());
            hi = std::max(hi, l.real());
        }
        std::vector<ld> re;
        for (const cld& l : P.ref_ev)
            re.push_back(l.real());
        std::sort(re.begin(), re.end());
        std::vector<ld> cand;
        cand.push_back(lo - rad / 5);
        cand.push_back(hi + rad / 5);
        for (size_t i = 0; i + 1 < re.size(); i++)
            cand.push_back((re[i] + re[i + 1]) / 2);
        ld sigi = (family == FAM_GENCPLX) ? rad * (ld) d.range("sigma_imag_16th", 1, 16) / 16 : 0;
        std::vector<cld> good;
        for (ld sr : cand)
        {
            cld s(sr, sigi);
            ld dm = std::numeric_limits<ld>::infinity();
            for (const cld& l : P.ref_ev)
            {
                dm = std::min(dm, std::min(std::abs(l - s), std::abs(l - std::conj(s))));
                dm = std::min(dm, std::abs(l - cld(sr, 0)));
                if (sigi > 0)  // branch circle of the complex-shift transformation (see c02_gen.cpp)
                    dm = std::min(dm, std::abs(std::abs(l - cld(sr, 0)) - sigi));
            }
            if (dm >= (ld) 0.01 * rad && sr != 0)
                good.push_back(s);
        }
        if (good.empty())
            good.push_back(cld(hi + rad / 5 + rad, sigi));
        cld sig = good[(size_t) d.range("sigma_pos", 0, (long) good.size() - 1)];
        P.sigma = cld((ld) (Real) sig.real(), (ld) (Real) sig.imag());
        CMatL M = P.A - P.sigma * CMatL::Identity(P.n, P.n);
        Eigen::FullPivLU<CMatL> lu(M);
        if (!lu.isInvertible())
        {
            P.ok = false;
            P.desc = os.str() + " singular shifted matrix";
            return P;
        }
        CMatL Mi = lu.inverse();
        if (family == FAM_GENCPLX)
        {
            CMatL Mc = (P.A - std::conj(P.sigma) * CMatL::Identity(P.n, P.n)).inverse();
            P.OP = (Mi + Mc) / cld(2);
        }
        else
            P.OP = Mi;
        os << " sigma=" << P.sigma;
    }
    P.normOP = fro_scaled(P.OP);
    P.desc = os.str();
    return P;
}

// eigenvalue of the iterated operator that belongs to an eigenvalue lambda of A
template <typename Real>
inline cld nu_of_lambda(const Problem<Real>& P, cld lambda)
{
    switch (P.family)
    {
        case FAM_SYMSHIFT:
        case FAM_GENREAL: return cld(1) / (lambda - P.sigma);
        case FAM_GENCPLX: return (cld(1) / (lambda - P.sigma) + cld(1) / (lambda - std::conj(P.sigma))) / cld(2);
        default: return lambda;
    }
}

// Calls f(op, make_solver, ScalarTag) where `op` is the counting functor operator of the family built on the
// problem's matrix and make_solver() returns a std::unique_ptr to a NEW solver object on that same operator.
template <typename Real, typename F>
inline void with_family(const Problem<Real>& P, F&& f)
{
    typedef std::complex<Real> Cplx;
    typedef Eigen::Matrix<Real, Eigen::Dynamic, Eigen::Dynamic> Mat;
    typedef Eigen::Matrix<Cplx, Eigen::Dynamic, Eigen::Dynamic> CMat;
    const Index nev = P.nev, ncv = P.ncv;
    switch (P.family)
    {
        case FAM_SYM:
        {
            Mat As = Narrow<Real>::mat(P.A);
            ProdFunctor<Real> op(As);
            auto make = [&]() { return std::unique_ptr<Spectra::SymEigsSolver<ProdFunctor<Real>>>(new Spectra::SymEigsSolver<ProdFunctor<Real>>(op, nev, ncv)); };
            f(op, make, Real());
            break;
        }
        case FAM_HERM:
        {
            CMat As = Narrow<Cplx>::mat(P.A);
            ProdFunctor<Cplx> op(As);
            auto make = [&]() { return std::unique_ptr<Spectra::HermEigsSolver<ProdFunctor<Cplx>>>(new Spectra::HermEigsSolver<ProdFunctor<Cplx>>(op, nev, ncv)); };
            f(op, make, Cplx());
            break;
        }
        case FAM_SYMSHIFT:
        {
            Mat As = Narrow<Real>::mat(P.A);
            ShiftFunctor<Real> op(As);
            const Real sigma = (Real) P.sigma.real();
            auto make = [&]() { return std::unique_ptr<Spectra::SymEigsShiftSolver<ShiftFunctor<Real>>>(new Spectra::SymEigsShiftSolver<ShiftFunctor<Real>>(op, nev, ncv, sigma)); };
            f(op, make, Real());
            break;
        }
        case FAM_GEN:
        {
            Mat As = Narrow<Real>::mat(P.A);
            ProdFunctor<Real> op(As);
            auto make = [&]() { return std::unique_ptr<Spectra::GenEigsSolver<ProdFunctor<Real>>>(new Spectra::GenEigsSolver<ProdFunctor<Real>>(op, nev, ncv)); };
            f(op, make, Real());
            break;
        }
        case FAM_GENREAL:
        {
            Mat As = Narrow<Real>::mat(P.A);
            ShiftFunctor<Real> op(As);
            const Real sigma = (Real) P.sigma.real();
            auto make = [&]() { return std::unique_ptr<Spectra::GenEigsRealShiftSolver<ShiftFunctor<Real>>>(new Spectra::GenEigsRealShiftSolver<ShiftFunctor<Real>>(op, nev, ncv, sigma)); };
            f(op, make, Real());
            break;
        }
        default:
        {
            Mat As = Narrow<Real>::mat(P.A);
            ComplexShiftFunctor<Real> op(As);
            const Real sr = (Real) P.sigma.real(), si = (Real) P.sigma.imag();
            auto make = [&]() { return std::unique_ptr<Spectra::GenEigsComplexShiftSolver<ComplexShiftFunctor<Real>>>(new Spectra::GenEigsComplexShiftSolver<ComplexShiftFunctor<Real>>(op, nev, ncv, sr, si)); };
            f(op, make, Real());
            break;
        }
    }
}

// selection / sorting rules the family documents
inline const int* family_rules(int family, int& count)
{
    if (family_is_general(family))
    {
        count = 6;
        return GEN_RULES;
    }
    count = 5;
    return SYM_RULES;
}
inline const int* family_sort_rules(int family, int& count)
{
    if (family_is_general(family))
    {
        count = 6;
        return GEN_RULES;
    }
    count = 4;
    return SYM_SORT_RULES;
}

// A snapshot of everything a compute() exposes, for bitwise comparisons
struct Snapshot
{
    long ret = 0, niter = 0, nops = 0;
    int info = 0;
    CMatL evals, evecs;  // widened exactly (every scalar type embeds in long double)
    bool threw = false;
    std::string what;
};
template <typename Solver>
inline Snapshot take_snapshot(Solver& eigs, long ret)
{
    Snapshot s;
    s.ret = ret;
    s.niter = (long) eigs.num_iterations();
    s.nops = (long) eigs.num_operations();
    s.info = (int) eigs.info();
    s.evals = widen(eigs.eigenvalues());
    s.evecs = widen(eigs.eigenvectors());
    return s;
}
inline std::string snapshot_diff(const Snapshot& a, const Snapshot& b)
{
    if (a.threw != b.threw)
        return "one run threw (" + a.what + b.what + ")";
    if (a.threw)
        return "";
    if (a.ret != b.ret)
        return "return value " + std::to_string(a.ret) + " vs " + std::to_string(b.ret);
    if (a.info != b.info)
        return "info() differs";
    if (a.niter != b.niter)
        return "num_iterations() " + std::to_string(a.niter) + " vs " + std::to_string(b.niter);
    if (a.nops != b.nops)
        return "num_operations() " + std::to_string(a.nops) + " vs " + std::to_string(b.nops);
    if (!bits_equal(a.evals, b.evals))
        return "eigenvalues differ (max |diff| " + num(a.evals.size() == b.evals.size() ? maxabs(a.evals - b.evals) : (ld) -1) + ")";
    if (!bits_equal(a.evecs, b.evecs))
        return "eigenvectors differ (max |diff| " + num((a.evecs.rows() == b.evecs.rows() && a.evecs.cols() == b.evecs.cols()) ? maxabs(a.evecs - b.evecs) : (ld) -1) + ")";
    return "";
}

}  // namespace vf
