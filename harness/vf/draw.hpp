// vf/draw.hpp - the only source of choices inside a generated case.
// A case is a logged sequence of bounded integer choices; three back ends
// (rapidcheck, replay tape, libFuzzer bytes) implement raw().
#pragma once
#include <cstdint>
#include <cstdio>
#include <cmath>
#include <string>
#include <vector>
#include <fstream>
#include <sstream>

namespace vf {

struct Entry
{
    const char* label;
    long lo, hi, v;
};

class Draw
{
public:
    std::vector<Entry> log;
    virtual ~Draw() {}
    // inclusive bounds; scaled = may be narrowed toward lo while the engine's size is small
    virtual long raw(long lo, long hi, bool scaled) = 0;

    long range(const char* label, long lo, long hi)
    {
        if (hi < lo)
            hi = lo;
        long v = raw(lo, hi, false);
        log.push_back({label, lo, hi, v});
        return v;
    }
    // size-scaled draw (dimensions, lengths): small early in a run, shrinks toward lo
    long dim(const char* label, long lo, long hi)
    {
        if (hi < lo)
            hi = lo;
        long v = raw(lo, hi, true);
        log.push_back({label, lo, hi, v});
        return v;
    }
    long pick(const char* label, long k) { return range(label, 0, k - 1); }
    bool flag(const char* label) { return range(label, 0, 1) != 0; }
    // one chance in k
    bool one_in(const char* label, long k) { return range(label, 0, k - 1) == k - 1; }
    // 10^e with e drawn in quarter decades inside [lo, hi]; shrinks toward 10^lo... use mid() for 1
    double pow10(const char* label, int lo, int hi)
    {
        long q = range(label, 4L * lo, 4L * hi);
        return std::pow(10.0, q / 4.0);
    }
    // signed exponent that shrinks toward 0: draw magnitude then sign
    double scale10(const char* label, int maxabs)
    {
        long m = range(label, 0, 2L * maxabs);  // 0, 1->+1, 2->-1, 3->+2 ...
        long e = (m + 1) / 2;
        if (m % 2 == 0)
            e = -e;
        return std::pow(10.0, (double) e);
    }
    long scale10_exp_last() const
    {
        long m = log.back().v;
        long e = (m + 1) / 2;
        return (m % 2 == 0) ? -e : e;
    }

    uint64_t hash() const
    {
        uint64_t h = 1469598103934665603ULL;
        for (const Entry& e : log)
        {
            uint64_t x = (uint64_t) e.v;
            for (int i = 0; i < 8; i++)
            {
                h ^= (x >> (8 * i)) & 0xff;
                h *= 1099511628211ULL;
            }
        }
        return h;
    }
    std::string tape() const
    {
        std::ostringstream os;
        for (const Entry& e : log)
            os << e.label << ' ' << e.lo << ' ' << e.hi << ' ' << e.v << '\n';
        return os.str();
    }
    bool save(const std::string& path, const std::string& header = "") const
    {
        FILE* f = std::fopen(path.c_str(), "w");
        if (!f)
            return false;
        if (!header.empty())
            std::fprintf(f, "# %s\n", header.c_str());
        std::string t = tape();
        std::fwrite(t.data(), 1, t.size(), f);
        std::fclose(f);
        return true;
    }
    // the same file written with raw system calls and a stack buffer only: usable from a signal handler after heap corruption
    bool save_raw(const char* path, int sig) const;
};

} // namespace vf
#include <fcntl.h>
#include <unistd.h>
namespace vf {
inline bool Draw::save_raw(const char* path, int sig) const
{
    int fd = ::open(path, O_WRONLY | O_CREAT | O_TRUNC, 0644);
    if (fd < 0)
        return false;
    char buf[512];
    auto put_long = [](char* p, long v) -> char* {
        char tmp[24];
        int k = 0;
        unsigned long u = v < 0 ? 0UL - (unsigned long) v : (unsigned long) v;
        do
        {
            tmp[k++] = (char) ('0' + u % 10);
            u /= 10;
        } while (u);
        if (v < 0)
            *p++ = '-';
        while (k)
            *p++ = tmp[--k];
        return p;
    };
    {
        const char* h = "# in-flight case at signal ";
        char* p = buf;
        for (const char* q = h; *q; q++)
            *p++ = *q;
        p = put_long(p, sig);
        *p++ = '\n';
        if (::write(fd, buf, (size_t) (p - buf)) < 0)
            return false;
    }
    const Entry* e = log.data();
    const size_t cnt = log.size();
    for (size_t i = 0; i < cnt; i++)
    {
        char* p = buf;
        for (const char* q = e[i].label; q && *q && p < buf + 300; q++)
            *p++ = (*q == ' ' || *q == '\n') ? '_' : *q;
        *p++ = ' ';
        p = put_long(p, e[i].lo);
        *p++ = ' ';
        p = put_long(p, e[i].hi);
        *p++ = ' ';
        p = put_long(p, e[i].v);
        *p++ = '\n';
        if (::write(fd, buf, (size_t) (p - buf)) < 0)
            break;
    }
    ::close(fd);
    return true;
}

// Replays a saved log and bypasses every engine. Entries are positional; a
// value outside the currently requested range (stale tape) falls back to lo.
class TapeDraw : public Draw
{
    std::vector<long> vals;
    size_t pos = 0;

public:
    bool ok = true;
    explicit TapeDraw(const std::string& path)
    {
        std::ifstream in(path);
        if (!in)
        {
            ok = false;
            return;
        }
        std::string line;
        while (std::getline(in, line))
        {
            if (line.empty() || line[0] == '#')
                continue;
            std::istringstream is(line);
            std::string label;
            long lo, hi, v;
            if (is >> label >> lo >> hi >> v)
                vals.push_back(v);
        }
    }
    explicit TapeDraw(const std::vector<long>& v) :
        vals(v) {}
    long raw(long lo, long hi, bool) override
    {
        long v = (pos < vals.size()) ? vals[pos] : lo;
        pos++;
        if (v < lo || v > hi)
            v = lo;
        return v;
    }
};

// libFuzzer back end: structure-aware decode of the fuzzer's bytes. Each choice consumes 1, 2 or 4 bytes depending on
// the width of its range (so that the fuzzer's byte mutations map to single choices); exhausted input yields lo.
class FuzzDraw : public Draw
{
    const uint8_t* p;
    size_t left;

public:
    FuzzDraw(const uint8_t* data, size_t size) :
        p(data), left(size) {}
    long raw(long lo, long hi, bool) override
    {
        if (hi <= lo)
            return lo;
        uint64_t span = (uint64_t)(hi - lo) + 1;
        size_t nb = span <= 256 ? 1 : (span <= 65536 ? 2 : 4);
        uint64_t v = 0;
        for (size_t i = 0; i < nb; i++)
        {
            uint64_t b = left ? *p : 0;
            if (left)
            {
                p++;
                left--;
            }
            v |= b << (8 * i);
        }
        return lo + (long) (v % span);
    }
};

// Deterministic xorshift-based back end: used by exhaustive/strided enumerations
// that still want a logged recipe, and by harness self-tests. Seeded explicitly.
class PrngDraw : public Draw
{
    uint64_t s;

public:
    explicit PrngDraw(uint64_t seed) :
        s(seed * 0x9E3779B97F4A7C15ULL + 0xD1B54A32D192ED03ULL) {}
    uint64_t next()
    {
        s ^= s << 13;
        s ^= s >> 7;
        s ^= s << 17;
        return s;
    }
    long raw(long lo, long hi, bool) override
    {
        uint64_t span = (uint64_t)(hi - lo) + 1;
        return lo + (long) (next() % span);
    }
};

}  // namespace vf
