// vf/report.hpp - per-process counters, class histogram, samples, evidence fragment.
#pragma once
#include <cstdint>
#include <cstdio>
#include <map>
#include <string>
#include <vector>
#include <unordered_set>
#include <sstream>
#include <chrono>
#include <exception>

namespace vf {

// A property violation found by an oracle.
struct Violation : public std::exception
{
    std::string kind;    // short machine-readable kind, e.g. "residual", "eigen_assert"
    std::string detail;  // human readable numbers
    std::string msg;
    Violation(const std::string& k, const std::string& d) :
        kind(k), detail(d), msg(k + ": " + d) {}
    const char* what() const noexcept override { return msg.c_str(); }
};

// Eigen assertion turned into an exception (see eigen_assert.hpp). Deliberately NOT a std::exception
// subclass of the three types Spectra throws, so a harness `catch` of those never swallows it.
struct EigenAssertion
{
    std::string expr;
    std::string where;
};

// Per-case record: classification, features (for known-finding signatures), description.
struct Case
{
    bool nontrivial = false;
    std::vector<std::string> classes;
    std::map<std::string, double> feat;
    std::map<std::string, std::string> sfeat;
    std::string desc;
    bool rejected = false;  // clean rejection / allowed exception: counted, not a violation
    void cls(const std::string& c) { classes.push_back(c); }
    void add_desc(const std::string& s)
    {
        if (!desc.empty())
            desc += "; ";
        desc += s;
    }
    double f(const std::string& k, double dflt = 0) const
    {
        auto it = feat.find(k);
        return it == feat.end() ? dflt : it->second;
    }
    std::string s(const std::string& k) const
    {
        auto it = sfeat.find(k);
        return it == sfeat.end() ? std::string() : it->second;
    }
};

inline std::string json_escape(const std::string& s)
{
    std::string o;
    for (char ch : s)
    {
        unsigned char c = (unsigned char) ch;
        if (c == '"')
            o += "\\\"";
        else if (c == '\\')
            o += "\\\\";
        else if (c == '\n')
            o += "\\n";
        else if (c == '\t')
            o += "\\t";
        else if (c < 0x20)
        {
            char b[8];
            std::snprintf(b, sizeof b, "\\u%04x", c);
            o += b;
        }
        else
            o += ch;
    }
    return o;
}

struct Report
{
    long evaluations = 0;
    long rejected = 0;
    long violations = 0;
    long enumerated_nontrivial = 0;  // distinct by construction (exhaustive layers), not hashed
    std::unordered_set<uint64_t> nontrivial;
    std::unordered_set<uint64_t> all_hashes;
    std::map<std::string, long> classes;
    std::map<std::string, double> stats_max;  // running maxima of observed ratios (calibration record)
    std::vector<std::string> samples;
    std::map<std::string, long> known_hits;
    std::map<std::string, std::string> known_example;
    std::vector<std::string> violation_msgs;
    std::map<std::string, std::string> notes;
    bool exhaustive = false;
    std::chrono::steady_clock::time_point t0 = std::chrono::steady_clock::now();

    void stat(const std::string& k, double v)
    {
        auto it = stats_max.find(k);
        if (it == stats_max.end())
            stats_max[k] = v;
        else if (v > it->second)
            it->second = v;
    }

    // exhaustive layers: every enumerated case is distinct by construction, so no hash is stored
    void account_enumerated(const Case& c)
    {
        evaluations++;
        if (c.rejected)
            rejected++;
        for (const std::string& k : c.classes)
            classes[k]++;
        if (c.nontrivial)
        {
            enumerated_nontrivial++;
            long k = enumerated_nontrivial;
            if (samples.size() < 3 || ((k & (k - 1)) == 0 && samples.size() < 12))
                samples.push_back(c.desc);
        }
    }

    void account(uint64_t h, const Case& c)
    {
        evaluations++;
        all_hashes.insert(h);
        if (c.rejected)
            rejected++;
        for (const std::string& k : c.classes)
            classes[k]++;
        if (c.nontrivial)
        {
            bool fresh = nontrivial.insert(h).second;
            // keep the first 4 and then every case whose ordinal is a power of two (spread over the run)
            size_t k = nontrivial.size();
            if (fresh && (samples.size() < 4 || ((k & (k - 1)) == 0 && samples.size() < 16)))
                samples.push_back(c.desc);
        }
    }

    std::string json(const std::string& prop, long seed) const
    {
        std::ostringstream os;
        double wall = std::chrono::duration<double>(std::chrono::steady_clock::now() - t0).count();
        os << "{\"property_id\":\"" << prop << "\",\"seed\":" << seed << ",\"evaluations\":" << evaluations
           << ",\"distinct\":" << all_hashes.size() << ",\"distinct_nontrivial\":" << (nontrivial.size() + (size_t) enumerated_nontrivial)
           << ",\"enumerated_nontrivial\":" << enumerated_nontrivial << ",\"rejected\":" << rejected << ",\"violations\":" << violations << ",\"exhaustive\":" << (exhaustive ? "true" : "false")
           << ",\"wall_s\":" << wall;
        os << ",\"classes\":{";
        bool first = true;
        for (auto& kv : classes)
        {
            os << (first ? "" : ",") << "\"" << json_escape(kv.first) << "\":" << kv.second;
            first = false;
        }
        os << "},\"stats_max\":{";
        first = true;
        for (auto& kv : stats_max)
        {
            char b[64];
            std::snprintf(b, sizeof b, "%.6g", kv.second);
            std::string v = b;
            if (v.find("inf") != std::string::npos || v.find("nan") != std::string::npos)
                v = "\"" + v + "\"";
            os << (first ? "" : ",") << "\"" << json_escape(kv.first) << "\":" << v;
            first = false;
        }
        os << "},\"known_hits\":{";
        first = true;
        for (auto& kv : known_hits)
        {
            os << (first ? "" : ",") << "\"" << json_escape(kv.first) << "\":" << kv.second;
            first = false;
        }
        os << "},\"known_example\":{";
        first = true;
        for (auto& kv : known_example)
        {
            os << (first ? "" : ",") << "\"" << json_escape(kv.first) << "\":\"" << json_escape(kv.second) << "\"";
            first = false;
        }
        os << "},\"notes\":{";
        first = true;
        for (auto& kv : notes)
        {
            os << (first ? "" : ",") << "\"" << json_escape(kv.first) << "\":\"" << json_escape(kv.second) << "\"";
            first = false;
        }
        os << "},\"samples\":[";
        first = true;
        for (auto& s : samples)
        {
            os << (first ? "" : ",") << "\"" << json_escape(s) << "\"";
            first = false;
        }
        os << "],\"violation_msgs\":[";
        first = true;
        for (auto& s : violation_msgs)
        {
            os << (first ? "" : ",") << "\"" << json_escape(s) << "\"";
            first = false;
        }
        os << "]}";
        return os.str();
    }
};

inline Report& report()
{
    static Report r;
    return r;
}

}  // namespace vf

#define VF_STR2(x) #x
#define VF_STR(x) VF_STR2(x)
// Oracle assertion: kind is a short identifier, the stream expression gives the numbers.
#define VF_CHECK(cond, kind, streamexpr)                        \
    do                                                          \
    {                                                           \
        if (!(cond))                                            \
        {                                                       \
            std::ostringstream vf_os_;                          \
            vf_os_ << streamexpr << " [" #cond "]";             \
            throw ::vf::Violation((kind), vf_os_.str());        \
        }                                                       \
    } while (0)
