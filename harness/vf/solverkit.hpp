// vf/solverkit.hpp - shared pieces of the solver-level harnesses: rule tables, Hermitian recipes with
// known eigen-decomposition, user-functor operators (counting / fault injection / pointer checks),
// and the H1 factorization observer.
#pragma once
#include "gen.hpp"
#include "report.hpp"
#include <stdexcept>
#include <Eigen/Sparse>
#include <Eigen/Eigenvalues>
#include <Spectra/Util/SelectionRule.h>
#include <Spectra/Util/CompInfo.h>
#ifdef YIXUAN_SPECTRA_VERIF
#include <Spectra/Util/VerifHooks.h>
#endif

namespace vf {

using Spectra::SortRule;
typedef Eigen::Index Index;

static const SortRule ALL_RULES[9] = {SortRule::LargestMagn, SortRule::LargestReal, SortRule::LargestImag,
                                      SortRule::LargestAlge, SortRule::SmallestMagn, SortRule::SmallestReal,
                                      SortRule::SmallestImag, SortRule::SmallestAlge, SortRule::BothEnds};
static const char* const ALL_RULE_NAMES[9] = {"LargestMagn", "LargestReal", "LargestImag", "LargestAlge", "SmallestMagn",
                                              "SmallestReal", "SmallestImag", "SmallestAlge", "BothEnds"};
// rules supported by the symmetric family (selection) and by the general family
static const int SYM_RULES[5] = {0, 3, 4, 7, 8};
static const int GEN_RULES[6] = {0, 1, 2, 4, 5, 6};
static const int SYM_SORT_RULES[4] = {0, 3, 4, 7};

inline const char* info_name(Spectra::CompInfo i)
{
    switch (i)
    {
        case Spectra::CompInfo::Successful: return "Successful";
        case Spectra::CompInfo::NotComputed: return "NotComputed";
        case Spectra::CompInfo::NotConverging: return "NotConverging";
        default: return "NumericalIssue";
    }
}

// ---------------------------------------------------------------------------------------------------------
// Hermitian / real symmetric recipe with a known eigen-decomposition A = Q diag(ev) Q^H (before rounding
// to the scalar type). `A` is what the solver is given after rounding (widened back to long double).
struct HermRecipe
{
    Index n = 0;
    int cls = 0;
    ld scale = 1;
    long scale_exp = 0;
    VecL ev;    // prescribed eigenvalues (ascending not guaranteed)
    CMatL Q;    // prescribed eigenvectors (columns)
    CMatL A;    // the matrix in the user's scaling, exactly representable in the scalar type under test
    bool exact_lowrank = false;
    Index rank = 0;
    std::string name;
};
static const char* const HERM_CLASS_NAMES[9] = {"diagonal", "generic", "clustered", "repeated", "graded", "low_rank", "block_diagonal", "tridiag_toeplitz", "identity_plus_rank2"};

// Largest |log10(scale)| generated for a scalar type. Single precision: the solvers take unscaled norms of vectors
// that are at rounding level relative to the matrix (eps^2 * scale), whose squares underflow below scale 1e-5;
// that limit is imposed by the arithmetic, so float matrices are generated with scales 1e-4 .. 1e4 only.
template <typename S>
inline int max_scale_exp()
{
    return std::is_same<typename Eigen::NumTraits<S>::Real, float>::value ? 4 : 8;
}

template <typename S>
inline void round_to_scalar(CMatL& A)
{
    Eigen::Matrix<S, Eigen::Dynamic, Eigen::Dynamic> As = Narrow<S>::mat(A);
    A = widen(As);
}

// complex=false gives a real symmetric matrix (imaginary parts exactly zero)
template <typename S>
inline HermRecipe make_herm(Draw& d, bool complex, Index nmin, Index nmax, int mse = max_scale_exp<S>())
{
    HermRecipe r;
    r.cls = (int) d.range("spectrum_class", 0, 8);
    r.n = (Index) d.dim("n", nmin, nmax);
    const Index n = r.n;
    Lcg g((uint64_t) d.range("content_seed", 0, 65535));
    r.ev = VecL::Zero(n);
    bool use_Q = true;
    switch (r.cls)
    {
        case 0:  // diagonal, small integers / dyadics, ties possible
            for (Index i = 0; i < n; i++)
                r.ev[i] = (ld) d.range("d", -8, 8) / 2;
            use_Q = false;
            break;
        case 1:
            for (Index i = 0; i < n; i++)
                r.ev[i] = g.u();
            break;
        case 2:  // clustered: gaps of 1e-9 inside clusters
        {
            ld base = g.u();
            for (Index i = 0; i < n; i++)
            {
                if (g.below(3) == 0)
                    base = g.u();
                r.ev[i] = base + (ld) 1e-9 * (ld) i;
            }
            break;
        }
        case 3:  // three distinct values
        {
            ld v[3] = {g.u(), g.u(), g.u()};
            for (Index i = 0; i < n; i++)
                r.ev[i] = v[g.below(3)];
            break;
        }
        case 4:  // graded over 12..16 decades
        {
            int dec = 12 + (int) g.below(5);
            for (Index i = 0; i < n; i++)
                r.ev[i] = std::pow((ld) 10, -(ld) dec * (ld) i / (ld) std::max<Index>(n - 1, 1)) * (g.below(4) == 0 ? -1 : 1);
            break;
        }
        case 5:  // exactly low rank: integer vectors supported away from the last two coordinates
            r.exact_lowrank = true;
            r.rank = 1 + g.below(3);
            use_Q = false;
            break;
        case 6:  // block diagonal (two decoupled blocks)
            for (Index i = 0; i < n; i++)
                r.ev[i] = g.u();
            break;
        case 7:  // tridiagonal Toeplitz
            use_Q = false;
            break;
        default:  // identity + rank 2
            for (Index i = 0; i < n; i++)
                r.ev[i] = 1;
            r.ev[0] = 1 + 2 * g.u();
            if (n > 1)
                r.ev[1] = 1 - 3 * g.u();
            break;
    }
    r.Q = CMatL::Identity(n, n);
    if (r.cls == 5)
    {
        CMatL A = CMatL::Zero(n, n);
        Index supp = std::max<Index>(1, n - 2);
        for (Index k = 0; k < r.rank; k++)
        {
            CVecL u = CVecL::Zero(n);
            for (Index i = 0; i < supp; i++)
                u[i] = cld((ld) (g.below(5) - 2), complex ? (ld) (g.below(3) - 1) : 0);
            ld s = (ld) (1 + g.below(3)) * (g.below(3) == 0 ? -1 : 1);
            A += cld(s) * u * u.adjoint();
        }
        r.A = A;
        Eigen::SelfAdjointEigenSolver<CMatL> es(A);
        r.ev = es.eigenvalues();
        r.Q = es.eigenvectors();
    }
    else if (r.cls == 7)
    {
        ld a = (ld) (g.below(9) - 4) / 2, b = (ld) (1 + g.below(4)) / 2;
        CMatL A = CMatL::Zero(n, n);
        for (Index i = 0; i < n; i++)
        {
            A(i, i) = a;
            if (i + 1 < n)
            {
                cld off = complex ? cld(b, b / 2) : cld(b, 0);
                A(i + 1, i) = off;
                A(i, i + 1) = std::conj(off);
            }
        }
        r.A = A;
        Eigen::SelfAdjointEigenSolver<CMatL> es(A);
        r.ev = es.eigenvalues();
        r.Q = es.eigenvectors();
    }
    else
    {
        if (use_Q)
        {
            if (r.cls == 6 && n >= 4)
            {
                Index n1 = 1 + g.below(n - 2);
                if (complex)
                {
                    r.Q = CMatL::Zero(n, n);
                    r.Q.topLeftCorner(n1, n1) = random_unitary(n1, g);
                    r.Q.bottomRightCorner(n - n1, n - n1) = random_unitary(n - n1, g);
                }
                else
                {
                    MatL Qr = MatL::Zero(n, n);
                    Qr.topLeftCorner(n1, n1) = random_orthogonal(n1, g);
                    Qr.bottomRightCorner(n - n1, n - n1) = random_orthogonal(n - n1, g);
                    r.Q = widen(Qr);
                }
            }
            else if (complex)
                r.Q = random_unitary(n, g);
            else
                r.Q = widen(random_orthogonal(n, g));
        }
        r.A = herm_from_spectrum(r.ev, r.Q);
    }
    // overall scale
    d.scale10("scale_exp", mse);
    r.scale_exp = d.scale10_exp_last();
    r.scale = std::pow((ld) 10, (ld) r.scale_exp);
    r.A *= cld(r.scale);
    r.ev *= r.scale;
    round_to_scalar<S>(r.A);
    // keep exact Hermitian symmetry after rounding
    for (Index j = 0; j < n; j++)
    {
        r.A(j, j) = cld(r.A(j, j).real(), 0);
        for (Index i = j + 1; i < n; i++)
            r.A(j, i) = std::conj(r.A(i, j));
    }
    r.name = HERM_CLASS_NAMES[r.cls];
    return r;
}

// ---------------------------------------------------------------------------------------------------------
// General real matrix recipe. For the "prescribed" classes the spectrum (closed under conjugation) and the
// conditioning of the eigenvector basis are known by construction.
struct GenRecipe
{
    Index n = 0;
    int cls = 0;
    ld scale = 1;
    long scale_exp = 0;
    MatL A;                    // in the user's scaling, exactly representable in the scalar type
    bool prescribed = false;   // spectrum known by construction (before rounding)
    std::vector<cld> ev;       // prescribed eigenvalues (user's scaling)
    ld condS = 1;              // condition number of the eigenvector basis (1 for normal matrices)
    std::string name;
};
static const char* const GEN_CLASS_NAMES[11] = {"dense_random", "normal_prescribed", "skew_symmetric", "orthogonal_345", "permutation", "triangular",
                                                "companion", "low_rank", "block_diagonal", "few_distinct_normal", "SDSinv_cond<=100"};

// real block-diagonal D with 1x1 blocks (real eigenvalues) and 2x2 blocks [a b; -b a] (a +- ib)
inline MatL real_block_diag(const std::vector<cld>& ev_half, Index n, std::vector<cld>& ev_out)
{
    MatL D = MatL::Zero(n, n);
    Index i = 0;
    ev_out.clear();
    for (const cld& e : ev_half)
    {
        if (i >= n)
            break;
        if (e.imag() != 0 && i + 1 < n)
        {
            D(i, i) = e.real();
            D(i + 1, i + 1) = e.real();
            D(i, i + 1) = e.imag();
            D(i + 1, i) = -e.imag();
            ev_out.push_back(cld(e.real(), std::abs(e.imag())));
            ev_out.push_back(cld(e.real(), -std::abs(e.imag())));
            i += 2;
        }
        else
        {
            D(i, i) = e.real();
            ev_out.push_back(cld(e.real(), 0));
            i += 1;
        }
    }
    for (; i < n; i++)
    {
        D(i, i) = 0;
        ev_out.push_back(cld(0, 0));
    }
    return D;
}

template <typename S>
inline GenRecipe make_gen(Draw& d, Index nmin, Index nmax)
{
    GenRecipe r;
    r.cls = (int) d.range("matrix_class", 0, 10);
    r.n = (Index) d.dim("n", nmin, nmax);
    const Index n = r.n;
    Lcg g((uint64_t) d.range("content_seed", 0, 65535));
    MatL A = MatL::Zero(n, n);
    auto draw_half_spectrum = [&](bool few, bool separated) {
        // eigenvalue seeds: about a third complex pairs; `separated`: keys |lambda| spaced >= 2 % so the spectrum is simple
        std::vector<cld> h;
        Index used = 0;
        int k = 0;
        ld fewv[3][2] = {{g.u(), g.u()}, {g.u(), 0}, {g.u(), g.u()}};
        while (used < n)
        {
            cld e;
            if (few)
            {
                int j = (int) g.below(3);
                e = cld(fewv[j][0], fewv[j][1]);
            }
            else if (separated)
            {
                ld rad = (ld) 0.3 + (ld) 0.7 * (ld) (k + 1) / (ld) (n + 1);  // distinct moduli
                ld ang = (g.below(3) == 0) ? (ld) (0.3 + 2.4 * (double) (g.below(1000) / 1000.0)) : (g.below(2) ? 0 : (ld) 3.14159265358979323846L);
                e = cld(rad * std::cos(ang), rad * std::sin(ang));
                if (std::abs(e.imag()) < (ld) 1e-3)
                    e = cld(e.real(), 0);
            }
            else
                e = (g.below(3) == 0) ? cld(g.u(), g.u()) : cld(g.u(), 0);
            h.push_back(e);
            used += (e.imag() != 0 && used + 1 < n) ? 2 : 1;
            k += (e.imag() != 0) ? 2 : 1;
        }
        return h;
    };
    switch (r.cls)
    {
        case 0:
            for (Index j = 0; j < n; j++)
                for (Index i = 0; i < n; i++)
                    A(i, j) = g.u();
            break;
        case 1:
        case 9:
        {
            std::vector<cld> h = draw_half_spectrum(r.cls == 9, r.cls == 1);
            MatL D = real_block_diag(h, n, r.ev);
            MatL Q = random_orthogonal(n, g);
            A = Q * D * Q.transpose();
            r.prescribed = true;
            break;
        }
        case 2:
            for (Index j = 0; j < n; j++)
                for (Index i = j + 1; i < n; i++)
                {
                    A(i, j) = g.u();
                    A(j, i) = -A(i, j);
                }
            break;
        case 3:  // orthogonal: product of exact 3-4-5 Givens rotations and signed permutations (all |lambda| = 1)
        {
            A = MatL::Identity(n, n);
            int nrot = 1 + (int) g.below(2 * n);
            for (int k = 0; k < nrot; k++)
            {
                Index p = g.below(n), q = g.below(n);
                if (p == q)
                    continue;
                MatL G = MatL::Identity(n, n);
                ld cs = (ld) 0.6, sn = (ld) 0.8;
                if (g.below(2))
                    std::swap(cs, sn);
                G(p, p) = cs;
                G(q, q) = cs;
                G(p, q) = sn;
                G(q, p) = -sn;
                A = G * A;
            }
            if (g.below(2))
                for (Index i = 0; i < n; i++)
                    if (g.below(3) == 0)
                        A.row(i) *= -1;
            break;
        }
        case 4:
        {
            std::vector<Index> perm(n);
            for (Index i = 0; i < n; i++)
                perm[i] = i;
            for (Index i = n - 1; i > 0; i--)
                std::swap(perm[i], perm[g.below(i + 1)]);
            for (Index i = 0; i < n; i++)
                A(perm[i], i) = (g.below(4) == 0) ? -1 : 1;
            break;
        }
        case 5:
            for (Index j = 0; j < n; j++)
                for (Index i = 0; i <= j; i++)
                    A(i, j) = (i == j) ? (ld) (g.below(9) - 4) / 2 : g.u();
            break;
        case 6:
            for (Index i = 0; i + 1 < n; i++)
                A(i + 1, i) = 1;
            for (Index i = 0; i < n; i++)
                A(i, n - 1) = (ld) (g.below(9) - 4) / 4;
            break;
        case 7:
        {
            Index rk = 1 + g.below(2);
            for (Index k = 0; k < rk; k++)
            {
                VecL u(n), w(n);
                for (Index i = 0; i < n; i++)
                {
                    u[i] = (ld) (g.below(5) - 2);
                    w[i] = (ld) (g.below(5) - 2);
                }
                A += u * w.transpose();
            }
            break;
        }
        case 8:
        {
            Index n1 = (n >= 4) ? 1 + g.below(n - 2) : n;
            for (Index j = 0; j < n; j++)
                for (Index i = 0; i < n; i++)
                    if ((i < n1) == (j < n1))
                        A(i, j) = g.u();
            break;
        }
        default:  // S D S^-1 with cond(S) <= 100
        {
            std::vector<cld> h = draw_half_spectrum(false, true);
            MatL D = real_block_diag(h, n, r.ev);
            MatL Q1 = random_orthogonal(n, g), Q2 = random_orthogonal(n, g);
            ld cs = std::pow((ld) 10, (ld) g.below(9) / 4);  // 1 .. 100
            VecL sv(n);
            for (Index i = 0; i < n; i++)
                sv[i] = std::pow(cs, -(ld) i / (ld) std::max<Index>(n - 1, 1));
            MatL Sm = Q1 * sv.asDiagonal() * Q2.transpose();
            MatL Si = Q2 * sv.cwiseInverse().asDiagonal() * Q1.transpose();
            A = Sm * D * Si;
            r.condS = cs;
            r.prescribed = true;
            break;
        }
    }
    d.scale10("scale_exp", max_scale_exp<S>());
    r.scale_exp = d.scale10_exp_last();
    r.scale = std::pow((ld) 10, (ld) r.scale_exp);
    A *= r.scale;
    for (cld& e : r.ev)
        e *= r.scale;
    Eigen::Matrix<S, Eigen::Dynamic, Eigen::Dynamic> As = A.template cast<S>();
    r.A = As.template cast<ld>();
    r.name = GEN_CLASS_NAMES[r.cls];
    return r;
}

// legal (nev, ncv) for the symmetric family: 1 <= nev <= n-1, nev < ncv <= n ; general family: 1 <= nev <= n-2, nev+2 <= ncv <= n
inline void draw_nev_ncv(Draw& d, Index n, bool general, Index& nev, Index& ncv)
{
    Index nev_max = general ? n - 2 : n - 1;
    nev = (Index) d.dim("nev", 1, std::max<Index>(1, nev_max));
    Index lo = general ? nev + 2 : nev + 1;
    int mode = (int) d.range("ncv_mode", 0, 3);
    if (mode == 0)
        ncv = lo;
    else if (mode == 1)
        ncv = n;
    else if (mode == 2)
        ncv = std::min<Index>(n, std::max<Index>(lo, 2 * nev + 1));
    else
        ncv = (Index) d.range("ncv", lo, n);
}

// ---------------------------------------------------------------------------------------------------------
// User-defined operator (the documented "class with rows(), cols(), perform_op and a Scalar typedef"):
// dense product y = M x in the scalar type, counts applications, optionally throws at the k-th application,
// validates the pointers it is handed.
// The exception a faulting user operator throws. Four dynamic types are used (drawn per case) because a library that
// catches "every std::exception" - or only runtime_error, or rethrows a sliced copy - treats them differently:
//   kind 0: a plain class outside the std::exception hierarchy, 1: derived from std::exception,
//   kind 2: derived from std::runtime_error (what a failing inner solver throws), 3: derived from std::invalid_argument.
// Harnesses catch `const InjectedFault&` (a public base of all four) BEFORE any std:: handler and compare nonce and dynamic_kind().
struct InjectedFault
{
    long nonce;
    int kind;
    explicit InjectedFault(long n = 0, int k = 0) :
        nonce(n), kind(k) {}
    virtual ~InjectedFault() {}
    virtual int dynamic_kind() const { return 0; }
};
struct InjectedFaultStd : public std::exception, public InjectedFault
{
    explicit InjectedFaultStd(long n) :
        InjectedFault(n, 1) {}
    const char* what() const noexcept override { return "injected fault (std::exception)"; }
    int dynamic_kind() const override { return 1; }
};
struct InjectedFaultRuntime : public std::runtime_error, public InjectedFault
{
    explicit InjectedFaultRuntime(long n) :
        std::runtime_error("injected fault (std::runtime_error)"), InjectedFault(n, 2) {}
    int dynamic_kind() const override { return 2; }
};
struct InjectedFaultInvalid : public std::invalid_argument, public InjectedFault
{
    explicit InjectedFaultInvalid(long n) :
        std::invalid_argument("injected fault (std::invalid_argument)"), InjectedFault(n, 3) {}
    int dynamic_kind() const override { return 3; }
};
static const char* const FAULT_KIND_NAMES[4] = {"plain class", "std::exception subclass", "std::runtime_error subclass", "std::invalid_argument subclass"};
[[noreturn]] inline void throw_injected_fault(long nonce, int kind)
{
    switch (kind)
    {
        case 1: throw InjectedFaultStd(nonce);
        case 2: throw InjectedFaultRuntime(nonce);
        case 3: throw InjectedFaultInvalid(nonce);
        default: throw InjectedFault(nonce, 0);
    }
}

template <typename S>
class FunctorOp
{
public:
    using Scalar = S;
    typedef Eigen::Matrix<S, Eigen::Dynamic, Eigen::Dynamic> Mat;
    typedef Eigen::Matrix<S, Eigen::Dynamic, 1> Vec;
    Mat M;
    mutable long calls = 0;
    mutable long fault_at = -1;  // throw InjectedFault at this application (1-based); -1 = never
    mutable long fault_nonce = 0;
    mutable int fault_kind = 0;
    mutable long bad_pointers = 0;
    mutable long call_limit = -1;  // throw WorkBoundExceeded beyond this many applications
    mutable bool nan_operand_seen = false;
    struct WorkBoundExceeded
    {
    };
    FunctorOp() {}
    explicit FunctorOp(const Mat& m) :
        M(m) {}
    Index rows() const { return M.rows(); }
    Index cols() const { return M.cols(); }
    void perform_op(const S* x_in, S* y_out) const
    {
        calls++;
        if (fault_at > 0 && calls == fault_at)
            throw_injected_fault(fault_nonce, fault_kind);
        if (call_limit >= 0 && calls > call_limit)
            throw WorkBoundExceeded();
        const Index n = M.cols();
        if (!x_in || !y_out || (x_in < y_out + M.rows() && y_out < x_in + n))
            bad_pointers++;
        Eigen::Map<const Vec> x(x_in, n);
        Eigen::Map<Vec> y(y_out, M.rows());
        for (Index i = 0; i < n; i++)
            if (!std::isfinite((double) std::abs(x_in[i])))
                nan_operand_seen = true;
        y.noalias() = M * x;
    }
};

// ---------------------------------------------------------------------------------------------------------
// H1 observer: records the events of the Krylov factorization in the current thread.
struct FacEvents
{
    long init = 0, extended = 0, compressed = 0, expand_ok = 0, expand_gaveup = 0, forced_zero = 0, local_restart = 0, reorth_gaveup = 0;
    long double max_dropped_beta = 0;  // largest residual norm / coupling that was forced to zero
    long ops_at_last_extended = 0;
    void clear() { *this = FacEvents(); }
    bool breakdown() const { return forced_zero + local_restart + expand_ok + expand_gaveup > 0; }
};

#ifdef YIXUAN_SPECTRA_VERIF
inline void fac_events_cb(void* ctx, const Spectra::verif::FacView& v)
{
    FacEvents* e = static_cast<FacEvents*>(ctx);
    switch (v.event)
    {
        case Spectra::verif::EvInit: e->init++; break;
        case Spectra::verif::EvExtended: e->extended++; break;
        case Spectra::verif::EvCompressed: e->compressed++; break;
        case Spectra::verif::EvExpandBasis:
            if (v.aux > 0)
                e->expand_ok++;
            else
                e->expand_gaveup++;
            break;
        case Spectra::verif::EvForcedZero:
            e->forced_zero++;
            e->max_dropped_beta = std::max(e->max_dropped_beta, v.beta);
            break;
        case Spectra::verif::EvLocalRestart:
            e->local_restart++;
            e->max_dropped_beta = std::max(e->max_dropped_beta, v.beta);
            break;
        case Spectra::verif::EvReorthGaveUp: e->reorth_gaveup++; break;
        default: break;
    }
}
struct ObserveEvents
{
    Spectra::verif::ObserverSlot saved;
    explicit ObserveEvents(FacEvents* e)
    {
        saved = Spectra::verif::observer_slot();
        Spectra::verif::observer_slot().fn = &fac_events_cb;
        Spectra::verif::observer_slot().ctx = e;
    }
    ~ObserveEvents() { Spectra::verif::observer_slot() = saved; }
};
#endif

// dense -> sparse with exact zeros dropped
template <typename S, int Flags = Eigen::ColMajor>
inline Eigen::SparseMatrix<S, Flags> to_sparse(const Eigen::Matrix<S, Eigen::Dynamic, Eigen::Dynamic>& M)
{
    Eigen::SparseMatrix<S, Flags> sp(M.rows(), M.cols());
    std::vector<Eigen::Triplet<S>> t;
    for (Index j = 0; j < M.cols(); j++)
        for (Index i = 0; i < M.rows(); i++)
            if (M(i, j) != S(0))
                t.emplace_back(i, j, M(i, j));
    sp.setFromTriplets(t.begin(), t.end());
    sp.makeCompressed();
    return sp;
}

// tolerance draw: 10^q, q in quarter decades between log10(8 eps) and -3
template <typename Real>
inline ld draw_tol(Draw& d)
{
    ld lo = std::log10((ld) 8 * (ld) std::numeric_limits<Real>::epsilon());
    long qlo = (long) std::ceil((double) (lo * 4));
    long q = d.range("tol_q", qlo, -12);
    return std::pow((ld) 10, (ld) q / 4);
}

inline long draw_maxit(Draw& d)
{
    long k = d.range("maxit", 0, 21);
    return k == 21 ? 1000 : k;
}

}  // namespace vf
