// vf/eigen_assert.hpp - must be included before the first Eigen header.
// Turns Eigen's internal assertions (index range, size mismatch) into a throwable,
// attributable failure so that rapidcheck can shrink the case. In sanitizer/fuzzer
// builds (VF_ASSERT_ABORT) the assertion prints and aborts instead.
#pragma once
#include "report.hpp"
#include <cstdlib>
#ifdef NDEBUG
#error "harnesses are built without NDEBUG so that assertions join the oracle"
#endif
#ifdef VF_ASSERT_ABORT
#define eigen_assert(x)                                                                          \
    do                                                                                           \
    {                                                                                            \
        if (!(x))                                                                                \
        {                                                                                        \
            std::fprintf(stderr, "VF-EIGEN-ASSERT %s at %s:%d\n", #x, __FILE__, __LINE__);       \
            std::abort();                                                                        \
        }                                                                                        \
    } while (0)
#else
#define eigen_assert(x)                                                                          \
    do                                                                                           \
    {                                                                                            \
        if (!(x))                                                                                \
            throw ::vf::EigenAssertion{#x, std::string(__FILE__) + ":" + std::to_string(__LINE__)}; \
    } while (0)
#endif
