// vf/runner.hpp - shared main(): rapidcheck generation, tape replay, evidence fragment.
#pragma once
#include "draw.hpp"
#include "report.hpp"
#include <rapidcheck.h>
#include <cstdlib>
#include <csignal>
#include <cstring>
#include <functional>
#include <set>
#include <iostream>

namespace vf {

class RcDraw : public Draw
{
public:
    long raw(long lo, long hi, bool scaled) override
    {
        if (hi <= lo)
            return lo;
        if (scaled)
            return *rc::gen::inRange<long>(lo, hi + 1);
        return *rc::gen::resize(100, rc::gen::inRange<long>(lo, hi + 1));
    }
};

struct Options
{
    long cases = 1000;
    long seed = 1;
    int max_size = 100;
    std::string out, failtape, replay, inflight, hashes, fuzz_input;
    std::set<std::string> open;  // signatures of open known findings
    std::map<std::string, std::string> kv;  // harness-specific options (--set k=v)
    long geti(const std::string& k, long d) const
    {
        auto it = kv.find(k);
        return it == kv.end() ? d : std::atol(it->second.c_str());
    }
};

inline Options& options()
{
    static Options o;
    return o;
}

// The draw log of the case that is executing right now: dumped by a signal handler when a sanitizer aborts the
// process (memory error, undefined behaviour), so that the driver still gets a replayable tape.
inline Draw*& inflight_draw()
{
    static Draw* d = nullptr;
    return d;
}
inline std::string& inflight_path()
{
    static std::string p;
    return p;
}
inline void inflight_signal_handler(int sig)
{
    if (inflight_draw() && !inflight_path().empty())
        inflight_draw()->save_raw(inflight_path().c_str(), sig);
    std::signal(sig, SIG_DFL);
    std::raise(sig);
}
inline void install_inflight_dump(const std::string& path)
{
    inflight_path() = path;
    std::signal(SIGABRT, inflight_signal_handler);
    std::signal(SIGSEGV, inflight_signal_handler);
    std::signal(SIGBUS, inflight_signal_handler);
    std::signal(SIGFPE, inflight_signal_handler);
}

using RunCase = std::function<void(Draw&, Case&)>;
// returns the signature name of the known finding this violation belongs to, or "" if none
using Matcher = std::function<std::string(const Violation&, const Case&)>;

inline std::string no_match(const Violation&, const Case&) { return ""; }

// Executes one case with full exception classification. Returns: 0 pass, 1 violation, 2 known finding.
inline int execute(const RunCase& run, const Matcher& match, Draw& d, Case& c, std::string& msg, std::string& sig)
{
    Violation* vio = nullptr;
    Violation holder("", "");
    inflight_draw() = &d;
    struct ClearInflight
    {
        ~ClearInflight() { inflight_draw() = nullptr; }
    } clear_inflight;
    try
    {
        run(d, c);
        return 0;
    }
    catch (const Violation& v)
    {
        holder = v;
        vio = &holder;
    }
    catch (const EigenAssertion& a)
    {
        holder = Violation("eigen_assert", a.expr + " at " + a.where);
        vio = &holder;
    }
    catch (const rc::GenerationFailure&)
    {
        throw;
    }
    catch (const std::exception& e)
    {
        holder = Violation("unexpected_exception", std::string(typeid(e).name()) + ": " + e.what());
        vio = &holder;
    }
    msg = vio->msg;
    sig = match(*vio, c);
    if (!sig.empty() && options().open.count(sig))
        return 2;
    sig.clear();
    return 1;
}

inline void write_out(const char* prop)
{
    if (options().out.empty())
        return;
    FILE* f = std::fopen(options().out.c_str(), "w");
    if (!f)
        return;
    std::string j = report().json(prop, options().seed);
    std::fwrite(j.data(), 1, j.size(), f);
    std::fputc('\n', f);
    std::fclose(f);
    if (!options().hashes.empty())
    {
        FILE* g = std::fopen(options().hashes.c_str(), "wb");
        if (g)
        {
            for (uint64_t h : report().nontrivial)
                std::fwrite(&h, sizeof h, 1, g);
            std::fclose(g);
        }
    }
}

inline void parse_args(int argc, char** argv)
{
    Options& o = options();
    for (int i = 1; i < argc; i++)
    {
        std::string a = argv[i];
        auto next = [&]() -> std::string { return (i + 1 < argc) ? std::string(argv[++i]) : std::string(); };
        if (a == "--cases")
            o.cases = std::atol(next().c_str());
        else if (a == "--seed")
            o.seed = std::atol(next().c_str());
        else if (a == "--max-size")
            o.max_size = std::atoi(next().c_str());
        else if (a == "--out")
            o.out = next();
        else if (a == "--failtape")
            o.failtape = next();
        else if (a == "--replay")
            o.replay = next();
        else if (a == "--fuzz-input")
            o.fuzz_input = next();
        else if (a == "--inflight")
            o.inflight = next();
        else if (a == "--hashes")
            o.hashes = next();
        else if (a == "--open")
        {
            std::string s = next();
            size_t p = 0;
            while (p <= s.size())
            {
                size_t q = s.find(',', p);
                if (q == std::string::npos)
                    q = s.size();
                if (q > p)
                    o.open.insert(s.substr(p, q - p));
                p = q + 1;
            }
        }
        else if (a == "--set")
        {
            std::string s = next();
            size_t q = s.find('=');
            if (q != std::string::npos)
                o.kv[s.substr(0, q)] = s.substr(q + 1);
        }
    }
}

// Replay of one tape, bypassing rapidcheck. Prints a decoded description.
// exit code: 0 pass, 1 violation, 3 known finding (driver prints KNOWN-FINDING)
inline int replay_main(const char* prop, const RunCase& run, const Matcher& match)
{
    TapeDraw d(options().replay);
    if (!d.ok)
    {
        std::printf("REPLAY-ERROR cannot read %s\n", options().replay.c_str());
        return 4;
    }
    Case c;
    std::string msg, sig;
    int r = execute(run, match, d, c, msg, sig);
    report().account(d.hash(), c);
    std::printf("REPLAY property=%s tape=%s\n  case: %s\n", prop, options().replay.c_str(), c.desc.c_str());
    {
        std::string fs;
        for (auto& kv : c.feat)
            fs += kv.first + "=" + std::to_string(kv.second) + " ";
        for (auto& kv : c.sfeat)
            fs += kv.first + "=" + kv.second + " ";
        if (!fs.empty())
            std::printf("  features: %s\n", fs.c_str());
    }
    if (r == 0)
    {
        std::printf("  result: PASS\n");
        return 0;
    }
    if (r == 2)
    {
        std::printf("  result: KNOWN sig=%s %s\n", sig.c_str(), msg.c_str());
        return 3;
    }
    std::printf("  result: FAIL %s\n", msg.c_str());
    return 1;
}

// Decodes a libFuzzer input (crash artifact) with the structure-aware FuzzDraw and runs it once; the decoded
// recipe is written as a tape so that the ordinary replay path can take over.
inline int fuzz_input_main(const char* prop, const RunCase& run, const Matcher& match)
{
    std::ifstream in(options().fuzz_input, std::ios::binary);
    std::vector<uint8_t> bytes((std::istreambuf_iterator<char>(in)), std::istreambuf_iterator<char>());
    FuzzDraw d(bytes.data(), bytes.size());
    if (!options().failtape.empty())
        install_inflight_dump(options().failtape + ".inflight");
    Case c;
    std::string msg, sig;
    int r = execute(run, match, d, c, msg, sig);
    std::printf("FUZZ-INPUT property=%s file=%s\n  case: %s\n", prop, options().fuzz_input.c_str(), c.desc.c_str());
    if (!options().failtape.empty())
        d.save(options().failtape, std::string(prop) + " " + msg + " | " + c.desc);
    if (r == 1)
    {
        std::printf("  result: FAIL %s\n", msg.c_str());
        return 1;
    }
    std::printf("  result: %s\n", r == 2 ? "KNOWN" : "PASS");
    return r == 2 ? 3 : 0;
}

inline int run_main(int argc, char** argv, const char* prop, const RunCase& run, const Matcher& match = no_match)
{
    parse_args(argc, argv);
    Options& o = options();
    if (!o.replay.empty())
        return replay_main(prop, run, match);
    if (!o.fuzz_input.empty())
        return fuzz_input_main(prop, run, match);

    std::string params = "seed=" + std::to_string(o.seed) + " max_success=" + std::to_string(o.cases) +
        " max_size=" + std::to_string(o.max_size) + " max_discard_ratio=50";
    setenv("RC_PARAMS", params.c_str(), 1);

    if (!o.failtape.empty())
        install_inflight_dump(o.failtape + ".inflight");
    bool failing = false;
    bool ok = rc::check(std::string(prop), [&]() {
        RcDraw d;
        Case c;
        std::string msg, sig;
        int r = execute(run, match, d, c, msg, sig);
        if (!failing)
            report().account(d.hash(), c);
        if (r == 2)
        {
            if (!failing)
            {
                report().known_hits[sig]++;
                if (!report().known_example.count(sig))
                    report().known_example[sig] = c.desc + " => " + msg;
            }
            return;  // known finding: counted, excluded, generation continues
        }
        if (r == 1)
        {
            if (!failing)
            {
                failing = true;
                report().violations++;
            }
            // the last failing execution during shrinking is the minimal case rapidcheck found
            if (!o.failtape.empty())
                d.save(o.failtape, std::string(prop) + " " + msg + " | " + c.desc);
            if (report().violation_msgs.size() < 1)
                report().violation_msgs.push_back(msg + " | " + c.desc);
            else
                report().violation_msgs.back() = msg + " | " + c.desc;
            RC_FAIL(msg);
        }
    });
    write_out(prop);
    return ok ? 0 : 1;
}

}  // namespace vf
