// vf/malloc_count.hpp - live-block counter: the malloc family is interposed in the including program (include in exactly
// one translation unit; the build must be unsanitised). glibc exports the real entry points as __libc_*.
// Eigen allocates with malloc / posix_memalign, so replacing operator new alone would miss its buffers.
#pragma once
#include <cstddef>
#include <cerrno>
#include <cstring>
extern "C" {
void* __libc_malloc(size_t);
void* __libc_calloc(size_t, size_t);
void* __libc_realloc(void*, size_t);
void __libc_free(void*);
void* __libc_memalign(size_t, size_t);
}
namespace vf {
namespace mc {
static long g_live = 0;
static inline long live() { return g_live; }
}  // namespace mc
}  // namespace vf
extern "C" {
void* malloc(size_t n) noexcept
{
    void* p = __libc_malloc(n);
    if (p)
        ++vf::mc::g_live;
    return p;
}
void* calloc(size_t a, size_t b) noexcept
{
    void* p = __libc_calloc(a, b);
    if (p)
        ++vf::mc::g_live;
    return p;
}
void* realloc(void* p, size_t n) noexcept
{
    void* q = __libc_realloc(p, n);
    if (!p && q)
        ++vf::mc::g_live;  // behaves as malloc
    else if (p && n == 0 && !q)
        --vf::mc::g_live;  // behaves as free
    return q;
}
void free(void* p) noexcept
{
    if (p)
    {
        --vf::mc::g_live;
        __libc_free(p);
    }
}
void* memalign(size_t a, size_t n) noexcept
{
    void* p = __libc_memalign(a, n);
    if (p)
        ++vf::mc::g_live;
    return p;
}
void* aligned_alloc(size_t a, size_t n) noexcept
{
    void* p = __libc_memalign(a, n);
    if (p)
        ++vf::mc::g_live;
    return p;
}
int posix_memalign(void** out, size_t a, size_t n) noexcept
{
    void* p = __libc_memalign(a, n);
    if (!p)
        return ENOMEM;
    ++vf::mc::g_live;
    *out = p;
    return 0;
}
}

