// C13 - compute() is memory-safe, terminates within its work bound, hands the operator valid distinct vectors, and
// ends either with finite results and info() in {Successful, NotConverging} or with one of Spectra's exception types.
// Structure-aware decode of adversarial small problems; the same run_case is driven by rapidcheck under
// AddressSanitizer + UBSan (quick) and by libFuzzer + ASan + UBSan (thorough, -DVF_LIBFUZZER).
// Mode 1 enumerates nev_adjusted() / the restart shift loop through the guarded friend access (H2).
#include "vf/eigen_assert.hpp"
#include <Eigen/Core>
#include <Eigen/Sparse>
#include "vf/oracle.hpp"
#include "vf/families.hpp"
#include <Spectra/SymGEigsSolver.h>
#include <Spectra/SymGEigsShiftSolver.h>
#include <Spectra/MatOp/DenseSymMatProd.h>
#include <Spectra/MatOp/DenseCholesky.h>
#include <Spectra/MatOp/SymShiftInvert.h>
#include <Spectra/MatOp/SparseRegularInverse.h>
#include <Spectra/contrib/PartialSVDSolver.h>
#ifndef VF_LIBFUZZER
#include "vf/runner.hpp"
#else
#include "vf/draw.hpp"
#include "vf/report.hpp"
#endif

typedef double Real;
using vf::ld;
using vf::cld;
using vf::CMatL;
using vf::MatL;
using vf::VecL;
using vf::Index;
using Spectra::CompInfo;

// friend access (guarded hook H2): drives the private restart-size logic directly
namespace Spectra {
namespace verif {
struct Access
{
    template <typename Solver>
    static Index herm_nev_adjusted(Solver& s, const Eigen::VectorXd& est, Index nconv)
    {
        s.m_ritz_est = est;
        return s.nev_adjusted(nconv);
    }
    template <typename Solver>
    static Index gen_nev_adjusted(Solver& s, const Eigen::VectorXcd& val, const Eigen::VectorXcd& est, Index nconv)
    {
        s.m_ritz_val = val;
        s.m_ritz_est = est;
        return s.nev_adjusted(nconv);
    }
};
}  // namespace verif
}  // namespace Spectra

static const char* CLS[11] = {"explicit_small_integers", "zero", "identity", "nilpotent_shift", "rank1", "rank2", "permutation", "signed_perm_345_orthogonal", "skew", "diagonal_with_ties", "permutation_equal_cycles"};

static MatL adversarial_matrix(vf::Draw& d, Index n, bool symmetric, int& cls_out, long* scale_exp_out = nullptr)
{
    int cls = (int) d.range("matrix_class", 0, 10);
    cls_out = cls;
    MatL A = MatL::Zero(n, n);
    vf::Lcg g((uint64_t) d.range("content_seed", 0, 4095));
    switch (cls)
    {
        case 0:
            for (Index j = 0; j < n; j++)
                for (Index i = (symmetric ? j : 0); i < n; i++)
                {
                    A(i, j) = (ld) d.range("e", -2, 2);
                    if (symmetric)
                        A(j, i) = A(i, j);
                }
            break;
        case 1: break;
        case 2: A = MatL::Identity(n, n) * (ld) d.range("c", -2, 2); break;
        case 3:
            for (Index i = 0; i + 1 < n; i++)
                A(i + 1, i) = 1;
            break;
        case 4:
        case 5:
        {
            for (int k = 0; k < (cls == 4 ? 1 : 2); k++)
            {
                VecL u(n), w(n);
                for (Index i = 0; i < n; i++)
                {
                    u[i] = (ld) (g.below(5) - 2);
                    w[i] = symmetric ? u[i] : (ld) (g.below(5) - 2);
                }
                A += u * w.transpose() * (ld) (k == 0 ? 1 : -1);
            }
            break;
        }
        case 6:
        {
            std::vector<Index> perm(n);
            for (Index i = 0; i < n; i++)
                perm[i] = i;
            for (Index i = n - 1; i > 0; i--)
                std::swap(perm[i], perm[g.below(i + 1)]);
            for (Index i = 0; i < n; i++)
                A(perm[i], i) = 1;
            break;
        }
        case 7:
        {
            A = MatL::Identity(n, n);
            int nrot = 1 + (int) g.below(n);
            for (int k = 0; k < nrot; k++)
            {
                Index p = g.below(n), q = g.below(n);
                if (p == q)
                    continue;
                MatL G = MatL::Identity(n, n);
                G(p, p) = (ld) 0.6;
                G(q, q) = (ld) 0.6;
                G(p, q) = (ld) 0.8;
                G(q, p) = -(ld) 0.8;
                A = G * A;
            }
            for (Index i = 0; i < n; i++)
                if (g.below(3) == 0)
                    A.row(i) *= -1;
            break;
        }
        case 8:
            for (Index j = 0; j < n; j++)
                for (Index i = j + 1; i < n; i++)
                {
                    A(i, j) = (ld) (g.below(5) - 2);
                    A(j, i) = -A(i, j);
                }
            break;
        case 10:
        {
            // several disjoint cycles of ONE length (the rest fixed points): every root of unity of that order is an eigenvalue as many times as
            // there are cycles, bit for bit - exact ties between complex conjugate pairs, which a random permutation almost never has
            const Index L = 3 + (Index) g.below(4);
            const Index m = n / L;
            for (Index k = 0; k < m; k++)
                for (Index i = 0; i < L; i++)
                    A(k * L + (i + 1) % L, k * L + i) = 1;
            for (Index i = m * L; i < n; i++)
                A(i, i) = 1;
            break;
        }
        default:
            for (Index i = 0; i < n; i++)
                A(i, i) = (ld) ((g.below(3) + 1) * (g.below(2) ? 1 : -1));
            break;
    }
    if (symmetric && cls != 0)
        A = ((A + A.transpose()) / 2).eval();
    d.scale10("scale_exp", 8);
    if (scale_exp_out)
        *scale_exp_out = d.scale10_exp_last();
    A *= std::pow((ld) 10, (ld) d.scale10_exp_last());
    Eigen::MatrixXd Ad = A.cast<double>();
    return Ad.cast<ld>();
}

struct Plan
{
    int sel, sort;
    long maxit;
    ld tol;
    int start_kind;
    int computes;
};

template <typename S>
static void start_vector(vf::Draw& d, Index n, Eigen::Matrix<S, Eigen::Dynamic, 1>& v)
{
    int kind = (int) d.range("start_vector_kind", 0, 1);
    v.setZero(n);
    if (kind == 0)
        v[(Index) d.range("unit_at", 0, n - 1)] = S(1);
    else
        for (Index i = 0; i < n; i++)
            v[i] = S((Real) d.range("sv", -2, 2));
    if (v.norm() == 0)
        v[0] = S(1);
}

// Outcome classification shared by all solver kinds: returns normally on an allowed outcome, throws vf::Violation otherwise
template <typename S, typename Solver, typename Counters>
static void run_and_judge(Solver& eigs, const Counters* counted, vf::Draw& d, vf::Case& c, Index n, Index ncv, const int* rules, int nrules, const int* srules, int nsrules, long per_compute_extra, bool enforce_bound = true, bool allow_inf_values = false)
{
    typedef Eigen::Matrix<S, Eigen::Dynamic, 1> Vec;
    long base_calls = counted ? counted->calls : 0;
    std::string what;
    try
    {
        int sk = (int) d.range("start_kind", 0, 1);
        if (sk == 0)
            eigs.init();
        else
        {
            Vec v;
            start_vector<S>(d, n, v);
            eigs.init(v.data());
        }
        int computes = (int) d.range("computes", 1, 2);
        long allowed = 2;
        for (int k = 0; k < computes; k++)
        {
            int sel = rules[d.range("selection", 0, nrules - 1)];
            int sort = srules[d.range("sorting", 0, nsrules - 1)];
            long maxit = d.range("maxit", 0, 8);
            ld tol = vf::draw_tol<Real>(d);
            allowed += 2 * ncv * (maxit + 1) + per_compute_extra;
            if (counted && enforce_bound)
                counted->call_limit = base_calls + allowed;
            long ret = (long) eigs.compute(vf::ALL_RULES[sel], (Index) maxit, (Real) tol, vf::ALL_RULES[sort]);
            CompInfo info = eigs.info();
            VF_CHECK(info == CompInfo::Successful || info == CompInfo::NotConverging, "status", "info() = " << vf::info_name(info) << " after compute()");
            auto ev = eigs.eigenvalues();
            auto ex = eigs.eigenvectors();
            VF_CHECK((long) ev.size() == ret && (long) ex.cols() == ret && ex.rows() == n, "counts", "compute() returned " << ret << " but accessors give " << ev.size() << " values and " << ex.rows() << "x" << ex.cols() << " vectors");
            if (allow_inf_values)
            {
                // buckling mode with a singular K_G: the pencil has infinite eigenvalues, which are legitimately reported as inf; NaN never is
                for (Index i = 0; i < ev.size(); i++)
                    VF_CHECK(!std::isnan((double) std::real(ev[i])), "nonfinite", "NaN in eigenvalues() (info=" << vf::info_name(info) << ")");
                c.cls("singular_KG_infinite_eigenvalues_allowed");
            }
            else
                VF_CHECK(vf::all_finite(ev), "nonfinite", "NaN/Inf in eigenvalues() (info=" << vf::info_name(info) << ", " << ret << " returned)");
            VF_CHECK(vf::all_finite(ex), "nonfinite", "NaN/Inf in eigenvectors() (info=" << vf::info_name(info) << ", " << ret << " returned)");
            if (ret > 0)
                c.cls("pairs_returned");
            if (maxit >= 1 && info == CompInfo::NotConverging)
                c.cls("ran_out_of_restarts");
            c.nontrivial = true;
        }
    }
    catch (const vf::Violation&)
    {
        throw;
    }
    catch (const vf::WorkBoundExceeded& w)
    {
        throw vf::Violation("work_bound", "the operator was applied " + std::to_string(w.calls - base_calls) + " times since init(), more than 2 + sum 2*ncv*(maxit+1)");
    }
    catch (const std::invalid_argument& e)
    {
        what = std::string("invalid_argument: ") + e.what();
    }
    catch (const std::runtime_error& e)
    {
        what = std::string("runtime_error: ") + e.what();
    }
    catch (const std::logic_error& e)
    {
        what = std::string("logic_error: ") + e.what();
    }
    if (!what.empty())
    {
        c.rejected = true;
        c.nontrivial = true;
        c.cls("raised " + what);
    }
    if (counted)
    {
        VF_CHECK(counted->bad_pointers == 0, "operand_pointers", counted->bad_pointers << " operator applications received null or overlapping operand vectors");
        // every matrix, shift and start vector drawn here is finite and the harness operators map finite vectors to finite vectors, so a
        // non-finite operand can only have been manufactured by the library (0/0 normalisation of a vanished direction, ...)
        VF_CHECK(!counted->nan_operand_seen, "nan_operand", "the user's operator was handed a vector with NaN/Inf entries although every input is finite" << (what.empty() ? "" : " (the run then ended in " + what + ")"));
    }
}

static void solver_case(vf::Draw& d, vf::Case& c)
{
    typedef Eigen::MatrixXd Mat;
    int kind = (int) d.range("solver_kind", 0, 11);
    static const char* KN[12] = {"SymEigsSolver", "HermEigsSolver", "SymEigsShiftSolver", "GenEigsSolver", "GenEigsRealShiftSolver", "GenEigsComplexShiftSolver",
                                 "SymGEigsSolver<Cholesky>", "SymGEigsSolver<RegularInverse>", "SymGEigsShiftSolver<ShiftInvert>", "SymGEigsShiftSolver<Buckling>", "SymGEigsShiftSolver<Cayley>", "PartialSVDSolver"};
    Index n = (Index) d.dim("n", 2, 16);
    if ((kind >= 3 && kind <= 5) && n < 3)
        n = 3;
    bool general = (kind >= 3 && kind <= 5);
    bool symmetric = !general && kind != 11;
    int cls;
    long scale_exp = 0;
    MatL A = adversarial_matrix(d, n, symmetric, cls, &scale_exp);
    const ld sc = std::pow((ld) 10, (ld) scale_exp);
    Index nev, ncv;
    vf::draw_nev_ncv(d, n, general, nev, ncv);
    std::ostringstream os;
    os << KN[kind] << " n=" << n << " class=" << CLS[cls] << " scale=1e" << scale_exp << " nev=" << nev << " ncv=" << ncv;
    if (n <= 5)
        os << " A=" << vf::show(A, 5);
    c.cls(std::string("solver/") + KN[kind]);
    c.cls(std::string("class/") + CLS[cls]);
    if (ncv == n)
        c.cls("ncv=n");
    if (ncv == nev + (general ? 2 : 1))
        c.cls("ncv=minimal");
    Mat Ad = A.cast<double>();
    if (kind <= 5)
    {
        // the six standard classes, through the counting functors of families.hpp
        vf::Problem<Real> P;
        P.family = kind;
        P.n = n;
        P.nev = nev;
        P.ncv = ncv;
        P.A = vf::widen(A);
        if (kind == 1)
        {
            // Hermitian: add a skew-symmetric imaginary part with small integer entries
            vf::Lcg g((uint64_t) d.range("imag_seed", 0, 255));
            for (Index j = 0; j < n; j++)
                for (Index i = j + 1; i < n; i++)
                {
                    ld im = (ld) (g.below(3) - 1) * sc;
                    P.A(i, j) = cld(P.A(i, j).real(), im);
                    P.A(j, i) = cld(P.A(j, i).real(), -im);
                }
        }
        if (vf::family_has_shift(kind))
        {
            ld sr = (ld) d.range("sigma_num", -8, 8) / 4 * sc;
            if (sr == 0)
                sr = sc / 8;
            P.sigma = cld((ld) (Real) sr, kind == 5 ? (ld) (Real) ((ld) d.range("sigma_imag_num", 1, 8) / 4 * sc) : 0);
            os << " sigma=" << P.sigma;
            // a shift for which A - sigma I is singular to working precision is outside the documented domain
            // (the shift-solve wrappers reject exactly singular matrices; cond >= 1e12 is the numerical version of that)
            Eigen::JacobiSVD<CMatL> svd(CMatL(P.A - P.sigma * CMatL::Identity(n, n)));
            if (!(svd.singularValues()[n - 1] * (ld) 1e12 > svd.singularValues()[0]))
            {
                c.add_desc(os.str() + " (shifted matrix numerically singular: outside the domain)");
                c.rejected = true;
                c.cls("shift_numerically_singular(skipped)");
                return;
            }
        }
        c.add_desc(os.str());
        int nr, ns;
        const int* rules = vf::family_rules(kind, nr);
        const int* srules = vf::family_sort_rules(kind, ns);
        try
        {
            vf::with_family<Real>(P, [&](auto& op, auto& make, auto tag) {
                typedef decltype(tag) S;
                auto eigs = make();  // shift families factorize here: a singular shifted matrix shows up as NaN/Inf solves, judged below
                run_and_judge<S>(*eigs, &op, d, c, n, ncv, rules, nr, srules, ns, kind == 5 ? 2 * nev : 0);
            });
        }
        catch (const std::invalid_argument& e)
        {
            c.rejected = true;
            c.cls(std::string("constructor raised invalid_argument: ") + e.what());
        }
        return;
    }
    if (kind == 11)
    {
        // partial SVD of an m x n matrix (rows drawn separately)
        Index m = (Index) d.range("svd_rows", 2, 16);
        int cls2;
        MatL R = adversarial_matrix(d, std::max(m, n), false, cls2);
        Mat M = R.topLeftCorner(m, n).cast<double>();
        Index p = std::min(m, n);
        Index ncomp = (Index) d.range("ncomp", 1, std::max<Index>(1, p - 1));
        Index ncv2 = (Index) d.range("svd_ncv", ncomp + 1, std::max<Index>(ncomp + 1, p));
        os << " svd " << m << "x" << n << " ncomp=" << ncomp << " ncv=" << ncv2;
        c.add_desc(os.str());
        std::string what;
        try
        {
            Spectra::PartialSVDSolver<Mat> svd(M, ncomp, ncv2);
            long maxit = d.range("maxit", 0, 8);
            ld tol = vf::draw_tol<Real>(d);
            Index nconv = svd.compute((Index) maxit, (Real) tol);
            Eigen::VectorXd sv = svd.singular_values();
            VF_CHECK(sv.size() == nconv, "counts", "compute() returned " << nconv << " but singular_values() has " << sv.size());
            VF_CHECK(vf::all_finite(sv), "nonfinite", "NaN/Inf singular value");
            Mat U = svd.matrix_U(nconv), V = svd.matrix_V(nconv);
            // factors that belong to (numerically) zero singular values are 0/0 by construction; only values are asserted there
            ld smax = 0;
            for (Index i = 0; i < sv.size(); i++)
                smax = std::max(smax, (ld) sv[i]);
            for (Index i = 0; i < sv.size(); i++)
                if ((ld) sv[i] > (ld) 1e-6 * smax && smax > 0)
                    VF_CHECK(vf::all_finite(U.col(i)) && vf::all_finite(V.col(i)), "nonfinite", "NaN/Inf in the singular vectors of sigma_" << i << " = " << sv[i]);
            c.nontrivial = true;
        }
        catch (const vf::Violation&)
        {
            throw;
        }
        catch (const std::invalid_argument& e)
        {
            what = std::string("invalid_argument: ") + e.what();
        }
        catch (const std::runtime_error& e)
        {
            what = std::string("runtime_error: ") + e.what();
        }
        catch (const std::logic_error& e)
        {
            what = std::string("logic_error: ") + e.what();
        }
        if (!what.empty())
        {
            c.rejected = true;
            c.cls("raised " + what);
        }
        return;
    }
    // generalized modes with the library's own dense wrappers; B = small-integer SPD matrix
    Mat B(n, n);
    {
        vf::Lcg g((uint64_t) d.range("B_seed", 0, 255));
        Mat C = Mat::Zero(n, n);
        for (Index j = 0; j < n; j++)
            for (Index i = 0; i < n; i++)
                C(i, j) = (double) (g.below(3) - 1);
        B = C * C.transpose() + 2.0 * Mat::Identity(n, n);
        d.scale10("B_scale_exp", 4);
        B *= std::pow(10.0, (double) d.scale10_exp_last());
    }
    Real sigma = (Real) ((ld) d.range("sigma_num", -8, 8) / 4);
    if (sigma == 0)
        sigma = (Real) 0.125;
    os << " sigma=" << sigma;
    if (kind >= 8)
    {
        // same domain restriction for the pencil: A - sigma B (K - sigma K_G in buckling mode) must not be singular to working precision
        MatL Ml = (kind == 9) ? MatL(B.cast<ld>() - (ld) sigma * A) : MatL(A - (ld) sigma * B.cast<ld>());
        Eigen::JacobiSVD<MatL> svd(Ml);
        if (!(svd.singularValues()[n - 1] * (ld) 1e12 > svd.singularValues()[0]))
        {
            c.add_desc(os.str() + " (shifted pencil numerically singular: outside the domain)");
            c.rejected = true;
            c.cls("shift_numerically_singular(skipped)");
            return;
        }
    }
    c.add_desc(os.str());
    try
    {
        if (kind == 6)
        {
            vf::ProdFunctor<Real> aop(Ad);
            Spectra::DenseCholesky<Real> bop(B);
            Spectra::SymGEigsSolver<vf::ProdFunctor<Real>, Spectra::DenseCholesky<Real>, Spectra::GEigsMode::Cholesky> eigs(aop, bop, nev, ncv);
            run_and_judge<Real>(eigs, &aop, d, c, n, ncv, vf::SYM_RULES, 5, vf::SYM_SORT_RULES, 4, 0);
        }
        else if (kind == 7)
        {
            vf::ProdFunctor<Real> aop(Ad);
            Eigen::SparseMatrix<Real> Bs = vf::to_sparse<Real>(B);
            Spectra::SparseRegularInverse<Real> bop(Bs);
            Spectra::SymGEigsSolver<vf::ProdFunctor<Real>, Spectra::SparseRegularInverse<Real>, Spectra::GEigsMode::RegularInverse> eigs(aop, bop, nev, ncv);
            run_and_judge<Real>(eigs, &aop, d, c, n, ncv, vf::SYM_RULES, 5, vf::SYM_SORT_RULES, 4, 0);
        }
        else
        {
            typedef Spectra::SymShiftInvert<Real, Eigen::Dense, Eigen::Dense> OpT;
            vf::ProdFunctor<Real> bop(kind == 9 ? Ad : B);  // buckling: the B operator multiplies by K (here the SPD matrix takes the role of K)
            if (kind == 8)
            {
                OpT op(Ad, B);
                vf::ProdFunctor<Real> b2(B);
                Spectra::SymGEigsShiftSolver<OpT, vf::ProdFunctor<Real>, Spectra::GEigsMode::ShiftInvert> eigs(op, b2, nev, ncv, sigma);
                run_and_judge<Real>(eigs, &b2, d, c, n, ncv, vf::SYM_RULES, 5, vf::SYM_SORT_RULES, 4, 0, false);  // the B operator also serves every inner product: operands are checked, the work bound is not
            }
            else if (kind == 9)
            {
                // K x = lambda K_G x with K = B (positive definite), K_G = A (indefinite allowed)
                OpT op(B, Ad);
                vf::ProdFunctor<Real> kop(B);
                Spectra::SymGEigsShiftSolver<OpT, vf::ProdFunctor<Real>, Spectra::GEigsMode::Buckling> eigs(op, kop, nev, ncv, sigma);
                // K_G singular (to 1e-8 of its norm) means the pencil has infinite eigenvalues
                Eigen::SelfAdjointEigenSolver<Mat> kg(Ad, Eigen::EigenvaluesOnly);
                double kmax = kg.eigenvalues().cwiseAbs().maxCoeff(), kmin = kg.eigenvalues().cwiseAbs().minCoeff();
                bool singularKG = !(kmin > 1e-8 * kmax) || kmax == 0;
                run_and_judge<Real>(eigs, &kop, d, c, n, ncv, vf::SYM_RULES, 5, vf::SYM_SORT_RULES, 4, 0, false, singularKG);
            }
            else
            {
                OpT op(Ad, B);
                vf::ProdFunctor<Real> b2(B);
                Spectra::SymGEigsShiftSolver<OpT, vf::ProdFunctor<Real>, Spectra::GEigsMode::Cayley> eigs(op, b2, nev, ncv, sigma);
                run_and_judge<Real>(eigs, &b2, d, c, n, ncv, vf::SYM_RULES, 5, vf::SYM_SORT_RULES, 4, 0, false);  // the B operator also serves every inner product: operands are checked, the work bound is not
            }
        }
    }
    catch (const std::invalid_argument& e)
    {
        c.rejected = true;
        c.cls(std::string("constructor raised invalid_argument: ") + e.what());
    }
    catch (const std::runtime_error& e)
    {
        c.rejected = true;
        c.cls(std::string("constructor raised runtime_error: ") + e.what());
    }
}

// Mode 1: restart-size logic through the friend access. The pattern is drawn (rapidcheck / fuzzer) rather than enumerated;
// ncv <= 12 keeps the space small enough that a few thousand cases cover it densely.
static void restart_size_case(vf::Draw& d, vf::Case& c)
{
    typedef Eigen::MatrixXd Mat;
    bool general = d.flag("general_family");
    Index ncv = (Index) d.range("ncv", general ? 3 : 2, 12);
    Index nev = (Index) d.range("nev", 1, general ? ncv - 2 : ncv - 1);
    Index nconv = (Index) d.range("nconv", 0, nev);
    Index n = ncv + (Index) d.range("n_extra", 0, 2);
    Mat A = Mat::Identity(n, n);
    std::ostringstream os;
    os << "nev_adjusted " << (general ? "GenEigsBase" : "HermEigsBase") << " ncv=" << ncv << " nev=" << nev << " nconv=" << nconv << " pattern=";
    c.cls(general ? "restart_size/general" : "restart_size/symmetric");
    c.nontrivial = true;
    if (!general)
    {
        vf::ProdFunctor<Real> op(A);
        Spectra::SymEigsSolver<vf::ProdFunctor<Real>> eigs(op, nev, ncv);
        eigs.init();
        Eigen::VectorXd est(ncv);
        for (Index i = 0; i < ncv; i++)
        {
            bool zero = d.flag("zero_estimate");
            est[i] = zero ? 0.0 : 0.5;
            os << (zero ? '0' : 'x');
        }
        c.add_desc(os.str());
        Index k = Spectra::verif::Access::herm_nev_adjusted(eigs, est, nconv);
        VF_CHECK(k >= 1 && k <= ncv - 1, "restart_size", "nev_adjusted = " << k << " outside [1, ncv-1] for ncv=" << ncv);
        VF_CHECK(k >= std::min<Index>(nev, ncv - 1), "restart_size", "nev_adjusted = " << k << " is smaller than nev=" << nev);
        return;
    }
    vf::ProdFunctor<Real> op(A);
    Spectra::GenEigsSolver<vf::ProdFunctor<Real>> eigs(op, nev, ncv);
    eigs.init();
    Eigen::VectorXcd val(ncv), est(ncv);
    Index i = 0;
    while (i < ncv)
    {
        bool pair = (i + 1 < ncv) && d.flag("conjugate_pair");
        bool zero = d.flag("zero_estimate");
        if (pair)
        {
            val[i] = std::complex<double>(1.0 + (double) i, 2.0);
            val[i + 1] = std::conj(val[i]);
            est[i] = zero ? 0.0 : 0.5;
            est[i + 1] = est[i];
            os << (zero ? "(00)" : "(xx)");
            i += 2;
        }
        else
        {
            val[i] = std::complex<double>(1.0 + (double) i, 0.0);
            est[i] = zero ? 0.0 : 0.5;
            os << (zero ? '0' : 'x');
            i += 1;
        }
    }
    c.add_desc(os.str());
    Index k = Spectra::verif::Access::gen_nev_adjusted(eigs, val, est, nconv);
    VF_CHECK(k >= 1 && k <= ncv - 1, "restart_size", "nev_adjusted = " << k << " outside [1, ncv-1] for ncv=" << ncv);
    // the boundary must not split a conjugate pair: values k-1 and k are not conjugates of each other
    if (k < ncv)
        VF_CHECK(!(val[k - 1].imag() != 0 && val[k - 1] == std::conj(val[k])), "restart_splits_pair", "nev_adjusted = " << k << " separates the conjugate pair at positions " << k - 1 << "," << k);
}

static void run_case(vf::Draw& d, vf::Case& c)
{
    if (d.one_in("restart_size_mode", 6))
        restart_size_case(d, c);
    else
        solver_case(d, c);
}

#ifndef VF_LIBFUZZER
int main(int argc, char** argv)
{
    return vf::run_main(argc, argv, "C13", run_case);
}
#else
// libFuzzer entry: any violation aborts after the decoded recipe has been written next to the artifact
#include <unistd.h>
static long g_execs = 0, g_nontrivial = 0, g_rejected = 0;
static std::map<std::string, long> g_classes;
static std::vector<std::string> g_samples;
static void write_fuzz_report()
{
    const char* out = std::getenv("VF_FUZZ_OUT");
    if (!out)
        return;
    FILE* f = std::fopen(out, "w");
    if (!f)
        return;
    std::fprintf(f, "{\"property_id\":\"C13\",\"seed\":0,\"evaluations\":%ld,\"distinct\":%ld,\"distinct_nontrivial\":%ld,\"enumerated_nontrivial\":0,\"rejected\":%ld,\"violations\":0,\"exhaustive\":false,\"wall_s\":0,\"classes\":{",
                 g_execs, g_nontrivial, g_nontrivial, g_rejected);
    bool first = true;
    for (auto& kv : g_classes)
    {
        std::fprintf(f, "%s\"%s\":%ld", first ? "" : ",", vf::json_escape(kv.first).c_str(), kv.second);
        first = false;
    }
    std::fprintf(f, "},\"stats_max\":{},\"known_hits\":{},\"known_example\":{},\"notes\":{},\"samples\":[");
    first = true;
    for (auto& s : g_samples)
    {
        std::fprintf(f, "%s\"%s\"", first ? "" : ",", vf::json_escape(s).c_str());
        first = false;
    }
    std::fprintf(f, "],\"violation_msgs\":[]}\n");
    std::fclose(f);
}
static std::unordered_set<uint64_t> g_seen;
extern "C" int LLVMFuzzerTestOneInput(const uint8_t* data, size_t size)
{
    static bool registered = false;
    if (!registered)
    {
        registered = true;
        std::atexit(write_fuzz_report);
    }
    vf::FuzzDraw d(data, size);
    vf::Case c;
    std::string msg;
    bool bad = false;
    try
    {
        run_case(d, c);
    }
    catch (const vf::Violation& v)
    {
        bad = true;
        msg = v.msg;
    }
    catch (const vf::EigenAssertion& a)
    {
        bad = true;
        msg = "eigen_assert: " + a.expr + " at " + a.where;
    }
    catch (const std::exception& e)
    {
        bad = true;
        msg = std::string("unexpected_exception: ") + typeid(e).name() + ": " + e.what();
    }
    catch (const vf::WorkBoundExceeded&)
    {
        bad = true;
        msg = "work_bound";
    }
    g_execs++;
    if (c.rejected)
        g_rejected++;
    if (c.nontrivial && g_seen.insert(d.hash()).second)
    {
        g_nontrivial++;
        if (g_samples.size() < 12 && (g_nontrivial & (g_nontrivial - 1)) == 0)
            g_samples.push_back(c.desc);
    }
    for (auto& k : c.classes)
        g_classes[k]++;
    if (bad)
    {
        const char* tp = std::getenv("VF_FUZZ_TAPE");
        std::string path = tp ? tp : "fuzz-violation.tape";
        d.save(path, "C13 " + msg + " | " + c.desc);
        std::fprintf(stderr, "VF-FUZZ-VIOLATION %s | %s\n", msg.c_str(), c.desc.c_str());
        write_fuzz_report();
        std::abort();
    }
    return 0;
}
#endif
