// C11 (part 4) - the composite operators the generalized solvers build from the wrappers (MatOp/internal/*.h):
//   SymGEigsCholeskyOp     y = L^-1 A L^-T x                (B = L L^T, sparse L up to its fill-reducing permutation)
//   SymGEigsRegInvOp       y = B^-1 A x                     (conjugate gradients; may throw runtime_error)
//   SymGEigsShiftInvertOp  y = (A - sigma B)^-1 B x
//   SymGEigsBucklingOp     y = (K - sigma K_G)^-1 K x
//   SymGEigsCayleyOp       y = (A - sigma B)^-1 (A + sigma B) x
//   ArnoldiOp              <x, y> = x' B y, X' B y, ||x||_B, and the pass-through perform_op
// over a covering set of (dense / sparse, Lower / Upper, ColMajor / RowMajor, int / long) combinations of their component
// wrappers, one real scalar type per binary (VF_REAL).
// Oracles: (i) long double reference from the FULL symmetric matrices with the forward-error bound that follows from the
// backward stability of each step; (ii) the adaptor's result is bit-identical to calling its components by hand in the
// documented order, and to a move-constructed copy; (iii) unused triangles of every matrix overwritten -> bit-identical.
#include "vf/eigen_assert.hpp"
#include <Eigen/Core>
#include <Eigen/SparseCore>
#include <Eigen/Eigenvalues>
#ifdef C11_KF_REGINV_HEADER
#include <Spectra/Util/CompInfo.h>  // see c11_solve.cpp (open finding: SparseRegularInverse.h is not self-contained)
#endif
#include <Spectra/MatOp/SparseRegularInverse.h>
#include <Spectra/MatOp/DenseSymMatProd.h>
#include <Spectra/MatOp/SparseSymMatProd.h>
#include <Spectra/MatOp/DenseCholesky.h>
#include <Spectra/MatOp/SparseCholesky.h>
#include <Spectra/MatOp/SymShiftInvert.h>
#include <Spectra/MatOp/internal/ArnoldiOp.h>
#include <Spectra/MatOp/internal/SymGEigsCholeskyOp.h>
#include <Spectra/MatOp/internal/SymGEigsRegInvOp.h>
#include <Spectra/MatOp/internal/SymGEigsShiftInvertOp.h>
#include <Spectra/MatOp/internal/SymGEigsBucklingOp.h>
#include <Spectra/MatOp/internal/SymGEigsCayleyOp.h>
#include "c11_common.hpp"

using namespace c11;

#ifndef VF_REAL
#define VF_REAL double
#endif
typedef VF_REAL Real;
typedef Eigen::Matrix<Real, Eigen::Dynamic, 1> Vec;

enum Mode
{
    M_CHOLESKY = 0,
    M_REGINV = 1,
    M_SHIFT_INVERT = 2,
    M_BUCKLING = 3,
    M_CAYLEY = 4,
    M_ARNOLDI = 5
};
static const char* const MODE_NAMES[6] = {"SymGEigsCholeskyOp", "SymGEigsRegInvOp", "SymGEigsShiftInvertOp", "SymGEigsBucklingOp", "SymGEigsCayleyOp", "ArnoldiOp"};

// which triangle each wrapper reads, and whether it is a sparse wrapper (Input/Eff roles: A, B, C)
struct CompTraits
{
    ScalarInfo si;
    int mode;
    int uploA, uploB, uploC;  // uploC = 0: no third matrix
    bool sparseA, sparseB, sparseC;
};

static Vec apply(const std::function<void(const Real*, Real*)>& f, const Vec& x, Real fill)
{
    Vec y = Vec::Constant(x.size(), fill);
    f(x.data(), y.data());
    return y;
}

// ---- per-instantiation code --------------------------------------------------------------------------------------------
template <typename AOp, typename AArg, typename BOp, typename BArg>
static Out run_cholesky_op(const Input& in, const Eff& e)
{
    Out o;
    AArg a(e.A, e.stA, in.formA);
    BArg b(e.B, e.stB, in.formB);
    std::unique_ptr<AOp> aop = a.template make<AOp>();
    std::unique_ptr<BOp> bop = b.template make<BOp>();
    o.ints.push_back((long) bop->info());
    if (bop->info() != Spectra::CompInfo::Successful)
        return o;
    typedef Spectra::SymGEigsCholeskyOp<AOp, BOp> Op;
    Op op(*aop, *bop);
    o.ints.push_back((long) op.rows());
    o.ints.push_back((long) op.cols());
    const Index n = in.rows;
    Vec x = to_vec<Real>(in.x);
    Vec y = Vec::Constant(n, Real(777));
    op.perform_op(x.data(), y.data());
    o.v.push_back(widen_vec(y));
    // by hand, in the documented order: L^-T, then A, then L^-1
    Vec t1 = Vec::Constant(n, Real(1)), t2 = Vec::Constant(n, Real(2)), t3 = Vec::Constant(n, Real(3));
    bop->upper_triangular_solve(x.data(), t1.data());
    aop->perform_op(t1.data(), t2.data());
    bop->lower_triangular_solve(t2.data(), t3.data());
    o.v.push_back(widen_vec(t3));
    Op moved(std::move(op));
    Vec y2 = Vec::Constant(n, Real(-5));
    moved.perform_op(x.data(), y2.data());
    o.v.push_back(widen_vec(y2));
    for (Index j = 0; j < n; j++)
    {
        Vec ej = Vec::Zero(n);
        ej[j] = Real(1);
        Vec cj = Vec::Constant(n, Real(11));
        bop->lower_triangular_solve(ej.data(), cj.data());
        o.v.push_back(widen_vec(cj));
    }
    return o;
}

template <typename AOp, typename AArg, typename BOp, typename BArg>
static Out run_reginv_op(const Input& in, const Eff& e)
{
    Out o;
    AArg a(e.A, e.stA, in.formA);
    BArg b(e.B, e.stB, in.formB);
    std::unique_ptr<AOp> aop = a.template make<AOp>();
    std::unique_ptr<BOp> bop = b.template make<BOp>();
    typedef Spectra::SymGEigsRegInvOp<AOp, BOp> Op;
    Op op(*aop, *bop);
    o.ints.push_back((long) op.rows());
    o.ints.push_back((long) op.cols());
    const Index n = in.rows;
    Vec x = to_vec<Real>(in.x);
    Vec y = Vec::Constant(n, Real(777));
    op.perform_op(x.data(), y.data());  // may throw runtime_error
    o.v.push_back(widen_vec(y));
    Vec t1 = Vec::Constant(n, Real(1)), t2 = Vec::Constant(n, Real(2));
    aop->perform_op(x.data(), t1.data());
    bop->solve(t1.data(), t2.data());
    o.v.push_back(widen_vec(t2));
    Op moved(std::move(op));
    Vec y2 = Vec::Constant(n, Real(-5));
    moved.perform_op(x.data(), y2.data());
    o.v.push_back(widen_vec(y2));
    return o;
}

// CompOp<Ssi, BOp> is one of SymGEigsShiftInvertOp / SymGEigsBucklingOp / SymGEigsCayleyOp
template <template <typename, typename> class CompOp, int ModeId, typename Ssi, typename AA, typename BB, typename COp, typename CArg>
static Out run_shift_op(const Input& in, const Eff& e)
{
    Out o;
    AA a(e.A, e.stA, 0);
    BB b(e.B, e.stB, 0);
    CArg cc(e.C, e.stC, in.formC);
    Ssi ssi(a.get_plain(), b.get_plain());
    std::unique_ptr<COp> cop = cc.template make<COp>();
    typedef CompOp<Ssi, COp> Op;
    Op op(ssi, *cop);
    o.ints.push_back((long) op.rows());
    o.ints.push_back((long) op.cols());
    const Real sigma = (Real) in.sigma.real();
    if (in.reshift)
        op.set_shift((Real) in.sigma0.real());
    op.set_shift(sigma);
    const Index n = in.rows;
    Vec x = to_vec<Real>(in.x);
    Vec y = Vec::Constant(n, Real(777));
    op.perform_op(x.data(), y.data());
    o.v.push_back(widen_vec(y));
    // by hand: the second wrapper multiplies, the SymShiftInvert object (already factorized through the adaptor) solves
    Vec t1 = Vec::Constant(n, Real(1)), t2 = Vec::Constant(n, Real(2));
    cop->perform_op(x.data(), t1.data());
    ssi.perform_op(t1.data(), t2.data());
    if (ModeId == M_CAYLEY)
    {
        Vec t3 = x + (Real(2) * sigma) * t2;
        t2 = t3;
    }
    o.v.push_back(widen_vec(t2));
    Op moved(std::move(op));
    Vec y2 = Vec::Constant(n, Real(-5));
    moved.perform_op(x.data(), y2.data());
    o.v.push_back(widen_vec(y2));
    return o;
}

template <typename AOp, typename AArg, typename BOp, typename BArg>
static Out run_arnoldi_op(const Input& in, const Eff& e)
{
    typedef Eigen::Matrix<Real, Eigen::Dynamic, Eigen::Dynamic> Mat;
    Out o;
    AArg a(e.A, e.stA, in.formA);
    BArg b(e.B, e.stB, in.formB);
    std::unique_ptr<AOp> aop = a.template make<AOp>();
    std::unique_ptr<BOp> bop = b.template make<BOp>();
    typedef Spectra::ArnoldiOp<Real, AOp, BOp> Op;
    Op op(*aop, *bop);
    o.ints.push_back((long) op.rows());
    const Index n = in.rows;
    Vec x = to_vec<Real>(in.x), y = to_vec<Real>(in.x2);
    Mat X = to_dense<Real, Eigen::ColMajor>(in.X);
    Vec s(1);
    s[0] = op.inner_product(x, y);
    o.v.push_back(widen_vec(s));
    s[0] = op.norm(x);
    o.v.push_back(widen_vec(s));
    Vec res = Vec::Constant(X.cols(), Real(777));
    op.adjoint_product(X, y, res);
    o.v.push_back(widen_vec(res));
    Vec z = Vec::Constant(n, Real(-5));
    op.perform_op(x.data(), z.data());
    o.v.push_back(widen_vec(z));
    Op moved(std::move(op));
    s[0] = moved.inner_product(x, y);
    o.v.push_back(widen_vec(s));
    return o;
}

// ---- shared -------------------------------------------------------------------------------------------------------------------
static void comp_case(vf::Draw& d, vf::Case& c, const CompTraits& t, RunFn fn, const std::string& name)
{
    const ScalarInfo& si = t.si;
    const int mode = t.mode;
    const Index n = (Index) d.dim("n", 1, 24);
    // roles: Cholesky / RegInv / ShiftInvert / Cayley / Arnoldi: A symmetric, B positive definite; Buckling: A = K positive definite, B = K_G symmetric
    GenSpec gsSym;
    gsSym.kind = K_SYM;
    gsSym.prec = si.prec;
    gsSym.max_scale_exp = si.max_scale_exp;
    GenSpec gsSpd = gsSym;
    gsSpd.kind = K_SPD;
    gsSpd.spd_max_margin_q = (mode == M_REGINV) ? 3 : 4;
    Generated GA = gen_matrix(d, mode == M_BUCKLING ? gsSpd : gsSym, n, n);
    Generated GB = gen_matrix(d, mode == M_BUCKLING ? gsSym : gsSpd, n, n);
    Input in;
    in.rows = in.cols = n;
    in.A = GA.A;
    in.stA = GA.st;
    in.B = GB.A;
    in.stB = GB.st;
    if (t.uploC)
    {
        // the matrix the multiplying wrapper gets: B (shift-invert, Cayley) or K (buckling)
        in.C = (mode == M_BUCKLING) ? in.A : in.B;
        in.stC = (mode == M_BUCKLING) ? in.stA : in.stB;
    }
    in.x = gen_vector(d, "x_seed", n, false, si.prec);
    in.x2 = gen_vector(d, "x2_seed", n, false, si.prec);
    in.X.resize(n, 2);
    in.X.col(0) = gen_vector(d, "X_seed", n, false, si.prec);
    in.X.col(1) = gen_vector(d, "X_seed", n, false, si.prec);
    in.formA = (int) d.range("formA", 0, t.sparseA ? 4 : 3);
    in.formB = (int) d.range("formB", 0, t.sparseB ? 4 : 3);
    in.formC = t.uploC ? (int) d.range("formC", 0, t.sparseC ? 4 : 3) : 0;
    const ld normA = vf::fro_scaled(in.A), normB = vf::fro_scaled(in.B);
    const bool shifted = mode == M_SHIFT_INVERT || mode == M_BUCKLING || mode == M_CAYLEY;
    int sk = 0;
    if (shifted)
    {
        sk = (int) d.range("shift_kind", 0, 2);
        const ld unit_shift = (normB > 0 && normA > 0) ? normA / normB : 1;
        ld sig = 0;
        if (sk == 1)
            sig = (ld) d.range("shift", -32, 32) / 16 * unit_shift;
        else if (sk == 2)
        {
            const Index k = (Index) d.range("near_eigenvalue", 0, n - 1);
            const ld delta = std::pow((ld) 10, -(ld) d.range("distance_exp", 1, si.prec == P_FLOAT ? 3 : 6));
            ld lam = 0;
            if (normA > 0 && normB > 0)
            {
                // generalized eigenvalues of (A, B) with the positive definite one on the right
                vf::MatL Ar = in.A.real() / normA, Br = in.B.real() / normB;
                if (mode == M_BUCKLING)
                {
                    Eigen::GeneralizedSelfAdjointEigenSolver<vf::MatL> ges(Br, Ar, Eigen::EigenvaluesOnly);  // K_G x = mu K x, lambda = 1/mu
                    ld mu = ges.eigenvalues()[k];
                    lam = (mu != 0) ? unit_shift / mu : 0;
                }
                else
                {
                    Eigen::GeneralizedSelfAdjointEigenSolver<vf::MatL> ges(Ar, Br, Eigen::EigenvaluesOnly);
                    lam = ges.eigenvalues()[k] * unit_shift;
                }
            }
            sig = lam * (1 + delta) + delta * unit_shift;
        }
        in.sigma = round_to(cld(sig, 0), si.prec);
        in.reshift = d.flag("shift_set_twice");
        in.sigma0 = round_to(cld((ld) 0.37 * unit_shift, 0), si.prec);
    }
    const int gkA = (int) d.range("unused_triangle_A", 1, 3);
    const int gkB = (int) d.range("unused_triangle_B", 1, 3);
    const int gkC = t.uploC ? (int) d.range("unused_triangle_C", 1, 3) : 0;

    {
        std::ostringstream os;
        os << name << " A: " << GA.desc << "; B: " << GB.desc << "; forms=" << (t.sparseA ? SPARSE_FORMS : DENSE_FORMS)[in.formA] << "/" << (t.sparseB ? SPARSE_FORMS : DENSE_FORMS)[in.formB];
        if (shifted)
            os << " sigma=" << (double) in.sigma.real() << (in.reshift ? " after set_shift(other)" : "");
        os << " unused triangles: A=" << GARBAGE_NAMES[gkA] << " B=" << GARBAGE_NAMES[gkB];
        if (t.uploC)
            os << " C=" << GARBAGE_NAMES[gkC];
        if (n <= 4)
            os << " A=" << vf::show(in.A, 4) << " B=" << vf::show(in.B, 4) << " x=" << vf::show(in.x, 4);
        c.add_desc(os.str());
    }
    c.cls(std::string("composite/") + MODE_NAMES[mode]);
    c.cls(std::string("scalar/") + si.name);
    if (n == 1)
        c.cls("n=1");
    if (shifted)
        c.cls(std::string("shift/") + (sk == 0 ? "zero" : sk == 1 ? "random" : "near_generalized_eigenvalue"));
    c.sfeat["wrapper"] = MODE_NAMES[mode];
    c.sfeat["uploB"] = uplo_name(t.uploB);

    // reference quantities
    const CMatL& Bpd = (mode == M_BUCKLING) ? in.A : in.B;  // the positive definite one
    SolveRef RB = ref_factor(Bpd, true);
    const ld condB = RB.singular ? std::numeric_limits<ld>::infinity() : RB.smax / RB.smin;
    const ld condB_max = (mode == M_REGINV) ? (ld) 1e2 : std::min(si.max_cond, (ld) 1e4);
    SolveRef RM;
    ld condM = 1;
    if (shifted)
    {
        CMatL M = in.A - in.sigma * in.B;
        RM = ref_factor(M, true);
        condM = RM.singular ? std::numeric_limits<ld>::infinity() : (normA + std::abs(in.sigma) * normB) / RM.smin;
        if (in.reshift && !RM.singular)
        {
            CMatL M0 = in.A - in.sigma0 * in.B;
            SolveRef R0 = ref_factor(M0, true);
            if (R0.singular || (normA + std::abs(in.sigma0) * normB) / R0.smin > si.max_cond)
                condM = std::numeric_limits<ld>::infinity();
        }
    }
    if (((mode == M_CHOLESKY || mode == M_REGINV) && !(condB <= condB_max)) || (shifted && !(condM <= si.max_cond)))
    {
        c.rejected = true;
        c.cls("rejected/ill_conditioned");
        return;
    }

    Eff clean;
    clean.A = in.A;
    clean.stA = in.stA;
    clean.B = in.B;
    clean.stB = in.stB;
    clean.C = in.C;
    clean.stC = in.stC;
    Out o = safe_run(fn, in, clean);
    if (mode == M_REGINV && o.threw == 2)
    {
        c.rejected = true;
        c.cls("cg_runtime_error");
        return;
    }
    c.nontrivial = n >= 2;
    VF_CHECK(o.threw == 0, shifted ? "false_singular" : "unexpected_exception", name << ": exception '" << o.what << "' (cond = " << vf::num(shifted ? condM : condB) << ")");
    const ld neps = (ld) n * si.eps;
    const ld nx = in.x.norm();
    std::string why;
    if (mode == M_CHOLESKY)
    {
        VF_CHECK(o.ints[0] == (long) Spectra::CompInfo::Successful, "false_not_spd", name << ": Cholesky info() = " << o.ints[0] << " for cond(B) = " << vf::num(condB));
        VF_CHECK(o.ints[1] == n && o.ints[2] == n, "dimensions", name << ": rows()/cols() = " << o.ints[1] << "x" << o.ints[2]);
        VF_CHECK(vf::bits_equal(o.v[0], o.v[1]), "composition", name << ": perform_op differs from upper_triangular_solve -> A product -> lower_triangular_solve done by hand (max diff " << vf::num(vf::maxabs(o.v[0] - o.v[1])) << ")");
        VF_CHECK(vf::bits_equal(o.v[0], o.v[2]), "move_constructor", name << ": a move-constructed operator gives a different result");
        std::vector<Index> pi(n), seen(n, 0);
        for (Index j = 0; j < n; j++)
        {
            const CVecL& col = o.v[3 + j];
            Index z = 0;
            while (z < n && col[z] == cld(0))
                z++;
            VF_CHECK(z < n && !seen[z], "triangular_structure", name << ": x -> L^-1 x is not a column-permuted lower triangular operator");
            seen[z] = 1;
            pi[j] = z;
        }
        CMatL PB(n, n);
        for (Index i = 0; i < n; i++)
            for (Index j = 0; j < n; j++)
                PB(pi[i], pi[j]) = in.B(i, j);
        Eigen::LLT<CMatL> llt(PB);
        VF_CHECK(llt.info() == Eigen::Success, "reference", "internal: long double Cholesky of the reference failed");
        CMatL L = llt.matrixL();
        CMatL Li = L.triangularView<Eigen::Lower>().solve(CMatL::Identity(n, n));
        CMatL W(n, n);  // W = L^-1 P
        for (Index j = 0; j < n; j++)
            W.col(j) = Li.col(pi[j]);
        CVecL want = W * (in.A * (W.adjoint() * in.x));
        // each of the three steps is backward stable; the computed factor itself is within n eps cond(B) of the exact one
        const ld unit = neps * condB * std::sqrt(condB) / RB.smin * normA * nx;
        check_close(o.v[0], want, unit, "composite", name + " perform_op", "L^-1 A L^-T x: err/(n eps cond(B)^1.5 ||B^-1|| ||A|| ||x||)");
    }
    else if (mode == M_REGINV)
    {
        VF_CHECK(o.ints[0] == n && o.ints[1] == n, "dimensions", name << ": rows()/cols() = " << o.ints[0] << "x" << o.ints[1]);
        VF_CHECK(vf::bits_equal(o.v[0], o.v[1]), "composition", name << ": perform_op differs from A product -> B solve done by hand");
        VF_CHECK(vf::bits_equal(o.v[0], o.v[2]), "move_constructor", name << ": a move-constructed operator gives a different result");
        CVecL want = RB.Minv * (in.A * in.x);
        const ld unit = neps * (condB * want.norm() + normA * nx / RB.smin);
        check_close(o.v[0], want, unit, "composite", name + " perform_op", "B^-1 A x: err/(n eps (cond ||y|| + ||B^-1|| ||A|| ||x||))");
    }
    else if (shifted)
    {
        VF_CHECK(o.ints[0] == n && o.ints[1] == n, "dimensions", name << ": rows()/cols() = " << o.ints[0] << "x" << o.ints[1]);
        VF_CHECK(vf::bits_equal(o.v[0], o.v[1]), "composition", name << ": perform_op differs from the product and the shift-invert solve done by hand (max diff " << vf::num(vf::maxabs(o.v[0] - o.v[1])) << ")");
        VF_CHECK(vf::bits_equal(o.v[0], o.v[2]), "move_constructor", name << ": a move-constructed operator gives a different result");
        const ld normC = vf::fro_scaled(in.C);
        CVecL u = RM.Minv * (in.C * in.x);
        if (mode == M_CAYLEY)
        {
            // reference through the identity (A - sB)^-1 (A + sB) x = x + 2 s (A - sB)^-1 B x: in exact arithmetic the same vector, but
            // (unlike M^-1 applied to (A + sB) x) its own rounding error is covered by the terms of the bound also for small |s|
            CVecL want = in.x + cld(2) * in.sigma * u;
            const ld unit = neps * (2 * std::abs(in.sigma) * (condM * u.norm() + normC * nx / RM.smin) + nx + want.norm());
            check_close(o.v[0], want, unit, "composite", name + " perform_op", "(A-sB)^-1 (A+sB) x: err/(n eps (2|s|(cond ||u|| + ||M^-1|| ||B|| ||x||) + ||x|| + ||y||))");
        }
        else
        {
            const ld unit = neps * (condM * u.norm() + normC * nx / RM.smin);
            check_close(o.v[0], u, unit, "composite", name + " perform_op", "(A-sB)^-1 B x: err/(n eps (cond ||y|| + ||M^-1|| ||B|| ||x||))");
        }
    }
    else  // ArnoldiOp
    {
        VF_CHECK(o.ints[0] == n, "dimensions", name << ": rows() = " << o.ints[0]);
        const ld ny = in.x2.norm();
        CVecL want(1);
        want[0] = (in.x.adjoint() * (in.B * in.x2))(0, 0);
        check_close(o.v[0], want, neps * normB * nx * ny, "inner_product", name + " inner_product", "x'By: err/(n eps ||B|| ||x|| ||y||)");
        VF_CHECK(vf::bits_equal(o.v[0], o.v[4]), "move_constructor", name << ": a move-constructed operator gives a different inner product");
        CVecL nsq(1), wsq(1);
        nsq[0] = o.v[1][0] * o.v[1][0];
        wsq[0] = (in.x.adjoint() * (in.B * in.x))(0, 0);
        VF_CHECK(o.v[1][0].real() >= 0, "norm", name << ": negative B-norm");
        check_close(nsq, wsq, neps * normB * nx * nx, "norm", name + " norm (squared)", "||x||_B^2: err/(n eps ||B|| ||x||^2)");
        CVecL wa = in.X.adjoint() * (in.B * in.x2);
        check_close(o.v[2], wa, neps * normB * vf::fro_scaled(in.X) * ny, "adjoint_product", name + " adjoint_product", "X'By: err/(n eps ||B|| ||X|| ||y||)");
        CVecL wp = in.A * in.x;
        check_close(o.v[3], wp, neps * normA * nx, "product", name + " perform_op", "A x: err/(n eps ||A|| ||x||)");
    }

    // every unused triangle overwritten at once
    Eff g;
    make_variant(in.A, in.stA, t.uploA, gkA, GA.scale, false, g.A, g.stA);
    make_variant(in.B, in.stB, t.uploB, gkB, GB.scale, false, g.B, g.stB);
    if (t.uploC)
        make_variant(in.C, in.stC, t.uploC, gkC, mode == M_BUCKLING ? GA.scale : GB.scale, false, g.C, g.stC);
    Out og = safe_run(fn, in, g);
    c.cls(std::string("unused_triangle_A/") + GARBAGE_NAMES[gkA]);
    c.cls(std::string("unused_triangle_B/") + GARBAGE_NAMES[gkB]);
    VF_CHECK(same_bits(o, og, why), "unused_triangle_read", name << ": outputs change when the unused triangles are replaced (A: " << GARBAGE_NAMES[gkA] << ", B: " << GARBAGE_NAMES[gkB] << "): " << why);
}

// ---- registry -------------------------------------------------------------------------------------------------------------------
template <int U, int F>
using DSym = Spectra::DenseSymMatProd<Real, U, F>;
template <int U, int F, typename I>
using SSym = Spectra::SparseSymMatProd<Real, U, F, I>;
template <int U, int F>
using DChol = Spectra::DenseCholesky<Real, U, F>;
template <int U, int F, typename I>
using SChol = Spectra::SparseCholesky<Real, U, F, I>;
template <int U, int F, typename I>
using RegInv = Spectra::SparseRegularInverse<Real, U, F, I>;
template <int F>
using DA = DenseArg<Real, F>;
template <int F, typename I>
using SA = SparseArg<Real, F, I>;
template <typename TA, typename TB, int UA, int UB, int FA, int FB, typename I>
using Ssi = Spectra::SymShiftInvert<Real, TA, TB, UA, UB, FA, FB, I, I>;

static CompTraits mk(int mode, int ua, bool sa, int ub, bool sb, int uc, bool sc)
{
    CompTraits t;
    t.si = sinfo<Real>();
    t.mode = mode;
    t.uploA = ua;
    t.uploB = ub;
    t.uploC = uc;
    t.sparseA = sa;
    t.sparseB = sb;
    t.sparseC = sc;
    return t;
}
static void add(const CompTraits& t, RunFn fn, const std::string& nm)
{
    std::string full = std::string(MODE_NAMES[t.mode]) + "<" + vf::Sc<Real>::name() + ": " + nm + ">";
    registry().push_back({full, [t, fn, full](vf::Draw& d, vf::Case& c) { comp_case(d, c, t, fn, full); }});
}

#define LO Eigen::Lower
#define UP Eigen::Upper
#define CMJ Eigen::ColMajor
#define RMJ Eigen::RowMajor
#define TY(...) __VA_ARGS__
// two-wrapper adaptors: A wrapper (type, arg, uplo, sparse), B wrapper (type, arg, uplo, sparse)
#define REG2(MODE, RUN, AOP, AARG, UA, SPA, BOP, BARG, UB, SPB, NAME) add(mk(MODE, UA, SPA, UB, SPB, 0, false), &RUN<AOP, AARG, BOP, BARG>, NAME);
// shift adaptors: SymShiftInvert<TA, TB, UA, UB, FA, FB, I> + multiplying wrapper on C
#define REG3(MODE, COMPOP, TA, SPA, TB, SPB, UA, UB, FA, FB, I, AARG, BARG, COP, CARG, UC, SPC, NAME) \
    add(mk(MODE, UA, SPA, UB, SPB, UC, SPC), &run_shift_op<Spectra::COMPOP, MODE, Ssi<Eigen::TA, Eigen::TB, UA, UB, FA, FB, I>, AARG, BARG, COP, CARG>, NAME);

#ifndef C11_PART
#define C11_PART 0
#endif

static void fill_registry()
{
#if C11_PART == 0 || C11_PART == 1
    // Cholesky mode
    REG2(M_CHOLESKY, run_cholesky_op, TY(DSym<LO, CMJ>), DA<CMJ>, LO, false, TY(DChol<LO, CMJ>), DA<CMJ>, LO, false, "DenseSymMatProd<Lower,ColMajor> + DenseCholesky<Lower,ColMajor>")
    REG2(M_CHOLESKY, run_cholesky_op, TY(DSym<UP, RMJ>), DA<RMJ>, UP, false, TY(DChol<UP, RMJ>), DA<RMJ>, UP, false, "DenseSymMatProd<Upper,RowMajor> + DenseCholesky<Upper,RowMajor>")
    REG2(M_CHOLESKY, run_cholesky_op, TY(DSym<LO, RMJ>), DA<RMJ>, LO, false, TY(DChol<UP, CMJ>), DA<CMJ>, UP, false, "DenseSymMatProd<Lower,RowMajor> + DenseCholesky<Upper,ColMajor>")
    REG2(M_CHOLESKY, run_cholesky_op, TY(DSym<UP, CMJ>), DA<CMJ>, UP, false, TY(DChol<LO, RMJ>), DA<RMJ>, LO, false, "DenseSymMatProd<Upper,ColMajor> + DenseCholesky<Lower,RowMajor>")
    REG2(M_CHOLESKY, run_cholesky_op, TY(SSym<LO, CMJ, int>), TY(SA<CMJ, int>), LO, true, TY(SChol<LO, CMJ, int>), TY(SA<CMJ, int>), LO, true, "SparseSymMatProd<Lower,ColMajor> + SparseCholesky<Lower,ColMajor>")
    REG2(M_CHOLESKY, run_cholesky_op, TY(SSym<UP, RMJ, int>), TY(SA<RMJ, int>), UP, true, TY(SChol<UP, RMJ, int>), TY(SA<RMJ, int>), UP, true, "SparseSymMatProd<Upper,RowMajor> + SparseCholesky<Upper,RowMajor>")
    REG2(M_CHOLESKY, run_cholesky_op, TY(SSym<LO, RMJ, int>), TY(SA<RMJ, int>), LO, true, TY(SChol<UP, CMJ, int>), TY(SA<CMJ, int>), UP, true, "SparseSymMatProd<Lower,RowMajor> + SparseCholesky<Upper,ColMajor>")
    REG2(M_CHOLESKY, run_cholesky_op, TY(SSym<UP, CMJ, int>), TY(SA<CMJ, int>), UP, true, TY(SChol<LO, RMJ, int>), TY(SA<RMJ, int>), LO, true, "SparseSymMatProd<Upper,ColMajor> + SparseCholesky<Lower,RowMajor>")
    REG2(M_CHOLESKY, run_cholesky_op, TY(DSym<LO, CMJ>), DA<CMJ>, LO, false, TY(SChol<UP, CMJ, int>), TY(SA<CMJ, int>), UP, true, "DenseSymMatProd<Lower,ColMajor> + SparseCholesky<Upper,ColMajor>")
    REG2(M_CHOLESKY, run_cholesky_op, TY(SSym<UP, RMJ, int>), TY(SA<RMJ, int>), UP, true, TY(DChol<LO, CMJ>), DA<CMJ>, LO, false, "SparseSymMatProd<Upper,RowMajor> + DenseCholesky<Lower,ColMajor>")
    REG2(M_CHOLESKY, run_cholesky_op, TY(SSym<LO, CMJ, long>), TY(SA<CMJ, long>), LO, true, TY(SChol<LO, CMJ, long>), TY(SA<CMJ, long>), LO, true, "SparseSymMatProd<Lower,ColMajor,long> + SparseCholesky<Lower,ColMajor,long>")
    REG2(M_CHOLESKY, run_cholesky_op, TY(DSym<UP, CMJ>), DA<CMJ>, UP, false, TY(SChol<LO, RMJ, long>), TY(SA<RMJ, long>), LO, true, "DenseSymMatProd<Upper,ColMajor> + SparseCholesky<Lower,RowMajor,long>")
    // regular inverse mode
    REG2(M_REGINV, run_reginv_op, TY(SSym<LO, CMJ, int>), TY(SA<CMJ, int>), LO, true, TY(RegInv<LO, CMJ, int>), TY(SA<CMJ, int>), LO, true, "SparseSymMatProd<Lower,ColMajor> + SparseRegularInverse<Lower,ColMajor>")
    REG2(M_REGINV, run_reginv_op, TY(SSym<UP, RMJ, int>), TY(SA<RMJ, int>), UP, true, TY(RegInv<LO, RMJ, int>), TY(SA<RMJ, int>), LO, true, "SparseSymMatProd<Upper,RowMajor> + SparseRegularInverse<Lower,RowMajor>")
    REG2(M_REGINV, run_reginv_op, TY(SSym<LO, RMJ, int>), TY(SA<RMJ, int>), LO, true, TY(RegInv<UP, CMJ, int>), TY(SA<CMJ, int>), UP, true, "SparseSymMatProd<Lower,RowMajor> + SparseRegularInverse<Upper,ColMajor>")
    REG2(M_REGINV, run_reginv_op, TY(SSym<UP, CMJ, int>), TY(SA<CMJ, int>), UP, true, TY(RegInv<UP, RMJ, int>), TY(SA<RMJ, int>), UP, true, "SparseSymMatProd<Upper,ColMajor> + SparseRegularInverse<Upper,RowMajor>")
    REG2(M_REGINV, run_reginv_op, TY(DSym<LO, CMJ>), DA<CMJ>, LO, false, TY(RegInv<LO, CMJ, int>), TY(SA<CMJ, int>), LO, true, "DenseSymMatProd<Lower,ColMajor> + SparseRegularInverse<Lower,ColMajor>")
    REG2(M_REGINV, run_reginv_op, TY(DSym<UP, RMJ>), DA<RMJ>, UP, false, TY(RegInv<UP, RMJ, int>), TY(SA<RMJ, int>), UP, true, "DenseSymMatProd<Upper,RowMajor> + SparseRegularInverse<Upper,RowMajor>")
    REG2(M_REGINV, run_reginv_op, TY(DSym<LO, RMJ>), DA<RMJ>, LO, false, TY(RegInv<LO, RMJ, long>), TY(SA<RMJ, long>), LO, true, "DenseSymMatProd<Lower,RowMajor> + SparseRegularInverse<Lower,RowMajor,long>")
    REG2(M_REGINV, run_reginv_op, TY(SSym<LO, CMJ, long>), TY(SA<CMJ, long>), LO, true, TY(RegInv<UP, CMJ, long>), TY(SA<CMJ, long>), UP, true, "SparseSymMatProd<Lower,ColMajor,long> + SparseRegularInverse<Upper,ColMajor,long>")
    // Arnoldi operator with a B inner product
    REG2(M_ARNOLDI, run_arnoldi_op, TY(DSym<LO, CMJ>), DA<CMJ>, LO, false, TY(DSym<UP, RMJ>), DA<RMJ>, UP, false, "DenseSymMatProd<Lower,ColMajor>, B = DenseSymMatProd<Upper,RowMajor>")
    REG2(M_ARNOLDI, run_arnoldi_op, TY(SSym<UP, RMJ, int>), TY(SA<RMJ, int>), UP, true, TY(SSym<LO, CMJ, int>), TY(SA<CMJ, int>), LO, true, "SparseSymMatProd<Upper,RowMajor>, B = SparseSymMatProd<Lower,ColMajor>")
    REG2(M_ARNOLDI, run_arnoldi_op, TY(SSym<LO, CMJ, int>), TY(SA<CMJ, int>), LO, true, TY(RegInv<LO, RMJ, int>), TY(SA<RMJ, int>), LO, true, "SparseSymMatProd<Lower,ColMajor>, B = SparseRegularInverse<Lower,RowMajor>")
    REG2(M_ARNOLDI, run_arnoldi_op, TY(DSym<UP, CMJ>), DA<CMJ>, UP, false, TY(SSym<UP, CMJ, long>), TY(SA<CMJ, long>), UP, true, "DenseSymMatProd<Upper,ColMajor>, B = SparseSymMatProd<Upper,ColMajor,long>")
#endif
#if C11_PART == 0 || C11_PART == 2
    // shift-and-invert, buckling, Cayley: SymShiftInvert<TypeA,TypeB,UploA,UploB,FlagsA,FlagsB> + multiplying wrapper
#define SHIFT_SET(MODE, COMPOP)                                                                                                                                                                                         \
    REG3(MODE, COMPOP, Sparse, true, Sparse, true, LO, LO, CMJ, CMJ, int, TY(SA<CMJ, int>), TY(SA<CMJ, int>), TY(SSym<LO, CMJ, int>), TY(SA<CMJ, int>), LO, true, "SymShiftInvert<Sparse,Sparse,Lower,Lower,ColMajor,ColMajor> + SparseSymMatProd<Lower,ColMajor>")       \
    REG3(MODE, COMPOP, Sparse, true, Sparse, true, UP, LO, RMJ, CMJ, int, TY(SA<RMJ, int>), TY(SA<CMJ, int>), TY(SSym<UP, RMJ, int>), TY(SA<RMJ, int>), UP, true, "SymShiftInvert<Sparse,Sparse,Upper,Lower,RowMajor,ColMajor> + SparseSymMatProd<Upper,RowMajor>")       \
    REG3(MODE, COMPOP, Sparse, true, Dense, false, LO, UP, CMJ, RMJ, int, TY(SA<CMJ, int>), DA<RMJ>, TY(DSym<LO, RMJ>), DA<RMJ>, LO, false, "SymShiftInvert<Sparse,Dense,Lower,Upper,ColMajor,RowMajor> + DenseSymMatProd<Lower,RowMajor>")                             \
    REG3(MODE, COMPOP, Sparse, true, Dense, false, UP, UP, RMJ, CMJ, int, TY(SA<RMJ, int>), DA<CMJ>, TY(SSym<LO, CMJ, int>), TY(SA<CMJ, int>), LO, true, "SymShiftInvert<Sparse,Dense,Upper,Upper,RowMajor,ColMajor> + SparseSymMatProd<Lower,ColMajor>")                \
    REG3(MODE, COMPOP, Dense, false, Sparse, true, LO, UP, RMJ, CMJ, int, DA<RMJ>, TY(SA<CMJ, int>), TY(SSym<UP, CMJ, int>), TY(SA<CMJ, int>), UP, true, "SymShiftInvert<Dense,Sparse,Lower,Upper,RowMajor,ColMajor> + SparseSymMatProd<Upper,ColMajor>")                \
    REG3(MODE, COMPOP, Dense, false, Sparse, true, UP, LO, CMJ, RMJ, long, DA<CMJ>, TY(SA<RMJ, long>), TY(SSym<LO, RMJ, long>), TY(SA<RMJ, long>), LO, true, "SymShiftInvert<Dense,Sparse,Upper,Lower,ColMajor,RowMajor,long> + SparseSymMatProd<Lower,RowMajor,long>")   \
    REG3(MODE, COMPOP, Dense, false, Dense, false, LO, LO, CMJ, CMJ, int, DA<CMJ>, DA<CMJ>, TY(DSym<LO, CMJ>), DA<CMJ>, LO, false, "SymShiftInvert<Dense,Dense,Lower,Lower,ColMajor,ColMajor> + DenseSymMatProd<Lower,ColMajor>")                                      \
    REG3(MODE, COMPOP, Dense, false, Dense, false, UP, LO, RMJ, RMJ, int, DA<RMJ>, DA<RMJ>, TY(DSym<UP, CMJ>), DA<CMJ>, UP, false, "SymShiftInvert<Dense,Dense,Upper,Lower,RowMajor,RowMajor> + DenseSymMatProd<Upper,ColMajor>")
    SHIFT_SET(M_SHIFT_INVERT, SymGEigsShiftInvertOp)
    SHIFT_SET(M_BUCKLING, SymGEigsBucklingOp)
    SHIFT_SET(M_CAYLEY, SymGEigsCayleyOp)
#endif
}

// Known findings: the regular-inverse adaptor inherits KF-C11-1 (D7) from SparseRegularInverse<.., Eigen::Upper, ..>
static std::string match(const vf::Violation& v, const vf::Case& c)
{
    if (v.kind == "unused_triangle_read" && c.s("wrapper") == "SymGEigsRegInvOp" && c.s("uploB") == "Upper")
        return "regular_inverse_cg_ignores_uplo";
    return "";
}

static void run_case(vf::Draw& d, vf::Case& c)
{
    run_registered(d, c);
}

int main(int argc, char** argv)
{
    fill_registry();
    return vf::run_main(argc, argv, "C11", run_case, match);
}
