// C18 - eigenvalue ordering primitive: permutation, key order, BothEnds prefix property, rejection
// of undefined rule/type combinations. Exhaustive enumeration over small alphabets + rapidcheck layer.
#include "vf/eigen_assert.hpp"
#include <Eigen/Core>
#include <Spectra/Util/SelectionRule.h>
#include <Spectra/SymEigsSolver.h>
#include <Spectra/GenEigsSolver.h>
#include <Spectra/MatOp/DenseSymMatProd.h>
#include <Spectra/MatOp/DenseGenMatProd.h>
#include "vf/runner.hpp"
#include <complex>
#include <algorithm>

using Spectra::SortRule;
using Index = Eigen::Index;
typedef std::complex<double> cd;

static const SortRule RULES[9] = {SortRule::LargestMagn, SortRule::LargestReal, SortRule::LargestImag,
                                  SortRule::LargestAlge, SortRule::SmallestMagn, SortRule::SmallestReal,
                                  SortRule::SmallestImag, SortRule::SmallestAlge, SortRule::BothEnds};
static const char* RULE_NAMES[9] = {"LargestMagn", "LargestReal", "LargestImag", "LargestAlge", "SmallestMagn",
                                    "SmallestReal", "SmallestImag", "SmallestAlge", "BothEnds"};

static const double REAL_ALPHA[7] = {-2.0, -1.0, -0.0, 0.0, 1.0, 1.0, 2.0};
static const cd CPLX_ALPHA[8] = {cd(0, 0), cd(1, 0), cd(-1, 0), cd(0, 1), cd(0, -1), cd(1, 1), cd(1, -1), cd(2, 0)};

// ---- specification (written from the documentation of SortRule, independent of the library) ----
// key such that ascending key order == the order the rule names; returns false if the rule is
// not defined for the type.
static bool spec_key_real(int rule, double x, double& key)
{
    switch (rule)
    {
        case 0: key = -std::fabs(x); return true;   // LargestMagn
        case 3: key = -x; return true;              // LargestAlge
        case 4: key = std::fabs(x); return true;    // SmallestMagn
        case 7: key = x; return true;               // SmallestAlge
        case 8: key = -x; return true;              // BothEnds (handled separately)
        default: return false;                      // *Real / *Imag: complex only
    }
}
static bool spec_key_cplx(int rule, cd x, double& key)
{
    switch (rule)
    {
        case 0: key = -std::abs(x); return true;
        case 1: key = -x.real(); return true;
        case 2: key = -std::fabs(x.imag()); return true;
        case 4: key = std::abs(x); return true;
        case 5: key = x.real(); return true;
        case 6: key = std::fabs(x.imag()); return true;
        default: return false;  // *Alge, BothEnds: real only
    }
}

template <typename T, SortRule R>
static std::vector<Index> call_sorteig(const T* p, Index len)
{
    Spectra::SortEigenvalue<T, R> s(p, len);
    return s.index();
}

static std::vector<Index> sorteig_real(int rule, const double* p, Index len)
{
    switch (rule)
    {
        case 0: return call_sorteig<double, SortRule::LargestMagn>(p, len);
        case 1: return call_sorteig<double, SortRule::LargestReal>(p, len);
        case 2: return call_sorteig<double, SortRule::LargestImag>(p, len);
        case 3: return call_sorteig<double, SortRule::LargestAlge>(p, len);
        case 4: return call_sorteig<double, SortRule::SmallestMagn>(p, len);
        case 5: return call_sorteig<double, SortRule::SmallestReal>(p, len);
        case 6: return call_sorteig<double, SortRule::SmallestImag>(p, len);
        case 7: return call_sorteig<double, SortRule::SmallestAlge>(p, len);
        default: return call_sorteig<double, SortRule::BothEnds>(p, len);
    }
}
// complex x {LargestAlge, SmallestAlge, BothEnds} does not compile (operator< on std::complex):
// rejected at compile time, nothing to run.
static std::vector<Index> sorteig_cplx(int rule, const cd* p, Index len)
{
    switch (rule)
    {
        case 0: return call_sorteig<cd, SortRule::LargestMagn>(p, len);
        case 1: return call_sorteig<cd, SortRule::LargestReal>(p, len);
        case 2: return call_sorteig<cd, SortRule::LargestImag>(p, len);
        case 4: return call_sorteig<cd, SortRule::SmallestMagn>(p, len);
        case 5: return call_sorteig<cd, SortRule::SmallestReal>(p, len);
        default: return call_sorteig<cd, SortRule::SmallestImag>(p, len);
    }
}

static void check_perm(const std::vector<Index>& ind, Index len)
{
    VF_CHECK((Index) ind.size() == len, "perm_size", "size " << ind.size() << " expected " << len);
    std::vector<char> seen(len, 0);
    for (Index i = 0; i < len; i++)
    {
        VF_CHECK(ind[i] >= 0 && ind[i] < len, "perm_range", "ind[" << i << "]=" << ind[i]);
        VF_CHECK(!seen[ind[i]], "perm_dup", "index " << ind[i] << " twice");
        seen[ind[i]] = 1;
    }
}

// api: 0 SortEigenvalue, 1 argsort(rule, v), 2 argsort(rule, v, len) with v longer than len
static void check_real(int rule, int api, const std::vector<double>& vals, Index len, vf::Case& c)
{
    double dummy;
    bool defined = spec_key_real(rule, 0.0, dummy);
    Eigen::VectorXd v = Eigen::Map<const Eigen::VectorXd>(vals.data(), (Index) vals.size());
    std::vector<Index> ind;
    bool threw = false;
    try
    {
        if (api == 0)
            ind = sorteig_real(rule == 8 ? 3 : rule, v.data(), len);  // BothEnds' target equals LargestAlge's
        else if (api == 1)
            ind = Spectra::argsort<double>(RULES[rule], v);
        else
            ind = Spectra::argsort<double>(RULES[rule], v, len);
    }
    catch (const std::invalid_argument&)
    {
        threw = true;
    }
    if (!defined)
    {
        // argsort rejects for every length; the raw comparator can only reject when it is called (len >= 2)
        if (api != 0 || len >= 2)
        {
            VF_CHECK(threw, "undefined_rule_accepted", "rule " << RULE_NAMES[rule] << " on real values, api " << api << " len " << len);
            c.cls("rejected_undefined");
            c.nontrivial = true;
        }
        return;
    }
    VF_CHECK(!threw, "defined_rule_rejected", "rule " << RULE_NAMES[rule] << " on real values");
    check_perm(ind, len);
    bool tie = false;
    if (rule == 8 && api != 0)
    {
        // BothEnds: for every k the first k positions hold ceil(k/2) largest and floor(k/2) smallest (as multisets)
        std::vector<double> sorted(vals.begin(), vals.begin() + len);
        std::sort(sorted.begin(), sorted.end());
        for (Index k = 1; k <= len; k++)
        {
            std::vector<double> got, want;
            for (Index i = 0; i < k; i++)
                got.push_back(vals[ind[i]]);
            Index top = (k + 1) / 2, bot = k / 2;
            for (Index i = 0; i < top; i++)
                want.push_back(sorted[len - 1 - i]);
            for (Index i = 0; i < bot; i++)
                want.push_back(sorted[i]);
            std::sort(got.begin(), got.end());
            std::sort(want.begin(), want.end());
            for (Index i = 0; i < k; i++)
                VF_CHECK(got[i] == want[i], "bothends_prefix", "k=" << k << " got " << got[i] << " want " << want[i]);
        }
        for (Index i = 0; i + 1 < len; i++)
            if (sorted[i] == sorted[i + 1])
                tie = true;
    }
    else
    {
        for (Index i = 0; i + 1 < len; i++)
        {
            double k0, k1;
            spec_key_real(rule, vals[ind[i]], k0);
            spec_key_real(rule, vals[ind[i + 1]], k1);
            VF_CHECK(k0 <= k1, "order", "rule " << RULE_NAMES[rule] << " pos " << i << " " << vals[ind[i]] << " before " << vals[ind[i + 1]]);
            if (k0 == k1)
                tie = true;
        }
    }
    if (tie)
    {
        c.nontrivial = true;
        c.cls("tie");
    }
}

static void check_cplx(int rule, const std::vector<cd>& vals, Index len, vf::Case& c)
{
    double dummy;
    if (!spec_key_cplx(rule, cd(0, 0), dummy))
    {
        c.cls("complex_alge_not_instantiable");
        return;
    }
    std::vector<Index> ind = sorteig_cplx(rule, vals.data(), len);
    check_perm(ind, len);
    bool tie = false;
    for (Index i = 0; i + 1 < len; i++)
    {
        double k0, k1;
        spec_key_cplx(rule, vals[ind[i]], k0);
        spec_key_cplx(rule, vals[ind[i + 1]], k1);
        VF_CHECK(k0 <= k1, "order", "rule " << RULE_NAMES[rule] << " pos " << i << " " << vals[ind[i]] << " before " << vals[ind[i + 1]]);
        if (k0 == k1)
            tie = true;
    }
    if (tie)
    {
        c.nontrivial = true;
        c.cls("tie");
    }
}

// solvers must reject rules that are not defined for their value type
static void check_solver_dispatch(int rule, vf::Case& c)
{
    Eigen::MatrixXd A = Eigen::MatrixXd::Zero(6, 6);
    for (int i = 0; i < 6; i++)
    {
        A(i, i) = i + 1;
        if (i + 1 < 6)
            A(i, i + 1) = A(i + 1, i) = 0.25;
    }
    double dummy;
    {
        Spectra::DenseSymMatProd<double> op(A);
        Spectra::SymEigsSolver<Spectra::DenseSymMatProd<double>> s(op, 2, 5);
        s.init();
        bool threw = false;
        try
        {
            s.compute(RULES[rule], 50, 1e-10);
        }
        catch (const std::invalid_argument&)
        {
            threw = true;
        }
        bool defined = spec_key_real(rule, 0.0, dummy);
        VF_CHECK(threw == !defined, "solver_dispatch_sym", "rule " << RULE_NAMES[rule] << " threw=" << threw);
    }
    {
        Eigen::MatrixXd G = A;
        G(0, 5) = 0.5;
        Spectra::DenseGenMatProd<double> op(G);
        Spectra::GenEigsSolver<Spectra::DenseGenMatProd<double>> s(op, 2, 6);
        s.init();
        bool threw = false;
        try
        {
            s.compute(RULES[rule], 50, 1e-10);
        }
        catch (const std::invalid_argument&)
        {
            threw = true;
        }
        bool defined = spec_key_cplx(rule, cd(0, 0), dummy);
        VF_CHECK(threw == !defined, "solver_dispatch_gen", "rule " << RULE_NAMES[rule] << " threw=" << threw);
    }
    c.nontrivial = true;
    c.cls("solver_dispatch");
}

// One decoded case. mode 0: alphabet vector (the form the exhaustive layer enumerates),
// mode 1: long vector with heavy ties, mode 2: solver dispatch, mode 3: values m * 10^e over the whole exponent range of double
// (denormals up to the largest finite values, in particular magnitudes whose squares or sums of squares leave the range),
// mode 4: NEAR ties - every value is a base value moved by -3..3 units in the last place (nextafter), so that keys which differ by one
// or two ulp sit next to keys that are exactly equal: an ordering that treats 'almost equal' keys as equal is wrong here.
static void run_case(vf::Draw& d, vf::Case& c)
{
    int mode = (int) d.range("mode", 0, 4);
    int rule = (int) d.range("rule", 0, 8);
    if (mode == 2)
    {
        c.add_desc(std::string("solver dispatch rule=") + RULE_NAMES[rule]);
        check_solver_dispatch(rule, c);
        return;
    }
    int type = (int) d.range("type", 0, 1);
    int api = (int) d.range("api", 0, 2);
    Index len = (Index) d.dim("len", 0, mode == 0 ? 7 : (mode >= 3 ? 24 : 200));
    // mode 3: a base exponent for the vector (tiny band, huge band, anywhere) and a small offset per value
    long base_exp = 0;
    if (mode == 3)
    {
        int band = (int) d.range("band", 0, 2);
        base_exp = band == 0 ? d.range("E", -320, -150) : (band == 1 ? d.range("E", 150, 304) : d.range("E", -320, 304));
        c.cls(band == 0 ? "wide_range/tiny" : (band == 1 ? "wide_range/huge" : "wide_range/any"));
    }
    auto wide = [&]() {
        long m = d.range("m", -9, 9);
        long e = std::min<long>(308, std::max<long>(-323, base_exp + d.range("off", -4, 4)));
        double x = (double) m * std::pow(10.0, (double) e);
        return std::isfinite(x) ? x : (m < 0 ? -std::numeric_limits<double>::max() : std::numeric_limits<double>::max());
    };
    // mode 4: one base magnitude per vector; each value is +-base (or +-base/2 ... in the other component) moved by a few ulp
    static const double NEAR_BASE[6] = {1.0, 3.0, 5.0, 1e-3, 7e5, 0.1};
    double near_base = 1.0;
    if (mode == 4)
    {
        near_base = NEAR_BASE[d.range("near_base", 0, 5)];
        c.cls("near_ties");
    }
    auto near = [&](double b) {
        double x = d.flag("neg") ? -b : b;
        long k = d.range("ulps", -3, 3);
        for (long i = 0; i < std::labs(k); i++)
            x = std::nextafter(x, k > 0 ? std::numeric_limits<double>::infinity() : -std::numeric_limits<double>::infinity());
        return x;
    };
    Index extra = (api == 2) ? (Index) d.range("extra", 1, 3) : 0;
    std::ostringstream os;
    os << (type ? "complex" : "real") << " rule=" << RULE_NAMES[rule] << " api=" << api << " len=" << len << " vals=[";
    if (type == 0)
    {
        std::vector<double> vals;
        for (Index i = 0; i < len + extra; i++)
        {
            double x;
            if (mode == 0)
                x = REAL_ALPHA[d.range("a", 0, 6)];
            else if (mode == 3)
                x = wide();
            else if (mode == 4)
                x = near(near_base);
            else
                x = (double) d.range("v", -6, 6) * (d.flag("half") ? 0.5 : 1.0);
            vals.push_back(x);
            if (i < 12)
                os << x << (i + 1 < len + extra ? "," : "");
        }
        os << "]";
        c.add_desc(os.str());
        c.cls(std::string("real/") + RULE_NAMES[rule]);
        check_real(rule, api, vals, len, c);
    }
    else
    {
        std::vector<cd> vals;
        for (Index i = 0; i < len; i++)
        {
            cd x;
            if (mode == 0)
                x = CPLX_ALPHA[d.range("a", 0, 7)];
            else if (mode == 3)
            {
                double re = wide(), im = wide();
                x = cd(re, im);
            }
            else if (mode == 4)
            {
                // 3-4-5 multiples: |x| = 5 base / 3 exactly before the ulp moves, so magnitudes tie or nearly tie as well
                bool swap = d.flag("swap");
                double re = near(near_base * (swap ? 4.0 : 3.0)), im = near(near_base * (swap ? 3.0 : 4.0));
                x = cd(re, im);
            }
            else
                x = cd((double) d.range("re", -3, 3), (double) d.range("im", -3, 3));
            vals.push_back(x);
            if (i < 12)
                os << x << (i + 1 < len ? "," : "");
        }
        os << "]";
        c.add_desc(os.str());
        c.cls(std::string("complex/") + RULE_NAMES[rule]);
        check_cplx(rule, vals, len, c);
    }
}

// Exhaustive layer: every vector of length 0..maxlen over the alphabets x every rule x every api.
// Each enumerated case is handed to run_case through a TapeDraw, so a failure has the same replay form.
static int exhaustive(int maxlen, int part, int parts)
{
    long count = 0;
    int combo = 0;
    for (int type = 0; type < 2; type++)
    {
        int asz = type ? 8 : 7;
        for (int rule = 0; rule < 9; rule++)
            for (int api = 0; api < (type ? 1 : 3); api++)
                for (int len = 0; len <= maxlen; len++)
                {
                    if ((combo++) % parts != part)
                        continue;
                    int extra = (api == 2) ? 1 : 0;
                    int total = len + extra;
                    std::vector<long> idx(total, 0);
                    while (true)
                    {
                        std::vector<long> tape = {0, rule, type, api, len};
                        if (api == 2)
                            tape.push_back(extra);
                        for (int i = 0; i < total; i++)
                            tape.push_back(idx[i]);
                        vf::TapeDraw d(tape);
                        vf::Case c;
                        std::string msg, sig;
                        int r = vf::execute(run_case, vf::no_match, d, c, msg, sig);
                        vf::report().account_enumerated(c);
                        count++;
                        if (r == 1)
                        {
                            vf::report().violations++;
                            vf::report().violation_msgs.push_back(msg + " | " + c.desc);
                            if (!vf::options().failtape.empty())
                                d.save(vf::options().failtape, std::string("C18 ") + msg + " | " + c.desc);
                            return 1;
                        }
                        int p = total - 1;
                        while (p >= 0 && idx[p] == asz - 1)
                            idx[p--] = 0;
                        if (p < 0)
                            break;
                        idx[p]++;
                    }
                }
    }
    vf::report().notes["exhaustive_layer"] = "all vectors of length 0.." + std::to_string(maxlen) + " over the 7-letter real and 8-letter complex alphabets x 9 rules x apis (part " + std::to_string(part) + "/" + std::to_string(parts) + "): " + std::to_string(count) + " cases";
    vf::report().exhaustive = true;
    return 0;
}

int main(int argc, char** argv)
{
    vf::parse_args(argc, argv);
    if (vf::options().replay.empty())
    {
        int maxlen = (int) vf::options().geti("exh_len", 5);
        if (maxlen >= 0 && exhaustive(maxlen, (int) vf::options().geti("exh_part", 0), (int) vf::options().geti("exh_parts", 1)))
        {
            vf::write_out("C18");
            return 1;
        }
    }
    return vf::run_main(argc, argv, "C18", run_case);
}
