// C11 (part 1) - the six matrix-vector product wrappers in every template configuration:
// DenseGenMatProd, DenseSymMatProd, DenseHermMatProd, SparseGenMatProd, SparseSymMatProd, SparseHermMatProd
// x {ColMajor, RowMajor} x {Lower, Upper} x storage index {int, long} x real / complex scalars in three precisions.
// Oracle: y = A x against a long double product formed from the FULL matrix (64 n eps ||A||_F ||x||), same for
// operator* and operator(); metamorphic: the triangle the wrapper is told not to use is overwritten (finite garbage,
// emptied, different pattern) and every output must stay bit-identical.
#include "vf/eigen_assert.hpp"
#include <Eigen/Core>
#include <Eigen/SparseCore>
#include <Spectra/MatOp/DenseGenMatProd.h>
#include <Spectra/MatOp/DenseSymMatProd.h>
#include <Spectra/MatOp/DenseHermMatProd.h>
#include <Spectra/MatOp/SparseGenMatProd.h>
#include <Spectra/MatOp/SparseSymMatProd.h>
#include <Spectra/MatOp/SparseHermMatProd.h>
#include "c11_common.hpp"

using namespace c11;

struct ProdTraits
{
    ScalarInfo si;
    int kind;         // K_GEN or K_SYM (Hermitian when the scalar is complex)
    int uplo;         // triangle the wrapper is told to use (K_SYM only)
    bool sparse;
    bool has_matmul;  // operator*(matrix) is part of the documented interface
    bool has_elem;    // operator()(i, j) is part of the documented interface
    bool documented_scalar;  // false: the doxygen text names real scalars only (complex general products are still exercised)
    std::string wrapper;
};

// ---- the only per-instantiation code: convert, construct through the chosen argument form, call -----------------
template <typename Op, typename Arg, int XFlags, bool HasMat, bool HasElem, int Uplo>
static Out run_prod(const Input& in, const Eff& e)
{
    typedef typename Op::Scalar S;
    typedef Eigen::Matrix<S, Eigen::Dynamic, 1> Vec;
    typedef Eigen::Matrix<S, Eigen::Dynamic, Eigen::Dynamic, XFlags> XMat;
    Out o;
    Arg arg(e.A, e.stA, in.formA);
    std::unique_ptr<Op> op = arg.template make<Op>();
    o.ints.push_back((long) op->rows());
    o.ints.push_back((long) op->cols());
    Vec x = to_vec<S>(in.x);
    Vec y = Vec::Constant(in.rows, S(777));
    op->perform_op(x.data(), y.data());
    o.v.push_back(widen_vec(y));
    // a second product through the same object (no hidden state)
    Vec x2 = to_vec<S>(in.x2);
    Vec y2 = Vec::Constant(in.rows, S(-5));
    op->perform_op(x2.data(), y2.data());
    o.v.push_back(widen_vec(y2));
    if constexpr (HasMat)
    {
        XMat X = to_dense<S, XFlags>(in.X);
        auto R = ((*op) * X).eval();
        o.ints.push_back((long) R.rows());
        o.ints.push_back((long) R.cols());
        for (Index k = 0; k < R.cols(); k++)
            o.v.push_back(widen_vec(R.col(k).eval()));
    }
    if constexpr (HasElem)
    {
        // Uplo == 0: general wrapper, the drawn pair itself. Otherwise the element inside the triangle the wrapper uses
        // (asserted) and its transposed position (only reported: it returns the raw entry of the other triangle).
        const Index hi = std::max(in.ei, in.ej), lo = std::min(in.ei, in.ej);
        Index ui = in.ei, uj = in.ej;
        if (Uplo == Eigen::Upper)
        {
            ui = lo;
            uj = hi;
        }
        else if (Uplo == Eigen::Lower)
        {
            ui = hi;
            uj = lo;
        }
        Vec el(1);
        el[0] = (*op)(ui, uj);
        o.v.push_back(widen_vec(el));
        if (Uplo != 0)
        {
            el[0] = (*op)(uj, ui);
            o.aux.push_back(widen_vec(el));
        }
    }
    return o;
}

// ---- everything else is shared ---------------------------------------------------------------------------------
static void prod_case(vf::Draw& d, vf::Case& c, const ProdTraits& t, RunFn fn, const std::string& name)
{
    const ScalarInfo& si = t.si;
    const bool symm = t.kind == K_SYM;
    Index rows = (Index) d.dim("rows", 1, 30);
    Index cols = rows;
    if (!symm && !d.flag("square"))
        cols = (Index) d.dim("cols", 1, 30);
    GenSpec gs;
    gs.kind = t.kind;
    gs.cplx = si.cplx;
    gs.prec = si.prec;
    gs.max_scale_exp = si.max_scale_exp;
    Generated G = gen_matrix(d, gs, rows, cols);
    Input in;
    in.rows = rows;
    in.cols = cols;
    in.A = G.A;
    in.stA = G.st;
    in.x = gen_vector(d, "x_seed", cols, si.cplx, si.prec);
    in.x2 = gen_vector(d, "x2_seed", cols, si.cplx, si.prec);
    const Index k = (Index) d.range("matmul_cols", 1, 3);
    in.X.resize(cols, k);
    for (Index j = 0; j < k; j++)
        in.X.col(j) = gen_vector(d, "X_seed", cols, si.cplx, si.prec);
    in.formA = (int) d.range("form", 0, t.sparse ? 4 : 3);
    in.ei = (Index) d.range("elem_i", 0, rows - 1);
    in.ej = (Index) d.range("elem_j", 0, cols - 1);
    if (symm && in.ei < in.ej)
        std::swap(in.ei, in.ej);
    int gk = 0;
    bool nan_run = false;
    if (symm)
    {
        gk = (int) d.range("unused_triangle", 1, 3);
        nan_run = d.one_in("nan_poison_run", 4);
    }

    const char* const* forms = t.sparse ? SPARSE_FORMS : DENSE_FORMS;
    c.add_desc(name + " " + G.desc + " form=" + forms[in.formA] + (symm ? std::string(" unused_triangle=") + GARBAGE_NAMES[gk] : std::string()) + " matmul_cols=" + std::to_string(k));
    if (rows <= 4 && cols <= 4)
        c.add_desc("A=" + vf::show(in.A, 4) + " x=" + vf::show(in.x, 4));
    c.cls("wrapper/" + t.wrapper);
    c.cls(std::string("scalar/") + si.name);
    c.cls(std::string(t.sparse ? "sparse_form/" : "dense_form/") + forms[in.formA]);
    c.cls(std::string("pattern/") + PATTERN_NAMES[G.pattern]);
    if (!t.documented_scalar)
        c.cls("complex_scalar_on_general_product (not named by the doxygen text)");
    if (rows != cols)
        c.cls("rectangular");
    if (rows == 1 || cols == 1)
        c.cls("dimension_1");
    c.sfeat["wrapper"] = t.wrapper;
    c.sfeat["uplo"] = symm ? uplo_name(t.uplo) : "";
    c.nontrivial = rows >= 2 && cols >= 2;

    Eff clean;
    clean.A = in.A;
    clean.stA = in.stA;
    Out o = safe_run(fn, in, clean);
    VF_CHECK(o.threw == 0, "unexpected_exception", name << ": exception from the product wrapper: " << o.what);
    VF_CHECK(o.ints[0] == rows && o.ints[1] == cols, "dimensions", name << ": rows()/cols() = " << o.ints[0] << "x" << o.ints[1] << " for a " << rows << "x" << cols << " matrix");
    const ld normA = vf::fro_scaled(in.A);
    const ld inner = (ld) cols;
    {
        CVecL want = in.A * in.x;
        check_close(o.v[0], want, inner * si.eps * normA * in.x.norm(), "product", name + " perform_op", "product: err/(n eps ||A|| ||x||)");
        CVecL want2 = in.A * in.x2;
        check_close(o.v[1], want2, inner * si.eps * normA * in.x2.norm(), "product", name + " perform_op (second call)", "product: err/(n eps ||A|| ||x||)");
    }
    size_t pos = 2;
    if (t.has_matmul)
    {
        VF_CHECK(o.ints[2] == rows && o.ints[3] == k, "dimensions", name << ": operator* returned a " << o.ints[2] << "x" << o.ints[3] << " matrix");
        for (Index j = 0; j < k; j++)
        {
            CVecL want = in.A * in.X.col(j);
            check_close(o.v[pos + j], want, inner * si.eps * normA * in.X.col(j).norm(), "matmul", name + " operator*", "operator*: err/(n eps ||A|| ||x||)");
        }
        pos += (size_t) k;
    }
    if (t.has_elem)
    {
        const Index hi = std::max(in.ei, in.ej), lo = std::min(in.ei, in.ej);
        Index ui = in.ei, uj = in.ej;
        if (symm)
        {
            ui = (t.uplo == Eigen::Upper) ? lo : hi;
            uj = (t.uplo == Eigen::Upper) ? hi : lo;
        }
        CVecL want(1);
        want[0] = in.A(ui, uj);
        VF_CHECK(vf::bits_equal(o.v[pos], want), "element", name << ": operator()(" << ui << "," << uj << ") = " << o.v[pos][0] << ", the matrix holds " << want[0]);
        pos++;
    }
    c.feat["checked_outputs"] = (double) o.v.size();

    if (symm)
    {
        Eff g;
        make_variant(in.A, in.stA, t.uplo, gk, G.scale, si.cplx, g.A, g.stA);
        Out og = safe_run(fn, in, g);
        std::string why;
        c.cls(std::string("unused_triangle/") + GARBAGE_NAMES[gk]);
        VF_CHECK(same_bits(o, og, why), "unused_triangle_read", name << ": outputs change when the triangle the wrapper must not read is replaced by " << GARBAGE_NAMES[gk] << ": " << why);
        if (t.has_elem && !o.aux.empty() && !og.aux.empty() && in.ei != in.ej && !vf::bits_equal(o.aux[0], og.aux[0]))
            vf::report().classes["reported_only/operator()(i,j) returns the raw entry of the unused triangle"]++;
        if (nan_run)
        {
            Eff gn;
            make_variant(in.A, in.stA, t.uplo, G_NAN, G.scale, si.cplx, gn.A, gn.stA);
            Out on = safe_run(fn, in, gn);
            c.cls("nan_poison_run");
            if (!same_bits(o, on, why))
                vf::report().classes["reported_only/NaN in the unused triangle changes an output of " + t.wrapper]++;
        }
    }
}

template <typename S>
static ProdTraits mk(int kind, int uplo, bool sparse, bool mat, bool elem, bool documented, const std::string& w)
{
    ProdTraits t;
    t.si = sinfo<S>();
    t.kind = kind;
    t.uplo = uplo;
    t.sparse = sparse;
    t.has_matmul = mat;
    t.has_elem = elem;
    t.documented_scalar = documented;
    t.wrapper = w;
    return t;
}

#define REG(OPTYPE, ARGTYPE, XFLAGS, HASMAT, HASELEM, UPLO, SCALAR, KIND, SPARSE, DOC, WRAPPER, NAME)                          \
    {                                                                                                                           \
        ProdTraits t = mk<SCALAR>(KIND, UPLO, SPARSE, HASMAT, HASELEM, DOC, WRAPPER);                                            \
        RunFn fn = &run_prod<OPTYPE, ARGTYPE, XFLAGS, HASMAT, HASELEM, UPLO>;                                                    \
        std::string nm = NAME;                                                                                                  \
        registry().push_back({nm, [t, fn, nm](vf::Draw& d, vf::Case& c) { prod_case(d, c, t, fn, nm); }});                       \
    }

#define TY(...) __VA_ARGS__

#define REG_DENSE_GEN(S, F, DOC) REG(TY(Spectra::DenseGenMatProd<S, Eigen::F>), TY(DenseArg<S, Eigen::F>), Eigen::F, true, true, 0, TY(S), K_GEN, false, DOC, "DenseGenMatProd", "DenseGenMatProd<" #S "," #F ">")
#define REG_DENSE_SYM(S, U, F) REG(TY(Spectra::DenseSymMatProd<S, Eigen::U, Eigen::F>), TY(DenseArg<S, Eigen::F>), Eigen::F, true, true, Eigen::U, TY(S), K_SYM, false, true, "DenseSymMatProd", "DenseSymMatProd<" #S "," #U "," #F ">")
#define REG_DENSE_HERM(S, U, F) REG(TY(Spectra::DenseHermMatProd<S, Eigen::U, Eigen::F>), TY(DenseArg<S, Eigen::F>), Eigen::F, false, false, Eigen::U, TY(S), K_SYM, false, true, "DenseHermMatProd", "DenseHermMatProd<" #S "," #U "," #F ">")
#define REG_SPARSE_GEN(S, F, I, DOC) REG(TY(Spectra::SparseGenMatProd<S, Eigen::F, I>), TY(SparseArg<S, Eigen::F, I>), Eigen::ColMajor, true, true, 0, TY(S), K_GEN, true, DOC, "SparseGenMatProd", "SparseGenMatProd<" #S "," #F "," #I ">")
#define REG_SPARSE_SYM(S, U, F, I) REG(TY(Spectra::SparseSymMatProd<S, Eigen::U, Eigen::F, I>), TY(SparseArg<S, Eigen::F, I>), Eigen::ColMajor, true, true, Eigen::U, TY(S), K_SYM, true, true, "SparseSymMatProd", "SparseSymMatProd<" #S "," #U "," #F "," #I ">")
#define REG_SPARSE_HERM(S, U, F, I) REG(TY(Spectra::SparseHermMatProd<S, Eigen::U, Eigen::F, I>), TY(SparseArg<S, Eigen::F, I>), Eigen::ColMajor, false, false, Eigen::U, TY(S), K_SYM, true, true, "SparseHermMatProd", "SparseHermMatProd<" #S "," #U "," #F "," #I ">")

typedef long double ldouble;
typedef std::complex<float> cfloat;
typedef std::complex<double> cdouble;
typedef std::complex<long double> cldouble;

#define FOR_UF(M, S)       \
    M(S, Lower, ColMajor)  \
    M(S, Lower, RowMajor)  \
    M(S, Upper, ColMajor)  \
    M(S, Upper, RowMajor)
#define FOR_UFI(M, S, I)      \
    M(S, Lower, ColMajor, I)  \
    M(S, Lower, RowMajor, I)  \
    M(S, Upper, ColMajor, I)  \
    M(S, Upper, RowMajor, I)

// C11_PART splits the instantiation list over several binaries that build in parallel (0 / undefined = everything)
#ifndef C11_PART
#define C11_PART 0
#endif

static void fill_registry()
{
#if C11_PART == 0 || C11_PART == 1
    // general dense products: documented for real scalars; complex ones exercised as well
    REG_DENSE_GEN(double, ColMajor, true)
    REG_DENSE_GEN(double, RowMajor, true)
    REG_DENSE_GEN(float, ColMajor, true)
    REG_DENSE_GEN(float, RowMajor, true)
    REG_DENSE_GEN(ldouble, ColMajor, true)
    REG_DENSE_GEN(ldouble, RowMajor, true)
    FOR_UF(REG_DENSE_SYM, double)
    FOR_UF(REG_DENSE_SYM, float)
    FOR_UF(REG_DENSE_SYM, ldouble)
#endif
#if C11_PART == 0 || C11_PART == 2
    REG_DENSE_GEN(cdouble, ColMajor, false)
    REG_DENSE_GEN(cdouble, RowMajor, false)
    REG_DENSE_GEN(cfloat, ColMajor, false)
    REG_DENSE_GEN(cldouble, RowMajor, false)
    FOR_UF(REG_DENSE_HERM, cdouble)
    FOR_UF(REG_DENSE_HERM, cfloat)
    FOR_UF(REG_DENSE_HERM, cldouble)
#endif
#if C11_PART == 0 || C11_PART == 3
    REG_SPARSE_GEN(double, ColMajor, int, true)
    REG_SPARSE_GEN(double, RowMajor, int, true)
    REG_SPARSE_GEN(double, ColMajor, long, true)
    REG_SPARSE_GEN(double, RowMajor, long, true)
    REG_SPARSE_GEN(float, ColMajor, int, true)
    REG_SPARSE_GEN(float, RowMajor, int, true)
    REG_SPARSE_GEN(ldouble, ColMajor, int, true)
    REG_SPARSE_GEN(ldouble, RowMajor, long, true)
    FOR_UFI(REG_SPARSE_SYM, double, int)
    FOR_UFI(REG_SPARSE_SYM, double, long)
    FOR_UFI(REG_SPARSE_SYM, float, int)
    FOR_UFI(REG_SPARSE_SYM, ldouble, int)
    REG_SPARSE_SYM(float, Upper, RowMajor, long)
    REG_SPARSE_SYM(ldouble, Upper, ColMajor, long)
#endif
#if C11_PART == 0 || C11_PART == 4
    REG_SPARSE_GEN(cdouble, ColMajor, int, false)
    REG_SPARSE_GEN(cdouble, RowMajor, int, false)
    REG_SPARSE_GEN(cfloat, RowMajor, long, false)
    REG_SPARSE_GEN(cldouble, ColMajor, long, false)
    FOR_UFI(REG_SPARSE_HERM, cdouble, int)
    FOR_UFI(REG_SPARSE_HERM, cdouble, long)
    FOR_UFI(REG_SPARSE_HERM, cfloat, int)
    FOR_UFI(REG_SPARSE_HERM, cldouble, int)
    REG_SPARSE_HERM(cfloat, Lower, RowMajor, long)
    REG_SPARSE_HERM(cldouble, Upper, RowMajor, long)
#endif
}

static void run_case(vf::Draw& d, vf::Case& c)
{
    run_registered(d, c);
}

int main(int argc, char** argv)
{
    fill_registry();
    return vf::run_main(argc, argv, "C11", run_case);
}
