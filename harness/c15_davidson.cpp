// C15 - Davidson solver (DavidsonSymEigsSolver / JDSymEigsBase): info()==Successful means nev pairs whose residual,
// recomputed from the user's matrix, is below tol, with orthonormal unit vectors ordered by the selection rule and
// compute() == nev; whatever the outcome the returned numbers are finite. Default and user-supplied initial spaces.
// One translation unit per real scalar type (VF_REAL).
//
// Observation is through the public interface only. The operator handed to the solver is the library's own dense /
// sparse wrapper, sub-classed so that every product request is also seen by the harness (size of the search space,
// restarts, first non-finite basis vector): that record classifies cases and keys the known-finding signatures, it
// never decides a verdict.
#include "vf/eigen_assert.hpp"
#include <Eigen/Core>
#include <Eigen/Sparse>
#include <Eigen/Eigenvalues>
#include <Spectra/DavidsonSymEigsSolver.h>
#include <Spectra/MatOp/DenseSymMatProd.h>
#include <Spectra/MatOp/SparseSymMatProd.h>
#include "vf/oracle.hpp"
#include "vf/gen.hpp"
#include "vf/runner.hpp"
#include <algorithm>
#include <numeric>

#ifndef VF_REAL
#define VF_REAL double
#endif
typedef VF_REAL Real;
using vf::ld;
using vf::MatL;
using vf::VecL;
using vf::Index;
using Spectra::SortRule;
using Spectra::CompInfo;
typedef Eigen::Matrix<Real, Eigen::Dynamic, Eigen::Dynamic> Mat;
typedef Eigen::Matrix<Real, Eigen::Dynamic, 1> Vec;

static const ld CTOL = 64;
static const ld EPS = (ld) std::numeric_limits<Real>::epsilon();

static const SortRule RULES[4] = {SortRule::LargestAlge, SortRule::SmallestAlge, SortRule::LargestMagn, SortRule::SmallestMagn};
static const char* const RULE_NAMES[4] = {"LargestAlge", "SmallestAlge", "LargestMagn", "SmallestMagn"};

static const char* info_name(CompInfo i)
{
    switch (i)
    {
        case CompInfo::Successful: return "Successful";
        case CompInfo::NotComputed: return "NotComputed";
        case CompInfo::NotConverging: return "NotConverging";
        default: return "NumericalIssue";
    }
}

// ---------------------------------------------------------------------------------------------------------------
// What the harness sees of a run through the operator
struct Rec
{
    Index n = 0, init_eff = 0;
    Index cur = 0;           // current number of basis vectors (as implied by the product requests)
    Index max_seen = 0;      // largest search space seen
    long restarts = 0;       // product requests with zero new vectors (= the space was restarted)
    long calls = 0;
    bool nonfinite_in = false;     // a non-finite basis vector was handed to the operator
    Index size_at_nonfinite = 0;   // size of the space (without the offending block) when that happened
    void start(Index n_, Index init_eff_)
    {
        *this = Rec();
        n = n_;
        init_eff = init_eff_;
    }
    template <typename M>
    void note(const M& m)
    {
        calls++;
        if (m.cols() == 0)
        {
            restarts++;
            cur = init_eff;
            return;
        }
        if (!nonfinite_in && !m.allFinite())
        {
            nonfinite_in = true;
            size_at_nonfinite = cur;
        }
        cur += m.cols();
        max_seen = std::max(max_seen, cur);
    }
};

template <typename Base>
class Recording : public Base
{
public:
    using Scalar = typename Base::Scalar;
    Rec* rec;
    template <typename Arg>
    Recording(const Arg& a, Rec* r) :
        Base(a), rec(r) {}
    Mat operator*(const Eigen::Ref<const Mat>& m) const
    {
        rec->note(m);
        return Base::operator*(m);
    }
};

// The solver, sub-classed only to read the (protected) search space after compute() has ended: the orthonormality of the final
// basis classifies a failure (known-finding signatures), it is not part of any verdict.
template <typename Op>
class Probe : public Spectra::DavidsonSymEigsSolver<Op>
{
public:
    using Spectra::DavidsonSymEigsSolver<Op>::DavidsonSymEigsSolver;
    ld final_basis_defect() const
    {
        const Mat& V = this->m_search_space.basis_vectors();
        if (V.cols() == 0 || !V.allFinite())
            return 0;
        MatL VL = V.template cast<ld>();
        return vf::maxabs(VL.transpose() * VL - MatL::Identity(V.cols(), V.cols()));
    }
};

// ---------------------------------------------------------------------------------------------------------------
// Matrices. Built in long double from drawn integers / an LCG, rounded once to the scalar type; the reference copy
// AL is that rounded matrix widened back (so the oracle and the solver see the same matrix exactly).
struct Problem
{
    Index n = 0;
    std::string cls;
    long scale_exp = 0;
    Mat A;
    MatL AL;
    ld normA = 0;
    std::vector<Index> decoupled;  // coordinates whose row/column is exactly zero off the diagonal
    bool sparse_like = false;
};

static const char* const CLASS_NAMES[9] = {"diag_dominant", "generic", "prescribed_spectrum", "block_diagonal", "decoupled_coordinates",
                                            "small_integer", "tridiagonal", "diagonal", "dominant_with_equal_diagonal"};

static void symmetrise_from_lower(MatL& A)
{
    for (Index j = 0; j < A.cols(); j++)
        for (Index i = 0; i < j; i++)
            A(i, j) = A(j, i);
}

static void fill_dominant(MatL& A, vf::Lcg& g, ld off, int density_pct, bool shuffle)
{
    const Index n = A.rows();
    std::vector<Index> p(n);
    std::iota(p.begin(), p.end(), 0);
    if (shuffle)
        for (Index i = n - 1; i > 0; i--)
            std::swap(p[i], p[g.below(i + 1)]);
    for (Index j = 0; j < n; j++)
        for (Index i = j; i < n; i++)
        {
            if (i == j)
                A(i, i) = (ld) (p[i] + 1);
            else
                A(i, j) = (g.below(100) < density_pct) ? off * g.u() : 0;
        }
    symmetrise_from_lower(A);
}

static void fill_generic(MatL& A, vf::Lcg& g, int density_pct)
{
    const Index n = A.rows();
    for (Index j = 0; j < n; j++)
        for (Index i = j; i < n; i++)
            A(i, j) = (i == j || g.below(100) < density_pct) ? g.u() : 0;
    symmetrise_from_lower(A);
}

static Problem make_problem(vf::Draw& d, Index nmax)
{
    Problem P;
    int cls = (int) d.range("matrix_class", 0, 8);
    const Index n = (Index) d.dim("n", 2, nmax);
    P.n = n;
    P.cls = CLASS_NAMES[cls];
    vf::Lcg g((uint64_t) d.range("content_seed", 0, 65535));
    MatL A = MatL::Zero(n, n);
    std::ostringstream extra;
    switch (cls)
    {
        case 0:
        {
            static const int DENS[4] = {100, 50, 15, 5};
            int dp = DENS[d.range("density", 0, 3)];
            ld off = d.flag("strong_coupling") ? (ld) 0.3 : (ld) 0.03;
            fill_dominant(A, g, off, dp, d.flag("shuffled_diagonal"));
            P.sparse_like = dp < 100;
            break;
        }
        case 1:
        {
            static const int DENS[3] = {100, 40, 10};
            int dp = DENS[d.range("density", 0, 2)];
            fill_generic(A, g, dp);
            P.sparse_like = dp < 100;
            break;
        }
        case 2:
        {
            // A = Q D Q^T with a prescribed spectrum
            int kind = (int) d.range("spectrum", 0, 4);
            VecL ev(n);
            for (Index i = 0; i < n; i++)
            {
                switch (kind)
                {
                    case 0: ev[i] = (ld) (i + 1); break;                                   // well separated
                    case 1: ev[i] = (ld) ((i % 2) ? 1 : -1) * (ld) (i / 2 + 1); break;      // +-pairs: ties in magnitude
                    case 2: ev[i] = (i < n / 2) ? 0 : (ld) (i + 1); break;                  // exact null space
                    case 3: ev[i] = 1 + (ld) i * (ld) 1e-3; break;                          // cluster
                    default: ev[i] = (ld) (i / 3 + 1); break;                               // triple eigenvalues
                }
            }
            MatL Q = vf::random_orthogonal(n, g);
            A = vf::sym_from_spectrum(ev, Q);
            extra << " spectrum_kind=" << kind;
            break;
        }
        case 3:
        {
            // blocks of size 1..5; the diagonal ranges of the blocks overlap or not
            bool overlap = d.flag("blocks_overlap");
            Index i0 = 0;
            int b = 0;
            while (i0 < n)
            {
                Index bs = std::min<Index>(n - i0, 1 + (Index) g.below(5));
                for (Index j = i0; j < i0 + bs; j++)
                    for (Index i = j; i < i0 + bs; i++)
                        A(i, j) = (i == j) ? (overlap ? 2 * g.u() : (ld) (3 * b) + g.u()) : g.u() / 2;
                if (bs == 1)
                    P.decoupled.push_back(i0);
                i0 += bs;
                b++;
            }
            symmetrise_from_lower(A);
            P.sparse_like = true;
            break;
        }
        case 4:
        {
            // a coupled matrix with 1..3 coordinates cut off; their diagonal value is extreme (selected into the default
            // initial space), zero, a copy of another diagonal entry, or left as it was
            if (d.flag("base_dominant"))
                fill_dominant(A, g, (ld) 0.03, 100, d.flag("shuffled_diagonal"));
            else
                fill_generic(A, g, 100);
            int k = (int) d.range("ndecoupled", 1, 3);
            ld dmax = A.diagonal().maxCoeff(), dmin = A.diagonal().minCoeff();
            for (int t = 0; t < k; t++)
            {
                Index i = (Index) d.range("decoupled_index", 0, n - 1);
                int val = (int) d.range("decoupled_value", 0, 4);
                for (Index j = 0; j < n; j++)
                    if (j != i)
                        A(i, j) = A(j, i) = 0;
                switch (val)
                {
                    case 0: A(i, i) = dmax + 1 + t; break;
                    case 1: A(i, i) = dmin - 1 - t; break;
                    case 2: A(i, i) = 0; break;
                    case 3: A(i, i) = A((i + 1) % n, (i + 1) % n); break;
                    default: break;
                }
                if (std::find(P.decoupled.begin(), P.decoupled.end(), i) == P.decoupled.end())
                    P.decoupled.push_back(i);
            }
            break;
        }
        case 5:
        {
            static const int DENS[3] = {100, 40, 15};
            int dp = DENS[d.range("density", 0, 2)];
            for (Index j = 0; j < n; j++)
                for (Index i = j; i < n; i++)
                    A(i, j) = (i == j) ? (ld) (g.below(7) - 3) : ((g.below(100) < dp) ? (ld) (g.below(5) - 2) : 0);
            symmetrise_from_lower(A);
            P.sparse_like = dp < 100;
            break;
        }
        case 6:
        {
            bool constant = d.flag("constant_diagonal");
            for (Index i = 0; i < n; i++)
            {
                A(i, i) = constant ? 2 : (ld) (1 + g.below(4));
                if (i + 1 < n)
                    A(i + 1, i) = A(i, i + 1) = -1;
            }
            P.sparse_like = true;
            break;
        }
        case 7:
        {
            bool ties = d.flag("tied_entries");
            for (Index i = 0; i < n; i++)
            {
                A(i, i) = ties ? (ld) (g.below(4) - 1) : (ld) (i + 1) * ((i % 2) ? -1 : 1);
                P.decoupled.push_back(i);
            }
            P.sparse_like = true;
            break;
        }
        default:
        {
            // diagonally dominant, but groups of equal diagonal entries (ties in the choice of the initial unit vectors)
            fill_dominant(A, g, (ld) 0.03, 100, false);
            for (Index i = 0; i < n; i++)
                A(i, i) = (ld) (i / 2 + 1);
            break;
        }
    }
    // rows that are exactly zero off the diagonal are decoupled whatever the class
    for (Index i = 0; i < n; i++)
    {
        bool dec = true;
        for (Index j = 0; j < n && dec; j++)
            if (j != i && A(i, j) != 0)
                dec = false;
        if (dec && std::find(P.decoupled.begin(), P.decoupled.end(), i) == P.decoupled.end())
            P.decoupled.push_back(i);
    }
    ld scale = 1;
    if (d.one_in("scaled", 4))
    {
        scale = (ld) d.scale10("scale", 4);
        P.scale_exp = d.scale10_exp_last();
    }
    A *= scale;
    P.A = A.cast<Real>();
    // exact symmetry after rounding holds because both triangles were rounded from equal values
    P.AL = P.A.cast<ld>();
    P.normA = vf::fro_scaled(P.AL);
    P.cls += extra.str();
    return P;
}

// ---------------------------------------------------------------------------------------------------------------
// Search-space sizes. eff_* mirror the documented constructor behaviour (JDSymEigsBase.h, constructor + initialize()).
struct Sizes
{
    Index nev = 1, init = 1, corr = 1, maxs = 1;
    int form = 0;  // 0: (op, nev), 1: (op, nev, nvec_init, nvec_max), 2: constructor then the three setters
    Index arg_init = 0, arg_max = 0;
    bool in_domain = true;
};

static void ctor_effective(Index n, Index nev, Index nvec_init, Index nvec_max, Index& init, Index& corr, Index& maxs)
{
    maxs = nvec_max < n ? nvec_max : 10 * nev;
    init = nvec_init < n ? nvec_init : 2 * nev;
    corr = nev;
    if (n < maxs)
        maxs = n;
    if (n < init + corr)
    {
        // fallback sizes of JDSymEigsBase::initialize() (after the repair a1: never fewer than nev initial vectors, at least one correction)
        init = std::max<Index>(n / 3, nev);
        corr = std::max<Index>(1, std::min<Index>(n / 3, n - init));
    }
}

// the domain the property quantifies over: nev <= initial size, 1 <= correction <= initial size (corrections are computed for
// the leading Ritz pairs), initial + correction <= n, initial <= maximal size
static bool in_domain(Index n, const Sizes& s)
{
    return s.nev >= 1 && s.nev <= n - 1 && s.init >= s.nev && s.corr >= 1 && s.corr <= s.init && s.init + s.corr <= n && s.maxs >= s.init;
}

static Sizes draw_sizes(vf::Draw& d, Index n)
{
    Sizes s;
    s.form = (int) d.range("size_form", 0, 2);
    // every documented nev (1 <= nev <= n - 1); where the sizes the constructor forms (initial = 2 nev resp. nvec_init, correction = nev) do not
    // fit into n the constructor falls back to sizes of its own, which must work as well
    Index nev_hi = n - 1;
    s.nev = (Index) d.range("nev", 1, std::max<Index>(1, std::min<Index>(nev_hi, 8)));
    if (s.form == 0)
    {
        s.arg_init = 2 * s.nev;
        s.arg_max = 10 * s.nev;
        ctor_effective(n, s.nev, s.arg_init, s.arg_max, s.init, s.corr, s.maxs);
    }
    else if (s.form == 1)
    {
        s.arg_init = (Index) d.range("nvec_init", s.nev, std::max<Index>(s.nev, n - s.nev));
        s.arg_max = (Index) d.range("nvec_max", s.arg_init, n + 2);
        ctor_effective(n, s.nev, s.arg_init, s.arg_max, s.init, s.corr, s.maxs);
    }
    else
    {
        s.init = (Index) d.range("initial_size", s.nev, n - 1);
        s.corr = (Index) d.range("correction_size", 1, std::max<Index>(1, std::min<Index>(s.init, n - s.init)));
        // the setter does not clamp to n as the constructor does: values above n are legal arguments too
        s.maxs = (Index) d.range("max_size", s.init, n + 3);
    }
    s.in_domain = in_domain(n, s);
    return s;
}

// ---------------------------------------------------------------------------------------------------------------
// User-supplied initial spaces
static const char* const GUESS_NAMES[9] = {"default", "unit_vectors", "random_orthonormal", "with_exact_eigenvectors", "random_not_orthonormal",
                                            "orthogonal_scaled_columns", "dependent_columns", "slightly_not_orthonormal", "unit_vectors_on_decoupled"};

static MatL orthonormalise(const MatL& M)
{
    // modified Gram-Schmidt, twice, in long double; keeps the span of the leading columns
    MatL Q = M;
    for (int pass = 0; pass < 2; pass++)
        for (Index j = 0; j < Q.cols(); j++)
        {
            for (Index i = 0; i < j; i++)
                Q.col(j) -= Q.col(i).dot(Q.col(j)) * Q.col(i);
            ld nr = Q.col(j).norm();
            if (nr > 0)
                Q.col(j) /= nr;
        }
    return Q;
}

struct Guess
{
    int kind = 0;
    bool orthonormal = true;
    bool normalized = true;  // every column has unit norm (what examples/DavidsonSymEigs_example.md asks of a guess)
    Mat V;
    std::string note;
};

static Guess draw_guess(vf::Draw& d, const Problem& P, const Sizes& s, SortRule rule)
{
    Guess G;
    const Index n = P.n;
    G.kind = (int) d.range("initial_space", 0, 8);
    if (G.kind == 0)
        return G;
    Index klo = std::max(s.nev, s.corr), khi = std::min(s.maxs, n - s.corr);
    if (khi < klo)
        khi = klo;
    Index k = (Index) d.range("guess_cols", klo, khi);
    vf::Lcg g((uint64_t) d.range("guess_seed", 0, 65535));
    MatL V = MatL::Zero(n, k);
    auto random_cols = [&](MatL& M, Index from) {
        for (Index j = from; j < M.cols(); j++)
            for (Index i = 0; i < n; i++)
                M(i, j) = g.u();
    };
    auto distinct_units = [&](bool prefer_decoupled) {
        std::vector<Index> p(n);
        std::iota(p.begin(), p.end(), 0);
        for (Index i = n - 1; i > 0; i--)
            std::swap(p[i], p[g.below(i + 1)]);
        if (prefer_decoupled)
        {
            // decoupled coordinates first
            std::stable_partition(p.begin(), p.end(), [&](Index i) { return std::find(P.decoupled.begin(), P.decoupled.end(), i) != P.decoupled.end(); });
        }
        for (Index j = 0; j < k; j++)
            V(p[j], j) = 1;
    };
    switch (G.kind)
    {
        case 1:
            distinct_units(false);
            break;
        case 8:
            distinct_units(true);
            break;
        case 2:
            random_cols(V, 0);
            V = orthonormalise(V);
            break;
        case 3:
        {
            // m exact eigenvectors (from a long double reference decomposition, wanted end or random position) followed by random directions
            Eigen::SelfAdjointEigenSolver<MatL> es(P.AL);
            Index m = (Index) d.range("exact_eigvecs", 1, k);
            bool wanted = d.flag("eigvecs_from_wanted_end");
            std::vector<Index> order(n);
            std::iota(order.begin(), order.end(), 0);
            const VecL& ev = es.eigenvalues();
            if (wanted)
            {
                std::stable_sort(order.begin(), order.end(), [&](Index a, Index b) {
                    switch (rule)
                    {
                        case SortRule::LargestAlge: return ev[a] > ev[b];
                        case SortRule::SmallestAlge: return ev[a] < ev[b];
                        case SortRule::LargestMagn: return std::abs(ev[a]) > std::abs(ev[b]);
                        default: return std::abs(ev[a]) < std::abs(ev[b]);
                    }
                });
            }
            else
                for (Index i = n - 1; i > 0; i--)
                    std::swap(order[i], order[g.below(i + 1)]);
            random_cols(V, 0);
            for (Index j = 0; j < m; j++)
                V.col(j) = es.eigenvectors().col(order[j]);
            V = orthonormalise(V);
            G.note = " exact_eigvecs=" + std::to_string(m) + (wanted ? "(wanted)" : "(random)");
            break;
        }
        case 4:
            random_cols(V, 0);
            G.orthonormal = false;
            G.normalized = d.flag("unit_columns");
            if (G.normalized)
                for (Index j = 0; j < k; j++)
                    V.col(j).normalize();
            G.note = G.normalized ? " unit_columns" : "";
            break;
        case 5:
        {
            random_cols(V, 0);
            V = orthonormalise(V);
            static const ld F[5] = {2, 0.5L, 1e-3L, 1 + 1e-6L, -3};
            int nsc = (int) d.range("scaled_cols", 1, (long) k);
            for (int j = 0; j < nsc; j++)
                V.col(j) *= F[d.range("factor", 0, 4)];
            G.orthonormal = false;
            G.normalized = false;
            break;
        }
        case 6:
        {
            bool units = d.flag("dependent_from_units");
            if (units)
                distinct_units(false);
            else
            {
                random_cols(V, 0);
                V = orthonormalise(V);
            }
            int how = (int) d.range("dependency", 0, 2);
            Index j = (Index) d.range("dependent_col", 0, k - 1);
            // 0: a zero column; 1: a repeated column; 2: a column that is the normalised sum of two others (columns keep unit norm in 1 and 2)
            if (how == 2 && k < 3)
                how = 1;
            if (how == 1 && k < 2)
                how = 0;
            if (how == 0)
                V.col(j).setZero();
            else if (how == 1)
                V.col(j) = V.col((j + 1) % k);
            else
                V.col(j) = (V.col((j + 1) % k) + V.col((j + 2) % k)) / std::sqrt((ld) 2);
            G.orthonormal = false;
            G.normalized = how != 0;
            static const char* const HOW[3] = {"zero_column", "repeated_column", "sum_of_two_columns"};
            G.note = std::string(" dependency=") + HOW[how];
            break;
        }
        default:
        {
            random_cols(V, 0);
            V = orthonormalise(V);
            MatL N(n, k);
            random_cols(N, 0);
            ld mag = std::pow((ld) 10, -(ld) d.range("perturbation_exp", 2, 9));
            V += mag * N;
            for (Index j = 0; j < k; j++)
                V.col(j).normalize();
            G.orthonormal = false;
            G.note = " perturbation=" + vf::num(mag);
            break;
        }
    }
    G.V = V.cast<Real>();
    return G;
}

// ---------------------------------------------------------------------------------------------------------------
struct Args
{
    int rule;
    long maxit;
    ld tol;
    bool default_tol;
};

static Args draw_args(vf::Draw& d, const Problem& P)
{
    Args a;
    a.rule = (int) d.range("selection", 0, 3);
    long k = d.range("maxit", 1, 42);
    a.maxit = k <= 40 ? k : (k == 41 ? 100 : 1000);
    a.default_tol = d.one_in("default_tol", 4);
    if (a.default_tol)
        a.tol = (ld) (100 * Eigen::NumTraits<Real>::dummy_precision());
    else
    {
        ld lo = std::log10((ld) 8 * EPS);
        long qlo = (long) std::ceil((double) (lo * 4));
        long q = d.range("tol_q", qlo, 0);
        a.tol = std::pow((ld) 10, (ld) q / 4);
        if (P.scale_exp != 0 && d.flag("tol_relative_to_scale"))
            a.tol *= std::pow((ld) 10, (ld) P.scale_exp);
    }
    a.tol = (ld) (Real) a.tol;
    return a;
}

static ld rule_key(int rule, ld x)
{
    return rule >= 2 ? std::abs(x) : x;
}

template <typename Solver>
static void check_outcome(Solver& eigs, Index ret, const Problem& P, const Sizes& s, const Args& a, const Rec& rec, const Guess& G, const char* when)
{
    const Index n = P.n;
    Vec evals_s = eigs.eigenvalues();
    Mat evecs_s = eigs.eigenvectors();
    VF_CHECK(evals_s.size() == s.nev && evecs_s.cols() == s.nev && evecs_s.rows() == n, "counts",
             when << ": eigenvalues().size()=" << evals_s.size() << ", eigenvectors() is " << evecs_s.rows() << "x" << evecs_s.cols() << ", nev=" << s.nev);
    VF_CHECK(evals_s.allFinite() && evecs_s.allFinite(), "nonfinite",
             when << ": NaN/Inf in the returned pairs (info=" << info_name(eigs.info()) << ", iterations=" << eigs.num_iterations() << ", eigenvalues=" << vf::show(evals_s.transpose()) << ")");
    VF_CHECK(ret >= 0 && ret <= s.nev, "counts", when << ": compute() returned " << ret << " with nev=" << s.nev);
    if (eigs.info() != CompInfo::Successful)
        return;
    VF_CHECK(ret == s.nev, "counts", when << ": Successful but compute() returned " << ret << " != nev=" << s.nev);
    VecL th = evals_s.template cast<ld>();
    MatL X = evecs_s.template cast<ld>();
    const ld slack = CTOL * (ld) n * EPS * P.normA;
    const char* gk = G.orthonormal ? "" : " (non-orthonormal guess)";
    for (Index i = 0; i < s.nev; i++)
    {
        ld nx = X.col(i).norm();
        VF_CHECK(std::abs(nx - 1) <= CTOL * (ld) n * EPS, "unit_norm", when << ": ||x_" << i << "|| - 1 = " << vf::num(nx - 1) << gk);
        ld res = (P.AL * X.col(i) - th[i] * X.col(i)).norm();
        VF_CHECK(res < a.tol + slack, "residual",
                 when << ": ||A x - theta x|| = " << vf::num(res) << " >= tol + 64 n eps ||A|| = " << vf::num(a.tol + slack) << " for pair " << i << " theta=" << vf::num(th[i])
                      << " (tol=" << vf::num(a.tol) << ", ||A||=" << vf::num(P.normA) << ", restarts=" << rec.restarts << ", iterations=" << eigs.num_iterations() << ")" << gk);
    }
    MatL Gm = X.transpose() * X - MatL::Identity(s.nev, s.nev);
    ld orth = vf::maxabs(Gm);
    VF_CHECK(orth <= CTOL * (ld) n * EPS, "orthonormality", when << ": max|X'X - I| = " << vf::num(orth) << " > " << vf::num(CTOL * (ld) n * EPS) << gk);
    for (Index i = 0; i + 1 < s.nev; i++)
    {
        ld k0 = rule_key(a.rule, th[i]), k1 = rule_key(a.rule, th[i + 1]);
        bool ok = (a.rule == 0 || a.rule == 2) ? (k0 >= k1) : (k0 <= k1);
        VF_CHECK(ok, "ordering", when << ": values not ordered by " << RULE_NAMES[a.rule] << ": " << vf::show(evals_s.transpose(), 12));
    }
    // calibration record (passing cases only)
    for (Index i = 0; i < s.nev; i++)
    {
        ld res = (P.AL * X.col(i) - th[i] * X.col(i)).norm();
        vf::report().stat("residual/(tol + 64 n eps |A|)", (double) (res / (a.tol + slack)));
        if (res > a.tol && P.normA > 0)
            vf::report().stat("(residual - tol)/(n eps |A|) when above tol", (double) ((res - a.tol) / ((ld) n * EPS * P.normA)));
        if (P.normA > 0 && rec.restarts >= 20)
            vf::report().stat("(residual - tol)/(n eps |A|), >= 20 restarts", (double) (std::max<ld>(0, res - a.tol) / ((ld) n * EPS * P.normA)));
        if (G.orthonormal)
            vf::report().stat("| |x| - 1 |/(n eps) (orthonormal initial space)", (double) (std::abs(X.col(i).norm() - 1) / ((ld) n * EPS)));
    }
    if (G.orthonormal)
        vf::report().stat("max|X'X - I|/(n eps) (orthonormal initial space)", (double) (orth / ((ld) n * EPS)));
}

template <typename Op, typename Src>
static void drive(const Src& src, vf::Draw& d, vf::Case& c, const Problem& P, const Sizes& s)
{
    const Index n = P.n;
    Rec rec;
    Recording<Op> op(src, &rec);
    // construction as drawn
    std::unique_ptr<Probe<Recording<Op>>> eigs;
    if (s.form == 0)
        eigs.reset(new Probe<Recording<Op>>(op, s.nev));
    else if (s.form == 1)
        eigs.reset(new Probe<Recording<Op>>(op, s.nev, s.arg_init, s.arg_max));
    else
    {
        eigs.reset(new Probe<Recording<Op>>(op, s.nev));
        eigs->set_initial_search_space_size(s.init);
        eigs->set_correction_size(s.corr);
        eigs->set_max_search_space_size(s.maxs);
    }
    int ncomp = d.one_in("second_compute", 4) ? 2 : 1;
    for (int t = 0; t < ncomp; t++)
    {
        const char* when = t == 0 ? "first compute" : "second compute";
        Args a = draw_args(d, P);
        Guess G = draw_guess(d, P, s, RULES[a.rule]);
        std::ostringstream os;
        if (G.kind == 0)
            os << "compute(";
        else
            os << "compute_with_guess(" << GUESS_NAMES[G.kind] << "[" << G.V.cols() << " cols]" << G.note << ",";
        os << RULE_NAMES[a.rule] << ",maxit=" << a.maxit << ",tol=" << vf::num(a.tol) << (a.default_tol ? "(default)" : "") << ")";
        c.add_desc(os.str());
        c.cls(std::string("rule/") + RULE_NAMES[a.rule]);
        c.cls(std::string("initial_space/") + GUESS_NAMES[G.kind]);
        if (G.kind != 0)
            c.cls(G.orthonormal ? "user_space/orthonormal" : (G.normalized ? "user_space/unit_columns_not_orthogonal" : "user_space/columns_not_normalized"));
        c.feat["guess_orthonormal"] = G.orthonormal ? 1 : 0;
        c.feat["user_guess"] = G.kind != 0 ? 1 : 0;
        c.feat["guess_cols"] = G.kind != 0 ? (double) G.V.cols() : (double) s.init;
        c.feat["initial_size"] = (double) s.init;
        if (G.kind != 0 && G.V.cols() < s.init)
            c.cls("user_space/fewer_columns_than_initial_size");
        rec.start(n, s.init);
        auto publish = [&]() {
            c.feat["nonfinite_operator_input"] = rec.nonfinite_in ? 1 : 0;
            c.feat["size_at_nonfinite"] = (double) rec.size_at_nonfinite;
            c.feat["max_size_seen"] = (double) rec.max_seen;
            c.feat["current_size"] = (double) rec.cur;
            c.feat["restarts"] = (double) rec.restarts;
            c.feat["n"] = (double) n;
            c.feat["correction_size"] = (double) s.corr;
            c.feat["max_size"] = (double) s.maxs;
            c.feat["final_basis_defect_over_bound"] = (double) (eigs->final_basis_defect() / (CTOL * (ld) n * EPS));
        };
        Index ret = 0;
        try
        {
            if (G.kind == 0)
                ret = eigs->compute(RULES[a.rule], (Index) a.maxit, (Real) a.tol);
            else
                ret = eigs->compute_with_guess(G.V, RULES[a.rule], (Index) a.maxit, (Real) a.tol);
        }
        catch (...)
        {
            publish();
            throw;
        }
        publish();
        CompInfo info = eigs->info();
        c.cls(std::string("info/") + info_name(info));
        if (rec.restarts >= 1)
            c.cls("restarted");
        if (rec.restarts >= 10)
            c.cls("restarted_10+_times");
        if (rec.max_seen == n)
            c.cls("search_space_reached_n");
        if (rec.max_seen > n)
            c.cls(std::string("search_space_exceeded_n/") + info_name(info));
        if (info == CompInfo::Successful && G.kind != 0)
            c.cls(G.orthonormal ? "Successful/user_space_orthonormal" : (G.normalized ? "Successful/user_space_unit_columns_not_orthogonal" : "Successful/user_space_columns_not_normalized"));
        if (info == CompInfo::Successful && rec.restarts >= 1)
            c.cls("Successful/after_restart");
        if (info == CompInfo::Successful && eigs->num_iterations() == 0)
            c.cls("Successful/at_first_iteration");
        if (info == CompInfo::Successful && !P.decoupled.empty())
            c.cls("Successful/matrix_with_decoupled_coordinate");
        if (rec.restarts >= 1 || G.kind != 0)
            c.nontrivial = true;
        c.add_desc(std::string("-> ") + info_name(info) + " after " + std::to_string((long) eigs->num_iterations()) + " iterations, " + std::to_string(rec.restarts) + " restarts");
        check_outcome(*eigs, ret, P, s, a, rec, G, when);
    }
    if (ncomp == 2)
        c.cls("two_computes_on_one_object");
}

static void run_case(vf::Draw& d, vf::Case& c)
{
    Index nmax = (Index) vf::options().geti("nmax", 40);
    Problem P = make_problem(d, nmax);
    const Index n = P.n;
    Sizes s = draw_sizes(d, n);
    bool sparse = d.flag("sparse_wrapper");
    std::ostringstream os;
    os << "DavidsonSymEigsSolver<" << vf::Sc<Real>::name() << "," << (sparse ? "SparseSymMatProd" : "DenseSymMatProd") << "> class=" << P.cls << " n=" << n << " scale=1e" << P.scale_exp
       << " decoupled=" << P.decoupled.size() << " nev=" << s.nev;
    if (s.form == 0)
        os << " ctor(op,nev)";
    else if (s.form == 1)
        os << " ctor(op,nev," << s.arg_init << "," << s.arg_max << ")";
    else
        os << " setters";
    os << " => initial=" << s.init << " correction=" << s.corr << " max=" << s.maxs;
    c.add_desc(os.str());
    c.cls("class/" + std::string(CLASS_NAMES[std::find_if(CLASS_NAMES, CLASS_NAMES + 9, [&](const char* nm) { return P.cls.rfind(nm, 0) == 0; }) - CLASS_NAMES]));
    c.cls(sparse ? "wrapper/sparse" : "wrapper/dense");
    c.cls(std::string("sizes/") + (s.form == 0 ? "ctor(op,nev)" : s.form == 1 ? "ctor(op,nev,init,max)" : "setters"));
    if (!P.decoupled.empty())
        c.cls("matrix_with_decoupled_coordinate");
    if (P.scale_exp != 0)
        c.cls("scaled");
    c.feat["scale_exp"] = (double) P.scale_exp;
    if (!s.in_domain)
    {
        // the constructor's fallback produced sizes outside the property's quantifier (e.g. initial size below nev)
        c.rejected = true;
        c.cls("sizes_outside_domain");
        return;
    }
    if (s.init == 1)
        c.cls("initial_size_1");
    if (s.maxs < s.init + s.corr)
        c.cls("restart_every_iteration");
    if (s.init + s.corr == n)
        c.cls("initial+correction=n");
    if (s.maxs > n)
        c.cls("max_size_above_n_via_setter");
    if (sparse)
    {
        Eigen::SparseMatrix<Real> sp = P.A.sparseView();
        sp.makeCompressed();
        drive<Spectra::SparseSymMatProd<Real>>(sp, d, c, P, s);
    }
    else
        drive<Spectra::DenseSymMatProd<Real>>(P.A, d, c, P, s);
}

// Known-finding signatures (KNOWN_FINDINGS.txt).
static std::string match(const vf::Violation& v, const vf::Case& c)
{
    const bool nan_in = c.f("nonfinite_operator_input") > 0;
    const double n = c.f("n");
    const bool nan_within_n = nan_in && c.f("size_at_nonfinite") <= n;
    // KF-C15-1 (D10): the DPR correction r_i / (theta - a_ii) is formed with theta == a_ii: a non-finite correction vector
    // enters the basis (the operator is handed a non-finite vector although matrix and initial space are finite) while
    // the search space was still within n columns
    if (nan_within_n && v.kind == "nonfinite")
        return "dpr_zero_denominator";
    // KF-C15-2 (D15 as far as it is real): set_max_search_space_size() does not clamp to n as the constructor does; with max > n the
    // restart test never fires in time and the basis handed to the operator has more than n columns. (With max <= n the extension
    // beyond n is transient: the restart at the top of the next iteration discards it before it is used.)
    if (c.f("max_size") > n && c.f("max_size_seen") > n && !nan_within_n && (v.kind == "unit_norm" || v.kind == "orthonormality" || v.kind == "nonfinite"))
        return "search_space_exceeds_n";
    // KF-C15-4: the first restart asks for initial-size Ritz vectors although the user's space had fewer columns
    // (the Ritz pairs of the previous iteration are fewer than that): out-of-range block. The operator has seen only the
    // space before its last extension, so current_size is the size the Ritz pairs were computed from.
    if (v.kind == "eigen_assert" && c.f("user_guess") > 0 && c.f("restarts") == 0 && c.f("current_size") + c.f("correction_size") > c.f("max_size") &&
        c.f("current_size") < c.f("initial_size"))
        return "restart_wider_than_ritz_pairs";
    // KF-C15-5: the basis the final Ritz pairs were computed from is not orthonormal although the initial space was, no NaN
    // occurred and the space stayed within n columns: extend_basis replaces a zero, collinear or in-span correction by an
    // arbitrary Householder completion vector that can coincide with a basis vector; Ritz "vectors" V s of the dependent
    // basis then have any norm (0 included)
    if (c.f("final_basis_defect_over_bound") > 1 && c.f("max_size_seen") <= n && !nan_in && !(c.f("user_guess") > 0 && c.f("guess_orthonormal") == 0) &&
        (v.kind == "unit_norm" || v.kind == "orthonormality"))
        return "degenerate_correction_breaks_basis";
    // KF-C15-3: a user-supplied initial space is used as it is (never orthonormalised): Ritz "vectors" V s inherit its defects
    if (c.f("user_guess") > 0 && c.f("guess_orthonormal") == 0 && (v.kind == "unit_norm" || v.kind == "orthonormality"))
        return "guess_not_orthonormalised";
    return "";
}

int main(int argc, char** argv)
{
    return vf::run_main(argc, argv, "C15", run_case, match);
}
