// C06 - results depend only on (operator, nev, ncv, v, args): fresh solver, reused solver and a second solver on the
// same operator object are bit-identical; the operator (incl. its installed shift) is left untouched.
#include "vf/eigen_assert.hpp"
#include <Eigen/Core>
#include "vf/oracle.hpp"
#include "vf/families.hpp"
#include "vf/runner.hpp"

#ifndef VF_REAL
#define VF_REAL double
#endif
typedef VF_REAL Real;
using vf::ld;
using vf::cld;
using vf::CMatL;
using vf::Index;
using Spectra::SortRule;

struct Args
{
    int sel, sort;
    long maxit;
    ld tol;
    int start_kind;  // 0 default init(), 1 seeded vector
    long start_seed;
};

static Args draw_args(vf::Draw& d, int family, const char* tag)
{
    (void) tag;
    Args a;
    int nr, ns;
    const int* rules = vf::family_rules(family, nr);
    const int* srules = vf::family_sort_rules(family, ns);
    a.sel = rules[d.range("selection", 0, nr - 1)];
    a.sort = srules[d.range("sorting", 0, ns - 1)];
    a.maxit = vf::draw_maxit(d);
    a.tol = vf::draw_tol<Real>(d);
    a.start_kind = (int) d.range("start_kind", 0, 1);
    a.start_seed = d.range("start_seed", 0, 255);
    return a;
}

template <typename S, typename Solver>
static void do_init(Solver& eigs, Index n, const Args& a)
{
    typedef Eigen::Matrix<S, Eigen::Dynamic, 1> Vec;
    if (a.start_kind == 0)
        eigs.init();
    else
    {
        vf::Lcg g((uint64_t) a.start_seed);
        Vec v(n);
        for (Index i = 0; i < n; i++)
            v[i] = (S) (Real) g.u();
        eigs.init(v.data());
    }
}

template <typename S, typename Solver>
static vf::Snapshot run_observed(Solver& eigs, Index n, const Args& a)
{
    vf::Snapshot s;
    try
    {
        do_init<S>(eigs, n, a);
        long ret = (long) eigs.compute(vf::ALL_RULES[a.sel], (Index) a.maxit, (Real) a.tol, vf::ALL_RULES[a.sort]);
        s = vf::take_snapshot(eigs, ret);
    }
    catch (const std::runtime_error& e)
    {
        s.threw = true;
        s.what = std::string("runtime_error: ") + e.what();
    }
    return s;
}

// applies the operator to a fixed vector (bitwise fingerprint of the operator's behaviour)
template <typename S, typename Op>
static CMatL probe_op(const Op& op, Index n)
{
    typedef Eigen::Matrix<S, Eigen::Dynamic, 1> Vec;
    Vec x(n), y(n);
    for (Index i = 0; i < n; i++)
        x[i] = (S) (Real) ((ld) (((i * 7 + 3) % 11) - 5) / 4);
    long saved = op.calls;
    op.perform_op(x.data(), y.data());
    op.calls = saved;  // the probe is not part of any history
    return vf::widen(y);
}

static void run_case(vf::Draw& d, vf::Case& c)
{
    int family = (int) d.range("family", 0, 5);
    vf::Problem<Real> P = vf::draw_problem<Real>(d, family, (Index) vf::options().geti("nmax", 24));
    c.add_desc(P.desc);
    c.cls(std::string(vf::FAMILY_NAMES[family]));
    if (!P.ok)
    {
        c.rejected = true;
        return;
    }
    const Index n = P.n;
    Args target = draw_args(d, family, "target");
    std::ostringstream os;
    os << "target: " << (target.start_kind ? "init(v)" : "init()") << " compute(" << vf::ALL_RULE_NAMES[target.sel] << ",maxit=" << target.maxit << ",tol=" << vf::num(target.tol) << "," << vf::ALL_RULE_NAMES[target.sort] << ")";

    // (i) fresh solver on a fresh operator
    vf::Snapshot base;
    CMatL probe_base;
    vf::with_family<Real>(P, [&](auto& op, auto& make, auto tag) {
        typedef decltype(tag) S;
        auto eigs = make();
        probe_base = probe_op<S>(op, n);
        base = run_observed<S>(*eigs, n, target);
        CMatL after = probe_op<S>(op, n);
        VF_CHECK(vf::bits_equal(probe_base, after), "operator_changed", "the operator answers differently after compute() than after construction (fresh solver): max diff " << vf::num(vf::maxabs(probe_base - after)));
    });
    if (base.threw)
    {
        c.rejected = true;
        c.cls(base.what);
    }
    // (ii) reused solver after a prefix history, (iii) second solver on the same operator object
    vf::with_family<Real>(P, [&](auto& op, auto& make, auto tag) {
        typedef decltype(tag) S;
        typedef Eigen::Matrix<S, Eigen::Dynamic, 1> Vec;
        auto eigs = make();
        CMatL p0 = probe_op<S>(op, n);
        VF_CHECK(vf::bits_equal(p0, probe_base), "operator_not_deterministic", "two operators built from the same matrix differ");
        int nprefix = (int) d.range("prefix_len", 0, 4);
        int prefix_computes = 0;
        os << " | prefix:";
        for (int k = 0; k < nprefix; k++)
        {
            int kind = (int) d.range("prefix_op", 0, 4);
            try
            {
                if (kind == 0)
                {
                    Args a = draw_args(d, family, "prefix");
                    do_init<S>(*eigs, n, a);
                    eigs->compute(vf::ALL_RULES[a.sel], (Index) a.maxit, (Real) a.tol, vf::ALL_RULES[a.sort]);
                    prefix_computes++;
                    os << " init+compute(" << vf::ALL_RULE_NAMES[a.sel] << ",maxit=" << a.maxit << ")";
                }
                else if (kind == 1)
                {
                    // compute without a fresh init (continues the previous factorization) - only once initialised
                    if (prefix_computes > 0)
                    {
                        Args a = draw_args(d, family, "prefix");
                        eigs->compute(vf::ALL_RULES[a.sel], (Index) a.maxit, (Real) a.tol, vf::ALL_RULES[a.sort]);
                        prefix_computes++;
                        os << " compute(" << vf::ALL_RULE_NAMES[a.sel] << ",maxit=" << a.maxit << ")";
                    }
                }
                else if (kind == 2)
                {
                    Vec z = Vec::Zero(n);
                    os << " init(zero)";
                    eigs->init(z.data());  // must throw invalid_argument
                }
                else if (kind == 3)
                {
                    // a rule the family does not support: must throw, and must not disturb later runs
                    Args a = draw_args(d, family, "prefix");
                    do_init<S>(*eigs, n, a);
                    int bad = vf::family_is_general(family) ? 8 : 1;  // BothEnds for the general family, LargestReal for the symmetric one
                    os << " init+compute(unsupported " << vf::ALL_RULE_NAMES[bad] << ")";
                    if (d.flag("bad_is_sorting"))
                        eigs->compute(vf::ALL_RULES[a.sel], (Index) a.maxit, (Real) a.tol, vf::ALL_RULES[vf::family_is_general(family) ? 3 : 1]);
                    else
                        eigs->compute(vf::ALL_RULES[bad], (Index) a.maxit, (Real) a.tol, vf::ALL_RULES[a.sort]);
                    prefix_computes++;
                }
                else
                {
                    Args a = draw_args(d, family, "prefix");
                    do_init<S>(*eigs, n, a);
                    os << " init only";
                }
            }
            catch (const std::invalid_argument&)
            {
                os << "[invalid_argument]";
                c.cls("prefix_with_rejected_call");
            }
            catch (const std::runtime_error&)
            {
                os << "[runtime_error]";
            }
            CMatL pk = probe_op<S>(op, n);
            VF_CHECK(vf::bits_equal(pk, p0), "operator_changed", "the operator answers differently after prefix step " << k << " (the shift installed at construction is no longer in force?): max diff " << vf::num(vf::maxabs(pk - p0)));
        }
        c.add_desc(os.str());
        if (prefix_computes > 0)
        {
            c.nontrivial = true;
            c.cls("prefix_with_compute");
        }
        vf::Snapshot reused = run_observed<S>(*eigs, n, target);
        std::string dd = vf::snapshot_diff(base, reused);
        VF_CHECK(dd.empty(), "reused_solver_differs", "reused solver vs fresh solver: " << dd);
        CMatL p1 = probe_op<S>(op, n);
        VF_CHECK(vf::bits_equal(p1, p0), "operator_changed", "the operator answers differently after the observed compute(): max diff " << vf::num(vf::maxabs(p1 - p0)));
        // second solver sharing the operator object
        auto eigs2 = make();
        vf::Snapshot second = run_observed<S>(*eigs2, n, target);
        dd = vf::snapshot_diff(base, second);
        VF_CHECK(dd.empty(), "second_solver_differs", "second solver on the same operator vs fresh solver: " << dd);
        // and the first one again, after the second has run on the shared operator
        vf::Snapshot again = run_observed<S>(*eigs, n, target);
        dd = vf::snapshot_diff(base, again);
        VF_CHECK(dd.empty(), "rerun_differs", "first solver re-run after a second solver used the shared operator: " << dd);
        CMatL p2 = probe_op<S>(op, n);
        VF_CHECK(vf::bits_equal(p2, p0), "operator_changed", "the operator answers differently at the end: max diff " << vf::num(vf::maxabs(p2 - p0)));
        c.cls("shared_operator");
        if (base.ret > 0)
            c.cls("pairs_returned");
    });
}

int main(int argc, char** argv)
{
    return vf::run_main(argc, argv, "C06", run_case);
}
