// C06, third unit - the solver classes the first two units do not drive:
//   * DavidsonSymEigsSolver (DenseSymMatProd, SparseSymMatProd and a user-defined operator): the outcome of compute(args) /
//     compute_with_guess(guess, args) must be a function of (operator, nev, search-space sizes, guess, args) alone - a fresh solver,
//     a solver reused after a drawn prefix history of other runs, a second solver sharing the operator object and the first solver
//     once more must agree bit for bit; the operator must answer a fixed probe identically throughout.
//   * LOBPCGSolver: it has no init() and continues from its current iterate by design, so the property reads "two solver objects
//     constructed from the same (A, X0, B, preconditioner, constraints) and given the same compute(args) agree bit for bit", also when
//     other LOBPCG / Davidson runs happen in between and when the inputs live in other objects (no hidden static or global state).
#include "vf/eigen_assert.hpp"
#include <Eigen/Core>
#include <Eigen/Sparse>
#include "vf/oracle.hpp"
#include "vf/families.hpp"
#include "vf/runner.hpp"
#include <Spectra/DavidsonSymEigsSolver.h>
#include <Spectra/MatOp/DenseSymMatProd.h>
#include <Spectra/MatOp/SparseSymMatProd.h>
#include <Spectra/contrib/LOBPCGSolver.h>
#include <memory>

#ifndef VF_REAL
#define VF_REAL double
#endif
typedef VF_REAL Real;
using vf::ld;
using vf::cld;
using vf::CMatL;
using vf::MatL;
using vf::Index;
typedef Eigen::Matrix<Real, Eigen::Dynamic, Eigen::Dynamic> Mat;
typedef Eigen::Matrix<Real, Eigen::Dynamic, 1> Vec;
typedef Eigen::SparseMatrix<Real> SpMat;

// ------------------------------------------------------------------------------------------------------------------
class UserDavidsonOp
{
public:
    using Scalar = Real;
    Mat M;
    mutable long calls = 0;
    explicit UserDavidsonOp(const Mat& m) :
        M(m) {}
    Index rows() const { return M.rows(); }
    Index cols() const { return M.cols(); }
    Mat operator*(const Eigen::Ref<const Mat>& X) const
    {
        calls++;
        return M * X;
    }
    Real operator()(Index i, Index j) const { return M(i, j); }
};

struct DSizes
{
    Index nev = 1, init = 1, corr = 1, maxs = 1;
};
struct DArgs
{
    int sel = 0;
    long maxit = 1;
    ld tol = 0;
    int guess = 0;  // 0 default space, 1 user-supplied orthonormal space (seeded)
    long guess_seed = 0;
    Index guess_cols = 1;
};
static const int DRULES[4] = {0, 3, 4, 7};

static DArgs draw_dargs(vf::Draw& d, const DSizes& s, Index n)
{
    DArgs a;
    a.sel = DRULES[d.range("selection", 0, 3)];
    a.maxit = d.range("maxit", 1, 12);
    a.tol = vf::draw_tol<Real>(d);
    a.guess = (int) d.range("guess_kind", 0, 1);
    a.guess_seed = d.range("guess_seed", 0, 255);
    // a user-supplied space takes the place of the initial space, so it obeys the same documented relations:
    // at least nev and at least `correction size` columns (corrections are formed for the leading Ritz pairs), columns + correction <= n
    const Index glo = std::max<Index>(s.nev, s.corr);
    a.guess_cols = (Index) d.range("guess_cols", glo, std::max<Index>(glo, std::min<Index>(s.maxs, n - s.corr)));
    return a;
}

static Mat make_guess(Index n, const DArgs& a)
{
    vf::Lcg g((uint64_t) a.guess_seed * 7919u + 13u);
    MatL G(n, a.guess_cols);
    for (Index j = 0; j < G.cols(); j++)
        for (Index i = 0; i < n; i++)
            G(i, j) = g.u();
    // modified Gram-Schmidt twice in long double, then rounded: orthonormal to working precision
    for (int pass = 0; pass < 2; pass++)
        for (Index j = 0; j < G.cols(); j++)
        {
            for (Index i = 0; i < j; i++)
                G.col(j) -= G.col(i).dot(G.col(j)) * G.col(i);
            G.col(j) /= G.col(j).norm();
        }
    return G.cast<Real>();
}

template <typename Solver>
static vf::Snapshot run_davidson(Solver& eigs, Index n, const DArgs& a)
{
    vf::Snapshot s;
    try
    {
        long ret;
        if (a.guess == 0)
            ret = (long) eigs.compute(vf::ALL_RULES[a.sel], (Index) a.maxit, (Real) a.tol);
        else
        {
            Mat G = make_guess(n, a);
            ret = (long) eigs.compute_with_guess(G, vf::ALL_RULES[a.sel], (Index) a.maxit, (Real) a.tol);
        }
        s.ret = ret;
        s.niter = (long) eigs.num_iterations();
        s.info = (int) eigs.info();
        s.evals = vf::widen(eigs.eigenvalues());
        s.evecs = vf::widen(eigs.eigenvectors());
    }
    catch (const std::runtime_error& e)
    {
        s.threw = true;
        s.what = std::string("runtime_error: ") + e.what();
    }
    catch (const std::invalid_argument& e)
    {
        s.threw = true;
        s.what = std::string("invalid_argument: ") + e.what();
    }
    return s;
}

template <typename Op>
static CMatL probe_dav(const Op& op, Index n)
{
    Mat X(n, 2);
    for (Index i = 0; i < n; i++)
    {
        X(i, 0) = (Real) ((ld) (((i * 7 + 3) % 11) - 5) / 4);
        X(i, 1) = (Real) ((ld) (((i * 5 + 1) % 7) - 3) / 8);
    }
    Mat Y = op * X;
    Mat D(n, 1);
    for (Index i = 0; i < n; i++)
        D(i, 0) = op(i, i);
    CMatL out(n, 3);
    out << vf::widen(Y), vf::widen(D);
    return out;
}

template <typename Op, typename MakeOp>
static void davidson_differential(vf::Draw& d, vf::Case& c, MakeOp make_op, Index n, const DSizes& s, std::ostringstream& os)
{
    typedef Spectra::DavidsonSymEigsSolver<Op> Solver;
    auto make_solver = [&](Op& op) {
        std::unique_ptr<Solver> e(new Solver(op, s.nev));
        e->set_initial_search_space_size(s.init);
        e->set_correction_size(s.corr);
        e->set_max_search_space_size(s.maxs);
        return e;
    };
    DArgs target = draw_dargs(d, s, n);
    os << " target: " << (target.guess ? "compute_with_guess(" : "compute(") << vf::ALL_RULE_NAMES[target.sel] << ",maxit=" << target.maxit << ",tol=" << vf::num(target.tol) << ")";
    vf::Snapshot base;
    CMatL probe_base;
    {
        auto op = make_op();
        auto eigs = make_solver(*op);
        probe_base = probe_dav(*op, n);
        base = run_davidson(*eigs, n, target);
        CMatL after = probe_dav(*op, n);
        VF_CHECK(vf::bits_equal(probe_base, after), "operator_changed", "the operator answers differently after compute() (fresh solver)");
    }
    if (base.threw)
    {
        c.rejected = true;
        c.cls(base.what);
    }
    auto op = make_op();
    auto eigs = make_solver(*op);
    int nprefix = (int) d.range("prefix_len", 0, 3);
    int prefix_computes = 0;
    os << " | prefix:";
    for (int k = 0; k < nprefix; k++)
    {
        DArgs a = draw_dargs(d, s, n);
        vf::Snapshot r = run_davidson(*eigs, n, a);
        prefix_computes++;
        os << " " << (a.guess ? "compute_with_guess(" : "compute(") << vf::ALL_RULE_NAMES[a.sel] << ",maxit=" << a.maxit << ")" << (r.threw ? "[threw]" : "");
        CMatL pk = probe_dav(*op, n);
        VF_CHECK(vf::bits_equal(pk, probe_base), "operator_changed", "the operator answers differently after prefix step " << k);
    }
    c.add_desc(os.str());
    if (prefix_computes > 0)
    {
        c.nontrivial = true;
        c.cls("prefix_with_compute");
    }
    vf::Snapshot reused = run_davidson(*eigs, n, target);
    std::string dd = vf::snapshot_diff(base, reused);
    VF_CHECK(dd.empty(), "reused_solver_differs", "reused Davidson solver vs fresh solver: " << dd);
    auto eigs2 = make_solver(*op);
    vf::Snapshot second = run_davidson(*eigs2, n, target);
    dd = vf::snapshot_diff(base, second);
    VF_CHECK(dd.empty(), "second_solver_differs", "second Davidson solver on the same operator vs fresh solver: " << dd);
    vf::Snapshot again = run_davidson(*eigs, n, target);
    dd = vf::snapshot_diff(base, again);
    VF_CHECK(dd.empty(), "rerun_differs", "first Davidson solver re-run after a second solver used the shared operator: " << dd);
    CMatL p2 = probe_dav(*op, n);
    VF_CHECK(vf::bits_equal(p2, probe_base), "operator_changed", "the operator answers differently at the end");
    c.cls("shared_operator");
    if (base.ret > 0)
        c.cls("pairs_returned");
    if (base.niter >= 2)
        c.cls("davidson_iterated");
}

static void davidson_case(vf::Draw& d, vf::Case& c)
{
    vf::HermRecipe R = vf::make_herm<Real>(d, false, 4, (Index) vf::options().geti("nmax", 24), 2);
    const Index n = R.n;
    Mat As = vf::Narrow<Real>::mat(R.A);
    if (d.flag("diagonally_dominant"))
    {
        ld sc = (ld) As.cwiseAbs().maxCoeff();
        for (Index i = 0; i < n; i++)
            As(i, i) += (Real) (sc * (ld) (2 * (i + 1)));
    }
    DSizes s;
    s.nev = (Index) d.range("nev", 1, std::max<Index>(1, std::min<Index>(n / 2, 5)));
    s.init = (Index) d.range("initial_size", s.nev, n - 1);
    s.corr = (Index) d.range("correction_size", 1, std::max<Index>(1, std::min<Index>(s.init, n - s.init)));
    s.maxs = (Index) d.range("max_size", s.init, n);
    int form = (int) d.range("operator_form", 0, 2);
    static const char* const FORM[3] = {"DenseSymMatProd", "SparseSymMatProd", "user operator"};
    c.cls(std::string("DavidsonSymEigsSolver<") + FORM[form] + ">");
    std::ostringstream os;
    os << "DavidsonSymEigsSolver<" << FORM[form] << "> class=" << R.name << " n=" << n << " scale=1e" << R.scale_exp << " nev=" << s.nev << " initial=" << s.init << " correction=" << s.corr << " max=" << s.maxs;
    if (vf::fro_scaled(R.A) == 0)
    {
        c.add_desc(os.str() + " zero matrix");
        c.rejected = true;
        return;
    }
    SpMat Asp = vf::to_sparse<Real>(As);
    if (form == 0)
        davidson_differential<Spectra::DenseSymMatProd<Real>>(
            d, c, [&]() { return std::unique_ptr<Spectra::DenseSymMatProd<Real>>(new Spectra::DenseSymMatProd<Real>(As)); }, n, s, os);
    else if (form == 1)
        davidson_differential<Spectra::SparseSymMatProd<Real>>(
            d, c, [&]() { return std::unique_ptr<Spectra::SparseSymMatProd<Real>>(new Spectra::SparseSymMatProd<Real>(Asp)); }, n, s, os);
    else
        davidson_differential<UserDavidsonOp>(
            d, c, [&]() { return std::unique_ptr<UserDavidsonOp>(new UserDavidsonOp(As)); }, n, s, os);
}

// ------------------------------------------------------------------------------------------------------------------
struct LSnap
{
    int info = 0;
    CMatL evals, evecs, resid;
    bool threw = false;
    std::string what;
};
struct LProblem
{
    Index n = 0, k = 0;
    SpMat A, X0, B, P, Y;
    bool hasB = false, hasP = false, hasY = false;
    int maxit = 10;
    Real tol = 0;
};

static LSnap run_lobpcg(const LProblem& P)
{
    LSnap s;
    try
    {
        Spectra::LOBPCGSolver<Real> solver(P.A, P.X0);
        if (P.hasB)
            solver.setB(P.B);
        if (P.hasY)
            solver.setConstraints(P.Y);
        if (P.hasP)
            solver.setPreconditioner(P.P);
        solver.compute(P.maxit, P.tol);
        s.info = solver.info();
        s.evals = vf::widen(solver.eigenvalues());
        s.evecs = vf::widen(solver.eigenvectors());
        s.resid = vf::widen(solver.residuals());
    }
    catch (const std::exception& e)
    {
        s.threw = true;
        s.what = e.what();
    }
    catch (const vf::EigenAssertion& e)
    {
        // an assertion inside LOBPCG is C17's business; here only reproducibility is compared
        s.threw = true;
        s.what = "eigen_assert " + e.expr;
    }
    return s;
}
static std::string lsnap_diff(const LSnap& a, const LSnap& b)
{
    if (a.threw != b.threw || a.what != b.what)
        return "one run threw (" + a.what + " / " + b.what + ")";
    if (a.threw)
        return "";
    if (a.info != b.info)
        return "info() differs";
    if (!vf::bits_equal(a.evals, b.evals))
        return "eigenvalues differ";
    if (!vf::bits_equal(a.evecs, b.evecs))
        return "eigenvectors differ";
    if (!vf::bits_equal(a.resid, b.resid))
        return "residuals differ";
    return "";
}

static LProblem draw_lobpcg(vf::Draw& d, std::ostringstream& os)
{
    LProblem P;
    P.k = (Index) d.range("k", 1, 4);
    P.n = (Index) d.range("n", 5 * P.k + 1, std::max<long>(5 * P.k + 1, vf::options().geti("nmax_lobpcg", 36)));
    const Index n = P.n, k = P.k;
    vf::Lcg g((uint64_t) d.range("content_seed", 0, 65535));
    // symmetric banded matrix with a well separated bottom of the spectrum: increasing diagonal + small off-diagonal coupling
    int band = (int) d.range("band", 1, 3);
    Mat A = Mat::Zero(n, n);
    for (Index i = 0; i < n; i++)
        A(i, i) = (Real) ((ld) (i + 1) + g.u() / 4);
    for (Index i = 0; i < n; i++)
        for (Index j = i + 1; j < std::min<Index>(n, i + 1 + band); j++)
        {
            Real v = (Real) (g.u() / 4);
            A(i, j) = v;
            A(j, i) = v;
        }
    P.A = vf::to_sparse<Real>(A);
    Mat X = Mat::Zero(n, k);
    for (Index j = 0; j < k; j++)
        for (Index i = 0; i < n; i++)
            X(i, j) = (Real) g.u();
    P.X0 = X.sparseView();
    P.hasB = d.flag("with_B");
    if (P.hasB)
    {
        Mat Bm = Mat::Zero(n, n);
        for (Index i = 0; i < n; i++)
            Bm(i, i) = (Real) (2 + g.u() / 2);
        for (Index i = 0; i + 1 < n; i++)
        {
            Real v = (Real) (g.u() / 4);
            Bm(i, i + 1) = v;
            Bm(i + 1, i) = v;
        }
        P.B = vf::to_sparse<Real>(Bm);
    }
    P.hasP = d.flag("with_preconditioner");
    if (P.hasP)
    {
        Mat Pm = Mat::Zero(n, n);
        for (Index i = 0; i < n; i++)
            Pm(i, i) = Real(1) / A(i, i);
        P.P = vf::to_sparse<Real>(Pm);
    }
    P.hasY = d.one_in("with_constraints", 4);
    if (P.hasY)
    {
        Mat Ym = Mat::Zero(n, 1);
        for (Index i = 0; i < n; i++)
            Ym(i, 0) = (Real) g.u();
        P.Y = Ym.sparseView();
    }
    P.maxit = (int) d.range("maxit", 1, 30);
    P.tol = (Real) vf::draw_tol<Real>(d);
    os << "LOBPCGSolver<" << vf::Sc<Real>::name() << "> n=" << n << " k=" << k << " band=" << band << (P.hasB ? " B" : "") << (P.hasP ? " preconditioner" : "") << (P.hasY ? " constraints" : "")
       << " compute(maxit=" << P.maxit << ",tol=" << vf::num(P.tol) << ")";
    return P;
}

static void lobpcg_case(vf::Draw& d, vf::Case& c)
{
    std::ostringstream os;
    LProblem P = draw_lobpcg(d, os);
    c.cls("LOBPCGSolver");
    LSnap base = run_lobpcg(P);
    if (base.threw)
    {
        c.cls("lobpcg_threw");
        c.rejected = true;
    }
    // other runs in between: another LOBPCG problem, and the same problem with other arguments
    int between = (int) d.range("runs_between", 0, 2);
    os << " | between:";
    for (int i = 0; i < between; i++)
    {
        std::ostringstream o2;
        if (d.flag("between_same_problem"))
        {
            LProblem Q = P;
            Q.maxit = (int) d.range("maxit", 1, 30);
            Q.tol = (Real) vf::draw_tol<Real>(d);
            run_lobpcg(Q);
            os << " same problem compute(maxit=" << Q.maxit << ")";
        }
        else
        {
            LProblem Q = draw_lobpcg(d, o2);
            run_lobpcg(Q);
            os << " [" << o2.str() << "]";
        }
    }
    c.add_desc(os.str());
    // the same inputs held by other objects (copies): addresses differ, values do not
    LProblem Pc = P;
    LSnap again = run_lobpcg(Pc);
    std::string dd = lsnap_diff(base, again);
    VF_CHECK(dd.empty(), "lobpcg_not_reproducible", "two LOBPCG solvers constructed from the same inputs and given the same compute() arguments differ: " << dd);
    // running twice the number of iterations in one call vs. the inputs untouched: the caller's matrices must be unchanged
    VF_CHECK(vf::bits_equal(vf::widen(Mat(P.A)), vf::widen(Mat(Pc.A))) && vf::bits_equal(vf::widen(Mat(P.X0)), vf::widen(Mat(Pc.X0))), "harness", "input copies differ");
    c.nontrivial = between > 0 && !base.threw;
    if (!base.threw && base.info == 0)
        c.cls("lobpcg_success");
    if (between > 0)
        c.cls("lobpcg_runs_between");
}

static void run_case(vf::Draw& d, vf::Case& c)
{
    if (d.range("kind", 0, 3) == 3)
        lobpcg_case(d, c);
    else
        davidson_case(d, c);
}

int main(int argc, char** argv)
{
    return vf::run_main(argc, argv, "C06", run_case);
}
