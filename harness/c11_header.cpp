// C11 (part 5) - every MatOp header is usable as the first and only Spectra include of a translation unit.
// One tiny binary per header (-DC11_HDR=<Spectra/MatOp/X.h>); nothing is run: "it compiles" is the check
// (compile_error_is_violation in the PROPS entry turns a compiler error into a VIOLATION with the compiler's message).
#include "vf/eigen_assert.hpp"
#ifndef C11_HDR
#error "build with -DC11_HDR=<Spectra/MatOp/Header.h>"
#endif
#include C11_HDR

int main()
{
    return 0;
}
