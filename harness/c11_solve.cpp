// C11 (part 2) - the linear-solve wrappers in every template configuration, one real scalar type per binary (VF_REAL):
//   DenseSymShiftSolve, SparseSymShiftSolve            y = (A - sigma I)^-1 x            (A symmetric, one triangle read)
//   DenseGenRealShiftSolve, SparseGenRealShiftSolve    y = (A - sigma I)^-1 x            (A general)
//   DenseGenComplexShiftSolve, SparseGenComplexShiftSolve  y = Re[(A - sigma I)^-1 x]    (A general real, sigma complex)
//   DenseCholesky, SparseCholesky                      y = L^-1 x, y = L^-T x, B = L L^T (sparse: up to the fill-reducing permutation,
//                                                      which is recovered from the wrapper and verified to be a permutation)
//   SparseRegularInverse                               y = B x and y = B^-1 x (conjugate gradients; may throw runtime_error)
// x {Lower, Upper} x {ColMajor, RowMajor} x storage index {int, long}.
// Oracle: dense long double reference built from the FULL symmetric matrix, forward error <= 64 n eps cond ||x_ref||, where cond is
// measured against the data the wrapper is given (||M^-1||_2 (||A||_F + |sigma| sqrt n)); metamorphic: the triangle the wrapper
// must not read is overwritten and every output (including status and exceptions) must stay bit-identical.
#include "vf/eigen_assert.hpp"
#include <Eigen/Core>
#include <Eigen/SparseCore>
#include <Eigen/Eigenvalues>
#ifdef C11_KF_REGINV_HEADER
// open finding KF-C11-2: SparseRegularInverse.h does not include Util/CompInfo.h itself; pull it in first so that the rest
// of the check keeps running (c11_header.cpp tests the headers one by one once the finding is closed)
#include <Spectra/Util/CompInfo.h>
#endif
#include <Spectra/MatOp/SparseRegularInverse.h>
#include <Spectra/MatOp/DenseSymShiftSolve.h>
#include <Spectra/MatOp/SparseSymShiftSolve.h>
#include <Spectra/MatOp/DenseGenRealShiftSolve.h>
#include <Spectra/MatOp/SparseGenRealShiftSolve.h>
#include <Spectra/MatOp/DenseGenComplexShiftSolve.h>
#include <Spectra/MatOp/SparseGenComplexShiftSolve.h>
#include <Spectra/MatOp/DenseCholesky.h>
#include <Spectra/MatOp/SparseCholesky.h>
#include "c11_common.hpp"

using namespace c11;

#ifndef VF_REAL
#define VF_REAL double
#endif
typedef VF_REAL Real;

enum Family
{
    F_SYM_SHIFT = 0,
    F_GEN_REAL_SHIFT = 1,
    F_GEN_COMPLEX_SHIFT = 2,
    F_CHOLESKY = 3,
    F_REGINV = 4
};

struct SolveTraits
{
    ScalarInfo si;
    int family;
    int uplo;  // 0 when the wrapper has no triangle option
    bool sparse;
    bool rowmajor;
    std::string wrapper;
};

// ---- per-instantiation code ------------------------------------------------------------------------------------------
template <typename Op, typename Arg, int Mode>
static Out run_shift(const Input& in, const Eff& e)
{
    typedef typename Op::Scalar S;
    typedef Eigen::Matrix<S, Eigen::Dynamic, 1> Vec;
    Out o;
    Arg arg(e.A, e.stA, in.formA);
    std::unique_ptr<Op> op = arg.template make<Op>();
    o.ints.push_back((long) op->rows());
    o.ints.push_back((long) op->cols());
    if constexpr (Mode == 0)
    {
        if (in.reshift)
            op->set_shift((S) in.sigma0.real());
        op->set_shift((S) in.sigma.real());
    }
    else
    {
        if (in.reshift)
            op->set_shift((S) in.sigma0.real(), (S) in.sigma0.imag());
        op->set_shift((S) in.sigma.real(), (S) in.sigma.imag());
    }
    Vec x = to_vec<S>(in.x);
    Vec y = Vec::Constant(in.rows, S(777));
    op->perform_op(x.data(), y.data());
    o.v.push_back(widen_vec(y));
    Vec x2 = to_vec<S>(in.x2);
    Vec y2 = Vec::Constant(in.rows, S(-5));
    op->perform_op(x2.data(), y2.data());
    o.v.push_back(widen_vec(y2));
    return o;
}

template <typename Op, typename Arg>
static Out run_chol(const Input& in, const Eff& e)
{
    typedef typename Op::Scalar S;
    typedef Eigen::Matrix<S, Eigen::Dynamic, 1> Vec;
    Out o;
    Arg arg(e.A, e.stA, in.formA);
    std::unique_ptr<Op> op = arg.template make<Op>();
    o.ints.push_back((long) op->rows());
    o.ints.push_back((long) op->cols());
    o.ints.push_back((long) op->info());
    if (op->info() != Spectra::CompInfo::Successful)
        return o;
    const Index n = in.rows;
    Vec x = to_vec<S>(in.x);
    Vec y = Vec::Constant(n, S(777)), z = Vec::Constant(n, S(-5)), w = Vec::Constant(n, S(3));
    op->lower_triangular_solve(x.data(), y.data());
    o.v.push_back(widen_vec(y));
    op->upper_triangular_solve(x.data(), z.data());
    o.v.push_back(widen_vec(z));
    op->upper_triangular_solve(y.data(), w.data());
    o.v.push_back(widen_vec(w));
    // columns of the operator x -> L^-1 x (they reveal the fill-reducing permutation of the sparse factorization)
    for (Index j = 0; j < n; j++)
    {
        Vec ej = Vec::Zero(n);
        ej[j] = S(1);
        Vec cj = Vec::Constant(n, S(11));
        op->lower_triangular_solve(ej.data(), cj.data());
        o.v.push_back(widen_vec(cj));
    }
    return o;
}

template <typename Op, typename Arg>
static Out run_reginv(const Input& in, const Eff& e)
{
    typedef typename Op::Scalar S;
    typedef Eigen::Matrix<S, Eigen::Dynamic, 1> Vec;
    Out o;
    Arg arg(e.A, e.stA, in.formA);
    std::unique_ptr<Op> op = arg.template make<Op>();
    o.ints.push_back((long) op->rows());
    o.ints.push_back((long) op->cols());
    o.ints.push_back((long) op->info());
    const Index n = in.rows;
    Vec x = to_vec<S>(in.x);
    Vec y = Vec::Constant(n, S(777));
    op->perform_op(x.data(), y.data());
    o.v.push_back(widen_vec(y));
    Vec z = Vec::Constant(n, S(-5));
    op->solve(x.data(), z.data());  // may throw std::runtime_error (CG did not converge): caught by safe_run
    o.v.push_back(widen_vec(z));
    o.ints.push_back((long) op->info());
    Vec x2 = to_vec<S>(in.x2);
    Vec z2 = Vec::Constant(n, S(4));
    op->solve(x2.data(), z2.data());
    o.v.push_back(widen_vec(z2));
    return o;
}

// ---- shared -------------------------------------------------------------------------------------------------------------
static void describe(vf::Case& c, const SolveTraits& t, const std::string& name, const Generated& G, const Input& in, int gk)
{
    const char* const* forms = t.sparse ? SPARSE_FORMS : DENSE_FORMS;
    c.add_desc(name + " " + G.desc + " form=" + forms[in.formA] + (t.uplo ? std::string(" unused_triangle=") + GARBAGE_NAMES[gk] : std::string()));
    if (in.rows <= 4 && in.cols <= 4)
        c.add_desc("A=" + vf::show(in.A, 4) + " x=" + vf::show(in.x, 4));
    c.cls("wrapper/" + t.wrapper);
    c.cls(std::string("scalar/") + t.si.name);
    c.cls(std::string(t.sparse ? "sparse_form/" : "dense_form/") + forms[in.formA]);
    c.cls(std::string("pattern/") + PATTERN_NAMES[G.pattern]);
    if (in.rows == 1)
        c.cls("n=1");
    c.sfeat["wrapper"] = t.wrapper;
    c.sfeat["uplo"] = t.uplo ? uplo_name(t.uplo) : "";
    c.sfeat["order"] = t.rowmajor ? "RowMajor" : "ColMajor";
}

// the ten wrappers that check squareness in their constructor reject a rectangular matrix with invalid_argument
static bool nonsquare_case(vf::Draw& d, vf::Case& c, const SolveTraits& t, RunFn fn, const std::string& name, int kind)
{
    if (!d.one_in("nonsquare_input", 24))
        return false;
    Index rows = (Index) d.range("rows", 1, 6), cols = (Index) d.range("cols", 1, 6);
    if (rows == cols)
        cols = rows + 1;
    GenSpec gs;
    gs.kind = K_GEN;
    gs.prec = t.si.prec;
    gs.max_scale_exp = 0;
    (void) kind;
    Generated G = gen_matrix(d, gs, rows, cols);
    Input in;
    in.rows = rows;
    in.cols = cols;
    in.A = G.A;
    in.stA = G.st;
    in.x = gen_vector(d, "x_seed", cols, false, t.si.prec);
    in.x2 = in.x;
    in.formA = 0;
    Eff e;
    e.A = in.A;
    e.stA = in.stA;
    Out o = safe_run(fn, in, e);
    c.add_desc(name + " constructed from a " + std::to_string(rows) + "x" + std::to_string(cols) + " matrix");
    c.cls("nonsquare_rejected");
    c.cls("wrapper/" + t.wrapper);
    c.rejected = true;
    VF_CHECK(o.threw == 1, "nonsquare_accepted", name << ": a " << rows << "x" << cols << " matrix was not rejected with std::invalid_argument (threw=" << o.threw << " " << o.what << ")");
    return true;
}

static void metamorphic(vf::Draw& d, vf::Case& c, const SolveTraits& t, RunFn fn, const std::string& name, const Input& in, const Out& o, int gk, ld gscale, bool nan_run)
{
    (void) d;
    if (!t.uplo)
        return;
    Eff g;
    make_variant(in.A, in.stA, t.uplo, gk, gscale, false, g.A, g.stA);
    Out og = safe_run(fn, in, g);
    std::string why;
    c.cls(std::string("unused_triangle/") + GARBAGE_NAMES[gk]);
    c.feat["garbage_kind"] = gk;
    VF_CHECK(same_bits(o, og, why), "unused_triangle_read", name << ": outputs change when the triangle the wrapper must not read is replaced by " << GARBAGE_NAMES[gk] << ": " << why);
    if (nan_run)
    {
        Eff gn;
        make_variant(in.A, in.stA, t.uplo, G_NAN, gscale, false, gn.A, gn.stA);
        Out on = safe_run(fn, in, gn);
        c.cls("nan_poison_run");
        if (!same_bits(o, on, why))
            vf::report().classes["reported_only/NaN in the unused triangle changes an output of " + t.wrapper]++;
    }
}

// eigenvalues of a general / Hermitian matrix in long double (used only to place shifts)
static CVecL ref_eigenvalues(const CMatL& A, bool hermitian)
{
    const ld nm = vf::fro_scaled(A);
    CVecL ev = CVecL::Zero(A.rows());
    if (!(nm > 0))
        return ev;
    CMatL As = A / nm;
    if (hermitian)
    {
        Eigen::SelfAdjointEigenSolver<CMatL> es(As, Eigen::EigenvaluesOnly);
        for (Index i = 0; i < A.rows(); i++)
            ev[i] = cld(es.eigenvalues()[i] * nm, 0);
    }
    else
    {
        Eigen::ComplexEigenSolver<CMatL> es(As, false);
        ev = es.eigenvalues() * cld(nm);
    }
    return ev;
}

static void shift_case(vf::Draw& d, vf::Case& c, const SolveTraits& t, RunFn fn, const std::string& name)
{
    const ScalarInfo& si = t.si;
    const bool symm = t.family == F_SYM_SHIFT;
    const bool cshift = t.family == F_GEN_COMPLEX_SHIFT;
    if (nonsquare_case(d, c, t, fn, name, symm ? K_SYM : K_GEN))
        return;
    const Index n = (Index) d.dim("n", 1, 30);
    GenSpec gs;
    gs.kind = symm ? K_SYM : K_GEN;
    gs.cplx = false;
    gs.prec = si.prec;
    gs.max_scale_exp = si.max_scale_exp;
    Generated G = gen_matrix(d, gs, n, n);
    Input in;
    in.rows = in.cols = n;
    in.A = G.A;
    in.stA = G.st;
    in.x = gen_vector(d, "x_seed", n, false, si.prec);
    in.x2 = gen_vector(d, "x2_seed", n, false, si.prec);
    in.formA = (int) d.range("form", 0, t.sparse ? 4 : 3);
    // shift
    const int sk = (int) d.range("shift_kind", 0, 3);
    const ld normA = vf::fro_scaled(in.A);
    const ld sc = normA > 0 ? normA / std::sqrt((ld) n) : G.scale;
    ld sre = 0, sim = 0;
    if (sk == 1 || sk == 3)
    {
        sre = (ld) d.range("shift_re", -32, 32) / 16 * sc;
        if (cshift)
            sim = (ld) d.range("shift_im", -32, 32) / 16 * sc;
    }
    else if (sk == 2)
    {
        CVecL ev = ref_eigenvalues(in.A, symm);
        const Index k = (Index) d.range("near_eigenvalue", 0, n - 1);
        const ld delta = std::pow((ld) 10, -(ld) d.range("distance_exp", 1, si.prec == P_FLOAT ? 3 : 6));
        sre = ev[k].real() * (1 + delta) + delta * sc;
        if (cshift)
            sim = ev[k].imag() * (1 - delta) + (d.flag("no_extra_imag_offset") ? 0 : delta * sc);
    }
    if (sk == 3 && cshift)
        sim = 0;  // a complex-shift wrapper given a real shift
    in.sigma = round_to(cld(sre, sim), si.prec);
    // Right-hand side of the second call: either random, or constructed so that the solution has a MODERATE norm although the shifted
    // matrix may be ill-conditioned: b = M conj(M) y / ||M|| (real for real A), whose solution is conj(M) y / ||M||. A backward-stable
    // solve is accurate to cond * eps relative to ||solution|| for EVERY b; a method that is only accurate relative to
    // ||M^-1|| ||b|| (multiplying by a computed inverse, for instance) is exposed by exactly such right-hand sides.
    if (d.flag("rhs_with_moderate_solution") && normA > 0)
    {
        CMatL M = in.A - in.sigma * CMatL::Identity(n, n);
        CVecL y = gen_vector(d, "y_seed", n, false, si.prec);
        CVecL b = M * (M.conjugate() * y);
        const ld nm = vf::fro_scaled(M);
        if (nm > 0 && vf::all_finite(b))
        {
            for (Index i = 0; i < n; i++)
                b[i] = cld(b[i].real() / nm, 0);
            round_vec(b, si.prec);
            if (vf::all_finite(b) && b.norm() > 0)
            {
                in.x2 = b;
                c.cls("rhs_with_moderate_solution");
            }
        }
    }
    in.reshift = d.flag("shift_set_twice");
    in.sigma0 = round_to(cld((ld) 0.37 * sc, cshift ? (ld) 0.61 * sc : 0), si.prec);
    int gk = 0;
    bool nan_run = false;
    if (symm)
    {
        gk = (int) d.range("unused_triangle", 1, 3);
        nan_run = d.one_in("nan_poison_run", 4);
    }
    describe(c, t, name, G, in, gk);
    {
        std::ostringstream os;
        os << "sigma=(" << (double) in.sigma.real() << "," << (double) in.sigma.imag() << ")" << (in.reshift ? " after set_shift(other)" : "");
        c.add_desc(os.str());
    }
    c.cls(std::string("shift/") + (sk == 0 ? "zero" : sk == 1 ? "random" : sk == 2 ? "near_eigenvalue" : (cshift ? "real_shift_to_complex_wrapper" : "random")));
    if (in.reshift)
        c.cls("shift_set_twice");

    // reference
    CMatL M = in.A - in.sigma * CMatL::Identity(n, n);
    SolveRef R = ref_factor(M, symm);
    const ld data_norm = normA + std::abs(in.sigma) * std::sqrt((ld) n);
    const ld cond = R.singular ? std::numeric_limits<ld>::infinity() : data_norm / R.smin;
    // the first shift must be usable as well (set_shift may throw for a singular matrix)
    bool first_ok = true;
    if (in.reshift)
    {
        CMatL M0 = in.A - in.sigma0 * CMatL::Identity(n, n);
        SolveRef R0 = ref_factor(M0, symm);
        first_ok = !R0.singular && (normA + std::abs(in.sigma0) * std::sqrt((ld) n)) / R0.smin <= si.max_cond;
    }
    if (!(cond <= si.max_cond) || !first_ok)
    {
        c.rejected = true;
        c.cls("rejected/ill_conditioned_shift");
        return;
    }
    c.nontrivial = n >= 2;
    c.feat["cond"] = (double) cond;
    bool kf3_domain = false;
    // structure of the matrix that is factorized (stored entries of A plus the diagonal): do its row counts and its column
    // counts give the same outer-index array? (feature of the known finding about row-major input to Eigen::SparseLU)
    {
        bool differs = false;
        Index rsum = 0, csum = 0;
        for (Index i = 0; i < n; i++)
        {
            for (Index j = 0; j < n; j++)
            {
                rsum += (in.stA(i, j) || i == j) ? 1 : 0;
                csum += (in.stA(j, i) || i == j) ? 1 : 0;
            }
            differs = differs || rsum != csum;
        }
        c.feat["row_col_profile_differs"] = differs ? 1 : 0;
        if (t.sparse && t.rowmajor && differs && !symm)
        {
            c.cls("rowmajor_sparse_lu_with_unsymmetric_profile");
            kf3_domain = true;
        }
    }

    Eff clean;
    clean.A = in.A;
    clean.stA = in.stA;
    Out o = safe_run(fn, in, clean);
    VF_CHECK(o.threw == 0, "false_singular", name << ": exception '" << o.what << "' for a system with condition number " << vf::num(cond));
    VF_CHECK(o.ints[0] == n && o.ints[1] == n, "dimensions", name << ": rows()/cols() = " << o.ints[0] << "x" << o.ints[1]);
    std::string stat = cshift ? "complex shift solve: err/(n eps cond ||x||)" : (symm ? "sym shift solve: err/(n eps cond ||x||)" : "real shift solve: err/(n eps cond ||x||)");
    if (kf3_domain)  // cases in the input class of KF-C11-3 that happen to stay below the bound are kept out of the calibration record
        stat += " [row-major SparseLU on an unsymmetric profile, input class of KF-C11-3]";
    for (int k = 0; k < 2; k++)
    {
        const CVecL& b = k ? in.x2 : in.x;
        CVecL full = R.Minv * b;
        CVecL want(n);
        for (Index i = 0; i < n; i++)
            want[i] = cld(full[i].real(), 0);
        check_close(o.v[k], want, (ld) n * si.eps * cond * full.norm(), "solve", name + (k ? " perform_op (second call)" : " perform_op"), stat);
        // Backward error ("to backward-stable accuracy"). The wrapper returns y = Re z only, with (M + E) z = b and ||E|| <= c n eps ||M||
        // for a backward-stable solve, i.e. r = M z - b satisfies ||r|| <= c n eps ||M|| ||z||. M and conj(M) commute (A is real), so
        //     M conj(M) y = (A - Re(sigma) I) b + Re(conj(M) r)          [for a real shift simply M y = b + r]
        // and the defect of that identity is bounded by c n eps ||M||^2 ||z|| (resp. c n eps ||M|| ||z||). The forward-error test above
        // cannot tell a backward-stable solve from, e.g., a multiplication by a computed inverse (both err by cond * eps along the
        // near-singular direction); this one can, for right-hand sides whose solution has a moderate norm.
        if (o.v[k].size() == n && vf::all_finite(o.v[k]))
        {
            const ld nM = vf::fro_scaled(M);
            ld defect, unit;
            if (in.sigma.imag() == 0)
            {
                defect = (M * o.v[k] - b).norm();
                unit = (ld) n * si.eps * nM * full.norm();
            }
            else
            {
                CMatL Ar = in.A - cld(in.sigma.real(), 0) * CMatL::Identity(n, n);
                defect = (M * (M.conjugate() * o.v[k]) - Ar * b).norm();
                unit = (ld) n * si.eps * nM * nM * full.norm();
            }
            VF_CHECK(defect <= CTOL * unit, "backward_error", name << (k ? " perform_op (second call)" : " perform_op") << ": backward error " << vf::num(defect) << " > 64 * " << vf::num(unit)
                                                                       << " = 64 n eps ||M||" << (in.sigma.imag() == 0 ? "" : "^2") << " ||z|| (cond " << vf::num(cond) << ", ||z|| = " << vf::num(full.norm()) << ")");
            if (unit > 0)
                pending_stats().push_back(std::make_pair(std::string(cshift ? "complex" : (symm ? "sym" : "real")) + " shift solve: backward error/(n eps ||M||^p ||z||)" + (kf3_domain ? " [KF-C11-3 input class]" : ""), (double) (defect / unit)));
        }
    }
    metamorphic(d, c, t, fn, name, in, o, gk, G.scale, nan_run);
}

static void chol_case(vf::Draw& d, vf::Case& c, const SolveTraits& t, RunFn fn, const std::string& name)
{
    const ScalarInfo& si = t.si;
    if (nonsquare_case(d, c, t, fn, name, K_SPD))
        return;
    const Index n = (Index) d.dim("n", 1, 30);
    GenSpec gs;
    gs.kind = K_SPD;
    gs.prec = si.prec;
    gs.max_scale_exp = si.max_scale_exp;
    gs.spd_max_margin_q = (si.prec == P_FLOAT) ? 4 : 10;
    Generated G = gen_matrix(d, gs, n, n);
    Input in;
    in.rows = in.cols = n;
    in.A = G.A;
    in.stA = G.st;
    in.x = gen_vector(d, "x_seed", n, false, si.prec);
    in.x2 = in.x;
    in.formA = (int) d.range("form", 0, t.sparse ? 4 : 3);
    const bool indefinite = d.one_in("negative_diagonal_entry", 12);
    if (indefinite)
    {
        const Index k = (Index) d.range("negated_at", 0, n - 1);
        in.A(k, k) = -in.A(k, k);
    }
    const int gk = (int) d.range("unused_triangle", 1, 3);
    const bool nan_run = d.one_in("nan_poison_run", 4);
    describe(c, t, name, G, in, gk);

    Eff clean;
    clean.A = in.A;
    clean.stA = in.stA;
    if (indefinite)
    {
        Out o = safe_run(fn, in, clean);
        c.add_desc("one diagonal entry negated (not positive definite)");
        c.cls("not_positive_definite_reported");
        c.rejected = true;
        VF_CHECK(o.threw == 0, "unexpected_exception", name << ": exception '" << o.what << "' for an indefinite matrix (info() is the documented channel)");
        VF_CHECK(o.ints[2] == (long) Spectra::CompInfo::NumericalIssue, "indefinite_accepted", name << ": info() = " << o.ints[2] << " for a matrix with a negative diagonal entry");
        metamorphic(d, c, t, fn, name, in, o, gk, G.scale, false);
        return;
    }
    SolveRef R = ref_factor(in.A, true);
    const ld cond = R.singular ? std::numeric_limits<ld>::infinity() : R.smax / R.smin;
    if (!(cond <= si.max_cond))
    {
        c.rejected = true;
        c.cls("rejected/ill_conditioned_B");
        return;
    }
    c.nontrivial = n >= 2;
    c.feat["cond"] = (double) cond;
    Out o = safe_run(fn, in, clean);
    VF_CHECK(o.threw == 0, "unexpected_exception", name << ": exception '" << o.what << "'");
    VF_CHECK(o.ints[0] == n && o.ints[1] == n, "dimensions", name << ": rows()/cols() = " << o.ints[0] << "x" << o.ints[1]);
    VF_CHECK(o.ints[2] == (long) Spectra::CompInfo::Successful, "false_not_spd", name << ": info() = " << o.ints[2] << " for a positive definite matrix with condition number " << vf::num(cond));
    VF_CHECK((Index) o.v.size() == 3 + n, "outputs", name << ": internal: " << o.v.size() << " outputs");
    // recover the permutation: column j of x -> L^-1 P x is column pi(j) of L^-1, whose first pi(j) entries are exact zeros
    std::vector<Index> pi(n), seen(n, 0);
    for (Index j = 0; j < n; j++)
    {
        const CVecL& col = o.v[3 + j];
        Index z = 0;
        while (z < n && col[z] == cld(0))
            z++;
        VF_CHECK(z < n, "triangular_structure", name << ": L^-1 e_" << j << " is the zero vector");
        VF_CHECK(!seen[z], "triangular_structure", name << ": the operator x -> L^-1 x is not a (column-permuted) lower triangular matrix: two columns start at row " << z);
        VF_CHECK(col[z].real() > 0, "triangular_structure", name << ": diagonal entry of L^-1 is not positive");
        seen[z] = 1;
        pi[j] = z;
    }
    bool identity = true;
    for (Index j = 0; j < n; j++)
        identity = identity && pi[j] == j;
    if (!t.sparse)
        VF_CHECK(identity, "triangular_structure", name << ": dense Cholesky factor is not lower triangular (L^-1 has a permuted structure)");
    if (!identity)
        c.cls("sparse_cholesky/nontrivial_permutation");
    // L' = chol(P B P^T) in long double
    CMatL PB(n, n);
    for (Index i = 0; i < n; i++)
        for (Index j = 0; j < n; j++)
            PB(pi[i], pi[j]) = in.A(i, j);
    Eigen::LLT<CMatL> llt(PB);
    VF_CHECK(llt.info() == Eigen::Success, "reference", "internal: long double Cholesky of the reference failed");
    CMatL L = llt.matrixL();
    CMatL Linv = L.triangularView<Eigen::Lower>().solve(CMatL::Identity(n, n));
    CVecL Px(n);
    for (Index j = 0; j < n; j++)
        Px[pi[j]] = in.x[j];
    CVecL want_lower = Linv * Px;
    CVecL t2 = Linv.adjoint() * in.x;
    CVecL want_upper(n);
    for (Index j = 0; j < n; j++)
        want_upper[j] = t2[pi[j]];
    check_close(o.v[0], want_lower, (ld) n * si.eps * cond * want_lower.norm(), "cholesky_lower", name + " lower_triangular_solve", "cholesky L^-1 x: err/(n eps cond(B) ||y||)");
    check_close(o.v[1], want_upper, (ld) n * si.eps * cond * want_upper.norm(), "cholesky_upper", name + " upper_triangular_solve", "cholesky L^-T x: err/(n eps cond(B) ||y||)");
    CVecL want_inv = R.Minv * in.x;
    check_close(o.v[2], want_inv, (ld) n * si.eps * cond * want_inv.norm(), "cholesky_inverse", name + " upper_triangular_solve(lower_triangular_solve(x)) vs B^-1 x", "cholesky L^-T L^-1 x: err/(n eps cond(B) ||y||)");
    metamorphic(d, c, t, fn, name, in, o, gk, G.scale, nan_run);
}

static void reginv_case(vf::Draw& d, vf::Case& c, const SolveTraits& t, RunFn fn, const std::string& name)
{
    const ScalarInfo& si = t.si;
    if (nonsquare_case(d, c, t, fn, name, K_SPD))
        return;
    const Index n = (Index) d.dim("n", 1, 30);
    GenSpec gs;
    gs.kind = K_SPD;
    gs.prec = si.prec;
    gs.max_scale_exp = si.max_scale_exp;
    gs.spd_max_margin_q = 3;  // cond(B) stays below ~1e2: CG is documented to be usable for well-conditioned B only
    Generated G = gen_matrix(d, gs, n, n);
    Input in;
    in.rows = in.cols = n;
    in.A = G.A;
    in.stA = G.st;
    in.x = gen_vector(d, "x_seed", n, false, si.prec);
    in.x2 = gen_vector(d, "x2_seed", n, false, si.prec);
    in.formA = (int) d.range("form", 0, 4);
    const int gk = (int) d.range("unused_triangle", 1, 3);
    const bool nan_run = d.one_in("nan_poison_run", 4);
    describe(c, t, name, G, in, gk);
    SolveRef R = ref_factor(in.A, true);
    const ld cond = R.singular ? std::numeric_limits<ld>::infinity() : R.smax / R.smin;
    if (!(cond <= (ld) 1e2))
    {
        c.rejected = true;
        c.cls("rejected/cond(B)>1e2");
        return;
    }
    c.feat["cond"] = (double) cond;
    Eff clean;
    clean.A = in.A;
    clean.stA = in.stA;
    Out o = safe_run(fn, in, clean);
    if (o.threw == 2)
    {
        // the conjugate-gradient solver gave up: allowed (runtime_error is the library's channel for it)
        c.rejected = true;
        c.cls("cg_runtime_error");
        return;
    }
    c.nontrivial = n >= 2;
    VF_CHECK(o.threw == 0, "unexpected_exception", name << ": exception '" << o.what << "'");
    VF_CHECK(o.ints[0] == n && o.ints[1] == n, "dimensions", name << ": rows()/cols() = " << o.ints[0] << "x" << o.ints[1]);
    VF_CHECK(o.ints[2] == (long) Spectra::CompInfo::Successful && o.ints[3] == (long) Spectra::CompInfo::Successful, "status", name << ": info() = " << o.ints[2] << " after construction, " << o.ints[3] << " after a successful solve");
    const ld normB = vf::fro_scaled(in.A);
    CVecL wantp = in.A * in.x;
    check_close(o.v[0], wantp, (ld) n * si.eps * normB * in.x.norm(), "product", name + " perform_op", "regular inverse B x: err/(n eps ||B|| ||x||)");
    CVecL wants = R.Minv * in.x;
    check_close(o.v[1], wants, (ld) n * si.eps * cond * wants.norm(), "solve", name + " solve", "regular inverse B^-1 x: err/(n eps cond ||x||)");
    CVecL wants2 = R.Minv * in.x2;
    check_close(o.v[2], wants2, (ld) n * si.eps * cond * wants2.norm(), "solve", name + " solve (second call)", "regular inverse B^-1 x: err/(n eps cond ||x||)");
    metamorphic(d, c, t, fn, name, in, o, gk, G.scale, nan_run);
}

static SolveTraits mk(int family, int uplo, bool sparse, bool rowmajor, const std::string& w)
{
    SolveTraits t;
    t.si = sinfo<Real>();
    t.family = family;
    t.uplo = uplo;
    t.sparse = sparse;
    t.rowmajor = rowmajor;
    t.wrapper = w;
    return t;
}

#define TY(...) __VA_ARGS__
#define REG(CASEFN, RUNFN, FAMILY, UPLO, SPARSE, ORDER, WRAPPER, NAME)                                                       \
    {                                                                                                                  \
        SolveTraits t = mk(FAMILY, UPLO, SPARSE, ORDER == Eigen::RowMajor, WRAPPER);                                                            \
        RunFn fn = &RUNFN;                                                                                             \
        std::string nm = std::string(NAME);                                                                            \
        registry().push_back({nm, [t, fn, nm](vf::Draw& d, vf::Case& c) { CASEFN(d, c, t, fn, nm); }});                 \
    }
#define SNAME(W, ARGS) (std::string(W "<") + vf::Sc<Real>::name() + "," ARGS ">")

#define REG_DENSE_SYM_SHIFT(U, F) REG(shift_case, TY(run_shift<Spectra::DenseSymShiftSolve<Real, Eigen::U, Eigen::F>, DenseArg<Real, Eigen::F>, 0>), F_SYM_SHIFT, Eigen::U, false, Eigen::F, "DenseSymShiftSolve", SNAME("DenseSymShiftSolve", #U "," #F))
#define REG_SPARSE_SYM_SHIFT(U, F, I) REG(shift_case, TY(run_shift<Spectra::SparseSymShiftSolve<Real, Eigen::U, Eigen::F, I>, SparseArg<Real, Eigen::F, I>, 0>), F_SYM_SHIFT, Eigen::U, true, Eigen::F, "SparseSymShiftSolve", SNAME("SparseSymShiftSolve", #U "," #F "," #I))
#define REG_DENSE_GEN_REAL(F) REG(shift_case, TY(run_shift<Spectra::DenseGenRealShiftSolve<Real, Eigen::F>, DenseArg<Real, Eigen::F>, 0>), F_GEN_REAL_SHIFT, 0, false, Eigen::F, "DenseGenRealShiftSolve", SNAME("DenseGenRealShiftSolve", #F))
#define REG_SPARSE_GEN_REAL(F, I) REG(shift_case, TY(run_shift<Spectra::SparseGenRealShiftSolve<Real, Eigen::F, I>, SparseArg<Real, Eigen::F, I>, 0>), F_GEN_REAL_SHIFT, 0, true, Eigen::F, "SparseGenRealShiftSolve", SNAME("SparseGenRealShiftSolve", #F "," #I))
#define REG_DENSE_GEN_CPLX(F) REG(shift_case, TY(run_shift<Spectra::DenseGenComplexShiftSolve<Real, Eigen::F>, DenseArg<Real, Eigen::F>, 1>), F_GEN_COMPLEX_SHIFT, 0, false, Eigen::F, "DenseGenComplexShiftSolve", SNAME("DenseGenComplexShiftSolve", #F))
#define REG_SPARSE_GEN_CPLX(F, I) REG(shift_case, TY(run_shift<Spectra::SparseGenComplexShiftSolve<Real, Eigen::F, I>, SparseArg<Real, Eigen::F, I>, 1>), F_GEN_COMPLEX_SHIFT, 0, true, Eigen::F, "SparseGenComplexShiftSolve", SNAME("SparseGenComplexShiftSolve", #F "," #I))
#define REG_DENSE_CHOL(U, F) REG(chol_case, TY(run_chol<Spectra::DenseCholesky<Real, Eigen::U, Eigen::F>, DenseArg<Real, Eigen::F>>), F_CHOLESKY, Eigen::U, false, Eigen::F, "DenseCholesky", SNAME("DenseCholesky", #U "," #F))
#define REG_SPARSE_CHOL(U, F, I) REG(chol_case, TY(run_chol<Spectra::SparseCholesky<Real, Eigen::U, Eigen::F, I>, SparseArg<Real, Eigen::F, I>>), F_CHOLESKY, Eigen::U, true, Eigen::F, "SparseCholesky", SNAME("SparseCholesky", #U "," #F "," #I))
#define REG_REGINV(U, F, I) REG(reginv_case, TY(run_reginv<Spectra::SparseRegularInverse<Real, Eigen::U, Eigen::F, I>, SparseArg<Real, Eigen::F, I>>), F_REGINV, Eigen::U, true, Eigen::F, "SparseRegularInverse", SNAME("SparseRegularInverse", #U "," #F "," #I))

#define FOR_UF(M)        \
    M(Lower, ColMajor)   \
    M(Lower, RowMajor)   \
    M(Upper, ColMajor)   \
    M(Upper, RowMajor)
#define FOR_UFI(M, I)       \
    M(Lower, ColMajor, I)   \
    M(Lower, RowMajor, I)   \
    M(Upper, ColMajor, I)   \
    M(Upper, RowMajor, I)

// C11_PART: 1 = dense wrappers + sparse Cholesky / regular inverse, 2 = the SparseLU based wrappers, 0 = everything
#ifndef C11_PART
#define C11_PART 0
#endif
// C11_LONG_INDEX: also instantiate the sparse wrappers with StorageIndex = long (on for the double binaries)
#ifndef C11_LONG_INDEX
#define C11_LONG_INDEX 1
#endif

static void fill_registry()
{
#if C11_PART == 0 || C11_PART == 1
    FOR_UF(REG_DENSE_SYM_SHIFT)
    REG_DENSE_GEN_REAL(ColMajor)
    REG_DENSE_GEN_REAL(RowMajor)
    REG_DENSE_GEN_CPLX(ColMajor)
    REG_DENSE_GEN_CPLX(RowMajor)
    FOR_UF(REG_DENSE_CHOL)
    FOR_UFI(REG_SPARSE_CHOL, int)
    FOR_UFI(REG_REGINV, int)
#if C11_LONG_INDEX
    FOR_UFI(REG_SPARSE_CHOL, long)
    FOR_UFI(REG_REGINV, long)
#endif
#endif
#if C11_PART == 0 || C11_PART == 2
    FOR_UFI(REG_SPARSE_SYM_SHIFT, int)
    REG_SPARSE_GEN_REAL(ColMajor, int)
    REG_SPARSE_GEN_REAL(RowMajor, int)
    REG_SPARSE_GEN_CPLX(ColMajor, int)
    REG_SPARSE_GEN_CPLX(RowMajor, int)
#if C11_LONG_INDEX
    FOR_UFI(REG_SPARSE_SYM_SHIFT, long)
    REG_SPARSE_GEN_REAL(ColMajor, long)
    REG_SPARSE_GEN_REAL(RowMajor, long)
    REG_SPARSE_GEN_CPLX(ColMajor, long)
    REG_SPARSE_GEN_CPLX(RowMajor, long)
#endif
#endif
}

// Known findings (KNOWN_FINDINGS.txt): narrow signatures so that generation continues past them
static std::string match(const vf::Violation& v, const vf::Case& c)
{
    // KF-C11-1 (D7): SparseRegularInverse<.., Eigen::Upper, ..> declares its ConjugateGradient member without the Uplo argument,
    // so solve() reads the LOWER triangle: results (or the convergence exception) depend on the triangle the wrapper must not read
    if (v.kind == "unused_triangle_read" && c.s("wrapper") == "SparseRegularInverse" && c.s("uplo") == "Upper")
        return "regular_inverse_cg_ignores_uplo";
    // KF-C11-3: SparseGenRealShiftSolve / SparseGenComplexShiftSolve with Flags = RowMajor hand a row-major matrix to Eigen::SparseLU,
    // which (Eigen 3.4.0, analyzePattern/factorize) permutes the outer-index array of its input as if it held column pointers: wrong
    // solutions (or a spurious 'factorization failed') whenever row counts and column counts of A - sigma I differ
    if ((v.kind == "solve" || v.kind == "false_singular" || v.kind == "eigen_assert") && (c.s("wrapper") == "SparseGenRealShiftSolve" || c.s("wrapper") == "SparseGenComplexShiftSolve") &&
        c.s("order") == "RowMajor" && c.f("row_col_profile_differs") > 0)
        return "sparse_lu_rowmajor_input";
    return "";
}

static void run_case(vf::Draw& d, vf::Case& c)
{
    run_registered(d, c);
}

int main(int argc, char** argv)
{
    fill_registry();
#ifdef C11_KF_REGINV_HEADER
    vf::report().known_hits["reginv_header_not_self_contained"] = 1;
    vf::report().known_example["reginv_header_not_self_contained"] = "#include <Spectra/MatOp/SparseRegularInverse.h> as the first Spectra header: 'CompInfo' does not name a type";
#endif
    return vf::run_main(argc, argv, "C11", run_case, match);
}
