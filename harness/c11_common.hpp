// c11_common.hpp - pieces shared by the C11 translation units (c11_prod / c11_solve / c11_symshiftinvert / c11_composite).
// Everything that does not depend on the wrapper's template arguments lives here and works in complex long double:
// generation (matrix recipe -> values + stored-entry mask), the triangle variants of the metamorphic oracle,
// reference solves and condition numbers, verdict helpers. The per-instantiation code in the TUs only converts
// (values, mask) into the typed Eigen object, constructs the wrapper through one of the argument forms and calls it.
// Include "vf/eigen_assert.hpp" before this header.
#pragma once
#include <Eigen/Core>
#include <Eigen/Dense>
#include <Eigen/SparseCore>
#include "vf/oracle.hpp"
#include "vf/gen.hpp"
#include "vf/runner.hpp"
#include <memory>
#include <vector>
#include <stdexcept>
#include <functional>

namespace c11 {

using vf::ld;
using vf::cld;
using vf::CMatL;
using vf::CVecL;
typedef Eigen::Index Index;
typedef Eigen::Matrix<char, Eigen::Dynamic, Eigen::Dynamic> Mask;

// constant on every rounding term (DESIGN section 3). C11_CTOL_OVERRIDE is a calibration aid only (build a binary with a
// smaller constant to let rapidcheck shrink the case with the worst observed ratio); it is never set by props_d/c11.py.
#ifdef C11_CTOL_OVERRIDE
static const ld CTOL = C11_CTOL_OVERRIDE;
#else
static const ld CTOL = 64;
#endif

// ---------------------------------------------------------------------------------------------------------------
// scalar descriptions
enum Prec
{
    P_FLOAT = 0,
    P_DOUBLE = 1,
    P_LDOUBLE = 2
};
struct ScalarInfo
{
    Prec prec;
    bool cplx;
    const char* name;
    ld eps;
    int max_scale_exp;  // matrices are scaled by 10^e, |e| <= this
    ld max_cond;        // cases whose reference condition number exceeds this are counted as rejected (bound would be vacuous)
};
template <typename R>
struct PrecOf;
template <>
struct PrecOf<float>
{
    static const Prec value = P_FLOAT;
};
template <>
struct PrecOf<double>
{
    static const Prec value = P_DOUBLE;
};
template <>
struct PrecOf<long double>
{
    static const Prec value = P_LDOUBLE;
};
template <typename S>
inline ScalarInfo sinfo()
{
    typedef typename Eigen::NumTraits<S>::Real R;
    ScalarInfo s;
    s.prec = PrecOf<R>::value;
    s.cplx = Eigen::NumTraits<S>::IsComplex;
    s.name = vf::Sc<S>::name();
    s.eps = vf::Sc<S>::eps();
    s.max_scale_exp = (s.prec == P_FLOAT) ? 8 : 60;
    s.max_cond = (s.prec == P_FLOAT) ? (ld) 1e3 : (s.prec == P_DOUBLE ? (ld) 1e9 : (ld) 1e11);
    return s;
}
inline ld round_to(ld v, Prec p)
{
    if (p == P_FLOAT)
        return (ld) (float) v;
    if (p == P_DOUBLE)
        return (ld) (double) v;
    return v;
}
inline cld round_to(cld v, Prec p) { return cld(round_to(v.real(), p), round_to(v.imag(), p)); }
inline void round_mat(CMatL& A, Prec p)
{
    for (Index j = 0; j < A.cols(); j++)
        for (Index i = 0; i < A.rows(); i++)
            A(i, j) = round_to(A(i, j), p);
}
inline void round_vec(CVecL& x, Prec p)
{
    for (Index i = 0; i < x.size(); i++)
        x[i] = round_to(x[i], p);
}

template <typename S>
struct Conv
{
    template <typename T>
    static T conv(const cld& x, T*) { return (T) x.real(); }
    template <typename T>
    static std::complex<T> conv(const cld& x, std::complex<T>*) { return std::complex<T>((T) x.real(), (T) x.imag()); }
    static S s(const cld& x) { return conv(x, (S*) nullptr); }
};

template <typename S, int Flags>
inline Eigen::Matrix<S, Eigen::Dynamic, Eigen::Dynamic, Flags> to_dense(const CMatL& A)
{
    Eigen::Matrix<S, Eigen::Dynamic, Eigen::Dynamic, Flags> r(A.rows(), A.cols());
    for (Index j = 0; j < A.cols(); j++)
        for (Index i = 0; i < A.rows(); i++)
            r(i, j) = Conv<S>::s(A(i, j));
    return r;
}
template <typename S>
inline Eigen::Matrix<S, Eigen::Dynamic, 1> to_vec(const CVecL& x)
{
    Eigen::Matrix<S, Eigen::Dynamic, 1> r(x.size());
    for (Index i = 0; i < x.size(); i++)
        r[i] = Conv<S>::s(x[i]);
    return r;
}
// stored entries (mask != 0) become structural entries, including explicit zeros; compressed or left in insertion
// (uncompressed) mode with spare room in every inner vector
template <typename S, int Flags, typename Idx>
inline Eigen::SparseMatrix<S, Flags, Idx> to_sparse(const CMatL& A, const Mask& st, bool compressed)
{
    typedef Eigen::SparseMatrix<S, Flags, Idx> SM;
    SM m(A.rows(), A.cols());
    const bool rowmajor = (Flags == Eigen::RowMajor);
    const Index outer = rowmajor ? A.rows() : A.cols();
    const Index inner = rowmajor ? A.cols() : A.rows();
    Eigen::Matrix<Idx, Eigen::Dynamic, 1> room(outer);
    for (Index o = 0; o < outer; o++)
    {
        Index k = 0;
        for (Index i = 0; i < inner; i++)
            k += (rowmajor ? st(o, i) : st(i, o)) ? 1 : 0;
        room[o] = (Idx) (k + (compressed ? 0 : 2));
    }
    m.reserve(room);
    for (Index o = 0; o < outer; o++)
        for (Index i = 0; i < inner; i++)
        {
            const Index r = rowmajor ? o : i, cc = rowmajor ? i : o;
            if (st(r, cc))
                m.insert(r, cc) = Conv<S>::s(A(r, cc));
        }
    if (compressed)
        m.makeCompressed();
    return m;
}

// ---------------------------------------------------------------------------------------------------------------
// argument forms
static const char* const DENSE_FORMS[4] = {"plain", "block_of_larger", "map", "expression"};
static const char* const SPARSE_FORMS[5] = {"plain_compressed", "plain_uncompressed", "map", "expression", "inner_panel_block"};

// Owns the storage behind the chosen dense argument form (the wrappers keep a Ref to the caller's storage).
template <typename S, int Flags>
struct DenseArg
{
    typedef Eigen::Matrix<S, Eigen::Dynamic, Eigen::Dynamic, Flags> Mat;
    Mat plain, big, half;
    std::vector<S> buf;
    int form;
    DenseArg(const CMatL& A, int form_) :
        plain(to_dense<S, Flags>(A)), form(form_)
    {
        const Index r = plain.rows(), c = plain.cols();
        if (form == 1)
        {
            big = Mat::Constant(r + 3, c + 2, S(9));
            big.block(2, 1, r, c) = plain;
        }
        else if (form == 2)
        {
            buf.assign(plain.data(), plain.data() + r * c);
        }
        else if (form == 3)
            half = plain / S(2);  // exact (power of two; scales are kept far away from the subnormal range)
    }
    DenseArg(const CMatL& A, const Mask&, int form_) :
        DenseArg(A, form_) {}
    // the individual forms (valid only when the object was built for that form; plain is always valid)
    const Mat& get_plain() const { return plain; }
    auto get_block() const { return big.block(2, 1, plain.rows(), plain.cols()); }
    Eigen::Map<const Mat> get_map() const { return Eigen::Map<const Mat>(buf.data(), plain.rows(), plain.cols()); }
    auto get_expr() const { return half + half; }
    Eigen::Ref<const Mat> get_ref() const { return Eigen::Ref<const Mat>(plain); }
    static int form_of(int form_class, bool) { return form_class == 4 ? 0 : form_class; }  // 0 plain 1 block 2 map 3 expression 4 Ref
    // construct Op(<matrix in the chosen form>)
    template <typename Op>
    std::unique_ptr<Op> make() const
    {
        const Index r = plain.rows(), c = plain.cols();
        switch (form)
        {
            case 1: return std::unique_ptr<Op>(new Op(big.block(2, 1, r, c)));
            case 2: return std::unique_ptr<Op>(new Op(Eigen::Map<const Mat>(buf.data(), r, c)));
            case 3: return std::unique_ptr<Op>(new Op(half + half));
            default: return std::unique_ptr<Op>(new Op(plain));
        }
    }
};

template <typename S, int Flags, typename Idx>
struct SparseArg
{
    typedef Eigen::SparseMatrix<S, Flags, Idx> SM;
    SM plain, wide;
    int form;
    Index pad = 2;
    SparseArg(const CMatL& A, const Mask& st, int form_) :
        plain(to_sparse<S, Flags, Idx>(A, st, form_ != 1)), form(form_)
    {
        if (form == 4)
        {
            // embed as an inner panel of a wider (ColMajor) / taller (RowMajor) matrix whose other panels hold junk
            const Index r = A.rows(), c = A.cols();
            const bool rowmajor = (Flags == Eigen::RowMajor);
            CMatL W = CMatL::Constant(rowmajor ? r + pad + 1 : r, rowmajor ? c : c + pad + 1, cld(7));
            Mask M = Mask::Constant(W.rows(), W.cols(), 1);
            if (rowmajor)
            {
                W.block(pad, 0, r, c) = A;
                M.block(pad, 0, r, c) = st;
            }
            else
            {
                W.block(0, pad, r, c) = A;
                M.block(0, pad, r, c) = st;
            }
            wide = to_sparse<S, Flags, Idx>(W, M, true);
        }
    }
    const SM& get_plain() const { return plain; }
    auto get_block() const
    {
        if constexpr (Flags == Eigen::RowMajor)
            return wide.middleRows(pad, plain.rows());
        else
            return wide.middleCols(pad, plain.cols());
    }
    Eigen::Map<const SM> get_map() const { return Eigen::Map<const SM>(plain.rows(), plain.cols(), plain.nonZeros(), plain.outerIndexPtr(), plain.innerIndexPtr(), plain.valuePtr()); }
    auto get_expr() const { return S(1) * plain; }
    Eigen::Ref<const SM> get_ref() const { return Eigen::Ref<const SM>(plain); }
    // form class: 0 plain 1 block 2 map 3 expression 4 Ref -> index into SPARSE_FORMS (plain may be left uncompressed)
    static int form_of(int form_class, bool uncompressed)
    {
        switch (form_class)
        {
            case 1: return 4;
            case 2: return 2;
            case 3: return 3;
            default: return uncompressed ? 1 : 0;
        }
    }
    template <typename Op>
    std::unique_ptr<Op> make() const
    {
        const bool rowmajor = (Flags == Eigen::RowMajor);
        switch (form)
        {
            case 2:
                return std::unique_ptr<Op>(new Op(Eigen::Map<const SM>(plain.rows(), plain.cols(), plain.nonZeros(), plain.outerIndexPtr(), plain.innerIndexPtr(), plain.valuePtr())));
            case 3: return std::unique_ptr<Op>(new Op(S(1) * plain));
            case 4:
                if (rowmajor)
                    return std::unique_ptr<Op>(new Op(wide.middleRows(pad, plain.rows())));
                else
                    return std::unique_ptr<Op>(new Op(wide.middleCols(pad, plain.cols())));
            default: return std::unique_ptr<Op>(new Op(plain));
        }
    }
};

// ---------------------------------------------------------------------------------------------------------------
// what a run returns: vectors/ints that enter the verdict and must be bit-identical across triangle variants (v, ints),
// and side observations that are only reported (aux)
struct Out
{
    std::vector<CVecL> v;
    std::vector<long> ints;
    std::vector<CVecL> aux;
    int threw = 0;  // 0 no, 1 invalid_argument, 2 runtime_error, 3 logic_error (the library's documented set)
    std::string what;
};
template <typename V>
inline CVecL widen_vec(const V& x)
{
    CVecL r(x.size());
    for (Index i = 0; i < x.size(); i++)
        r[i] = cld((ld) std::real(x[i]), (ld) std::imag(x[i]));
    return r;
}
inline bool same_bits(const Out& a, const Out& b, std::string& why)
{
    if (a.threw != b.threw)
    {
        why = "exception state differs (" + std::to_string(a.threw) + (a.threw ? " " + a.what : "") + " vs " + std::to_string(b.threw) + (b.threw ? " " + b.what : "") + ")";
        return false;
    }
    if (a.ints != b.ints)
    {
        why = "status / dimension outputs differ";
        return false;
    }
    if (a.v.size() != b.v.size())
    {
        why = "number of outputs differs";
        return false;
    }
    for (size_t k = 0; k < a.v.size(); k++)
        if (!vf::bits_equal(a.v[k], b.v[k]))
        {
            ld dmax = 0;
            if (a.v[k].size() == b.v[k].size())
                dmax = vf::maxabs(a.v[k] - b.v[k]);
            why = "output #" + std::to_string(k) + " differs (max |diff| = " + vf::num(dmax) + ")";
            return false;
        }
    return true;
}

// Inputs of one case (values already rounded to the scalar type under test)
struct Input
{
    Index rows = 0, cols = 0;
    CMatL A, B, C;        // full (mirrored) matrices (C: the matrix handed to a second wrapper of a composite operator)
    Mask stA, stB, stC;   // stored-entry masks (dense wrappers ignore them)
    CVecL x, x2;      // operand vectors
    CMatL X;          // operand of operator*
    cld sigma = 0, sigma0 = 0;
    bool reshift = false;   // set_shift(sigma0) first, then set_shift(sigma)
    int formA = 0, formB = 0, formC = 0;
    Index ei = 0, ej = 0;   // element queried through operator()
};
// The matrices actually handed to the wrapper in one run (a triangle variant of Input::A / B)
struct Eff
{
    CMatL A, B, C;
    Mask stA, stB, stC;
};
typedef Out (*RunFn)(const Input&, const Eff&);

inline Out safe_run(RunFn fn, const Input& in, const Eff& e)
{
    try
    {
        return fn(in, e);
    }
    catch (const std::invalid_argument& ex)
    {
        Out o;
        o.threw = 1;
        o.what = ex.what();
        return o;
    }
    catch (const std::runtime_error& ex)
    {
        Out o;
        o.threw = 2;
        o.what = ex.what();
        return o;
    }
    catch (const std::logic_error& ex)
    {
        Out o;
        o.threw = 3;
        o.what = ex.what();
        return o;
    }
}

// ---------------------------------------------------------------------------------------------------------------
// triangle variants
enum GarbageKind
{
    G_MIRROR = 0,       // the other triangle is the (conjugate) mirror: the clean run
    G_VALUES = 1,       // same pattern, finite garbage values
    G_EMPTY = 2,        // nothing stored / zeros in the other triangle (the usual way a one-triangle sparse matrix is stored)
    G_PATTERN = 3,      // a different pattern filled with finite garbage
    G_NAN = 4           // NaN poison (reported, not asserted)
};
static const char* const GARBAGE_NAMES[5] = {"mirror", "garbage_values", "other_triangle_empty", "garbage_other_pattern", "nan_poison"};

inline ld pow2_near(ld s)
{
    if (!(s > 0))
        return 1;
    return std::exp2(std::round(std::log2(s)));
}
// uplo = Eigen::Lower / Eigen::Upper names the triangle the wrapper is told to use
inline void make_variant(const CMatL& A, const Mask& st, int uplo, int gk, ld gscale, bool cplx, CMatL& Ae, Mask& ste)
{
    Ae = A;
    ste = st;
    if (gk == G_MIRROR)
        return;
    const ld g = pow2_near(gscale);
    for (Index j = 0; j < A.cols(); j++)
        for (Index i = 0; i < A.rows(); i++)
        {
            const bool unused = (uplo == Eigen::Lower) ? (i < j) : (i > j);
            if (!unused)
                continue;
            const ld re = (ld) (3 + ((i * 7 + j * 5) % 11)) * (((i + 2 * j) % 3 == 0) ? -1 : 1) * g;
            const ld im = cplx ? (ld) (((i * 3 + j) % 7) - 3) * g : 0;
            switch (gk)
            {
                case G_VALUES:
                    Ae(i, j) = cld(re, im);
                    break;
                case G_EMPTY:
                    Ae(i, j) = 0;
                    ste(i, j) = 0;
                    break;
                case G_PATTERN:
                    ste(i, j) = ((i * 5 + j * 3) % 3 != 0) ? 1 : 0;
                    Ae(i, j) = ste(i, j) ? cld(re, im) : cld(0);
                    break;
                default:
                    Ae(i, j) = cld(std::numeric_limits<ld>::quiet_NaN(), cplx ? std::numeric_limits<ld>::quiet_NaN() : 0);
                    break;
            }
        }
}

// ---------------------------------------------------------------------------------------------------------------
// generation
enum MatKind
{
    K_GEN = 0,   // general (possibly rectangular)
    K_SYM = 1,   // real symmetric / complex Hermitian
    K_SPD = 2    // symmetric / Hermitian positive definite (strictly diagonally dominant with positive diagonal)
};
static const char* const PATTERN_NAMES[6] = {"full", "banded", "random_sparse", "arrow", "block_diagonal", "diagonal"};

struct GenSpec
{
    int kind = K_SYM;
    bool cplx = false;
    Prec prec = P_DOUBLE;
    int max_scale_exp = 60;
    bool explicit_zeros_ok = true;  // sparse wrappers: some stored entries may hold an exact zero
    int spd_min_margin_q = 0;       // K_SPD: dominance margin is 10^(-q/2), q drawn in [0, spd_max_margin_q]
    int spd_max_margin_q = 8;
};
struct Generated
{
    CMatL A;
    Mask st;
    ld scale = 1;
    int pattern = 0;
    bool integers = false;
    std::string desc;
};

inline Generated gen_matrix(vf::Draw& d, const GenSpec& gs, Index rows, Index cols)
{
    Generated G;
    const bool symm = gs.kind != K_GEN;
    G.pattern = (int) d.range("pattern", 0, 5);
    G.integers = d.one_in("small_integer_entries", 4);
    vf::Lcg g((uint64_t) d.range("content_seed", 0, 65535));
    long bw = 0, dens = 0;
    long bw_up = 0;
    if (G.pattern == 1)
    {
        bw = d.range("bandwidth", 1, 3);
        bw_up = symm ? bw : d.range("upper_bandwidth", 0, 3);  // general matrices: unsymmetric band (e.g. lower triangular)
    }
    if (G.pattern == 2)
        dens = d.range("density_pct", 5, 60);
    CMatL A = CMatL::Zero(rows, cols);
    Mask st = Mask::Zero(rows, cols);
    // block boundaries for the block-diagonal pattern
    std::vector<Index> blk(std::max(rows, cols), 0);
    if (G.pattern == 4)
    {
        Index i0 = 0, id = 0;
        while (i0 < (Index) blk.size())
        {
            Index bs = 1 + g.below(4);
            for (Index i = i0; i < std::min<Index>(blk.size(), i0 + bs); i++)
                blk[i] = id;
            i0 += bs;
            id++;
        }
    }
    auto in_pattern = [&](Index i, Index j) -> bool {
        if (i == j)
            return true;
        switch (G.pattern)
        {
            case 0: return true;
            case 1: return (i >= j) ? (i - j <= bw) : (j - i <= bw_up);
            case 2: return g.below(100) < dens;
            case 3: return symm ? (i == 0 || j == 0) : (i == 0 || j == cols - 1);  // general: first row and last column
            case 4: return blk[i] == blk[j];
            default: return false;
        }
    };
    auto value = [&](bool diag) -> cld {
        if (G.integers)
        {
            ld re = (ld) (g.below(7) - 3);
            ld im = (gs.cplx && !diag) ? (ld) (g.below(5) - 2) : 0;
            return cld(re, im);
        }
        ld re = g.u();
        ld im = (gs.cplx && !diag) ? g.u() : 0;
        return cld(re, im);
    };
    if (symm)
    {
        for (Index j = 0; j < cols; j++)
            for (Index i = j; i < rows; i++)
            {
                if (!in_pattern(i, j))
                    continue;
                cld v = value(i == j);
                A(i, j) = v;
                A(j, i) = std::conj(v);
                st(i, j) = 1;
                st(j, i) = 1;
            }
    }
    else
    {
        for (Index j = 0; j < cols; j++)
            for (Index i = 0; i < rows; i++)
            {
                if (!in_pattern(i, j))
                    continue;
                // a general matrix of a complex type may have a complex diagonal
                cld v = value(false);
                A(i, j) = v;
                st(i, j) = 1;
            }
    }
    bool zeros = false;
    if (gs.explicit_zeros_ok && gs.kind != K_SPD)
        zeros = d.one_in("explicit_zeros", 4);
    if (zeros)
        for (Index j = 0; j < cols; j++)
            for (Index i = (symm ? j : 0); i < rows; i++)
                if (st(i, j) && g.below(4) == 0)
                {
                    A(i, j) = 0;
                    if (symm)
                        A(j, i) = 0;
                }
    long margin_q = 0;
    if (gs.kind == K_SPD)
    {
        margin_q = d.range("spd_margin_q", gs.spd_min_margin_q, gs.spd_max_margin_q);
        const ld margin = G.integers ? 1 : std::pow((ld) 10, -(ld) margin_q / 2);
        for (Index i = 0; i < rows; i++)
        {
            ld s = 0;
            for (Index j = 0; j < cols; j++)
                if (j != i)
                    s += std::abs(A(i, j));
            A(i, i) = G.integers ? cld(s + 1) : cld(margin + (1 + margin) * s);
        }
    }
    if (d.flag("scaled"))
    {
        d.scale10("scale", gs.max_scale_exp);
        G.scale = std::pow((ld) 10, (ld) d.scale10_exp_last());
        A *= G.scale;
    }
    round_mat(A, gs.prec);
    if (symm)  // rounding is symmetric, but keep the invariant explicit
        for (Index j = 0; j < cols; j++)
        {
            A(j, j) = cld(A(j, j).real(), 0);
            for (Index i = j + 1; i < rows; i++)
                A(j, i) = std::conj(A(i, j));
        }
    if (!gs.cplx)  // conj() of a real entry leaves a negative zero in the imaginary part: normalise
        for (Index j = 0; j < cols; j++)
            for (Index i = 0; i < rows; i++)
                A(i, j) = cld(A(i, j).real(), 0);
    G.A = A;
    G.st = st;
    std::ostringstream os;
    os << (gs.kind == K_GEN ? "general" : (gs.kind == K_SYM ? (gs.cplx ? "hermitian" : "symmetric") : "spd")) << " " << rows << "x" << cols << " pattern=" << PATTERN_NAMES[G.pattern];
    if (G.pattern == 1)
        os << "(bw=" << bw << "/" << bw_up << ")";
    if (G.pattern == 2)
        os << "(" << dens << "%)";
    if (G.integers)
        os << " integer-entries";
    if (zeros)
        os << " explicit-zeros";
    if (gs.kind == K_SPD)
        os << " margin=1e-" << (double) margin_q / 2;
    os << " scale=" << (double) G.scale;
    G.desc = os.str();
    return G;
}

inline CVecL gen_vector(vf::Draw& d, const char* label, Index n, bool cplx, Prec prec)
{
    vf::Lcg g((uint64_t) d.range(label, 0, 255));
    const int kind = (int) g.below(8);  // mostly dense dyadic vectors, sometimes a unit vector or a vector with zeros
    CVecL x(n);
    for (Index i = 0; i < n; i++)
        x[i] = cld(g.dy(), cplx ? g.dy() : 0);
    if (kind == 0 && n > 0)
    {
        x.setZero();
        x[g.below(n)] = 1;
    }
    else if (kind == 1)
        for (Index i = 0; i < n; i++)
            if (g.below(2))
                x[i] = 0;
    round_vec(x, prec);
    return x;
}

// ---------------------------------------------------------------------------------------------------------------
// reference arithmetic
struct SolveRef
{
    bool singular = true;
    ld smin = 0, smax = 0;  // extreme singular values of M
    CMatL Minv;
};
inline SolveRef ref_factor(const CMatL& M, bool hermitian)
{
    SolveRef r;
    const Index n = M.rows();
    const ld nm = vf::fro_scaled(M);
    if (!(nm > 0) || !std::isfinite((double) nm))
        return r;
    CMatL Ms = M / nm;
    if (hermitian)
    {
        Eigen::SelfAdjointEigenSolver<CMatL> es(Ms, Eigen::EigenvaluesOnly);
        r.smin = std::abs(es.eigenvalues()[0]);
        for (Index i = 0; i < n; i++)
        {
            r.smin = std::min(r.smin, (ld) std::abs(es.eigenvalues()[i]));
            r.smax = std::max(r.smax, (ld) std::abs(es.eigenvalues()[i]));
        }
    }
    else
    {
        Eigen::JacobiSVD<CMatL> svd(Ms);
        r.smax = svd.singularValues()[0];
        r.smin = svd.singularValues()[n - 1];
    }
    r.smin *= nm;
    r.smax *= nm;
    if (!(r.smin > (ld) 1e-17 * r.smax))
        return r;
    Eigen::FullPivLU<CMatL> lu(Ms);
    r.Minv = lu.inverse() / nm;
    r.singular = false;
    return r;
}

inline std::string uplo_name(int u) { return u == Eigen::Lower ? "Lower" : "Upper"; }
inline std::string flags_name(int f) { return f == Eigen::RowMajor ? "RowMajor" : "ColMajor"; }
template <typename Idx>
inline const char* idx_name() { return sizeof(Idx) == sizeof(int) ? "int" : "long"; }

// observed/bound ratios of the running case; they enter the report only when the whole case has passed (a case that ends in a
// known finding must not leave the ratio of its earlier, accidentally passing comparisons in the calibration record)
inline std::vector<std::pair<std::string, double>>& pending_stats()
{
    static std::vector<std::pair<std::string, double>> p;
    return p;
}

// ||got - want|| <= CTOL * unit, where unit = n eps (norm expression the property states); records the observed ratio
inline void check_close(const CVecL& got, const CVecL& want, ld unit, const char* kind, const std::string& what, const std::string& stat)
{
    VF_CHECK(got.size() == want.size(), kind, what << ": output has length " << got.size() << ", expected " << want.size());
    VF_CHECK(vf::all_finite(got), kind, what << ": NaN/Inf in the output");
    const ld err = (got - want).norm();
    VF_CHECK(err <= CTOL * unit, kind, what << ": ||computed - reference|| = " << vf::num(err) << " > 64 * " << vf::num(unit) << " (||reference|| = " << vf::num(want.norm()) << ")");
    if (unit > 0)
        pending_stats().push_back(std::make_pair(stat, (double) (err / unit)));
}

// registry of instantiations inside one TU
struct Inst
{
    std::string name;
    std::function<void(vf::Draw&, vf::Case&)> fn;
};
inline std::vector<Inst>& registry()
{
    static std::vector<Inst> r;
    return r;
}
inline void run_registered(vf::Draw& d, vf::Case& c)
{
    std::vector<Inst>& r = registry();
    long k = d.range("instantiation", 0, (long) r.size() - 1);
    c.cls("inst/" + r[k].name);
    c.sfeat["inst"] = r[k].name;
    pending_stats().clear();
    r[k].fn(d, c);
    for (const auto& kv : pending_stats())
        vf::report().stat(kv.first, kv.second);
    pending_stats().clear();
}

}  // namespace c11
