// C17 - LOBPCG: when the solver reports success, eigenvalues() are the k smallest eigenvalues of the pencil (A, B)
// in ascending order, eigenvectors() is n-by-k with X'BX = I, residuals() equals A X - B X diag(eigenvalues) with
// every column norm below tol*n; otherwise info() says so. One translation unit per real scalar type (VF_REAL).
//
// The private iterate is read through the guarded friend hook (Spectra::verif::Access) so that the residual and
// Gram identities are checked even while eigenvectors() does not hand back the iterate (D12). The checks that use the
// public eigenvectors() come LAST in a case, so a D12 hit means "everything else about this case passed".
#include "vf/eigen_assert.hpp"
#include <Eigen/Core>
#include <Eigen/Sparse>
#include <Eigen/Eigenvalues>
#include <Eigen/SVD>
#include <Spectra/contrib/LOBPCGSolver.h>
#include "vf/oracle.hpp"
#include "vf/gen.hpp"
#include "vf/runner.hpp"

#ifndef YIXUAN_SPECTRA_VERIF
#error "C17 needs the guarded friend hook (-DYIXUAN_SPECTRA_VERIF)"
#endif

namespace Spectra {
namespace verif {
// defined by the harness only (VerifHooks.h declares it, LOBPCGSolver names it as a friend): read-only views
struct Access
{
    template <typename S>
    static const Eigen::SparseMatrix<S>& iterate(const LOBPCGSolver<S>& s)
    {
        return s.X;
    }
};
}  // namespace verif
}  // namespace Spectra

#ifndef VF_REAL
#define VF_REAL double
#endif
typedef VF_REAL Real;
using vf::ld;
using vf::MatL;
using vf::VecL;
using vf::Index;

typedef Eigen::Matrix<Real, Eigen::Dynamic, Eigen::Dynamic> Mat;
typedef Eigen::Matrix<Real, Eigen::Dynamic, 1> Vec;
typedef Eigen::SparseMatrix<Real> SpMat;

static const ld CTOL = 64;
static const ld EPS = (ld) std::numeric_limits<Real>::epsilon();

static const char* SPEC_NAMES[6] = {"clustered_rest", "random_rest", "linear", "geometric", "indefinite", "stencil"};
static const char* BASIS_NAMES[4] = {"permutation", "givens_product", "block_orthogonal", "dense_orthogonal"};
static const char* B_NAMES[5] = {"none", "identity_via_setB", "diagonal", "bidiagonal_LLt", "dense_spd"};
static const char* PREC_NAMES[4] = {"none", "jacobi", "scaled_identity", "spd_inverse"};
static const char* START_NAMES[7] = {"random_dense", "random_sparse", "unit_vectors", "near_eigenvectors", "rotated_invariant_subspace", "exact_eigenvectors", "arrow_support"};
static const char* INFO_NAMES[4] = {"Success", "NumericalIssue", "NoConvergence", "InvalidInput"};

// round a long double matrix to the scalar type under test and store it sparse (exact zeros dropped)
static SpMat to_sp(const MatL& M)
{
    SpMat sp(M.rows(), M.cols());
    std::vector<Eigen::Triplet<Real>> t;
    for (Index j = 0; j < M.cols(); j++)
        for (Index i = 0; i < M.rows(); i++)
        {
            Real v = (Real) M(i, j);
            if (v != Real(0))
                t.emplace_back((int) i, (int) j, v);
        }
    sp.setFromTriplets(t.begin(), t.end());
    sp.makeCompressed();
    return sp;
}
static MatL widen_sp(const SpMat& sp)
{
    MatL r = MatL::Zero(sp.rows(), sp.cols());
    for (int j = 0; j < sp.outerSize(); j++)
        for (SpMat::InnerIterator it(sp, j); it; ++it)
            r(it.row(), it.col()) += (ld) it.value();
    return r;
}
static double density(const SpMat& sp)
{
    return (double) sp.nonZeros() / std::max<double>(1.0, (double) sp.rows() * (double) sp.cols());
}

// orthogonal eigenvector basis of the four structural kinds
static MatL make_basis(int kind, Index n, vf::Lcg& g)
{
    MatL Q = MatL::Identity(n, n);
    if (kind == 0)
    {
        // permutation (Fisher-Yates)
        std::vector<Index> p(n);
        for (Index i = 0; i < n; i++)
            p[i] = i;
        for (Index i = n - 1; i > 0; i--)
            std::swap(p[i], p[g.below((long) i + 1)]);
        Q.setZero();
        for (Index i = 0; i < n; i++)
            Q(p[i], i) = 1;
    }
    else if (kind == 1)
    {
        // product of about 2n Givens rotations on random coordinate pairs (sparse-ish orthogonal matrix)
        long cnt = 2 * (long) n;
        for (long r = 0; r < cnt; r++)
        {
            Index i = g.below((long) n), j = g.below((long) n);
            if (i == j)
                continue;
            ld th = 3.14159265358979323846L * g.u();
            ld cs = std::cos(th), sn = std::sin(th);
            for (Index c = 0; c < n; c++)
            {
                ld a = Q(i, c), b = Q(j, c);
                Q(i, c) = cs * a - sn * b;
                Q(j, c) = sn * a + cs * b;
            }
        }
    }
    else if (kind == 2)
    {
        // block diagonal with dense orthogonal blocks of size <= 6, then a permutation of the columns
        MatL Bq = MatL::Zero(n, n);
        Index at = 0;
        while (at < n)
        {
            Index b = std::min<Index>(n - at, 2 + g.below(5));
            Bq.block(at, at, b, b) = vf::random_orthogonal(b, g);
            at += b;
        }
        MatL P = make_basis(0, n, g);
        Q = Bq * P;
    }
    else
        Q = vf::random_orthogonal(n, g);
    return Q;
}

struct Problem
{
    Index n = 0, k = 0, m = 0;  // dimension, block size, number of constraint vectors
    SpMat A, B, T, X0, Y;
    ld kappaG0 = 1;  // condition number of the Gram matrix of the start block (after the constraints), B inner product
    bool hasB = false, hasT = false, hasY = false;
    // oracle side (long double; built from the rounded matrices the solver actually receives)
    MatL Al, Bl;
    VecL lam;               // all reference eigenvalues of the pencil, ascending
    MatL V;                 // reference eigenvectors, V'BV = I
    std::vector<Index> wanted;  // indices into lam of the k eigenvalues the solver should return
    MatL Vw;                // the wanted reference eigenvectors
    ld lminB = 1, lmaxB = 1, normA = 0, normB = 1, gap_abs = 0, rho = 1;
    bool generic_start = true;  // dense random ingredients in the start block or a dense eigenvector basis
    ld cmin = 0;            // cosine of the largest principal angle between the block compute() starts from and span(Vw)
};

static ld col_norm(const MatL& M, Index j)
{
    ld s = 0;
    for (Index i = 0; i < M.rows(); i++)
        s += M(i, j) * M(i, j);
    return std::sqrt(s);
}

// cosine of the largest principal angle (B inner product) between span(Xp) and the wanted eigenspace span(Vw); -1 if Xp is
// (numerically) rank deficient relative to `scale` = largest eigenvalue of the unprojected Gram matrix
static ld cos_max_angle(const MatL& Xp, const MatL& Vw, const MatL& Bl, ld scale)
{
    const Index k = Xp.cols();
    if (!vf::all_finite(Xp))
        return -1;
    MatL Mx = Xp.transpose() * Bl * Xp;
    Eigen::SelfAdjointEigenSolver<MatL> em(Mx);
    if (scale <= 0)
        scale = em.eigenvalues()[k - 1];
    if (!(em.eigenvalues()[0] > 1e-12L * scale))
        return -1;
    MatL Mih = em.eigenvectors() * em.eigenvalues().cwiseSqrt().cwiseInverse().asDiagonal() * em.eigenvectors().transpose();
    MatL Tm = Vw.transpose() * Bl * Xp * Mih;
    Eigen::JacobiSVD<MatL> st(Tm);
    return st.singularValues()[k - 1];
}

// All oracle checks for one compute() call. `tol`, `maxit` are the arguments of that call.
static void check_outcome(Spectra::LOBPCGSolver<Real>& solver, const Problem& P, Real tol, int maxit, bool threw, const std::string& what,
                          vf::Case& c, const std::string& tag, bool& success_out, bool& d12_pending, std::string& d12_msg)
{
    const Index n = P.n, k = P.k;
    const int info = solver.info();
    success_out = false;
    c.feat[tag + "info"] = info;
    if (threw)
    {
        // the statement is silent about exceptions: counted as a non-success outcome, the status must not claim success
        c.cls("outcome/exception");
        c.cls("exception: " + what);
        c.feat[tag + "threw"] = 1;
        VF_CHECK(info != Eigen::Success, "status_after_exception", tag << "compute() left by an exception (" << what << ") but info()==Success");
        return;
    }
    if (info != Eigen::Success)
    {
        c.cls(std::string("outcome/non_success:") + ((info >= 0 && info < 4) ? INFO_NAMES[info] : "other"));
        return;
    }
    success_out = true;
    c.cls("outcome/Success");
    const ld tolL2 = (ld) tol * (ld) n;  // the documented criterion: column norm below tol*n

    // ---- eigenvalues: k finite values in ascending order --------------------------------------------------
    Vec ev = solver.eigenvalues();
    VF_CHECK(ev.size() == k, "eigenvalues_size", tag << "eigenvalues() has " << ev.size() << " entries, block size k=" << k);
    VF_CHECK(vf::all_finite(ev), "eigenvalues_finite", tag << "eigenvalues()=" << vf::show(ev.transpose()));
    for (Index i = 0; i + 1 < k; i++)
        VF_CHECK(ev[i] <= ev[i + 1], "eigenvalues_order", tag << "not ascending at " << i << ": " << vf::show(ev.transpose(), 12));
    VecL th(k);
    ld thmax = 0;
    for (Index i = 0; i < k; i++)
    {
        th[i] = (ld) ev[i];
        thmax = std::max(thmax, std::fabs(th[i]));
    }

    // ---- residuals(): n-by-k, every column norm below tol*n (public interface only; this is the test compute() itself applies,
    //      so it can only fail when the Success status was not produced by this compute() call) -------------------------------
    Mat Rpub = solver.residuals();
    VF_CHECK(Rpub.rows() == n && Rpub.cols() == k, "residuals_shape", tag << "residuals() is " << Rpub.rows() << "x" << Rpub.cols() << ", expected " << n << "x" << k);
    VF_CHECK(vf::all_finite(Rpub), "residuals_finite", tag << "residuals() contains non-finite entries");
    MatL Rp = vf::widen_real(Rpub);
    ld worst_col = 0;
    for (Index j = 0; j < k; j++)
    {
        ld rn = col_norm(Rp, j);
        worst_col = std::max(worst_col, rn);
        VF_CHECK(rn < tolL2 * (1 + 8 * (ld) n * EPS), "residual_norm", tag << "info()==Success but column " << j << " of residuals() has norm " << vf::num(rn) << " >= tol*n = " << vf::num(tolL2));
    }

    // ---- the private iterate (friend hook): n-by-k, B-orthonormal --------------------------------------------
    const SpMat& Xs = Spectra::verif::Access::iterate(solver);
    VF_CHECK(Xs.rows() == n && Xs.cols() == k, "iterate_shape", tag << "private iterate is " << Xs.rows() << "x" << Xs.cols());
    MatL X = widen_sp(Xs);
    VF_CHECK(vf::all_finite(X), "iterate_finite", tag << "private iterate contains non-finite entries");
    MatL BX = P.hasB ? MatL(P.Bl * X) : X;
    const ld kappaB = P.lmaxB / P.lminB;
    const ld its = 1 + (ld) std::min<long>((long) n, std::max(0, maxit));
    MatL G = X.transpose() * BX;
    ld gerr = vf::maxabs(MatL(G - MatL::Identity(k, k)));
    // (capped: an error of 1/4 is not "orthonormal up to rounding" whatever kappa(B) and the precision are)
    const ld tolG = std::min<ld>(0.25L, CTOL * (ld) n * EPS * kappaB * its * std::max<ld>(1, P.kappaG0));
    c.feat[tag + "gram_err"] = (double) gerr;
    c.feat[tag + "gram_err_over_tol"] = (double) (gerr / tolG);
    c.feat[tag + "coef_rows"] = (double) solver.m_evectors.rows();
    c.feat[tag + "min_gram_diag"] = (double) G.diagonal().minCoeff();
    c.feat[tag + "max_gram_diag"] = (double) G.diagonal().maxCoeff();
    // ---- residuals() == A X - B X diag(theta) (before the Gram check, so that an inconsistency between the iterate and the carried
    //      products A X, B X is not shadowed by the open orthonormality finding, which matches only amplified rounding) ------------
    MatL Rtrue = P.Al * X - BX * th.asDiagonal();
    // ||X||_F of a B-orthonormal block is at most sqrt(k / lambda_min(B)); the recurrences that carry A X and B X have seen iterates of that size
    const ld xnorm = std::max(vf::fro(X), std::sqrt((ld) k / P.lminB));
    const ld tolR = CTOL * (ld) n * EPS * (P.normA + thmax * P.normB) * xnorm * its;
    ld rdiff = vf::fro(MatL(Rp - Rtrue));
    c.feat[tag + "residual_mismatch_rel"] = (double) (rdiff / ((P.normA + thmax * P.normB) * xnorm));
    VF_CHECK(rdiff <= tolR, "residual_identity", tag << "||residuals() - (A X - B X diag(ev))||_F = " << vf::num(rdiff) << " > " << vf::num(tolR) << " (private iterate)");
    for (Index j = 0; j < k; j++)
    {
        ld rt = col_norm(Rtrue, j);
        VF_CHECK(rt <= tolL2 + tolR, "true_residual_norm", tag << "||A x - theta B x|| = " << vf::num(rt) << " for column " << j << " > tol*n = " << vf::num(tolL2) << " (+rounding " << vf::num(tolR) << ")");
    }

    // ---- X'BX = I ----------------------------------------------------------------------------------------------------
    if (vf::options().geti("debug", 0))
    {
        std::cout.precision(6);
        std::cout << tag << "eigenvalues: " << ev.transpose() << "\n" << tag << "X'BX:\n" << G.template cast<double>() << "\n" << tag << "column norms of X: ";
        for (Index j = 0; j < k; j++)
            std::cout << (double) col_norm(X, j) << " ";
        std::cout << "\n" << tag << "coefficient matrix rows: " << solver.m_evectors.rows() << "\n";
        if (vf::options().geti("debug", 0) > 1)
            std::cout << tag << "X:\n" << X.template cast<double>() << "\n";
    }
    VF_CHECK(gerr <= tolG, "iterate_b_orthonormality", tag << "max|X'BX - I| = " << vf::num(gerr) << " > " << vf::num(tolG) << " (private iterate, kappa(B)=" << vf::num(kappaB) << ", diag(X'BX) in [" << vf::num(G.diagonal().minCoeff()) << ", " << vf::num(G.diagonal().maxCoeff()) << "], coefficient matrix rows " << solver.m_evectors.rows() << ")");

    // ---- eigenvalues are the wanted ones of the reference pencil ---------------------------------------------
    // for ||x||_B = 1: min_j |theta - lambda_j| <= ||r|| / sqrt(lambda_min(B)); rounding term scaled by 1/lambda_min(B)
    const ld tolE = tolL2 / std::sqrt(P.lminB) + CTOL * (ld) n * EPS * (P.normA + thmax * P.normB) / P.lminB * its;
    // "Which" eigenvalues can be asserted when the start block is generic with respect to the eigenvector basis (a sparse start block on
    // a sparse eigenvector basis spans few eigenvectors: span{X, AX} can then contain exact unwanted eigenvectors whose Ritz pairs have
    // zero residual and are legitimately accepted while a wanted direction is discarded with the unused Ritz vectors), and when (a) the tolerance separates neighbouring eigenvalues and (b) the residual test cannot be
    // met next to an unwanted eigenvector: a block at angle acos(c) from the wanted space has a residual of about c*gap*sqrt(lambda_min(B))
    // there, and the block compute() started from had c = cmin (a sound iteration only increases it).
    const bool identity = P.generic_start && (P.cmin >= 1e-3L) && (tolE <= P.gap_abs / 8) && (4 * tolL2 <= P.cmin * P.gap_abs * std::sqrt(P.lminB));
    ld worst_ev = 0;
    {
        // feature for the known-finding signature: is every returned value a genuine reference eigenvalue (wherever it sits)?
        bool all_in = true;
        for (Index i = 0; i < k; i++)
        {
            ld best = -1;
            for (Index j = 0; j < P.lam.size(); j++)
                best = (best < 0) ? std::fabs(th[i] - P.lam[j]) : std::min(best, std::fabs(th[i] - P.lam[j]));
            all_in = all_in && (best <= tolE);
        }
        c.feat[tag + "all_in_spectrum"] = all_in;
    }
    if (identity)
    {
        c.cls("eigenvalue_identity_asserted");
        for (Index i = 0; i < k; i++)
        {
            ld ref = P.lam[P.wanted[i]];
            ld e = std::fabs(th[i] - ref);
            worst_ev = std::max(worst_ev, e / tolE);
            if (!(e <= tolE))  // feature for KF-C17-4: is the missed eigenvalue numerically zero (A singular at working precision)?
            {
                c.feat[tag + "missed_ref_over_scale"] = (double) (std::fabs(ref) / std::max(std::fabs(P.lam[0]), std::fabs(P.lam[n - 1])));
                // features for KF-C17-7 (stopped by the residual criterion next to an unwanted eigenvector): the residual test ||r|| < tol*n admits
                // an iterate whose component along the missed eigenvector is up to tol*n / |theta - lambda_missed| ("criterion angle"). A run that
                // was merely STOPPED there still carries a visible fraction of that component; a run that converged to the wrong vector does not.
                VecL vm = P.V.col(P.wanted[i]);
                ld comp = (vm.transpose() * BX).cwiseAbs().maxCoeff();
                ld gapm = std::numeric_limits<ld>::infinity();
                for (Index j = 0; j < k; j++)
                    gapm = std::min(gapm, std::fabs(th[j] - ref));
                ld crit = (gapm > 0) ? tolL2 / gapm : std::numeric_limits<ld>::infinity();
                c.feat[tag + "criterion_angle"] = (double) crit;
                c.feat[tag + "missed_component_over_criterion_angle"] = (double) (comp / crit);
            }
            VF_CHECK(e <= tolE, "eigenvalue_not_smallest", tag << "eigenvalues()[" << i << "] = " << vf::num(th[i]) << " but the " << (P.m ? "(deflated) " : "") << i << "-th smallest reference eigenvalue is "
                                                                  << vf::num(ref) << " (|diff| = " << vf::num(e) << " > " << vf::num(tolE) << "; start block cos(max angle) = " << vf::num(P.cmin) << ")");
        }
    }
    else
    {
        // deficient start block or tolerance wider than the gaps: "which" eigenvalue cannot be decided; every value must still
        // be close to SOME reference eigenvalue
        c.cls("eigenvalue_identity_not_decidable");
        for (Index i = 0; i < k; i++)
        {
            ld best = -1;
            for (Index j = 0; j < P.lam.size(); j++)
            {
                ld e = std::fabs(th[i] - P.lam[j]);
                if (best < 0 || e < best)
                    best = e;
            }
            VF_CHECK(best <= tolE, "eigenvalue_not_in_spectrum", tag << "eigenvalues()[" << i << "] = " << vf::num(th[i]) << " is " << vf::num(best) << " away from the reference spectrum (> " << vf::num(tolE) << ")");
        }
    }
    if (P.hasY)
    {
        // constraints: how far the iterate has drifted from B-orthogonality to Y. Recorded, not asserted: the statement says nothing
        // about the constraint vectors, and rounding components along Y (the lowest eigenvectors) are amplified by the iteration.
        MatL Yl = widen_sp(P.Y);
        MatL C = Yl.transpose() * BX;
        ld cerr = vf::maxabs(C) * std::sqrt(P.lminB);
        vf::report().stat("constraint_drift max|Y'BX|/(n eps kappaB its) [not asserted]", (double) (cerr / ((ld) n * EPS * kappaB * its)));
    }

    // calibration record (passing cases only)
    vf::report().stat("gram_err/(n eps kappaB its)", (double) (gerr / (tolG / CTOL)));
    vf::report().stat("gram_err/(n eps kappaB)", (double) (gerr / ((ld) n * EPS * kappaB)));
    vf::report().stat("residual_identity/(n eps scale its)", (double) (rdiff / (tolR / CTOL)));
    vf::report().stat("residual_identity/(n eps scale)", (double) (rdiff / ((ld) n * EPS * (P.normA + thmax * P.normB) * xnorm)));
    vf::report().stat("residual_col/(tol n)", (double) (worst_col / tolL2));
    if (identity)
        vf::report().stat("eigenvalue_err/bound", (double) worst_ev);

    // ---- public eigenvectors(): n-by-k, B-orthonormal, consistent with residuals() (checked last: D12) ------
    Mat Epub = solver.eigenvectors();
    c.feat[tag + "ev_rows"] = (double) Epub.rows();
    c.feat[tag + "ev_cols"] = (double) Epub.cols();
    try
    {
        VF_CHECK(Epub.rows() == n && Epub.cols() == k, "eigenvectors_shape", tag << "eigenvectors() is " << Epub.rows() << "x" << Epub.cols() << ", expected the " << n << "x" << k << " block of eigenvectors");
        MatL E = vf::widen_real(Epub);
        VF_CHECK(vf::all_finite(E), "eigenvectors_finite", tag << "eigenvectors() contains non-finite entries");
        MatL BE = P.hasB ? MatL(P.Bl * E) : E;
        ld ge = vf::maxabs(MatL(E.transpose() * BE - MatL::Identity(k, k)));
        VF_CHECK(ge <= tolG, "eigenvectors_b_orthonormality", tag << "max|X'BX - I| = " << vf::num(ge) << " > " << vf::num(tolG) << " for eigenvectors()");
        MatL Re = P.Al * E - BE * th.asDiagonal();
        ld rd = vf::fro(MatL(Rp - Re));
        VF_CHECK(rd <= tolR, "eigenvectors_residual_identity", tag << "||residuals() - (A X - B X diag(ev))||_F = " << vf::num(rd) << " > " << vf::num(tolR) << " with X = eigenvectors()");
    }
    catch (const vf::Violation& v)
    {
        // postpone: let a later compute() of the same case be checked too, then rethrow the first public-eigenvector failure
        if (!d12_pending)
        {
            d12_pending = true;
            d12_msg = v.kind + "\n" + v.detail;
        }
    }
}

static void run_case(vf::Draw& d, vf::Case& c)
{
    Problem P;
    // ---- dimensions ------------------------------------------------------------------------------------------------
    bool tiny = d.one_in("tiny_n", 12);
    Index nmax = (Index) vf::options().geti("nmax", 60);
    Index n = tiny ? (Index) d.range("n_tiny", 6, 10) : (Index) d.dim("n", 11, nmax);
    Index kmax = (n - 1) / 5;  // 5k < n
    Index k = 1;
    if (kmax >= 2 && !d.one_in("k_is_1", 12))
        k = (Index) d.range("k", 2, kmax);
    P.n = n;
    P.k = k;
    // constraints (already found eigenvectors), an optional part of the documented interface
    Index m = 0;
    bool y_rotated = false, y_skip0 = false;
    if (d.one_in("constraints", 6))
    {
        m = (Index) d.range("m", 1, 3);
        y_rotated = d.flag("y_rotated");
        y_skip0 = d.one_in("y_skip_lowest", 4);
    }
    P.m = m;
    const Index low = k + m + 1 + (y_skip0 ? 1 : 0);  // number of prescribed, well-separated smallest eigenvalues

    // ---- spectrum of the pencil ----------------------------------------------------------------------------------
    int spec = (int) d.pick("spectrum", 6);
    int basis = (int) d.pick("basis", 4);
    int bkind = (int) d.pick("B", 5);
    long seed = d.range("seed", 0, 65535);
    vf::Lcg g((uint64_t) seed * 7919u + 17u);
    VecL ev(n);
    {
        int shiftk = (int) d.pick("lowest", 5);  // position of the smallest eigenvalue
        static const ld SH[5] = {1.0L, 0.5L, 10.0L, 0.0L, 100.0L};
        ld s0 = SH[shiftk];
        ev[0] = s0;
        for (Index i = 1; i < low && i < n; i++)
            ev[i] = ev[i - 1] + 1 + (g.u() + 1) / 2;  // gaps in [1, 2)
        ld top = ev[std::min(low, n) - 1];
        for (Index i = low; i < n; i++)
        {
            ld t = (ld) (i - low + 1);
            switch (spec)
            {
                case 0: ev[i] = top + 4 + (g.u() + 1) / 4; break;                       // cluster of width 1/2 above a gap
                case 1: ev[i] = top + 1 + 15 * (g.u() + 1); break;                      // uniformly spread
                case 2: ev[i] = top + 1.5L * t; break;                                  // linear
                case 3: ev[i] = top + std::pow(1.15L, t) + 0.5L; break;                 // geometric
                default: ev[i] = top + 1 + 15 * (g.u() + 1); break;                     // (4: shifted below, 5: replaced below)
            }
        }
        if (spec == 4)
        {
            // indefinite / negative: move zero inside or above the wanted part
            ld sh = (seed % 3 == 0) ? ev[n - 1] + 1 : ((seed % 3 == 1) ? (ev[0] + ev[1]) / 2 : ev[std::min(low, n - 1)] + 0.25L);
            for (Index i = 0; i < n; i++)
                ev[i] -= sh;
        }
    }
    MatL S;
    if (spec == 5)
    {
        // stencil: 1-D Laplacian plus a diagonal potential well (spectrum not prescribed; separation is whatever it is)
        S = MatL::Zero(n, n);
        for (Index i = 0; i < n; i++)
        {
            S(i, i) = 2 + 0.5L * (ld) ((i * 7) % 5) + ((i < low) ? -1.5L * (ld) (low - i) : 0.0L);
            if (i + 1 < n)
                S(i, i + 1) = S(i + 1, i) = -1;
        }
    }
    else
    {
        MatL Q = make_basis(basis, n, g);
        S = vf::sym_from_spectrum(ev, Q);  // (exactly diagonal for a permutation basis)
    }
    // ---- B = L L' and A = L S L' ------------------------------------------------------------------------------------
    MatL L = MatL::Identity(n, n);
    if (bkind == 2 || bkind == 3)
    {
        int dec = (int) d.range("B_decades", 0, 3);  // diagonal of L spans 10^(dec/2): kappa(B) <= 1e3
        for (Index i = 0; i < n; i++)
            L(i, i) = std::pow(10.0L, (ld) dec / 2 * (g.u() + 1) / 2 - (ld) dec / 4);
        if (bkind == 3)
            for (Index i = 1; i < n; i++)
                if (g.below(3) != 0)
                    L(i, i - 1) = 0.4L * g.u() * std::min(L(i, i), L(i - 1, i - 1));
    }
    else if (bkind == 4)
    {
        int dec = (int) d.range("B_decades", 0, 2);
        MatL Qb = vf::random_orthogonal(n, g);
        VecL sd(n);
        for (Index i = 0; i < n; i++)
            sd[i] = std::pow(10.0L, (ld) dec / 2 * (g.u() + 1) / 2 - (ld) dec / 4);
        L = Qb * sd.asDiagonal();
    }
    ld sA = d.scale10("scale_A", 4);
    ld sB = (bkind >= 2) ? (ld) d.scale10("scale_B", 2) : 1.0L;
    MatL Ad = L * S * L.transpose();
    Ad = ((Ad + Ad.transpose()) / 2).eval() * sA;
    P.A = to_sp(Ad);
    P.Al = widen_sp(P.A);
    P.hasB = (bkind != 0);
    if (P.hasB)
    {
        MatL Bd = L * L.transpose();
        Bd = ((Bd + Bd.transpose()) / 2).eval() * sB;
        if (bkind == 1)
            Bd = MatL::Identity(n, n);
        P.B = to_sp(Bd);
        P.Bl = widen_sp(P.B);
    }
    else
        P.Bl = MatL::Identity(n, n);

    // ---- reference: dense generalized symmetric eigen-decomposition in long double -------------------------------
    Eigen::GeneralizedSelfAdjointEigenSolver<MatL> ges(P.Al, P.Bl);
    if (ges.info() != Eigen::Success)
    {
        c.rejected = true;
        c.cls("reference_failed");
        return;
    }
    P.lam = ges.eigenvalues();
    P.V = ges.eigenvectors();
    if (P.hasB && bkind != 1)
    {
        Eigen::SelfAdjointEigenSolver<MatL> eb(P.Bl, Eigen::EigenvaluesOnly);
        P.lminB = eb.eigenvalues()[0];
        P.lmaxB = eb.eigenvalues()[n - 1];
        P.normB = vf::fro(P.Bl);
    }
    P.normA = vf::fro(P.Al);
    if (!(P.lminB > 0) || P.lmaxB / P.lminB > 2e3L)
    {
        c.rejected = true;  // outside the generator's stated domain (kappa(B) <= 1e3); cannot happen by construction
        c.cls("B_out_of_domain");
        return;
    }
    // wanted eigenvalues: the k smallest of the pencil deflated by the constraint vectors
    std::vector<Index> yidx;
    for (Index i = 0; i < m; i++)
        yidx.push_back(i + (y_skip0 ? 1 : 0));
    for (Index i = 0; i < n && (Index) P.wanted.size() < k; i++)
        if (std::find(yidx.begin(), yidx.end(), i) == yidx.end())
            P.wanted.push_back(i);
    // separation of the wanted values from each other and from the next unwanted one
    {
        Index last = P.wanted.back();
        Index upto = std::min<Index>(n - 1, last + 1);
        ld gmin = -1;
        for (Index i = 0; i < upto; i++)
        {
            ld gi = P.lam[i + 1] - P.lam[i];
            if (gmin < 0 || gi < gmin)
                gmin = gi;
        }
        P.gap_abs = gmin;
    }
    ld lam_scale = std::max(std::fabs(P.lam[0]), std::fabs(P.lam[n - 1]));
    // natural size of a residual A x - theta B x for a B-normalised x
    P.rho = lam_scale * std::sqrt(P.lmaxB);
    if (!(P.rho > 0))
        P.rho = 1;

    // ---- constraints -------------------------------------------------------------------------------------------------
    if (m > 0)
    {
        MatL Yd(n, m);
        for (Index i = 0; i < m; i++)
            Yd.col(i) = P.V.col(yidx[i]);
        if (y_rotated)
        {
            MatL M(m, m);
            for (Index j = 0; j < m; j++)
                for (Index i = 0; i < m; i++)
                    M(i, j) = g.u() + ((i == j) ? 2.0L : 0.0L);
            Yd = (Yd * M).eval();
        }
        P.Y = to_sp(Yd);
        P.hasY = true;
    }

    // ---- preconditioner ----------------------------------------------------------------------------------------------
    int prec = (int) d.pick("preconditioner", 4);
    if (prec == 3 && n > 40)
        prec = 1;
    if (prec != 0)
    {
        MatL Td = MatL::Zero(n, n);
        if (prec == 1)
            for (Index i = 0; i < n; i++)
            {
                ld a = std::fabs(P.Al(i, i));
                Td(i, i) = (a > 0) ? 1 / a : 1.0L;
            }
        else if (prec == 2)
            Td = MatL::Identity(n, n) * (1 / std::max(P.normA, (ld) 1e-300L));
        else
        {
            // |A|^{-1} = V |Lambda|^{-1} V' (symmetric positive definite also for indefinite A)
            VecL il(n);
            ld floor_ = 1e-3L * lam_scale;
            for (Index i = 0; i < n; i++)
                il[i] = 1 / std::max(std::fabs(P.lam[i]), floor_ > 0 ? floor_ : 1.0L);
            Td = P.V * il.asDiagonal() * P.V.transpose();
            Td = ((Td + Td.transpose()) / 2).eval();
        }
        P.T = to_sp(Td);
        P.hasT = true;
    }

    // ---- initial block -----------------------------------------------------------------------------------------------
    static const int START_SLOTS[11] = {0, 0, 0, 1, 1, 2, 2, 3, 4, 5, 6};
    int start = START_SLOTS[d.pick("start", 11)];
    MatL Xd = MatL::Zero(n, k);
    MatL Vw(n, k);
    for (Index j = 0; j < k; j++)
        Vw.col(j) = P.V.col(P.wanted[j]);
    switch (start)
    {
        case 0:
            for (Index j = 0; j < k; j++)
                for (Index i = 0; i < n; i++)
                    Xd(i, j) = g.u();
            break;
        case 1:
            for (Index j = 0; j < k; j++)
            {
                for (Index i = 0; i < n; i++)
                    if (g.below(4) == 0)
                        Xd(i, j) = g.u();
                Xd((j * 5 + seed) % n, j) += 2;  // distinct rows (5k < n): full column rank by construction
            }
            break;
        case 2:
        {
            Index off = (Index) (seed % n);
            Index stride = std::max<Index>(1, n / k);
            for (Index j = 0; j < k; j++)
                Xd((off + j * stride) % n, j) = 1;
            break;
        }
        case 3:
        {
            ld noise = std::pow(10.0L, -(ld) d.range("start_noise_exp", 1, 6));
            ld vs = vf::maxabs(Vw);
            for (Index j = 0; j < k; j++)
                for (Index i = 0; i < n; i++)
                    Xd(i, j) = Vw(i, j) + noise * vs * g.u();
            break;
        }
        case 4:
        {
            MatL M(k, k);
            for (Index j = 0; j < k; j++)
                for (Index i = 0; i < k; i++)
                    M(i, j) = g.u() + ((i == j) ? 2.0L : 0.0L);
            Xd = Vw * M;
            break;
        }
        case 5:
            for (Index j = 0; j < k; j++)
                Xd.col(j) = Vw.col(j) * (1 + (g.u() + 1));
            break;
        default:
            // column 0 is dense, columns 1..k-1 have mutually disjoint supports (rows congruent to j modulo k) and different lengths:
            // with B absent or diagonal X'BX is an arrow matrix with exact zeros
            for (Index i = 0; i < n; i++)
            {
                Xd(i, 0) = g.u();
                Index j = i % k;
                if (j > 0)
                    Xd(i, j) = (1 + (ld) j) * (g.u() + 1.5L);
            }
            break;
    }
    P.X0 = to_sp(Xd);
    P.generic_start = (start == 0 || start == 3 || start == 4 || start == 5) || (basis == 3 && spec != 5);
    MatL X0l = widen_sp(P.X0);
    {
        // full column rank and a component along every wanted eigenvector ("random full-rank initial block"):
        // cosines of the principal angles between span(X0 projected against Y) and span(Vw) in the B inner product
        Eigen::JacobiSVD<MatL> sv(X0l);
        ld smax = sv.singularValues()[0], smin = sv.singularValues()[k - 1];
        if (!(smin > 1e-6L * smax))
        {
            c.rejected = true;  // generator produced a rank-deficient block: outside the property's domain
            c.cls("start_rank_deficient");
            return;
        }
        MatL Xp = X0l;
        if (P.hasY)
        {
            MatL Yl = widen_sp(P.Y);
            MatL BY = P.Bl * Yl;
            MatL YBY = Yl.transpose() * BY;
            Xp = X0l - Yl * YBY.ldlt().solve(BY.transpose() * X0l);
        }
        Eigen::SelfAdjointEigenSolver<MatL> e0(MatL(X0l.transpose() * P.Bl * X0l), Eigen::EigenvaluesOnly);
        P.cmin = cos_max_angle(Xp, Vw, P.Bl, e0.eigenvalues()[k - 1]);
        {
            // feature for KF-C17-6: is some pair of (projected) start columns B-orthogonal to rounding level, so that X'BX can have an
            // exactly zero off-diagonal entry (a sparse pattern, which the fill-reducing ordering of SimplicialLDLT then permutes)?
            MatL Mx = Xp.transpose() * P.Bl * Xp;
            {
                // the solver orthonormalises the start block by a Cholesky factorization of this Gram matrix; the orthonormality it can deliver
                // is eps * cond(Gram), whatever happens later
                Eigen::SelfAdjointEigenSolver<MatL> eg(MatL((Mx + Mx.transpose()) / 2), Eigen::EigenvaluesOnly);
                ld lo = eg.eigenvalues()[0], hi = eg.eigenvalues()[k - 1];
                P.kappaG0 = (lo > 0) ? hi / lo : std::numeric_limits<ld>::infinity();
                c.feat["start_gram_cond"] = (double) P.kappaG0;
            }
            ld mn = 1;
            for (Index j = 0; j < k; j++)
                for (Index i = 0; i < j; i++)
                    mn = std::min(mn, std::fabs(Mx(i, j)) / std::sqrt(Mx(i, i) * Mx(j, j)));
            c.feat["start_min_pair_cosine"] = (k >= 2) ? (double) mn : 1.0;
        }
        if (P.cmin < 0)
        {
            // a start column lies in the span of the constraint vectors: the block the solver iterates on is rank deficient
            c.rejected = true;
            c.cls("start_rank_deficient_after_constraints");
            return;
        }
    }
    P.Vw = Vw;

    // ---- compute() arguments -----------------------------------------------------------------------------------------
    const int min_e = (sizeof(Real) == 4) ? 5 : ((sizeof(Real) == 8) ? 11 : 14);
    auto draw_tol = [&](const char* lab) -> Real {
        long q = d.range(lab, 2, min_e + 1);
        if (q == min_e + 1)
            return Real(0);  // unreachable tolerance: never Success
        ld reltol = std::pow(10.0L, -(ld) q);
        return (Real) (reltol * P.rho / (ld) n);
    };
    auto draw_maxit = [&](const char* lab) -> int {
        long kind = d.range(lab, 0, 5);
        switch (kind)
        {
            case 0: return (int) n;
            case 1: return (int) (2 * n);
            case 2: return 200;
            case 3: return 10;  // the documented default
            case 4: return 30;
            default: return (int) d.range("maxit_small", 0, 5);
        }
    };
    Real tol1 = draw_tol("tol_exp");
    int maxit1 = draw_maxit("maxit_kind");
    bool second = d.one_in("second_compute", 5);
    Real tol2 = tol1;
    int maxit2 = maxit1;
    if (second)
    {
        tol2 = draw_tol("tol2_exp");
        maxit2 = draw_maxit("maxit2_kind");
    }
    // resumed solve: the first call gets a budget somewhere below what convergence needs and the second call continues with the SAME tolerance,
    // so that it typically starts from an iterate of which some columns have converged and others have not (the first iteration of a call
    // has its own code path, and it then works on a residual block narrower than the iterate)
    const bool resume = !second && d.one_in("resumed_solve", 4);
    if (resume)
    {
        second = true;
        maxit1 = (int) d.range("resume_budget", 1, 3 * (long) n);
        tol2 = tol1;
        maxit2 = 300;
    }

    // ---- description / classes ---------------------------------------------------------------------------------------
    {
        std::ostringstream os;
        os << "LOBPCGSolver<" << vf::Sc<Real>::name() << "> n=" << n << " k=" << k << " spectrum=" << SPEC_NAMES[spec] << " basis=" << BASIS_NAMES[basis] << " B=" << B_NAMES[bkind]
           << " seed=" << seed << " scale_A=" << vf::num(sA) << " scale_B=" << vf::num(sB) << " nnz(A)=" << P.A.nonZeros() << " kappa(B)=" << vf::num(P.lmaxB / P.lminB)
           << " lambda[0.." << std::min<Index>(n, k + m + 1) - 1 << "]=" << vf::show(P.lam.head(std::min<Index>(n, k + m + 1)).transpose(), 16) << " lambda_max=" << vf::num(P.lam[n - 1])
           << " preconditioner=" << PREC_NAMES[prec] << " start=" << START_NAMES[start] << " (cos max angle to wanted space " << vf::num(P.cmin) << ")";
        if (m)
            os << " constraints: m=" << m << (y_skip0 ? " eigenvectors 1.." : " eigenvectors 0..") << (y_skip0 ? m : m - 1) << (y_rotated ? " rotated" : "");
        os << " compute(" << maxit1 << ", " << vf::num(tol1) << ")";
        if (second)
            os << " then compute(" << maxit2 << ", " << vf::num(tol2) << ")";
        c.add_desc(os.str());
    }
    c.cls(std::string("spectrum/") + SPEC_NAMES[spec]);
    c.cls(std::string("basis/") + BASIS_NAMES[basis]);
    c.cls(std::string("B/") + B_NAMES[bkind]);
    c.cls(std::string("preconditioner/") + PREC_NAMES[prec]);
    c.cls(std::string("start/") + START_NAMES[start]);
    c.cls(std::string("k=") + (k == 1 ? "1" : (k <= 3 ? "2-3" : (k <= 9 ? "4-9" : "10+"))));
    if (m)
        c.cls("constraints");
    if (second)
        c.cls("second_compute");
    if (resume)
        c.cls("resumed_solve");
    if (density(P.A) < 0.25)
        c.cls("A_density<25%");
    if (P.cmin < 1e-3L)
        c.cls("deficient_start");
    if (!P.generic_start)
        c.cls("structured_start_on_structured_basis");
    c.feat["k"] = (double) k;
    c.feat["n"] = (double) n;
    c.feat["start"] = start;
    c.feat["second"] = second;

    if (vf::options().geti("dump", 0))
    {
        // triage aid: the problem in full precision
        std::fprintf(stderr, "DUMP n=%ld k=%ld\n", (long) n, (long) k);
        auto dump = [&](const char* name, const SpMat& M) {
            for (int o = 0; o < M.outerSize(); ++o)
                for (typename SpMat::InnerIterator it(M, o); it; ++it)
                    std::fprintf(stderr, "%s %ld %ld %.21Lg\n", name, (long) it.row(), (long) it.col(), (long double) it.value());
        };
        dump("A", P.A);
        if (P.hasB)
            dump("B", P.B);
        if (P.hasT)
            dump("T", P.T);
        if (P.hasY)
            dump("Y", P.Y);
        dump("X0", P.X0);
    }
    // ---- run ---------------------------------------------------------------------------------------------------------
    Spectra::LOBPCGSolver<Real> solver(P.A, P.X0);
    if (P.hasB)
        solver.setB(P.B);
    if (P.hasT)
        solver.setPreconditioner(P.T);
    if (P.hasY)
        solver.setConstraints(P.Y);
    VF_CHECK(solver.info() != Eigen::Success, "status_before_compute", "info()==Success before compute()");

    bool d12 = false;
    std::string d12_msg;
    auto one = [&](int maxit, Real tol, const std::string& tag) -> bool {
        bool threw = false;
        std::string what;
        c.feat["stage"] = (tag == "c1.") ? 1 : 2;
        try
        {
            solver.compute(maxit, tol);
        }
        catch (const std::invalid_argument& e)
        {
            threw = true;
            what = std::string("invalid_argument: ") + e.what();
        }
        catch (const std::logic_error& e)
        {
            threw = true;
            what = std::string("logic_error: ") + e.what();
        }
        catch (const std::runtime_error& e)
        {
            threw = true;
            what = std::string("runtime_error: ") + e.what();
        }
        bool ok = false;
        check_outcome(solver, P, tol, maxit, threw, what, c, tag, ok, d12, d12_msg);
        return ok;
    };
    bool ok1 = one(maxit1, tol1, "c1.");
    c.feat["success1"] = ok1;
    bool iterated = false;
    if (ok1)
    {
        // non-trivial rule: success that needed at least two Rayleigh-Ritz steps. The coefficient matrix of the last step has
        // k + 2*blocksize rows from the second step on; when that is ambiguous, a fresh solver limited to one step decides.
        Index rows = solver.m_evectors.rows();
        if (rows > 2 * k)
            iterated = true;
        else if (rows > k)
        {
            Spectra::LOBPCGSolver<Real> probe(P.A, P.X0);
            if (P.hasB)
                probe.setB(P.B);
            if (P.hasT)
                probe.setPreconditioner(P.T);
            if (P.hasY)
                probe.setConstraints(P.Y);
            try
            {
                probe.compute(1, tol1);
                iterated = (probe.info() != Eigen::Success);
            }
            catch (const std::exception&)
            {
                iterated = true;
            }
        }
        c.cls(iterated ? "Success_after_2+_iterations" : (rows > k ? "Success_after_1_iteration" : "Success_at_iteration_0"));
    }
    bool ok2 = false;
    if (second)
    {
        c.feat["info_before_second"] = solver.info();
        {
            // the second compute() starts from the current iterate (projected against Y again)
            const SpMat& Xs = Spectra::verif::Access::iterate(solver);
            P.cmin = 0;
            if (Xs.rows() == n && Xs.cols() == k)
            {
                MatL Xp = widen_sp(Xs);
                if (vf::all_finite(Xp))
                {
                    if (P.hasY)
                    {
                        MatL Yl = widen_sp(P.Y);
                        MatL BY = P.Bl * Yl;
                        MatL YBY = Yl.transpose() * BY;
                        Xp = (Xp - Yl * YBY.ldlt().solve(BY.transpose() * Xp)).eval();
                    }
                    P.cmin = std::max<ld>(0, cos_max_angle(Xp, P.Vw, P.Bl, 0));
                }
            }
            c.feat["cmin_before_second"] = (double) P.cmin;
        }
        ok2 = one(maxit2, tol2, "c2.");
        c.feat["success2"] = ok2;
        if (ok1 && ok2)
            c.cls("second_compute/Success_twice");
        else if (ok1)
            c.cls("second_compute/Success_then_not");
        else if (ok2)
            c.cls("second_compute/Success_on_second");
    }
    c.nontrivial = iterated || (second && ok2 && !ok1);
    if (d12)
    {
        size_t p = d12_msg.find('\n');
        throw vf::Violation(d12_msg.substr(0, p), d12_msg.substr(p + 1));
    }
}

// Known-finding signatures (KNOWN_FINDINGS.txt).
static std::string match_(const vf::Violation& v, const vf::Case& c);
static std::string match(const vf::Violation& v, const vf::Case& c)
{
    std::string sig = match_(v, c);
    if (vf::options().geti("logmatch", 0) && sig != "lobpcg_eigenvectors_coefficient_matrix")
        std::fprintf(stderr, "MATCH %s | %s | %s\n", sig.c_str(), v.msg.c_str(), c.desc.c_str());
    return sig;
}
static std::string match_(const vf::Violation& v, const vf::Case& c)
{
    // D12: eigenvectors() returns the Ritz coefficient matrix of the last Rayleigh-Ritz step ((k + j*blocksize)-by-k, j = 0,1,2,
    // never n rows because 5k < n) instead of the n-by-k iterate. Raised only after every other assertion of the case passed.
    if (v.kind == "eigenvectors_shape")
    {
        for (const char* tag : {"c1.", "c2."})
        {
            double rows = c.f(std::string(tag) + "ev_rows", -1), cols = c.f(std::string(tag) + "ev_cols", -1);
            if (rows >= 0 && cols == c.f("k") && rows >= c.f("k") && rows <= 3 * c.f("k") && rows < c.f("n"))
                return "lobpcg_eigenvectors_coefficient_matrix";
        }
    }
    const bool on_second = v.detail.compare(0, 3, "c2.") == 0;
    // KF-C17-2: compute() never resets m_info, so a Success left by an earlier compute() survives a later compute() that does not
    // converge (reported residual columns not below the new tol*n) or that is left by an exception.
    if (on_second && c.f("info_before_second", -1) == Eigen::Success && (v.kind == "residual_norm" || v.kind == "status_after_exception"))
        return "lobpcg_status_not_reset";
    // KF-C17-4: the small Rayleigh-Ritz pencil is handed to the iterative SymGEigsSolver, whose start vector is forced into range(A):
    // a zero eigenvalue of a singular A is invisible to it, it reports Successful for Ritz values that miss it, and LOBPCG converges
    // (B-orthonormal iterate, small residuals, every returned value a genuine eigenvalue of the pencil) without the eigenvalue 0.
    // KF-C17-7: the run is stopped by its residual criterion next to an unwanted eigenvector. Rayleigh-Ritz minimises the Rayleigh quotient, not
    // the angle to the wanted eigenvector: with a preconditioner that weights the wanted direction weakly the component along it shrinks during
    // the first steps, ||A x - theta x|| falls below tol*n at an interior eigenpair and Success is reported. Matched only when every returned
    // value is a genuine eigenvalue, the tolerance is loose relative to the gap (criterion angle >= 1e-3) and the iterate still carries a visible
    // share (>= 1 %) of the admissible component along the missed eigenvector - a run that CONVERGED to the wrong vector does not match.
    for (const char* tag : {"c1.", "c2."})
        if (v.kind == "eigenvalue_not_smallest" && v.detail.compare(0, 3, tag) == 0 && c.f(std::string(tag) + "all_in_spectrum") > 0 &&
            c.f(std::string(tag) + "criterion_angle", 0) >= 1e-3 && c.f(std::string(tag) + "missed_component_over_criterion_angle", 0) >= 1e-2)
            return "lobpcg_stopped_at_interior_eigenpair";
    for (const char* tag : {"c1.", "c2."})
        if (v.kind == "eigenvalue_not_smallest" && v.detail.compare(0, 3, tag) == 0 && c.f(std::string(tag) + "all_in_spectrum") > 0 &&
            c.f(std::string(tag) + "missed_ref_over_scale", 1) <= 64.0 * c.f("n") * (double) EPS)
            return "lobpcg_rayleigh_ritz_misses_zero_eigenvalue";
    // KF-C17-5: when the B-orthonormalisation of the start block fails (LDLT of X'BX reports a numerical issue, here: a second compute()
    // on an iterate that diverged in the first one) compute() carries on and multiplies the never-assigned BX: Eigen size assertion
    if (v.kind == "eigen_assert" && v.detail.find("invalid matrix product") != std::string::npos && c.f("stage") == 2 && c.f("success1") == 0)
        return "lobpcg_unset_bx_after_failed_orthonormalisation";
    // KF-C17-3: Success reported for an iterate that is not B-orthonormal (the Gram matrix of [X R D] is assembled with assumed identity
    // blocks and R, D are orthonormalised by an unguarded LDLT: loss of orthonormality from 1e-11 up to a collapsed iterate X ~ 0).
    // Matched only after at least one Rayleigh-Ritz step (or on a second compute()). The same ill-conditioned coefficient matrices
    // amplify the rounding errors of the recurrences for A X and B X, so a residual-identity failure belongs to this finding when
    // orthonormality is lost too and the mismatch is still small relative to ||A|| ||X|| (amplified rounding, not a wrong formula).
    for (const char* tag : {"c1.", "c2."})
    {
        const std::string t(tag);
        if (v.detail.compare(0, 3, tag) != 0 || !(c.f(t + "coef_rows") > c.f("k") || c.f("stage") == 2))
            continue;
        if (v.kind == "iterate_b_orthonormality")
            return "lobpcg_false_success_iterate_not_orthonormal";
        if ((v.kind == "residual_identity" || v.kind == "true_residual_norm") && c.f(t + "gram_err_over_tol") > 1 && c.f(t + "residual_mismatch_rel", 1) <= 1e-3)
            return "lobpcg_false_success_iterate_not_orthonormal";
    }
    // KF-C17-6: orthogonalizeInPlace() uses matrixU() / vectorD() of SimplicialLDLT as if they belonged to M'BM, but with the default
    // (AMD) ordering they belong to P M'BM P'. Visible at iteration 0 when two start columns are B-orthogonal (exact zero in M'BM) and the
    // pivots differ: the columns are scaled with each other's pivots, Success is reported for a block with X'BX != I.
    if (v.kind == "iterate_b_orthonormality" && c.f("stage") == 1 && c.f("c1.coef_rows") == c.f("k") && c.f("start_min_pair_cosine", 1) <= 16 * (double) EPS)
        return "lobpcg_ldlt_permutation_ignored";
    return "";
}

int main(int argc, char** argv)
{
    return vf::run_main(argc, argv, "C17", run_case, match);
}
