// C14, second unit - the solver classes the first unit (c14_faults.cpp) does not drive:
//   * SymGEigsSolver<Cholesky> with user-defined A and B operators (faults in A x, in the lower and in the upper triangular solve),
//   * SymGEigsShiftSolver in ShiftInvert, Buckling and Cayley mode with user-defined operators (faults in the shift-solve and in B x),
//   * DavidsonSymEigsSolver with a user-defined operator (faults in the block product `op * X`).
// As in the first unit the fault position k is ENUMERATED over all operator applications of the fault-free run; the exception must
// reach the caller unchanged, the same solver object must afterwards reproduce the fault-free run bit for bit, and the live-heap-block
// count must return to its starting value once solver and operators are destroyed.
#include "vf/malloc_count.hpp"
#include "vf/eigen_assert.hpp"
#include <Eigen/Core>
#include <Eigen/Cholesky>
#include <Eigen/LU>
#include "vf/oracle.hpp"
#include "vf/families.hpp"
#include "vf/runner.hpp"
#include <Spectra/SymGEigsSolver.h>
#include <Spectra/SymGEigsShiftSolver.h>
#include <Spectra/DavidsonSymEigsSolver.h>
#include <memory>

#ifndef VF_REAL
#define VF_REAL double
#endif
typedef VF_REAL Real;
using vf::ld;
using vf::cld;
using vf::CMatL;
using vf::MatL;
using vf::Index;
typedef Eigen::Matrix<Real, Eigen::Dynamic, Eigen::Dynamic> Mat;
typedef Eigen::Matrix<Real, Eigen::Dynamic, 1> Vec;

// ------------------------------------------------------------------------------------------------------------------
// user-defined operators (all deterministic dense kernels in the scalar type, all counting / faulting through OpCounters)

// B x, B^{-1} x, L^{-1} x, L^{-T} x for an SPD matrix B = L L'
class UserB : public vf::OpCounters
{
public:
    using Scalar = Real;
    Mat B;
    Eigen::LLT<Mat> llt;
    explicit UserB(const Mat& b) :
        B(b), llt(b) {}
    Index rows() const { return B.rows(); }
    Index cols() const { return B.cols(); }
    void perform_op(const Real* x_in, Real* y_out) const
    {
        on_call();
        Eigen::Map<const Vec> x(x_in, B.cols());
        Eigen::Map<Vec> y(y_out, B.rows());
        y.noalias() = B * x;
    }
    void lower_triangular_solve(const Real* x_in, Real* y_out) const
    {
        on_call();
        Eigen::Map<const Vec> x(x_in, B.cols());
        Eigen::Map<Vec> y(y_out, B.rows());
        y = llt.matrixL().solve(x);
    }
    void upper_triangular_solve(const Real* x_in, Real* y_out) const
    {
        on_call();
        Eigen::Map<const Vec> x(x_in, B.cols());
        Eigen::Map<Vec> y(y_out, B.rows());
        y = llt.matrixU().solve(x);
    }
};

// (M1 - sigma M2)^{-1} x
class UserShiftInvert : public vf::OpCounters
{
public:
    using Scalar = Real;
    Mat M1, M2;
    Eigen::PartialPivLU<Mat> lu;
    UserShiftInvert(const Mat& m1, const Mat& m2) :
        M1(m1), M2(m2) {}
    Index rows() const { return M1.rows(); }
    Index cols() const { return M1.cols(); }
    void set_shift(const Real& sigma)
    {
        set_shift_calls++;
        Mat T = M1 - sigma * M2;
        lu.compute(T);
    }
    void perform_op(const Real* x_in, Real* y_out) const
    {
        on_call();
        Eigen::Map<const Vec> x(x_in, M1.cols());
        Eigen::Map<Vec> y(y_out, M1.rows());
        y = lu.solve(x);
    }
};

// Davidson operator: block product and element access
class UserDavidsonOp : public vf::OpCounters
{
public:
    using Scalar = Real;
    Mat M;
    explicit UserDavidsonOp(const Mat& m) :
        M(m) {}
    Index rows() const { return M.rows(); }
    Index cols() const { return M.cols(); }
    Mat operator*(const Eigen::Ref<const Mat>& X) const
    {
        on_call();
        return M * X;
    }
    Real operator()(Index i, Index j) const { return M(i, j); }
};

// ------------------------------------------------------------------------------------------------------------------
struct Args
{
    int sel = 0, sort = 0;
    long maxit = 1;
    ld tol = 0;
    int start_kind = 0;
    long start_seed = 0;
};

struct Outcome
{
    vf::Snapshot snap;
    bool fault_seen = false;
    long nonce = 0;
    int kind = -1, dyn_kind = -1;
    bool in_init = false;
    std::vector<long> calls_after_compute;  // per counter, read before any accessor is called
};

// One configuration = operators + solver, built afresh for every fault position
struct Holder
{
    virtual ~Holder() {}
    virtual Outcome run(const Args& a) = 0;
    virtual int counters() const = 0;
    virtual vf::OpCounters& counter(int i) = 0;
    virtual const char* counter_name(int i) const = 0;
    std::vector<long> calls_now()
    {
        std::vector<long> v;
        for (int i = 0; i < counters(); i++)
            v.push_back(counter(i).calls);
        return v;
    }
};

template <typename Solver>
static Outcome run_krylov(Solver& eigs, Index n, const Args& a, Holder& h)
{
    Outcome o;
    bool init_done = false;
    try
    {
        if (a.start_kind == 0)
            eigs.init();
        else
        {
            vf::Lcg g((uint64_t) a.start_seed);
            Vec v(n);
            for (Index i = 0; i < n; i++)
                v[i] = (Real) g.u();
            eigs.init(v.data());
        }
        init_done = true;
        long ret = (long) eigs.compute(vf::ALL_RULES[a.sel], (Index) a.maxit, (Real) a.tol, vf::ALL_RULES[a.sort]);
        o.calls_after_compute = h.calls_now();
        o.snap = vf::take_snapshot(eigs, ret);
    }
    catch (const vf::InjectedFault& f)
    {
        o.fault_seen = true;
        o.nonce = f.nonce;
        o.kind = f.kind;
        o.dyn_kind = f.dynamic_kind();
        o.in_init = !init_done;
    }
    catch (const std::runtime_error& e)
    {
        o.snap.threw = true;
        o.snap.what = std::string("runtime_error: ") + e.what();
    }
    return o;
}

struct CholeskyHolder : Holder
{
    typedef Spectra::SymGEigsSolver<vf::ProdFunctor<Real>, UserB, Spectra::GEigsMode::Cholesky> Solver;
    vf::ProdFunctor<Real> aop;
    UserB bop;
    Solver eigs;
    Index n;
    CholeskyHolder(const Mat& A, const Mat& B, Index nev, Index ncv) :
        aop(A), bop(B), eigs(aop, bop, nev, ncv), n(A.rows()) {}
    Outcome run(const Args& a) override { return run_krylov(eigs, n, a, *this); }
    int counters() const override { return 2; }
    vf::OpCounters& counter(int i) override { return i == 0 ? static_cast<vf::OpCounters&>(aop) : static_cast<vf::OpCounters&>(bop); }
    const char* counter_name(int i) const override { return i == 0 ? "A operator" : "B operator (triangular solves)"; }
};

template <Spectra::GEigsMode Mode>
struct ShiftHolder : Holder
{
    typedef Spectra::SymGEigsShiftSolver<UserShiftInvert, UserB, Mode> Solver;
    UserShiftInvert op;
    UserB bop;
    Solver eigs;
    Index n;
    // M1, M2: the pair the shift-solve is formed from; Bmat: the matrix of the inner product (B, resp. K in buckling mode)
    ShiftHolder(const Mat& M1, const Mat& M2, const Mat& Bmat, Index nev, Index ncv, Real sigma) :
        op(M1, M2), bop(Bmat), eigs(op, bop, nev, ncv, sigma), n(M1.rows()) {}
    Outcome run(const Args& a) override { return run_krylov(eigs, n, a, *this); }
    int counters() const override { return 2; }
    vf::OpCounters& counter(int i) override { return i == 0 ? static_cast<vf::OpCounters&>(op) : static_cast<vf::OpCounters&>(bop); }
    const char* counter_name(int i) const override { return i == 0 ? "shift-solve operator" : "B operator"; }
};

struct DavidsonSizes
{
    Index nev = 1, init = 1, corr = 1, maxs = 1;
};

struct DavidsonHolder : Holder
{
    typedef Spectra::DavidsonSymEigsSolver<UserDavidsonOp> Solver;
    UserDavidsonOp op;
    Solver eigs;
    DavidsonHolder(const Mat& A, const DavidsonSizes& s) :
        op(A), eigs(op, s.nev)
    {
        eigs.set_initial_search_space_size(s.init);
        eigs.set_correction_size(s.corr);
        eigs.set_max_search_space_size(s.maxs);
    }
    Outcome run(const Args& a) override
    {
        Outcome o;
        try
        {
            long ret = (long) eigs.compute(vf::ALL_RULES[a.sel], (Index) a.maxit, (Real) a.tol);
            o.calls_after_compute = calls_now();
            o.snap.ret = ret;
            o.snap.niter = (long) eigs.num_iterations();
            o.snap.nops = 0;
            o.snap.info = (int) eigs.info();
            o.snap.evals = vf::widen(eigs.eigenvalues());
            o.snap.evecs = vf::widen(eigs.eigenvectors());
        }
        catch (const vf::InjectedFault& f)
        {
            o.fault_seen = true;
            o.nonce = f.nonce;
            o.kind = f.kind;
            o.dyn_kind = f.dynamic_kind();
        }
        catch (const std::runtime_error& e)
        {
            o.snap.threw = true;
            o.snap.what = std::string("runtime_error: ") + e.what();
        }
        return o;
    }
    int counters() const override { return 1; }
    vf::OpCounters& counter(int) override { return op; }
    const char* counter_name(int) const override { return "block product"; }
};

// ------------------------------------------------------------------------------------------------------------------
// the enumeration shared by every configuration
template <typename Build>
static void enumerate_faults(vf::Draw& d, vf::Case& c, Build build, const Args& a, const std::string& what)
{
    bool second_fault = d.flag("second_fault");
    long second_k_draw = d.range("second_fault_pos_permille", 0, 999);
    const int fkind = (int) d.range("fault_exception_type", 0, 3);
    c.cls(std::string("fault_type:") + vf::FAULT_KIND_NAMES[fkind]);
    int which = 0;
    Outcome base;
    std::vector<long> N;
    int ncounters = 0;
    {
        std::unique_ptr<Holder> h = build();
        ncounters = h->counters();
        std::vector<long> c0 = h->calls_now();
        base = h->run(a);
        VF_CHECK(!base.fault_seen, "harness", "fault seen without injection");
        if (!base.snap.threw)
            for (int i = 0; i < ncounters; i++)
                N.push_back(base.calls_after_compute[i] - c0[i]);
    }
    which = (int) d.range("faulty_operator", 0, ncounters - 1);
    if (base.snap.threw)
    {
        c.rejected = true;
        c.cls(base.snap.what);
        c.add_desc(what);
        return;
    }
    std::string wname;
    {
        std::unique_ptr<Holder> h = build();
        wname = h->counter_name(which);
    }
    const long Nk = N[which];
    {
        std::ostringstream os;
        os << what << " faults (" << vf::FAULT_KIND_NAMES[fkind] << ") in the " << wname << ": N=" << Nk << " applications";
        c.add_desc(os.str());
    }
    c.cls("fault_in:" + wname);
    c.feat["fault_positions"] = (double) Nk;
    bool used_two = false;
    for (long k = 1; k <= Nk; k++)
    {
        const long live0 = vf::mc::live();
        {
            std::unique_ptr<Holder> h = build();
            vf::OpCounters& t = h->counter(which);
            t.fault_at = t.calls + k;
 t.fault_nonce = 1000 + k;
            t.fault_kind = fkind;
            Outcome o = h->run(a);
            VF_CHECK(o.fault_seen, "fault_swallowed", "the " << wname << " threw (a " << vf::FAULT_KIND_NAMES[fkind] << ") at application " << k << " of " << Nk << " but no exception reached the caller (info=" << o.snap.info << ", what=" << o.snap.what << ")");
            VF_CHECK(o.nonce == 1000 + k, "fault_altered", "the exception that reached the caller carries nonce " << o.nonce << ", thrown " << (1000 + k));
            VF_CHECK(o.kind == fkind && o.dyn_kind == fkind, "fault_altered", "the operator threw a " << vf::FAULT_KIND_NAMES[fkind] << " but the exception that reached the caller has dynamic type #" << o.dyn_kind << " (a sliced or re-created copy)");
            if (second_fault && Nk >= 2)
            {
                long k2 = 1 + (second_k_draw * Nk) / 1000;
                t.fault_at = t.calls + k2;
                t.fault_nonce = 5000 + k2;
                Outcome o2 = h->run(a);
                VF_CHECK(o2.fault_seen && o2.nonce == 5000 + k2, "second_fault", "second fault at application " << k2 << " of the recovery run did not propagate unchanged");
                used_two = true;
            }
            t.fault_at = -1;
            Outcome rec = h->run(a);
            VF_CHECK(!rec.fault_seen, "harness", "fault seen after removal");
            std::string dd = vf::snapshot_diff(base.snap, rec.snap);
            VF_CHECK(dd.empty(), "recovery_differs", "after a fault at application " << k << " of " << Nk << " of the " << wname << ", a new run on the same solver differs from a solver that never saw the fault: " << dd);
        }
        const long live1 = vf::mc::live();
        VF_CHECK(live1 == live0, "leak", "fault at application " << k << " of " << Nk << " of the " << wname << ": " << (live1 - live0) << " heap blocks still live after the solver and operators were destroyed");
    }
    if (used_two)
        c.cls("two_faults");
    vf::report().classes["fault_positions_enumerated"] += Nk;
    c.nontrivial = Nk > 2;
}

// SPD matrix with eigenvalues in [1, 2]
static Mat draw_spd(vf::Draw& d, Index n)
{
    vf::Lcg g((uint64_t) d.range("B_seed", 0, 65535));
    MatL Q = vf::random_orthogonal(n, g);
    vf::VecL ev(n);
    for (Index i = 0; i < n; i++)
        ev[i] = 1 + (ld) i / (ld) n;
    MatL B = Q * ev.asDiagonal() * Q.transpose();
    return ((B + B.transpose()) / 2).cast<Real>();
}

static Args draw_args(vf::Draw& d, int maxit_lo, int maxit_hi)
{
    Args a;
    a.sel = vf::SYM_RULES[d.range("selection", 0, 4)];
    a.sort = vf::SYM_SORT_RULES[d.range("sorting", 0, 3)];
    a.maxit = d.range("maxit", maxit_lo, maxit_hi);
    a.tol = vf::draw_tol<Real>(d);
    a.start_kind = (int) d.range("start_kind", 0, 1);
    a.start_seed = d.range("start_seed", 0, 255);
    return a;
}

static void geigs_case(vf::Draw& d, vf::Case& c, int mode)
{
    static const char* const MODE[4] = {"SymGEigsSolver<Cholesky>", "SymGEigsShiftSolver<ShiftInvert>", "SymGEigsShiftSolver<Buckling>", "SymGEigsShiftSolver<Cayley>"};
    // scales are kept moderate: this check is about control flow and state, the numerics belong to C03
    vf::HermRecipe R = vf::make_herm<Real>(d, false, 3, (Index) vf::options().geti("nmax", 12), 2);
    const Index n = R.n;
    Index nev, ncv;
    vf::draw_nev_ncv(d, n, false, nev, ncv);
    Mat Bs = draw_spd(d, n);
    Mat As = vf::Narrow<Real>::mat(R.A);
    Args a = draw_args(d, 0, 3);
    long sig_num = d.range("sigma_16th", 1, 32);
    bool sig_neg = d.flag("sigma_negative");
    c.cls(MODE[mode]);
    std::ostringstream os;
    os << MODE[mode] << "<user operators> class=" << R.name << " n=" << n << " scale=1e" << R.scale_exp << " nev=" << nev << " ncv=" << ncv;
    const ld normA = vf::fro_scaled(R.A);
    if (normA == 0)
    {
        c.add_desc(os.str() + " zero matrix");
        c.rejected = true;
        return;
    }
    Real sigma = 0;
    if (mode > 0)
    {
        sigma = (Real) ((sig_neg ? -1 : 1) * normA * (ld) sig_num / 16);
        // the shifted matrix must be safely nonsingular (reference in long double)
        MatL M = (mode == 2) ? MatL(Bs.cast<ld>() - (ld) sigma * As.cast<ld>()) : MatL(As.cast<ld>() - (ld) sigma * Bs.cast<ld>());
        Eigen::JacobiSVD<MatL> svd(M);
        ld smin = svd.singularValues()[n - 1], smax = svd.singularValues()[0];
        os << " sigma=" << vf::num(sigma);
        if (!(smin > (ld) 1e-6 * smax))
        {
            c.add_desc(os.str() + " (shift too close to an eigenvalue)");
            c.rejected = true;
            return;
        }
    }
    os << " compute(" << vf::ALL_RULE_NAMES[a.sel] << ",maxit=" << a.maxit << ",tol=" << vf::num(a.tol) << ")";
    auto build = [&]() -> std::unique_ptr<Holder> {
        switch (mode)
        {
            case 0: return std::unique_ptr<Holder>(new CholeskyHolder(As, Bs, nev, ncv));
            case 1: return std::unique_ptr<Holder>(new ShiftHolder<Spectra::GEigsMode::ShiftInvert>(As, Bs, Bs, nev, ncv, sigma));
            // buckling: K = Bs (positive definite), K_G = As; the shift-solve is (K - sigma K_G)^{-1}, the inner product is K
            case 2: return std::unique_ptr<Holder>(new ShiftHolder<Spectra::GEigsMode::Buckling>(Bs, As, Bs, nev, ncv, sigma));
            default: return std::unique_ptr<Holder>(new ShiftHolder<Spectra::GEigsMode::Cayley>(As, Bs, Bs, nev, ncv, sigma));
        }
    };
    enumerate_faults(d, c, build, a, os.str());
}

static void davidson_case(vf::Draw& d, vf::Case& c)
{
    vf::HermRecipe R = vf::make_herm<Real>(d, false, 4, (Index) vf::options().geti("nmax_davidson", 16), 2);
    const Index n = R.n;
    Mat As = vf::Narrow<Real>::mat(R.A);
    // optionally make the matrix diagonally dominant (the case the method is built for)
    if (d.flag("diagonally_dominant"))
    {
        ld sc = (ld) As.cwiseAbs().maxCoeff();
        for (Index i = 0; i < n; i++)
            As(i, i) += (Real) (sc * (ld) (2 * (i + 1)));
    }
    DavidsonSizes s;
    s.nev = (Index) d.range("nev", 1, std::max<Index>(1, std::min<Index>(n / 2, 4)));
    s.init = (Index) d.range("initial_size", s.nev, n - 1);
    s.corr = (Index) d.range("correction_size", 1, std::max<Index>(1, std::min<Index>(s.init, n - s.init)));
    s.maxs = (Index) d.range("max_size", s.init, n);
    Args a;
    static const int DRULES[4] = {0, 3, 4, 7};
    a.sel = DRULES[d.range("selection", 0, 3)];
    a.maxit = d.range("maxit", 1, 8);
    a.tol = vf::draw_tol<Real>(d);
    c.cls("DavidsonSymEigsSolver");
    std::ostringstream os;
    os << "DavidsonSymEigsSolver<user operator> class=" << R.name << " n=" << n << " scale=1e" << R.scale_exp << " nev=" << s.nev << " initial=" << s.init << " correction=" << s.corr << " max=" << s.maxs
       << " compute(" << vf::ALL_RULE_NAMES[a.sel] << ",maxit=" << a.maxit << ",tol=" << vf::num(a.tol) << ")";
    if (vf::fro_scaled(R.A) == 0)
    {
        c.add_desc(os.str() + " zero matrix");
        c.rejected = true;
        return;
    }
    auto build = [&]() -> std::unique_ptr<Holder> { return std::unique_ptr<Holder>(new DavidsonHolder(As, s)); };
    enumerate_faults(d, c, build, a, os.str());
}

static void run_case(vf::Draw& d, vf::Case& c)
{
    int kind = (int) d.range("kind", 0, 4);
    if (kind == 4)
        davidson_case(d, c);
    else
        geigs_case(d, c, kind);
}

int main(int argc, char** argv)
{
    return vf::run_main(argc, argv, "C14", run_case);
}
