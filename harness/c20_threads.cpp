// C20 - solvers are re-entrant: concurrent independent runs (own operators, or one shared read-only product wrapper)
// are free of data races (ThreadSanitizer is the race oracle) and bit-identical to the sequential baseline.
#include "vf/eigen_assert.hpp"
#include <Eigen/Core>
#include <Eigen/Sparse>
#include "vf/oracle.hpp"
#include "vf/families.hpp"
#include "vf/runner.hpp"
#include <Spectra/MatOp/DenseSymMatProd.h>
#include <Spectra/MatOp/DenseGenMatProd.h>
#include <Spectra/MatOp/SparseSymMatProd.h>
#include <Spectra/contrib/PartialSVDSolver.h>
#include <Spectra/DavidsonSymEigsSolver.h>
#include <thread>
#include <atomic>
#include <chrono>

typedef double Real;
using vf::ld;
using vf::cld;
using vf::CMatL;
using vf::Index;

// ThreadSanitizer calls this (weak) hook for every report it produces
static std::atomic<long> g_tsan_reports{0};
extern "C" void __tsan_on_report(void*)
{
    g_tsan_reports++;
}

struct Args
{
    int sel, sort;
    long maxit;
    ld tol;
    int start_kind;
    long start_seed;
};

struct Job
{
    int kind;  // 0 private-operator family job, 1 shared DenseSymMatProd, 2 shared DenseGenMatProd, 3 shared SparseSymMatProd, 4 PartialSVD (private), 5 Davidson (private)
    vf::Problem<Real> P;
    Args a;
    long spin = 0;
    int reps = 1;
};

template <typename S, typename Solver>
static vf::Snapshot run_job(Solver& eigs, Index n, const Args& a)
{
    typedef Eigen::Matrix<S, Eigen::Dynamic, 1> Vec;
    vf::Snapshot s;
    try
    {
        if (a.start_kind == 0)
            eigs.init();
        else
        {
            vf::Lcg g((uint64_t) a.start_seed);
            Vec v(n);
            for (Index i = 0; i < n; i++)
                v[i] = (S) (Real) g.u();
            eigs.init(v.data());
        }
        long ret = (long) eigs.compute(vf::ALL_RULES[a.sel], (Index) a.maxit, (Real) a.tol, vf::ALL_RULES[a.sort]);
        s = vf::take_snapshot(eigs, ret);
    }
    catch (const std::exception& e)
    {
        s.threw = true;
        s.what = e.what();
    }
    return s;
}

struct Shared
{
    Eigen::MatrixXd Asym, Agen;
    Eigen::SparseMatrix<double> Asp;
    std::unique_ptr<Spectra::DenseSymMatProd<double>> sym;
    std::unique_ptr<Spectra::DenseGenMatProd<double>> gen;
    std::unique_ptr<Spectra::SparseSymMatProd<double>> sp;
};

static vf::Snapshot execute_job(const Job& j, Shared& sh)
{
    vf::Snapshot out;
    const Index n = j.P.n;
    switch (j.kind)
    {
        case 0:
            vf::with_family<Real>(j.P, [&](auto& op, auto& make, auto tag) {
                typedef decltype(tag) S;
                (void) op;
                auto eigs = make();
                out = run_job<S>(*eigs, n, j.a);
            });
            break;
        case 1:
        {
            Spectra::SymEigsSolver<Spectra::DenseSymMatProd<double>> eigs(*sh.sym, j.P.nev, j.P.ncv);
            out = run_job<double>(eigs, sh.Asym.rows(), j.a);
            break;
        }
        case 2:
        {
            Spectra::GenEigsSolver<Spectra::DenseGenMatProd<double>> eigs(*sh.gen, j.P.nev, j.P.ncv);
            out = run_job<double>(eigs, sh.Agen.rows(), j.a);
            break;
        }
        case 3:
        {
            Spectra::SymEigsSolver<Spectra::SparseSymMatProd<double>> eigs(*sh.sp, j.P.nev, j.P.ncv);
            out = run_job<double>(eigs, sh.Asp.rows(), j.a);
            break;
        }
        case 4:
        {
            Eigen::MatrixXd M = vf::Narrow<double>::mat(j.P.A);
            try
            {
                Spectra::PartialSVDSolver<Eigen::MatrixXd> svd(M, j.P.nev, j.P.ncv);
                long ret = (long) svd.compute((Index) j.a.maxit, (Real) j.a.tol);
                out.ret = ret;
                out.evals = vf::widen(svd.singular_values());
                out.evecs = vf::widen(svd.matrix_U(ret));
            }
            catch (const std::exception& e)
            {
                out.threw = true;
                out.what = e.what();
            }
            break;
        }
        default:
        {
            Eigen::MatrixXd M = vf::Narrow<double>::mat(j.P.A);
            try
            {
                Spectra::DenseSymMatProd<double> op(M);
                Spectra::DavidsonSymEigsSolver<Spectra::DenseSymMatProd<double>> eigs(op, j.P.nev);
                long ret = (long) eigs.compute(vf::ALL_RULES[j.a.sel == 0 || j.a.sel == 3 ? 3 : 7], (Index) (10 + j.a.maxit), (Real) std::max((ld) 1e-8, j.a.tol));
                out.ret = ret;
                out.info = (int) eigs.info();
                out.evals = vf::widen(eigs.eigenvalues());
                out.evecs = vf::widen(eigs.eigenvectors());
            }
            catch (const std::exception& e)
            {
                out.threw = true;
                out.what = e.what();
            }
            break;
        }
    }
    return out;
}

static void run_case(vf::Draw& d, vf::Case& c)
{
    const int tmax = (int) vf::options().geti("tmax", 8);
    int T = (int) d.range("threads", 2, tmax);
    Index nmax = (Index) vf::options().geti("nmax", 20);
    // shared operators (built once, read-only afterwards)
    Shared sh;
    Index ns = (Index) d.range("shared_n", 6, nmax);
    {
        vf::Lcg g((uint64_t) d.range("shared_seed", 0, 65535));
        sh.Agen = Eigen::MatrixXd(ns, ns);
        for (Index j = 0; j < ns; j++)
            for (Index i = 0; i < ns; i++)
                sh.Agen(i, j) = (double) g.u();
        sh.Asym = (sh.Agen + sh.Agen.transpose()) / 2;
        Eigen::MatrixXd S = sh.Asym;
        for (Index j = 0; j < ns; j++)
            for (Index i = 0; i < ns; i++)
                if (std::abs(i - j) > 2)
                    S(i, j) = 0;
        sh.Asp = vf::to_sparse<double>(S);
        sh.sym.reset(new Spectra::DenseSymMatProd<double>(sh.Asym));
        sh.gen.reset(new Spectra::DenseGenMatProd<double>(sh.Agen));
        sh.sp.reset(new Spectra::SparseSymMatProd<double>(sh.Asp));
    }
    std::vector<Job> jobs(T);
    std::ostringstream os;
    os << T << " threads:";
    bool any_shared = false;
    for (int t = 0; t < T; t++)
    {
        Job& j = jobs[t];
        j.kind = (int) d.range("job_kind", 0, 5);
        if (j.kind == 0)
        {
            int fam = (int) d.range("family", 0, 5);
            j.P = vf::draw_problem<Real>(d, fam, nmax);
            if (!j.P.ok)
            {
                j.kind = 1;  // degenerate recipe: fall back to a shared-operator job
            }
        }
        if (j.kind >= 1 && j.kind <= 3)
        {
            any_shared = true;
            j.P.n = ns;
            bool general = (j.kind == 2);
            vf::draw_nev_ncv(d, ns, general, j.P.nev, j.P.ncv);
            j.P.family = general ? vf::FAM_GEN : vf::FAM_SYM;
        }
        else if (j.kind >= 4)
        {
            vf::HermRecipe R = vf::make_herm<Real>(d, false, 4, nmax);
            j.P.n = R.n;
            j.P.A = R.A;
            j.P.family = vf::FAM_SYM;
            j.P.nev = (Index) d.range("k", 1, std::max<Index>(1, R.n / 3));
            j.P.ncv = std::min<Index>(R.n, 2 * j.P.nev + 1);
        }
        int nr, nsr;
        const int* rules = vf::family_rules(j.P.family, nr);
        const int* srules = vf::family_sort_rules(j.P.family, nsr);
        j.a.sel = rules[d.range("selection", 0, nr - 1)];
        j.a.sort = srules[d.range("sorting", 0, nsr - 1)];
        j.a.maxit = d.range("maxit", 0, 30);
        j.a.tol = vf::draw_tol<Real>(d);
        j.a.start_kind = (int) d.range("start_kind", 0, 1);
        j.a.start_seed = d.range("start_seed", 0, 255);
        j.spin = d.range("start_skew", 0, 2000);
        j.reps = (int) d.range("repetitions", 1, 3);
        static const char* KN[6] = {"private", "shared DenseSymMatProd", "shared DenseGenMatProd", "shared SparseSymMatProd", "PartialSVD", "Davidson"};
        os << " [" << KN[j.kind] << (j.kind == 0 ? std::string(" ") + vf::FAMILY_NAMES[j.P.family] : std::string()) << " n=" << j.P.n << " nev=" << j.P.nev << " x" << j.reps << "]";
    }
    c.add_desc(os.str());
    if (any_shared)
        c.cls("shared_product_wrapper");
    // sequential baseline
    std::vector<vf::Snapshot> base(T);
    for (int t = 0; t < T; t++)
        base[t] = execute_job(jobs[t], sh);
    // concurrent run
    const long reports_before = g_tsan_reports.load();
    std::vector<std::vector<vf::Snapshot>> got(T);
    std::vector<std::pair<long long, long long>> span(T);
    std::atomic<int> ready{0};
    std::atomic<bool> go{false};
    std::vector<std::thread> th;
    for (int t = 0; t < T; t++)
        th.emplace_back([&, t]() {
            ready++;
            while (!go.load())
                std::this_thread::yield();
            volatile long sink = 0;
            for (long k = 0; k < jobs[t].spin; k++)
                sink += k;
            span[t].first = std::chrono::steady_clock::now().time_since_epoch().count();
            for (int r = 0; r < jobs[t].reps; r++)
                got[t].push_back(execute_job(jobs[t], sh));
            span[t].second = std::chrono::steady_clock::now().time_since_epoch().count();
        });
    while (ready.load() < T)
        std::this_thread::yield();
    go.store(true);
    for (auto& x : th)
        x.join();
    // overlap (classification only, never part of the verdict)
    int overlapping = 0;
    for (int a = 0; a < T; a++)
        for (int b = a + 1; b < T; b++)
            if (span[a].first < span[b].second && span[b].first < span[a].second)
                overlapping++;
    c.nontrivial = overlapping > 0;
    if (overlapping > 0)
        c.cls("threads_overlapped");
    for (int t = 0; t < T; t++)
        for (size_t r = 0; r < got[t].size(); r++)
        {
            std::string dd = vf::snapshot_diff(base[t], got[t][r]);
            VF_CHECK(dd.empty(), "concurrent_result_differs", "thread " << t << " repetition " << r << " differs from its sequential baseline: " << dd);
        }
    long reports = g_tsan_reports.load() - reports_before;
    VF_CHECK(reports == 0, "data_race", reports << " ThreadSanitizer report(s) during the concurrent run (see the process output)");
}

int main(int argc, char** argv)
{
    return vf::run_main(argc, argv, "C20", run_case);
}
