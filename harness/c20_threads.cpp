// C20 - solvers are re-entrant: concurrent independent runs (own operators, or one shared read-only product wrapper)
// are free of data races (ThreadSanitizer is the race oracle) and bit-identical to the sequential baseline.
#include "vf/eigen_assert.hpp"
#include <Eigen/Core>
#include <Eigen/Sparse>
#include "vf/oracle.hpp"
#include "vf/families.hpp"
#include "vf/runner.hpp"
#include <Spectra/MatOp/DenseSymMatProd.h>
#include <Spectra/MatOp/DenseGenMatProd.h>
#include <Spectra/MatOp/SparseSymMatProd.h>
#include <Spectra/MatOp/SparseGenMatProd.h>
#include <Spectra/MatOp/DenseCholesky.h>
#include <Spectra/MatOp/SparseCholesky.h>
#include <Spectra/MatOp/SparseRegularInverse.h>
#include <Spectra/MatOp/SymShiftInvert.h>
#include <Spectra/MatOp/DenseSymShiftSolve.h>
#include <Spectra/MatOp/SparseSymShiftSolve.h>
#include <Spectra/MatOp/DenseGenRealShiftSolve.h>
#include <Spectra/MatOp/SparseGenRealShiftSolve.h>
#include <Spectra/MatOp/DenseGenComplexShiftSolve.h>
#include <Spectra/MatOp/SparseGenComplexShiftSolve.h>
#include <Spectra/SymGEigsSolver.h>
#include <Spectra/SymGEigsShiftSolver.h>
#include <Spectra/contrib/PartialSVDSolver.h>
#include <Spectra/contrib/LOBPCGSolver.h>
#include <Spectra/DavidsonSymEigsSolver.h>
#include <thread>
#include <atomic>
#include <chrono>

typedef double Real;
using vf::ld;
using vf::cld;
using vf::CMatL;
using vf::Index;

// ThreadSanitizer calls this (weak) hook for every report it produces
static std::atomic<long> g_tsan_reports{0};
extern "C" void __tsan_on_report(void*)
{
    g_tsan_reports++;
}

struct Args
{
    int sel, sort;
    long maxit;
    ld tol;
    int start_kind;
    long start_seed;
};

struct Job
{
    // 0 private-operator family job, 1 shared DenseSymMatProd, 2 shared DenseGenMatProd, 3 shared SparseSymMatProd, 4 PartialSVD (private), 5 Davidson (private),
    // 6 shared SparseGenMatProd, 7 generalized solver on the library's wrappers (mode = sub; A-side product wrapper shared in the two non-shift modes when `share`),
    // 8 LOBPCG (private), 9 shift solver on the library's own shift-solve wrapper (private; sub selects the wrapper)
    int kind;
    int sub = 0;
    bool share = false;
    long seed = 0;
    vf::Problem<Real> P;
    Args a;
    long spin = 0;
    int reps = 1;
};

template <typename S, typename Solver>
static vf::Snapshot run_job(Solver& eigs, Index n, const Args& a)
{
    typedef Eigen::Matrix<S, Eigen::Dynamic, 1> Vec;
    vf::Snapshot s;
    try
    {
        if (a.start_kind == 0)
            eigs.init();
        else
        {
            vf::Lcg g((uint64_t) a.start_seed);
            Vec v(n);
            for (Index i = 0; i < n; i++)
                v[i] = (S) (Real) g.u();
            eigs.init(v.data());
        }
        long ret = (long) eigs.compute(vf::ALL_RULES[a.sel], (Index) a.maxit, (Real) a.tol, vf::ALL_RULES[a.sort]);
        s = vf::take_snapshot(eigs, ret);
    }
    catch (const std::exception& e)
    {
        s.threw = true;
        s.what = e.what();
    }
    return s;
}

struct Shared
{
    Eigen::MatrixXd Asym, Agen;
    Eigen::SparseMatrix<double> Asp;
    std::unique_ptr<Spectra::DenseSymMatProd<double>> sym;
    std::unique_ptr<Spectra::DenseGenMatProd<double>> gen;
    std::unique_ptr<Spectra::SparseSymMatProd<double>> sp;
    Eigen::SparseMatrix<double> Aspgen;
    std::unique_ptr<Spectra::SparseGenMatProd<double>> spgen;
};

// symmetric positive definite matrix (eigenvalues in about [1.5, 2.5]) from a seed
static Eigen::MatrixXd spd_from_seed(Index n, long seed)
{
    vf::Lcg g((uint64_t) seed * 2654435761u + 17u);
    Eigen::MatrixXd B = Eigen::MatrixXd::Zero(n, n);
    for (Index i = 0; i < n; i++)
        B(i, i) = 2 + (double) g.u() / 2;
    for (Index i = 0; i + 1 < n; i++)
    {
        double v = (double) g.u() / 4;
        B(i, i + 1) = v;
        B(i + 1, i) = v;
    }
    return B;
}
static Eigen::MatrixXd sym_from_seed(Index n, long seed)
{
    vf::Lcg g((uint64_t) seed * 40503u + 5u);
    Eigen::MatrixXd A(n, n);
    for (Index j = 0; j < n; j++)
        for (Index i = 0; i <= j; i++)
        {
            A(i, j) = (double) g.u();
            A(j, i) = A(i, j);
        }
    return A;
}
static Eigen::MatrixXd gen_from_seed(Index n, long seed)
{
    vf::Lcg g((uint64_t) seed * 69069u + 3u);
    Eigen::MatrixXd A(n, n);
    for (Index j = 0; j < n; j++)
        for (Index i = 0; i < n; i++)
            A(i, j) = (double) g.u();
    return A;
}

// generalized symmetric solvers on the wrappers the library ships
static vf::Snapshot generalized_job(const Job& j, Shared& sh)
{
    using namespace Spectra;
    const Index n = j.P.n;
    Eigen::MatrixXd A = j.share ? sh.Asym : sym_from_seed(n, j.seed);
    Eigen::MatrixXd B = spd_from_seed(n, j.seed + 1);
    Eigen::SparseMatrix<double> Asp = vf::to_sparse<double>(A), Bsp = vf::to_sparse<double>(B);
    switch (j.sub)
    {
        case 0:
        {
            DenseSymMatProd<double> aop_private(A);
            DenseSymMatProd<double>& aop = j.share ? *sh.sym : aop_private;
            DenseCholesky<double> bop(B);
            SymGEigsSolver<DenseSymMatProd<double>, DenseCholesky<double>, GEigsMode::Cholesky> eigs(aop, bop, j.P.nev, j.P.ncv);
            return run_job<double>(eigs, n, j.a);
        }
        case 1:
        {
            SparseSymMatProd<double> aop(Asp);
            SparseCholesky<double> bop(Bsp);
            SymGEigsSolver<SparseSymMatProd<double>, SparseCholesky<double>, GEigsMode::Cholesky> eigs(aop, bop, j.P.nev, j.P.ncv);
            return run_job<double>(eigs, n, j.a);
        }
        case 2:
        {
            DenseSymMatProd<double> aop_private(A);
            DenseSymMatProd<double>& aop = j.share ? *sh.sym : aop_private;
            SparseRegularInverse<double> bop(Bsp);
            SymGEigsSolver<DenseSymMatProd<double>, SparseRegularInverse<double>, GEigsMode::RegularInverse> eigs(aop, bop, j.P.nev, j.P.ncv);
            return run_job<double>(eigs, n, j.a);
        }
        case 3:
        {
            // A - sigma B with sigma = -20 is positive definite (||A|| <= n/2 <= 10, B >= 1)
            typedef SymShiftInvert<double, Eigen::Dense, Eigen::Sparse> Op;
            Op op(A, Bsp);
            SparseSymMatProd<double> bop(Bsp);
            SymGEigsShiftSolver<Op, SparseSymMatProd<double>, GEigsMode::ShiftInvert> eigs(op, bop, j.P.nev, j.P.ncv, -20.0);
            return run_job<double>(eigs, n, j.a);
        }
        case 4:
        {
            // buckling: K = B positive definite, K_G = A, K - sigma K_G definite for sigma = 0.05
            typedef SymShiftInvert<double, Eigen::Sparse, Eigen::Dense> Op;
            Op op(Bsp, A);
            SparseSymMatProd<double> bop(Bsp);
            SymGEigsShiftSolver<Op, SparseSymMatProd<double>, GEigsMode::Buckling> eigs(op, bop, j.P.nev, j.P.ncv, 0.05);
            return run_job<double>(eigs, n, j.a);
        }
        default:
        {
            typedef SymShiftInvert<double, Eigen::Dense, Eigen::Dense> Op;
            Op op(A, B);
            DenseSymMatProd<double> bop(B);
            SymGEigsShiftSolver<Op, DenseSymMatProd<double>, GEigsMode::Cayley> eigs(op, bop, j.P.nev, j.P.ncv, -20.0);
            return run_job<double>(eigs, n, j.a);
        }
    }
}

// shift solvers on the library's own shift-solve wrappers (each thread owns its wrapper: it is written by set_shift)
static vf::Snapshot shift_wrapper_job(const Job& j)
{
    using namespace Spectra;
    const Index n = j.P.n;
    // the shift lies outside the spectrum: |entries| <= 1/2, so the spectral radius is at most n/2 <= 10
    const double sigma = 11.5;
    switch (j.sub)
    {
        case 0:
        {
            Eigen::MatrixXd A = sym_from_seed(n, j.seed);
            DenseSymShiftSolve<double> op(A);
            SymEigsShiftSolver<DenseSymShiftSolve<double>> eigs(op, j.P.nev, j.P.ncv, sigma);
            return run_job<double>(eigs, n, j.a);
        }
        case 1:
        {
            Eigen::SparseMatrix<double> A = vf::to_sparse<double>(sym_from_seed(n, j.seed));
            SparseSymShiftSolve<double> op(A);
            SymEigsShiftSolver<SparseSymShiftSolve<double>> eigs(op, j.P.nev, j.P.ncv, sigma);
            return run_job<double>(eigs, n, j.a);
        }
        case 2:
        {
            Eigen::MatrixXd A = gen_from_seed(n, j.seed);
            DenseGenRealShiftSolve<double> op(A);
            GenEigsRealShiftSolver<DenseGenRealShiftSolve<double>> eigs(op, j.P.nev, j.P.ncv, sigma);
            return run_job<double>(eigs, n, j.a);
        }
        case 3:
        {
            Eigen::SparseMatrix<double> A = vf::to_sparse<double>(gen_from_seed(n, j.seed));
            SparseGenRealShiftSolve<double> op(A);
            GenEigsRealShiftSolver<SparseGenRealShiftSolve<double>> eigs(op, j.P.nev, j.P.ncv, sigma);
            return run_job<double>(eigs, n, j.a);
        }
        case 4:
        {
            Eigen::MatrixXd A = gen_from_seed(n, j.seed);
            DenseGenComplexShiftSolve<double> op(A);
            GenEigsComplexShiftSolver<DenseGenComplexShiftSolve<double>> eigs(op, j.P.nev, j.P.ncv, sigma, 1.25);
            return run_job<double>(eigs, n, j.a);
        }
        default:
        {
            Eigen::SparseMatrix<double> A = vf::to_sparse<double>(gen_from_seed(n, j.seed));
            SparseGenComplexShiftSolve<double> op(A);
            GenEigsComplexShiftSolver<SparseGenComplexShiftSolve<double>> eigs(op, j.P.nev, j.P.ncv, sigma, 1.25);
            return run_job<double>(eigs, n, j.a);
        }
    }
}

static vf::Snapshot lobpcg_job(const Job& j)
{
    const Index n = j.P.n, k = j.P.nev;
    vf::Snapshot out;
    vf::Lcg g((uint64_t) j.seed * 977u + 1u);
    Eigen::MatrixXd A = Eigen::MatrixXd::Zero(n, n);
    for (Index i = 0; i < n; i++)
        A(i, i) = (double) (i + 1) + (double) g.u() / 4;
    for (Index i = 0; i + 1 < n; i++)
    {
        double v = (double) g.u() / 4;
        A(i, i + 1) = v;
        A(i + 1, i) = v;
    }
    Eigen::MatrixXd X(n, k);
    for (Index c = 0; c < k; c++)
        for (Index i = 0; i < n; i++)
            X(i, c) = (double) g.u();
    Eigen::SparseMatrix<double> Asp = vf::to_sparse<double>(A), Xsp = X.sparseView();
    try
    {
        Spectra::LOBPCGSolver<double> solver(Asp, Xsp);
        if (j.sub & 1)
        {
            Eigen::SparseMatrix<double> Bsp = vf::to_sparse<double>(spd_from_seed(n, j.seed + 2));
            solver.setB(Bsp);
        }
        solver.compute((int) (5 + j.a.maxit), std::max(1e-10, (double) j.a.tol));
        out.info = solver.info();
        out.evals = vf::widen(solver.eigenvalues());
        out.evecs = vf::widen(solver.eigenvectors());
    }
    catch (const std::exception& e)
    {
        out.threw = true;
        out.what = e.what();
    }
    return out;
}

static vf::Snapshot execute_job(const Job& j, Shared& sh)
{
    vf::Snapshot out;
    const Index n = j.P.n;
    switch (j.kind)
    {
        case 0:
            vf::with_family<Real>(j.P, [&](auto& op, auto& make, auto tag) {
                typedef decltype(tag) S;
                (void) op;
                auto eigs = make();
                out = run_job<S>(*eigs, n, j.a);
            });
            break;
        case 1:
        {
            Spectra::SymEigsSolver<Spectra::DenseSymMatProd<double>> eigs(*sh.sym, j.P.nev, j.P.ncv);
            out = run_job<double>(eigs, sh.Asym.rows(), j.a);
            break;
        }
        case 2:
        {
            Spectra::GenEigsSolver<Spectra::DenseGenMatProd<double>> eigs(*sh.gen, j.P.nev, j.P.ncv);
            out = run_job<double>(eigs, sh.Agen.rows(), j.a);
            break;
        }
        case 3:
        {
            Spectra::SymEigsSolver<Spectra::SparseSymMatProd<double>> eigs(*sh.sp, j.P.nev, j.P.ncv);
            out = run_job<double>(eigs, sh.Asp.rows(), j.a);
            break;
        }
        case 4:
        {
            Eigen::MatrixXd M = vf::Narrow<double>::mat(j.P.A);
            try
            {
                Spectra::PartialSVDSolver<Eigen::MatrixXd> svd(M, j.P.nev, j.P.ncv);
                long ret = (long) svd.compute((Index) j.a.maxit, (Real) j.a.tol);
                out.ret = ret;
                out.evals = vf::widen(svd.singular_values());
                out.evecs = vf::widen(svd.matrix_U(ret));
            }
            catch (const std::exception& e)
            {
                out.threw = true;
                out.what = e.what();
            }
            break;
        }
        case 6:
        {
            Spectra::GenEigsSolver<Spectra::SparseGenMatProd<double>> eigs(*sh.spgen, j.P.nev, j.P.ncv);
            out = run_job<double>(eigs, sh.Aspgen.rows(), j.a);
            break;
        }
        case 7:
            out = generalized_job(j, sh);
            break;
        case 8:
            out = lobpcg_job(j);
            break;
        case 9:
            out = shift_wrapper_job(j);
            break;
        default:
        {
            Eigen::MatrixXd M = vf::Narrow<double>::mat(j.P.A);
            try
            {
                Spectra::DenseSymMatProd<double> op(M);
                Spectra::DavidsonSymEigsSolver<Spectra::DenseSymMatProd<double>> eigs(op, j.P.nev);
                long ret = (long) eigs.compute(vf::ALL_RULES[j.a.sel == 0 || j.a.sel == 3 ? 3 : 7], (Index) (10 + j.a.maxit), (Real) std::max((ld) 1e-8, j.a.tol));
                out.ret = ret;
                out.info = (int) eigs.info();
                out.evals = vf::widen(eigs.eigenvalues());
                out.evecs = vf::widen(eigs.eigenvectors());
            }
            catch (const std::exception& e)
            {
                out.threw = true;
                out.what = e.what();
            }
            break;
        }
    }
    return out;
}

static void run_case(vf::Draw& d, vf::Case& c)
{
    const int tmax = (int) vf::options().geti("tmax", 8);
    int T = (int) d.range("threads", 2, tmax);
    Index nmax = (Index) vf::options().geti("nmax", 20);
    // shared operators (built once, read-only afterwards)
    Shared sh;
    Index ns = (Index) d.range("shared_n", 6, nmax);
    {
        vf::Lcg g((uint64_t) d.range("shared_seed", 0, 65535));
        sh.Agen = Eigen::MatrixXd(ns, ns);
        for (Index j = 0; j < ns; j++)
            for (Index i = 0; i < ns; i++)
                sh.Agen(i, j) = (double) g.u();
        sh.Asym = (sh.Agen + sh.Agen.transpose()) / 2;
        Eigen::MatrixXd S = sh.Asym;
        for (Index j = 0; j < ns; j++)
            for (Index i = 0; i < ns; i++)
                if (std::abs(i - j) > 2)
                    S(i, j) = 0;
        sh.Asp = vf::to_sparse<double>(S);
        sh.sym.reset(new Spectra::DenseSymMatProd<double>(sh.Asym));
        sh.gen.reset(new Spectra::DenseGenMatProd<double>(sh.Agen));
        sh.sp.reset(new Spectra::SparseSymMatProd<double>(sh.Asp));
        Eigen::MatrixXd G = sh.Agen;
        for (Index j = 0; j < ns; j++)
            for (Index i = 0; i < ns; i++)
                if (std::abs(i - j) > 3)
                    G(i, j) = 0;
        sh.Aspgen = vf::to_sparse<double>(G);
        sh.spgen.reset(new Spectra::SparseGenMatProd<double>(sh.Aspgen));
    }
    std::vector<Job> jobs(T);
    std::ostringstream os;
    os << T << " threads:";
    bool any_shared = false;
    for (int t = 0; t < T; t++)
    {
        Job& j = jobs[t];
        j.kind = (int) d.range("job_kind", 0, 9);
        j.seed = d.range("job_seed", 0, 65535);
        if (j.kind == 0)
        {
            int fam = (int) d.range("family", 0, 5);
            // now and then a problem larger than anything the process has seen so far (sizes that grow during a run)
            j.P = vf::draw_problem<Real>(d, fam, d.one_in("large_problem", 6) ? 3 * nmax : nmax);
            if (!j.P.ok)
            {
                j.kind = 1;  // degenerate recipe: fall back to a shared-operator job
            }
        }
        if (j.kind == 7)
        {
            j.sub = (int) d.range("generalized_mode", 0, 5);
            j.share = (j.sub == 0 || j.sub == 2) && d.flag("share_A_wrapper");
            if (j.share)
                any_shared = true;
            j.P.n = j.share ? ns : (Index) d.range("n", 6, nmax);
            vf::draw_nev_ncv(d, j.P.n, false, j.P.nev, j.P.ncv);
            j.P.family = vf::FAM_SYM;
            c.cls("generalized_solver_job");
        }
        else if (j.kind == 8)
        {
            j.sub = (int) d.range("lobpcg_with_B", 0, 1);
            j.P.nev = (Index) d.range("k", 1, 3);
            j.P.n = (Index) d.range("n", 5 * j.P.nev + 1, std::max<Index>(5 * j.P.nev + 1, nmax));
            j.P.ncv = j.P.nev;
            j.P.family = vf::FAM_SYM;
            c.cls("lobpcg_job");
        }
        else if (j.kind == 9)
        {
            j.sub = (int) d.range("shift_wrapper", 0, 5);
            j.P.n = (Index) d.range("n", 6, nmax);
            bool general = j.sub >= 2;
            vf::draw_nev_ncv(d, j.P.n, general, j.P.nev, j.P.ncv);
            j.P.family = general ? (j.sub >= 4 ? vf::FAM_GENCPLX : vf::FAM_GENREAL) : vf::FAM_SYMSHIFT;
            c.cls("library_shift_wrapper_job");
        }
        else if ((j.kind >= 1 && j.kind <= 3) || j.kind == 6)
        {
            any_shared = true;
            j.P.n = ns;
            bool general = (j.kind == 2 || j.kind == 6);
            vf::draw_nev_ncv(d, ns, general, j.P.nev, j.P.ncv);
            j.P.family = general ? vf::FAM_GEN : vf::FAM_SYM;
        }
        else if (j.kind == 4 || j.kind == 5)
        {
            vf::HermRecipe R = vf::make_herm<Real>(d, false, 4, nmax);
            j.P.n = R.n;
            j.P.A = R.A;
            j.P.family = vf::FAM_SYM;
            j.P.nev = (Index) d.range("k", 1, std::max<Index>(1, R.n / 3));
            j.P.ncv = std::min<Index>(R.n, 2 * j.P.nev + 1);
        }
        int nr, nsr;
        const int* rules = vf::family_rules(j.P.family, nr);
        const int* srules = vf::family_sort_rules(j.P.family, nsr);
        j.a.sel = rules[d.range("selection", 0, nr - 1)];
        j.a.sort = srules[d.range("sorting", 0, nsr - 1)];
        j.a.maxit = d.range("maxit", 0, 30);
        j.a.tol = vf::draw_tol<Real>(d);
        j.a.start_kind = (int) d.range("start_kind", 0, 1);
        j.a.start_seed = d.range("start_seed", 0, 255);
        j.spin = d.range("start_skew", 0, 2000);
        j.reps = (int) d.range("repetitions", 1, 3);
        static const char* KN[10] = {"private", "shared DenseSymMatProd", "shared DenseGenMatProd", "shared SparseSymMatProd", "PartialSVD", "Davidson", "shared SparseGenMatProd", "generalized", "LOBPCG", "library shift wrapper"};
        static const char* GM[6] = {"Cholesky dense", "Cholesky sparse", "RegularInverse", "ShiftInvert", "Buckling", "Cayley"};
        static const char* SW[6] = {"DenseSymShiftSolve", "SparseSymShiftSolve", "DenseGenRealShiftSolve", "SparseGenRealShiftSolve", "DenseGenComplexShiftSolve", "SparseGenComplexShiftSolve"};
        os << " [" << KN[j.kind] << (j.kind == 7 ? std::string(" ") + GM[j.sub] + (j.share ? " (A wrapper shared)" : "") : std::string()) << (j.kind == 9 ? std::string(" ") + SW[j.sub] : std::string()) << (j.kind == 0 ? std::string(" ") + vf::FAMILY_NAMES[j.P.family] : std::string()) << " n=" << j.P.n << " nev=" << j.P.nev << " x" << j.reps << "]";
    }
    c.add_desc(os.str());
    if (any_shared)
        c.cls("shared_product_wrapper");
    // The sequential baseline is computed before OR after the concurrent run (drawn): state that is created lazily on first use
    // (a function-local static that is grown on demand, a once-only cache) is already warm after a sequential pass, and the
    // unsynchronised first use only happens when the threads come first.
    const bool concurrent_first = d.flag("concurrent_run_before_sequential_baseline");
    if (concurrent_first)
        c.cls("concurrent_run_first");
    std::vector<vf::Snapshot> base(T);
    if (!concurrent_first)
        for (int t = 0; t < T; t++)
            base[t] = execute_job(jobs[t], sh);
    // concurrent run
    const long reports_before = g_tsan_reports.load();
    std::vector<std::vector<vf::Snapshot>> got(T);
    std::vector<std::pair<long long, long long>> span(T);
    std::atomic<int> ready{0};
    std::atomic<bool> go{false};
    std::vector<std::thread> th;
    for (int t = 0; t < T; t++)
        th.emplace_back([&, t]() {
            ready++;
            while (!go.load())
                std::this_thread::yield();
            volatile long sink = 0;
            for (long k = 0; k < jobs[t].spin; k++)
                sink += k;
            span[t].first = std::chrono::steady_clock::now().time_since_epoch().count();
            for (int r = 0; r < jobs[t].reps; r++)
                got[t].push_back(execute_job(jobs[t], sh));
            span[t].second = std::chrono::steady_clock::now().time_since_epoch().count();
        });
    while (ready.load() < T)
        std::this_thread::yield();
    go.store(true);
    for (auto& x : th)
        x.join();
    if (concurrent_first)
        for (int t = 0; t < T; t++)
            base[t] = execute_job(jobs[t], sh);
    // overlap (classification only, never part of the verdict)
    int overlapping = 0;
    for (int a = 0; a < T; a++)
        for (int b = a + 1; b < T; b++)
            if (span[a].first < span[b].second && span[b].first < span[a].second)
                overlapping++;
    c.nontrivial = overlapping > 0;
    if (overlapping > 0)
        c.cls("threads_overlapped");
    for (int t = 0; t < T; t++)
        for (size_t r = 0; r < got[t].size(); r++)
        {
            std::string dd = vf::snapshot_diff(base[t], got[t][r]);
            VF_CHECK(dd.empty(), "concurrent_result_differs", "thread " << t << " repetition " << r << " differs from its sequential baseline: " << dd);
        }
    long reports = g_tsan_reports.load() - reports_before;
    VF_CHECK(reports == 0, "data_race", reports << " ThreadSanitizer report(s) during the concurrent run (see the process output)");
}

int main(int argc, char** argv)
{
    return vf::run_main(argc, argv, "C20", run_case);
}
