// C14 - a failing user operator is contained: the exception propagates unchanged, nothing leaks, and after the fault
// is gone init(); compute() on the same solver object is bit-identical to a solver that never saw the fault.
// For every drawn configuration the fault position k is ENUMERATED over all operator applications of the fault-free run.
#include "vf/malloc_count.hpp"
#include "vf/eigen_assert.hpp"
#include <Eigen/Core>
#include "vf/oracle.hpp"
#include "vf/families.hpp"
#include "vf/runner.hpp"
#include <Spectra/SymGEigsSolver.h>
#include <Spectra/SymGEigsShiftSolver.h>

#ifndef VF_REAL
#define VF_REAL double
#endif
typedef VF_REAL Real;
using vf::ld;
using vf::cld;
using vf::CMatL;
using vf::MatL;
using vf::Index;

struct Args
{
    int sel, sort;
    long maxit;
    ld tol;
    int start_kind;
    long start_seed;
};

template <typename S, typename Solver>
static void do_init(Solver& eigs, Index n, const Args& a)
{
    typedef Eigen::Matrix<S, Eigen::Dynamic, 1> Vec;
    if (a.start_kind == 0)
        eigs.init();
    else
    {
        vf::Lcg g((uint64_t) a.start_seed);
        Vec v(n);
        for (Index i = 0; i < n; i++)
            v[i] = (S) (Real) g.u();
        eigs.init(v.data());
    }
}

struct Outcome
{
    vf::Snapshot snap;
    bool fault_seen = false;
    long nonce = 0;
    int kind = -1, dyn_kind = -1;  // kind recorded in the exception object / dynamic type that arrived
    bool in_init = false;
    std::string other;
};

// init + compute; an InjectedFault is reported with its nonce, any other exception type as `other`
template <typename S, typename Solver>
static Outcome run_once(Solver& eigs, Index n, const Args& a)
{
    Outcome o;
    bool init_done = false;
    try
    {
        do_init<S>(eigs, n, a);
        init_done = true;
        long ret = (long) eigs.compute(vf::ALL_RULES[a.sel], (Index) a.maxit, (Real) a.tol, vf::ALL_RULES[a.sort]);
        o.snap = vf::take_snapshot(eigs, ret);
    }
    catch (const vf::InjectedFault& f)
    {
        o.fault_seen = true;
        o.nonce = f.nonce;
        o.kind = f.kind;
        o.dyn_kind = f.dynamic_kind();
        o.in_init = !init_done;
    }
    catch (const std::runtime_error& e)
    {
        o.snap.threw = true;
        o.snap.what = std::string("runtime_error: ") + e.what();
    }
    return o;
}

// B operator with fault injection for the generalized RegularInverse mode
template <typename S>
class FaultyB : public vf::OpCounters
{
public:
    using Scalar = S;
    typedef Eigen::Matrix<S, Eigen::Dynamic, Eigen::Dynamic> Mat;
    typedef Eigen::Matrix<S, Eigen::Dynamic, 1> Vec;
    Mat B;
    Eigen::LLT<Mat> llt;
    explicit FaultyB(const Mat& b) :
        B(b), llt(b) {}
    Index rows() const { return B.rows(); }
    Index cols() const { return B.cols(); }
    void perform_op(const S* x_in, S* y_out) const
    {
        on_call();
        Eigen::Map<const Vec> x(x_in, B.cols());
        Eigen::Map<Vec> y(y_out, B.rows());
        y.noalias() = B * x;
    }
    void solve(const S* x_in, S* y_out) const
    {
        on_call();
        Eigen::Map<const Vec> x(x_in, B.cols());
        Eigen::Map<Vec> y(y_out, B.rows());
        y = llt.solve(x);
    }
};

static void enumerate_faults_note(vf::Case& c, long N, long in_compute)
{
    c.feat["fault_positions"] = (double) N;
    c.feat["fault_positions_in_compute"] = (double) in_compute;
}

static void krylov_case(vf::Draw& d, vf::Case& c)
{
    int family = (int) d.range("family", 0, 5);
    vf::Problem<Real> P = vf::draw_problem<Real>(d, family, (Index) vf::options().geti("nmax", 14));
    c.add_desc(P.desc);
    c.cls(std::string(vf::FAMILY_NAMES[family]));
    if (!P.ok)
    {
        c.rejected = true;
        return;
    }
    const Index n = P.n;
    Args a;
    int nr, ns;
    const int* rules = vf::family_rules(family, nr);
    const int* srules = vf::family_sort_rules(family, ns);
    a.sel = rules[d.range("selection", 0, nr - 1)];
    a.sort = srules[d.range("sorting", 0, ns - 1)];
    a.maxit = d.range("maxit", 0, 5);
    a.tol = vf::draw_tol<Real>(d);
    a.start_kind = (int) d.range("start_kind", 0, 1);
    a.start_seed = d.range("start_seed", 0, 255);
    bool second_fault = d.flag("second_fault");
    long second_k_draw = d.range("second_fault_pos_permille", 0, 999);
    const int fkind = (int) d.range("fault_exception_type", 0, 3);
    c.cls(std::string("fault_type:") + vf::FAULT_KIND_NAMES[fkind]);
    std::ostringstream os;
    os << "operator throws a " << vf::FAULT_KIND_NAMES[fkind] << "; " << (a.start_kind ? "init(v)" : "init()") << " compute(" << vf::ALL_RULE_NAMES[a.sel] << ",maxit=" << a.maxit << ",tol=" << vf::num(a.tol) << ")";

    // fault-free baseline
    Outcome base;
    long N = 0, N_init = 0;
    vf::with_family<Real>(P, [&](auto& op, auto& make, auto tag) {
        typedef decltype(tag) S;
        auto eigs = make();
        base = run_once<S>(*eigs, n, a);
        N = op.calls;
        // applications made by init alone
        long before = op.calls;
        do_init<S>(*eigs, n, a);
        N_init = op.calls - before;
    });
    VF_CHECK(!base.fault_seen, "harness", "fault seen without injection");
    if (base.snap.threw)
    {
        c.rejected = true;
        c.cls(base.snap.what);
        c.add_desc(os.str());
        return;
    }
    os << " N=" << N << " applications (" << N_init << " in init)";
    c.add_desc(os.str());
    enumerate_faults_note(c, N, N - N_init);
    long tested = 0;
    bool used_two_faults = false;
    for (long k = 1; k <= N; k++)
    {
        const long live0 = vf::mc::live();
        {
            vf::with_family<Real>(P, [&](auto& op, auto& make, auto tag) {
                typedef decltype(tag) S;
                auto eigs = make();
                op.fault_at = op.calls + k;  // constructor-time applications (none today) do not shift the position
                op.fault_nonce = 1000 + k;
                op.fault_kind = fkind;
                Outcome o = run_once<S>(*eigs, n, a);
                VF_CHECK(o.fault_seen, "fault_swallowed", "the operator threw (a " << vf::FAULT_KIND_NAMES[fkind] << ") at application " << k << " of " << N << " but no exception reached the caller (info=" << o.snap.info << ", what=" << o.snap.what << ")");
                VF_CHECK(o.nonce == 1000 + k, "fault_altered", "the exception that reached the caller carries nonce " << o.nonce << ", thrown " << (1000 + k));
                VF_CHECK(o.kind == fkind && o.dyn_kind == fkind, "fault_altered", "the operator threw a " << vf::FAULT_KIND_NAMES[fkind] << " but the exception that reached the caller has dynamic type #" << o.dyn_kind << " (a sliced or re-created copy)");
                VF_CHECK(o.in_init == (k <= N_init), "fault_position", "fault " << k << " surfaced from " << (o.in_init ? "init" : "compute") << " but init makes " << N_init << " applications");
                // optional second fault during the recovery run
                if (second_fault && N >= 2)
                {
                    long k2 = 1 + (second_k_draw * N) / 1000;
                    op.fault_at = op.calls + k2;
                    op.fault_nonce = 5000 + k2;
                    Outcome o2 = run_once<S>(*eigs, n, a);
                    VF_CHECK(o2.fault_seen && o2.nonce == 5000 + k2, "second_fault", "second fault at application " << k2 << " of the recovery run did not propagate unchanged");
                    used_two_faults = true;  // (recorded after the measured region: the case record must not allocate inside it)
                }
                // fault gone: the same solver object must reproduce the fault-free baseline bit for bit
                op.fault_at = -1;
                Outcome rec = run_once<S>(*eigs, n, a);
                VF_CHECK(!rec.fault_seen, "harness", "fault seen after removal");
                std::string dd = vf::snapshot_diff(base.snap, rec.snap);
                VF_CHECK(dd.empty(), "recovery_differs", "after a fault at application " << k << " of " << N << ", init(); compute() on the same solver differs from a solver that never saw the fault: " << dd);
            });
        }
        const long live1 = vf::mc::live();
        VF_CHECK(live1 == live0, "leak", "fault at application " << k << " of " << N << ": " << (live1 - live0) << " heap blocks still live after the solver and operator were destroyed");
        tested++;
    }
    if (used_two_faults)
        c.cls("two_faults");
    vf::report().classes["fault_positions_enumerated"] += tested;
    vf::report().classes["fault_positions_inside_compute"] += (N - N_init);
    c.nontrivial = N > N_init;
    if (N - N_init >= 10)
        c.cls("fault_inside_restart_phase");
}

// generalized RegularInverse mode: faults in the A operator and in the B operator (both its product and its solve)
static void geigs_case(vf::Draw& d, vf::Case& c)
{
    typedef Eigen::Matrix<Real, Eigen::Dynamic, Eigen::Dynamic> Mat;
    vf::HermRecipe R = vf::make_herm<Real>(d, false, 3, (Index) vf::options().geti("nmax", 14));
    const Index n = R.n;
    Index nev, ncv;
    vf::draw_nev_ncv(d, n, false, nev, ncv);
    vf::Lcg g((uint64_t) d.range("B_seed", 0, 65535));
    MatL Q = vf::random_orthogonal(n, g);
    vf::VecL ev(n);
    for (Index i = 0; i < n; i++)
        ev[i] = 1 + (ld) i / (ld) n;
    MatL B = Q * ev.asDiagonal() * Q.transpose();
    Mat Bs = ((B + B.transpose()) / 2).cast<Real>();
    Mat As = vf::Narrow<Real>::mat(R.A);
    bool fault_in_B = d.flag("fault_in_B");
    const int fkind = (int) d.range("fault_exception_type", 0, 3);
    c.cls(std::string("fault_type:") + vf::FAULT_KIND_NAMES[fkind]);
    Args a;
    a.sel = vf::SYM_RULES[d.range("selection", 0, 4)];
    a.sort = vf::SYM_SORT_RULES[d.range("sorting", 0, 3)];
    a.maxit = d.range("maxit", 0, 3);
    a.tol = vf::draw_tol<Real>(d);
    a.start_kind = (int) d.range("start_kind", 0, 1);
    a.start_seed = d.range("start_seed", 0, 255);
    std::ostringstream os;
    os << "SymGEigsSolver<RegularInverse> class=" << R.name << " n=" << n << " nev=" << nev << " ncv=" << ncv << " fault (" << vf::FAULT_KIND_NAMES[fkind] << ") in " << (fault_in_B ? "B operator" : "A operator") << " compute(" << vf::ALL_RULE_NAMES[a.sel] << ",maxit=" << a.maxit << ")";
    c.cls("SymGEigsSolver<RegularInverse>");
    c.cls(fault_in_B ? "fault_in_B_operator" : "fault_in_A_operator(generalized)");
    if (vf::fro_scaled(R.A) == 0)
    {
        c.add_desc(os.str());
        c.rejected = true;
        return;
    }
    typedef Spectra::SymGEigsSolver<vf::ProdFunctor<Real>, FaultyB<Real>, Spectra::GEigsMode::RegularInverse> Solver;
    Outcome base;
    long NA = 0, NB = 0;
    {
        vf::ProdFunctor<Real> aop(As);
        FaultyB<Real> bop(Bs);
        Solver eigs(aop, bop, nev, ncv);
        base = run_once<Real>(eigs, n, a);
        NA = aop.calls;
        NB = bop.calls;
    }
    if (base.snap.threw)
    {
        c.add_desc(os.str());
        c.rejected = true;
        return;
    }
    long N = fault_in_B ? NB : NA;
    os << " N=" << N;
    c.add_desc(os.str());
    enumerate_faults_note(c, N, N);
    for (long k = 1; k <= N; k++)
    {
        const long live0 = vf::mc::live();
        {
            vf::ProdFunctor<Real> aop(As);
            FaultyB<Real> bop(Bs);
            Solver eigs(aop, bop, nev, ncv);
            vf::OpCounters& target = fault_in_B ? static_cast<vf::OpCounters&>(bop) : static_cast<vf::OpCounters&>(aop);
            target.fault_at = target.calls + k;
 target.fault_nonce = 1000 + k;
            target.fault_kind = fkind;
            Outcome o = run_once<Real>(eigs, n, a);
            VF_CHECK(!o.fault_seen || (o.kind == fkind && o.dyn_kind == fkind), "fault_altered", "the operator threw a " << vf::FAULT_KIND_NAMES[fkind] << " but the exception that reached the caller has dynamic type #" << o.dyn_kind);
            VF_CHECK(o.fault_seen && o.nonce == 1000 + k, "fault_swallowed", "fault at application " << k << " of " << N << " of the " << (fault_in_B ? "B" : "A") << " operator did not propagate unchanged");
            target.fault_at = -1;
            Outcome rec = run_once<Real>(eigs, n, a);
            std::string dd = vf::snapshot_diff(base.snap, rec.snap);
            VF_CHECK(dd.empty(), "recovery_differs", "after a fault at application " << k << " of " << N << ": " << dd);
        }
        VF_CHECK(vf::mc::live() == live0, "leak", "fault at application " << k << ": " << (vf::mc::live() - live0) << " heap blocks still live");
    }
    vf::report().classes["fault_positions_enumerated"] += N;
    c.nontrivial = N > 2;
}

static void run_case(vf::Draw& d, vf::Case& c)
{
    // allocate the case record's strings before measuring anything
    if (d.range("kind", 0, 3) == 3)
        geigs_case(d, c);
    else
        krylov_case(d, c);
}

int main(int argc, char** argv)
{
    return vf::run_main(argc, argv, "C14", run_case);
}
