// C11 (part 3) - SymShiftInvert: y = (A - sigma B)^-1 x for all 64 combinations of
// (TypeA, TypeB) in {Dense, Sparse}^2 x (UploA, UploB) in {Lower, Upper}^2 x (FlagsA, FlagsB) in {ColMajor, RowMajor}^2,
// one real scalar type per binary (VF_REAL), plus storage-index spot checks with `long`.
// Oracle: long double reference from the FULL symmetric A and B; forward error <= 64 n eps cond ||y_ref|| with
// cond = ||(A - sigma B)^-1||_2 (||A||_F + |sigma| ||B||_F) (backward stability with respect to the data A, B, sigma);
// metamorphic: the unused triangles of A and of B are overwritten at the same time, outputs must stay bit-identical.
#include "vf/eigen_assert.hpp"
#include <Eigen/Core>
#include <Eigen/SparseCore>
#include <Eigen/Eigenvalues>
#include <Spectra/MatOp/SymShiftInvert.h>
#include "c11_common.hpp"

using namespace c11;

#ifndef VF_REAL
#define VF_REAL double
#endif
typedef VF_REAL Real;

static const char* const FORM_CLASS[5] = {"plain", "block", "map", "expression", "Ref"};

struct SsiTraits
{
    ScalarInfo si;
    bool sparseA, sparseB;
    int uploA, uploB;
    bool rowA, rowB;
};

template <typename Op, typename AA, typename BB>
static Out run_ssi(const Input& in, const Eff& e)
{
    typedef typename Op::Scalar S;
    typedef Eigen::Matrix<S, Eigen::Dynamic, 1> Vec;
    Out o;
    // Input::formA / formB hold the index into DENSE_FORMS / SPARSE_FORMS that AA / BB build; Input::ei holds the form class
    AA a(e.A, e.stA, in.formA);
    BB b(e.B, e.stB, in.formB);
    std::unique_ptr<Op> op;
    switch ((int) in.ei)
    {
        case 1: op.reset(new Op(a.get_block(), b.get_block())); break;
        case 2: op.reset(new Op(a.get_map(), b.get_map())); break;
        case 3: op.reset(new Op(a.get_expr(), b.get_expr())); break;
        case 4: op.reset(new Op(a.get_ref(), b.get_ref())); break;
        default: op.reset(new Op(a.get_plain(), b.get_plain())); break;
    }
    o.ints.push_back((long) op->rows());
    o.ints.push_back((long) op->cols());
    if (in.reshift)
        op->set_shift((S) in.sigma0.real());
    op->set_shift((S) in.sigma.real());
    Vec x = to_vec<S>(in.x);
    Vec y = Vec::Constant(in.rows, S(777));
    op->perform_op(x.data(), y.data());
    o.v.push_back(widen_vec(y));
    Vec x2 = to_vec<S>(in.x2);
    Vec y2 = Vec::Constant(in.rows, S(-5));
    op->perform_op(x2.data(), y2.data());
    o.v.push_back(widen_vec(y2));
    return o;
}

static void ssi_case(vf::Draw& d, vf::Case& c, const SsiTraits& t, RunFn fn, const std::string& name, int (*formA_of)(int, bool), int (*formB_of)(int, bool))
{
    const ScalarInfo& si = t.si;
    c.cls(std::string("types/") + (t.sparseA ? "Sparse" : "Dense") + "," + (t.sparseB ? "Sparse" : "Dense"));
    c.cls(std::string("scalar/") + si.name);
    c.sfeat["wrapper"] = "SymShiftInvert";
    if (d.one_in("mismatched_sizes", 24))
    {
        // A and B must be square and of the same size: anything else is rejected with invalid_argument by the constructor
        Index ra = (Index) d.range("rowsA", 1, 5), ca = (Index) d.range("colsA", 1, 5), nb = (Index) d.range("nB", 1, 5);
        if (ra == ca && ca == nb)
            nb = ra + 1;
        GenSpec gs;
        gs.kind = K_GEN;
        gs.prec = si.prec;
        gs.max_scale_exp = 0;
        Generated GA = gen_matrix(d, gs, ra, ca);
        Generated GB = gen_matrix(d, gs, nb, nb);
        Input in;
        in.rows = ra;
        in.cols = ca;
        in.A = GA.A;
        in.stA = GA.st;
        in.B = GB.A;
        in.stB = GB.st;
        in.x = gen_vector(d, "x_seed", ca, false, si.prec);
        in.x2 = in.x;
        in.ei = 0;
        in.formA = formA_of(0, false);
        in.formB = formB_of(0, false);
        Eff e;
        e.A = in.A;
        e.stA = in.stA;
        e.B = in.B;
        e.stB = in.stB;
        Out o = safe_run(fn, in, e);
        c.add_desc(name + " constructed from A " + std::to_string(ra) + "x" + std::to_string(ca) + " and B " + std::to_string(nb) + "x" + std::to_string(nb));
        c.cls("mismatched_sizes_rejected");
        c.rejected = true;
        VF_CHECK(o.threw == 1, "nonsquare_accepted", name << ": A " << ra << "x" << ca << ", B " << nb << "x" << nb << " was not rejected with std::invalid_argument (threw=" << o.threw << " " << o.what << ")");
        return;
    }
    const Index n = (Index) d.dim("n", 1, 30);
    GenSpec gsA;
    gsA.kind = K_SYM;
    gsA.prec = si.prec;
    gsA.max_scale_exp = si.max_scale_exp;
    Generated GA = gen_matrix(d, gsA, n, n);
    GenSpec gsB = gsA;
    const bool Bspd = d.flag("B_positive_definite");
    gsB.kind = Bspd ? K_SPD : K_SYM;
    gsB.spd_max_margin_q = 6;
    Generated GB = gen_matrix(d, gsB, n, n);
    Input in;
    in.rows = in.cols = n;
    in.A = GA.A;
    in.stA = GA.st;
    in.B = GB.A;
    in.stB = GB.st;
    in.x = gen_vector(d, "x_seed", n, false, si.prec);
    in.x2 = gen_vector(d, "x2_seed", n, false, si.prec);
    const int fc = (int) d.range("form_class", 0, 4);
    const bool uncompressed = d.flag("sparse_left_uncompressed");
    in.ei = fc;
    in.formA = formA_of(fc, uncompressed);
    in.formB = formB_of(fc, uncompressed);
    const ld normA = vf::fro_scaled(in.A), normB = vf::fro_scaled(in.B);
    // shift in units of ||A|| / ||B||
    const int sk = (int) d.range("shift_kind", 0, 2);
    const ld unit_shift = (normB > 0 && normA > 0) ? normA / normB : 1;
    ld sig = 0;
    if (sk == 1)
        sig = (ld) d.range("shift", -32, 32) / 16 * unit_shift;
    else if (sk == 2)
    {
        // near a generalized eigenvalue (B positive definite) / near an eigenvalue of the pencil restricted to the diagonal otherwise
        const Index k = (Index) d.range("near_eigenvalue", 0, n - 1);
        const ld delta = std::pow((ld) 10, -(ld) d.range("distance_exp", 1, si.prec == P_FLOAT ? 3 : 6));
        ld lam = 0;
        if (Bspd && normB > 0 && normA > 0)
        {
            vf::MatL Ar = in.A.real() / normA, Br = in.B.real() / normB;
            Eigen::GeneralizedSelfAdjointEigenSolver<vf::MatL> ges(Ar, Br, Eigen::EigenvaluesOnly);
            lam = ges.eigenvalues()[k] * unit_shift;
        }
        else if (in.B(k, k).real() != 0)
            lam = in.A(k, k).real() / in.B(k, k).real();
        sig = lam * (1 + delta) + delta * unit_shift;
    }
    in.sigma = round_to(cld(sig, 0), si.prec);
    in.reshift = d.flag("shift_set_twice");
    in.sigma0 = round_to(cld((ld) 0.37 * unit_shift, 0), si.prec);
    const int gkA = (int) d.range("unused_triangle_A", 1, 3);
    const int gkB = (int) d.range("unused_triangle_B", 1, 3);
    const bool nan_run = d.one_in("nan_poison_run", 4);

    {
        std::ostringstream os;
        os << name << " A: " << GA.desc << "; B: " << GB.desc << "; form=" << FORM_CLASS[fc] << (uncompressed && (t.sparseA || t.sparseB) && fc == 0 ? "(uncompressed)" : "") << " sigma=" << (double) in.sigma.real()
           << (in.reshift ? " after set_shift(other)" : "") << " unused_triangle A=" << GARBAGE_NAMES[gkA] << " B=" << GARBAGE_NAMES[gkB];
        if (n <= 4)
            os << " A=" << vf::show(in.A, 4) << " B=" << vf::show(in.B, 4) << " x=" << vf::show(in.x, 4);
        c.add_desc(os.str());
    }
    c.cls(std::string("form/") + FORM_CLASS[fc]);
    c.cls(std::string("shift/") + (sk == 0 ? "zero" : sk == 1 ? "random" : "near_generalized_eigenvalue"));
    c.cls(Bspd ? "B/positive_definite" : "B/symmetric_indefinite");
    if (n == 1)
        c.cls("n=1");
    if (in.reshift)
        c.cls("shift_set_twice");

    CMatL M = in.A - in.sigma * in.B;
    SolveRef R = ref_factor(M, true);
    const ld data_norm = normA + std::abs(in.sigma) * normB;
    const ld cond = R.singular ? std::numeric_limits<ld>::infinity() : data_norm / R.smin;
    bool first_ok = true;
    if (in.reshift)
    {
        CMatL M0 = in.A - in.sigma0 * in.B;
        SolveRef R0 = ref_factor(M0, true);
        first_ok = !R0.singular && (normA + std::abs(in.sigma0) * normB) / R0.smin <= si.max_cond;
    }
    if (!(cond <= si.max_cond) || !first_ok)
    {
        c.rejected = true;
        c.cls("rejected/ill_conditioned_shift");
        return;
    }
    c.nontrivial = n >= 2;
    c.feat["cond"] = (double) cond;

    Eff clean;
    clean.A = in.A;
    clean.stA = in.stA;
    clean.B = in.B;
    clean.stB = in.stB;
    Out o = safe_run(fn, in, clean);
    VF_CHECK(o.threw == 0, "false_singular", name << ": exception '" << o.what << "' for a system with condition number " << vf::num(cond));
    VF_CHECK(o.ints[0] == n && o.ints[1] == n, "dimensions", name << ": rows()/cols() = " << o.ints[0] << "x" << o.ints[1]);
    for (int k = 0; k < 2; k++)
    {
        const CVecL& b = k ? in.x2 : in.x;
        CVecL want = R.Minv * b;
        check_close(o.v[k], want, (ld) n * si.eps * cond * want.norm(), "solve", name + (k ? " perform_op (second call)" : " perform_op"),
                    std::string("(A - sigma B)^-1 x [") + (t.sparseA ? "sparse" : "dense") + "," + (t.sparseB ? "sparse" : "dense") + "]: err/(n eps cond ||x||)");
    }
    // both unused triangles overwritten at once
    Eff g;
    make_variant(in.A, in.stA, t.uploA, gkA, GA.scale, false, g.A, g.stA);
    make_variant(in.B, in.stB, t.uploB, gkB, GB.scale, false, g.B, g.stB);
    Out og = safe_run(fn, in, g);
    std::string why;
    c.cls(std::string("unused_triangle_A/") + GARBAGE_NAMES[gkA]);
    c.cls(std::string("unused_triangle_B/") + GARBAGE_NAMES[gkB]);
    VF_CHECK(same_bits(o, og, why), "unused_triangle_read", name << ": outputs change when the unused triangles are replaced (A: " << GARBAGE_NAMES[gkA] << ", B: " << GARBAGE_NAMES[gkB] << "): " << why);
    if (nan_run)
    {
        Eff gn;
        make_variant(in.A, in.stA, t.uploA, G_NAN, GA.scale, false, gn.A, gn.stA);
        make_variant(in.B, in.stB, t.uploB, G_NAN, GB.scale, false, gn.B, gn.stB);
        Out on = safe_run(fn, in, gn);
        c.cls("nan_poison_run");
        if (!same_bits(o, on, why))
            vf::report().classes[std::string("reported_only/NaN in the unused triangles changes an output of SymShiftInvert<") + (t.sparseA ? "Sparse" : "Dense") + "," + (t.sparseB ? "Sparse" : "Dense") + ">"]++;
    }
}

template <typename Kind, int F, typename I>
struct ArgOf;
template <int F, typename I>
struct ArgOf<Eigen::Dense, F, I>
{
    typedef DenseArg<Real, F> type;
};
template <int F, typename I>
struct ArgOf<Eigen::Sparse, F, I>
{
    typedef SparseArg<Real, F, I> type;
};

template <typename TA, typename TB, int UA, int UB, int FA, int FB, typename IA, typename IB>
static void reg(const char* ta, const char* tb, const char* ua, const char* ub, const char* fa, const char* fb, const char* ia, const char* ib)
{
    typedef typename ArgOf<TA, FA, IA>::type AA;
    typedef typename ArgOf<TB, FB, IB>::type BB;
    typedef Spectra::SymShiftInvert<Real, TA, TB, UA, UB, FA, FB, IA, IB> Op;
    SsiTraits t;
    t.si = sinfo<Real>();
    t.sparseA = std::is_same<TA, Eigen::Sparse>::value;
    t.sparseB = std::is_same<TB, Eigen::Sparse>::value;
    t.uploA = UA;
    t.uploB = UB;
    t.rowA = FA == Eigen::RowMajor;
    t.rowB = FB == Eigen::RowMajor;
    RunFn fn = &run_ssi<Op, AA, BB>;
    std::string nm = std::string("SymShiftInvert<") + vf::Sc<Real>::name() + "," + ta + "," + tb + "," + ua + "," + ub + "," + fa + "," + fb;
    if (std::string(ia) != "int" || std::string(ib) != "int")
        nm += std::string(",") + ia + "," + ib;
    nm += ">";
    int (*fA)(int, bool) = &AA::form_of;
    int (*fB)(int, bool) = &BB::form_of;
    registry().push_back({nm, [t, fn, nm, fA, fB](vf::Draw& d, vf::Case& c) { ssi_case(d, c, t, fn, nm, fA, fB); }});
}

#define R8(TA, TB, UA, UB, FA, FB, IA, IB) reg<Eigen::TA, Eigen::TB, Eigen::UA, Eigen::UB, Eigen::FA, Eigen::FB, IA, IB>(#TA, #TB, #UA, #UB, #FA, #FB, #IA, #IB);
#define R_FLAGS(TA, TB, UA, UB)               \
    R8(TA, TB, UA, UB, ColMajor, ColMajor, int, int) \
    R8(TA, TB, UA, UB, ColMajor, RowMajor, int, int) \
    R8(TA, TB, UA, UB, RowMajor, ColMajor, int, int) \
    R8(TA, TB, UA, UB, RowMajor, RowMajor, int, int)
#define R_UPLO(TA, TB)           \
    R_FLAGS(TA, TB, Lower, Lower) \
    R_FLAGS(TA, TB, Lower, Upper) \
    R_FLAGS(TA, TB, Upper, Lower) \
    R_FLAGS(TA, TB, Upper, Upper)

// C11_PART: 1 = A dense (32 combinations), 2 = A sparse (32 combinations + storage-index spot checks), 0 = all
#ifndef C11_PART
#define C11_PART 0
#endif
#ifndef C11_LONG_INDEX
#define C11_LONG_INDEX 1
#endif

static void fill_registry()
{
#if C11_PART == 0 || C11_PART == 1
    R_UPLO(Dense, Dense)
    R_UPLO(Dense, Sparse)
#if C11_LONG_INDEX
    R8(Dense, Sparse, Upper, Lower, ColMajor, RowMajor, int, long)
    R8(Dense, Sparse, Lower, Upper, RowMajor, ColMajor, int, long)
#endif
#endif
#if C11_PART == 0 || C11_PART == 2
    R_UPLO(Sparse, Dense)
    R_UPLO(Sparse, Sparse)
#if C11_LONG_INDEX
    R8(Sparse, Dense, Lower, Upper, ColMajor, ColMajor, long, int)
    R8(Sparse, Dense, Upper, Upper, RowMajor, RowMajor, long, int)
    R8(Sparse, Sparse, Lower, Lower, ColMajor, ColMajor, long, long)
    R8(Sparse, Sparse, Upper, Lower, RowMajor, RowMajor, long, long)
    R8(Sparse, Sparse, Lower, Upper, RowMajor, ColMajor, long, long)
#ifdef C11_MIXED_STORAGE_INDEX
    // two sparse matrices with different storage index types: every template parameter is documented as independent.
    // Off while KNOWN_FINDINGS.txt lists KF-C11-4 (these two lines do not compile on the unchanged tree).
    R8(Sparse, Sparse, Lower, Upper, ColMajor, ColMajor, int, long)
    R8(Sparse, Sparse, Upper, Lower, ColMajor, RowMajor, long, int)
#endif
#endif
#endif
}

static void run_case(vf::Draw& d, vf::Case& c)
{
    run_registered(d, c);
}

int main(int argc, char** argv)
{
    fill_registry();
#if (C11_PART == 0 || C11_PART == 2) && C11_LONG_INDEX && !defined(C11_MIXED_STORAGE_INDEX)
    vf::report().known_hits["ssi_mixed_storage_index_does_not_compile"] = 1;
    vf::report().known_example["ssi_mixed_storage_index_does_not_compile"] =
        "SymShiftInvert<double, Eigen::Sparse, Eigen::Sparse, Lower, Upper, ColMajor, ColMajor, int, long>::set_shift: cannot convert the selfadjoint view of B (StorageIndex long) to the sparse type of A (StorageIndex int)";
#endif
    return vf::run_main(argc, argv, "C11", run_case);
}
