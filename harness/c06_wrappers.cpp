// C06 (library wrappers) - the same purity statement for the operator classes the library ships (include/Spectra/MatOp): a solver run, a
// second solver, or the user's own calls must not change what a wrapper object answers, and results on a used wrapper are bit-identical
// to results on a freshly constructed one. Every public operation of the wrapper (perform_op, solve, the triangular solves, operator*)
// is part of the bitwise fingerprint; shift wrappers are fingerprinted with the shift the solver installed at construction.
#include "vf/eigen_assert.hpp"
#include <Eigen/Core>
#include <Eigen/Sparse>
#include "vf/oracle.hpp"
#include "vf/families.hpp"
#include "vf/runner.hpp"
#include <Spectra/SymGEigsSolver.h>
#include <Spectra/SymGEigsShiftSolver.h>
#include <Spectra/MatOp/DenseSymMatProd.h>
#include <Spectra/MatOp/SparseSymMatProd.h>
#include <Spectra/MatOp/DenseHermMatProd.h>
#include <Spectra/MatOp/SparseHermMatProd.h>
#include <Spectra/MatOp/DenseGenMatProd.h>
#include <Spectra/MatOp/SparseGenMatProd.h>
#include <Spectra/MatOp/DenseSymShiftSolve.h>
#include <Spectra/MatOp/SparseSymShiftSolve.h>
#include <Spectra/MatOp/DenseGenRealShiftSolve.h>
#include <Spectra/MatOp/SparseGenRealShiftSolve.h>
#include <Spectra/MatOp/DenseGenComplexShiftSolve.h>
#include <Spectra/MatOp/SparseGenComplexShiftSolve.h>
#include <Spectra/MatOp/DenseCholesky.h>
#include <Spectra/MatOp/SparseCholesky.h>
#include <Spectra/MatOp/SparseRegularInverse.h>
#include <Spectra/MatOp/SymShiftInvert.h>

typedef double Real;
typedef std::complex<Real> Cplx;
using vf::ld;
using vf::cld;
using vf::CMatL;
using vf::MatL;
using vf::Index;
using Spectra::GEigsMode;
typedef Eigen::Matrix<Real, Eigen::Dynamic, Eigen::Dynamic> Mat;
typedef Eigen::Matrix<Cplx, Eigen::Dynamic, Eigen::Dynamic> CMat;
typedef Eigen::SparseMatrix<Real> SpMat;
typedef Eigen::SparseMatrix<Cplx> CSpMat;

struct Args
{
    int sel, sort;
    long maxit;
    ld tol;
    int start_kind;
    long start_seed;
};

static Args draw_args(vf::Draw& d, int family)
{
    Args a;
    int nr, ns;
    const int* rules = vf::family_rules(family, nr);
    const int* srules = vf::family_sort_rules(family, ns);
    a.sel = rules[d.range("selection", 0, nr - 1)];
    a.sort = srules[d.range("sorting", 0, ns - 1)];
    a.maxit = vf::draw_maxit(d);
    a.tol = vf::draw_tol<Real>(d);
    a.start_kind = (int) d.range("start_kind", 0, 1);
    a.start_seed = d.range("start_seed", 0, 255);
    return a;
}

template <typename S, typename Solver>
static void do_init(Solver& eigs, Index n, const Args& a)
{
    typedef Eigen::Matrix<S, Eigen::Dynamic, 1> Vec;
    if (a.start_kind == 0)
        eigs.init();
    else
    {
        vf::Lcg g((uint64_t) a.start_seed);
        Vec v(n);
        for (Index i = 0; i < n; i++)
            v[i] = (S) (Real) g.u();
        eigs.init(v.data());
    }
}

template <typename S, typename Solver>
static vf::Snapshot run_observed(Solver& eigs, Index n, const Args& a)
{
    vf::Snapshot s;
    try
    {
        do_init<S>(eigs, n, a);
        long ret = (long) eigs.compute(vf::ALL_RULES[a.sel], (Index) a.maxit, (Real) a.tol, vf::ALL_RULES[a.sort]);
        s = vf::take_snapshot(eigs, ret);
    }
    catch (const std::runtime_error& e)
    {
        s.threw = true;
        s.what = std::string("runtime_error: ") + e.what();
    }
    return s;
}

// ---- fingerprint helpers: apply one public operation to a fixed vector, append the widened bits ----
template <typename S>
static Eigen::Matrix<S, Eigen::Dynamic, 1> probe_vec(Index n, int variant)
{
    Eigen::Matrix<S, Eigen::Dynamic, 1> x(n);
    for (Index i = 0; i < n; i++)
        x[i] = (S) (Real) ((ld) (((i * (7 + 2 * variant) + 3 + variant) % 11) - 5) / 4);
    return x;
}
typedef std::vector<cld> Finger;
template <typename V>
static void append(Finger& f, const V& y)
{
    for (Index i = 0; i < y.size(); i++)
        f.push_back(cld(y[i]));
}
#define FP_CALL(S, obj, method, n, variant, f)                              \
    do                                                                      \
    {                                                                       \
        Eigen::Matrix<S, Eigen::Dynamic, 1> x_ = probe_vec<S>(n, variant);  \
        Eigen::Matrix<S, Eigen::Dynamic, 1> y_(n);                          \
        (obj).method(x_.data(), y_.data());                                 \
        append(f, y_);                                                      \
    } while (0)
template <typename S, typename Op>
static void fp_times(const Op& op, Index n, int variant, Finger& f)
{
    Eigen::Matrix<S, Eigen::Dynamic, Eigen::Dynamic> X(n, 2);
    X.col(0) = probe_vec<S>(n, variant);
    X.col(1) = probe_vec<S>(n, variant + 1);
    Eigen::Matrix<S, Eigen::Dynamic, Eigen::Dynamic> Y = op * X;
    append(f, Y.col(0));
    append(f, Y.col(1));
    (void) op(0, n - 1);
    f.push_back(cld(op(0, n - 1)));
}
static bool same(const Finger& a, const Finger& b, ld& maxdiff)
{
    maxdiff = 0;
    if (a.size() != b.size())
    {
        maxdiff = -1;
        return false;
    }
    bool ok = true;
    for (size_t i = 0; i < a.size(); i++)
    {
        if (std::memcmp(&a[i], &b[i], sizeof(ld)) != 0 && !(a[i] == b[i] && std::signbit(a[i].real()) == std::signbit(b[i].real()) && std::signbit(a[i].imag()) == std::signbit(b[i].imag())))
            ok = false;
        maxdiff = std::max(maxdiff, std::abs(a[i] - b[i]));
    }
    return ok;
}

// Shift families: the call site installs a toggle that makes make_solver() build its solver with ANOTHER shift (true) or with the shift of
// the case (false). Used for the history "a solver with another shift used these wrapper objects before": the operator object is factorized
// anew by every solver that is constructed on it, and nothing of the earlier factorization may survive in it.
static std::function<void(bool)> g_toggle_shift;

// ---- generic differential driver ----
// make_ops(): fresh wrapper object(s); make_solver(ops): a solver on them (installs the shift); finger(ops, variant): bitwise answers
template <typename S, typename MakeOps, typename MakeSolver, typename FingerFn>
static void drive(vf::Draw& d, vf::Case& c, int family, Index n, MakeOps make_ops, MakeSolver make_solver, FingerFn finger)
{
    Args target = draw_args(d, family);
    std::ostringstream os;
    os << "target: " << (target.start_kind ? "init(v)" : "init()") << " compute(" << vf::ALL_RULE_NAMES[target.sel] << ",maxit=" << target.maxit << ",tol=" << vf::num(target.tol) << "," << vf::ALL_RULE_NAMES[target.sort] << ")";
    ld md;
    // (i) fresh solver on fresh wrapper objects
    vf::Snapshot base;
    Finger f_base;
    {
        auto ops = make_ops();
        auto eigs = make_solver(*ops);
        f_base = finger(*ops, 0);
        base = run_observed<S>(*eigs, n, target);
        Finger after = finger(*ops, 0);
        VF_CHECK(same(f_base, after, md), "operator_changed", "the wrapper answers differently after compute() than after construction (fresh solver): max diff " << vf::num(md));
    }
    if (base.threw)
    {
        c.rejected = true;
        c.cls(base.what);
    }
    // (ii) wrapper objects with a history: other runs, other solvers, the user's own calls
    auto ops = make_ops();
    if (g_toggle_shift && d.flag("earlier_solver_with_other_shift"))
    {
        g_toggle_shift(true);
        try
        {
            Args a = draw_args(d, family);
            auto other = make_solver(*ops);
            do_init<S>(*other, n, a);
            other->compute(vf::ALL_RULES[a.sel], (Index) a.maxit, (Real) a.tol, vf::ALL_RULES[a.sort]);
            c.cls("earlier_solver_with_other_shift");
            os << " | earlier solver on the same wrappers with another shift: init+compute(" << vf::ALL_RULE_NAMES[a.sel] << ",maxit=" << a.maxit << ")";
        }
        catch (const std::exception&)
        {
            c.cls("earlier_solver_with_other_shift/threw");  // e.g. the other shift is singular: the wrapper object has seen a failed factorization
        }
        g_toggle_shift(false);
    }
    auto eigs = make_solver(*ops);
    Finger f0 = finger(*ops, 0);
    VF_CHECK(same(f0, f_base, md), "operator_not_deterministic", "two wrappers built from the same matrices differ (or a wrapper that an earlier solver used with another shift differs from a fresh one): max diff " << vf::num(md));
    int nprefix = (int) d.range("prefix_len", 0, 4);
    int prefix_uses = 0;
    os << " | prefix:";
    for (int k = 0; k < nprefix; k++)
    {
        int kind = (int) d.range("prefix_op", 0, g_toggle_shift ? 4 : 3);
        try
        {
            if (kind == 0)
            {
                Args a = draw_args(d, family);
                do_init<S>(*eigs, n, a);
                eigs->compute(vf::ALL_RULES[a.sel], (Index) a.maxit, (Real) a.tol, vf::ALL_RULES[a.sort]);
                prefix_uses++;
                os << " init+compute(" << vf::ALL_RULE_NAMES[a.sel] << ",maxit=" << a.maxit << ")";
            }
            else if (kind == 1)
            {
                // the user applies the wrapper to vectors of their own between two runs
                int variant = (int) d.range("user_vector", 1, 6);
                (void) finger(*ops, variant);
                prefix_uses++;
                os << " user calls(vector " << variant << ")";
                c.cls("prefix_with_user_calls");
            }
            else if (kind == 2)
            {
                // another solver object on the same wrappers, run with other arguments, then destroyed
                Args a = draw_args(d, family);
                auto other = make_solver(*ops);
                do_init<S>(*other, n, a);
                other->compute(vf::ALL_RULES[a.sel], (Index) a.maxit, (Real) a.tol, vf::ALL_RULES[a.sort]);
                prefix_uses++;
                os << " other solver init+compute(" << vf::ALL_RULE_NAMES[a.sel] << ",maxit=" << a.maxit << ")";
                c.cls("prefix_with_other_solver");
            }
            else if (kind == 4)
            {
                // another solver with ANOTHER shift on the same wrapper objects (run, destroyed); afterwards the solver under test is
                // constructed again, which installs the shift of the case again
                Args a = draw_args(d, family);
                g_toggle_shift(true);
                try
                {
                    auto other = make_solver(*ops);
                    do_init<S>(*other, n, a);
                    other->compute(vf::ALL_RULES[a.sel], (Index) a.maxit, (Real) a.tol, vf::ALL_RULES[a.sort]);
                }
                catch (const std::exception&)
                {
                    os << "[other shift threw]";
                }
                g_toggle_shift(false);
                eigs = make_solver(*ops);
                prefix_uses++;
                os << " other solver with another shift init+compute(" << vf::ALL_RULE_NAMES[a.sel] << ",maxit=" << a.maxit << "), solver under test constructed again";
                c.cls("prefix_with_other_shift_solver");
            }
            else
            {
                Args a = draw_args(d, family);
                do_init<S>(*eigs, n, a);
                prefix_uses++;  // init() applies the operator once
                os << " init only";
            }
        }
        catch (const std::runtime_error&)
        {
            os << "[runtime_error]";
        }
        Finger fk = finger(*ops, 0);
        VF_CHECK(same(fk, f0, md), "operator_changed", "the wrapper answers differently after prefix step " << k << " (hidden state, or the shift installed at construction is no longer in force): max diff " << vf::num(md));
    }
    c.add_desc(os.str());
    if (prefix_uses > 0)
    {
        c.nontrivial = true;
        c.cls("wrapper_used_before");
    }
    vf::Snapshot reused = run_observed<S>(*eigs, n, target);
    std::string dd = vf::snapshot_diff(base, reused);
    VF_CHECK(dd.empty(), "reused_wrapper_differs", "solver on wrappers with a history vs fresh solver on fresh wrappers: " << dd);
    Finger f1 = finger(*ops, 0);
    VF_CHECK(same(f1, f0, md), "operator_changed", "the wrapper answers differently after the observed compute(): max diff " << vf::num(md));
    auto eigs2 = make_solver(*ops);
    vf::Snapshot second = run_observed<S>(*eigs2, n, target);
    dd = vf::snapshot_diff(base, second);
    VF_CHECK(dd.empty(), "second_solver_differs", "second solver on the same wrapper objects vs fresh solver: " << dd);
    vf::Snapshot again = run_observed<S>(*eigs, n, target);
    dd = vf::snapshot_diff(base, again);
    VF_CHECK(dd.empty(), "rerun_differs", "first solver re-run after a second solver used the shared wrappers: " << dd);
    Finger f2 = finger(*ops, 0);
    VF_CHECK(same(f2, f0, md), "operator_changed", "the wrapper answers differently at the end: max diff " << vf::num(md));
    if (base.ret > 0)
        c.cls("pairs_returned");
}

// band-limited copy (keeps symmetry), so that the sparse wrappers see a genuinely sparse pattern
template <typename M>
static M band(const M& A, Index bw)
{
    M R = A;
    for (Index j = 0; j < A.cols(); j++)
        for (Index i = 0; i < A.rows(); i++)
            if (std::abs(i - j) > bw)
                R(i, j) = 0;
    return R;
}

static const char* const KIND_NAMES[] = {
    "SymEigsSolver<DenseSymMatProd>", "SymEigsSolver<SparseSymMatProd>", "HermEigsSolver<DenseHermMatProd>", "HermEigsSolver<SparseHermMatProd>",
    "SymEigsShiftSolver<DenseSymShiftSolve>", "SymEigsShiftSolver<SparseSymShiftSolve>", "GenEigsSolver<DenseGenMatProd>", "GenEigsSolver<SparseGenMatProd>",
    "GenEigsRealShiftSolver<DenseGenRealShiftSolve>", "GenEigsRealShiftSolver<SparseGenRealShiftSolve>", "GenEigsComplexShiftSolver<DenseGenComplexShiftSolve>",
    "GenEigsComplexShiftSolver<SparseGenComplexShiftSolve>", "SymGEigsSolver<DenseSymMatProd,DenseCholesky>", "SymGEigsSolver<SparseSymMatProd,SparseCholesky>",
    "SymGEigsSolver<SparseSymMatProd,SparseRegularInverse>", "SymGEigsShiftSolver<SymShiftInvert<Dense,Dense>,DenseSymMatProd,ShiftInvert>",
    "SymGEigsShiftSolver<SymShiftInvert<Sparse,Sparse>,SparseSymMatProd,ShiftInvert>", "SymGEigsShiftSolver<SymShiftInvert<Dense,Sparse>,DenseSymMatProd,Buckling>",
    "SymGEigsShiftSolver<SymShiftInvert<Sparse,Dense>,DenseSymMatProd,Cayley>"};
static const int NKINDS = 19;
static const int KIND_FAMILY[NKINDS] = {vf::FAM_SYM, vf::FAM_SYM, vf::FAM_HERM, vf::FAM_HERM, vf::FAM_SYMSHIFT, vf::FAM_SYMSHIFT, vf::FAM_GEN, vf::FAM_GEN, vf::FAM_GENREAL, vf::FAM_GENREAL,
                                        vf::FAM_GENCPLX, vf::FAM_GENCPLX, vf::FAM_SYM, vf::FAM_SYM, vf::FAM_SYM, vf::FAM_SYMSHIFT, vf::FAM_SYMSHIFT, vf::FAM_SYMSHIFT, vf::FAM_SYMSHIFT};

template <typename OpT>
struct One
{
    OpT op;
    template <typename M>
    explicit One(const M& A) :
        op(A) {}
};
template <typename OpT, typename BOpT>
struct Two
{
    OpT op;
    BOpT bop;
    template <typename MA, typename MB>
    Two(const MA& A, const MB& B) :
        op(A), bop(B) {}
    template <typename MA, typename MB, typename MC>
    Two(const MA& A, const MB& B, const MC& C) :
        op(A, B), bop(C) {}
};

static void run_case(vf::Draw& d, vf::Case& c)
{
    const int kind = (int) d.range("wrapper_kind", 0, NKINDS - 1);
    const int family = KIND_FAMILY[kind];
    const Index nmax = (Index) vf::options().geti("nmax", 20);
    vf::Problem<Real> P = vf::draw_problem<Real>(d, family, nmax);
    c.cls(KIND_NAMES[kind]);
    c.add_desc(std::string(KIND_NAMES[kind]) + " | " + P.desc);
    if (!P.ok)
    {
        c.rejected = true;
        return;
    }
    const Index n = P.n, nev = P.nev, ncv = P.ncv;
    const bool sparse_kind = (kind == 1 || kind == 3 || kind == 5 || kind == 7 || kind == 9 || kind == 11 || kind == 13 || kind == 14 || kind == 16);
    const Index bw = sparse_kind ? (Index) d.range("bandwidth", 1, std::max<Index>(1, n - 1)) : n;
    Real sr = (Real) P.sigma.real(), si = (Real) P.sigma.imag();
    const Real sr0 = sr, si0 = si;
    g_toggle_shift = nullptr;
    if (vf::family_has_shift(family))
    {
        // the other shift: moved by 0.3 spectral scales (and another imaginary part); whether it is regular is not checked, a throw is fine
        const Real sr_alt = (Real) ((ld) sr0 + (ld) 0.3 * (P.normA / std::sqrt((ld) P.n) + std::abs((ld) sr0))), si_alt = (Real) ((ld) si0 * (ld) 1.5);
        g_toggle_shift = [&sr, &si, sr0, si0, sr_alt, si_alt](bool on) {
            sr = on ? sr_alt : sr0;
            si = on ? si_alt : si0;
        };
    }
    if (kind <= 11)
    {
        // a band-limited matrix has other eigenvalues: keep the shift regular by checking the shifted matrix directly
        CMatL Ab = band(P.A, bw);
        if (family == vf::FAM_SYMSHIFT || family == vf::FAM_GENREAL || family == vf::FAM_GENCPLX)
        {
            CMatL M = Ab - P.sigma * CMatL::Identity(n, n);
            Eigen::JacobiSVD<CMatL> svd(M);
            ld smin = svd.singularValues()[n - 1], smax = svd.singularValues()[0];
            if (!(smin > (ld) 1e-8 * smax))
            {
                c.rejected = true;
                c.cls("shift_near_singular_after_banding");
                return;
            }
        }
        Mat A = vf::Narrow<Real>::mat(Ab);
        CMat Ac = vf::Narrow<Cplx>::mat(Ab);
        SpMat As = vf::to_sparse<Real>(A);
        CSpMat Acs = Ac.sparseView();
        Acs.makeCompressed();
        switch (kind)
        {
            case 0:
            {
                typedef Spectra::DenseSymMatProd<Real> Op;
                drive<Real>(d, c, family, n, [&]() { return std::make_unique<One<Op>>(A); }, [&](One<Op>& o) { return std::make_unique<Spectra::SymEigsSolver<Op>>(o.op, nev, ncv); },
                            [&](One<Op>& o, int v) { Finger f; FP_CALL(Real, o.op, perform_op, n, v, f); fp_times<Real>(o.op, n, v, f); return f; });
                break;
            }
            case 1:
            {
                typedef Spectra::SparseSymMatProd<Real> Op;
                drive<Real>(d, c, family, n, [&]() { return std::make_unique<One<Op>>(As); }, [&](One<Op>& o) { return std::make_unique<Spectra::SymEigsSolver<Op>>(o.op, nev, ncv); },
                            [&](One<Op>& o, int v) { Finger f; FP_CALL(Real, o.op, perform_op, n, v, f); fp_times<Real>(o.op, n, v, f); return f; });
                break;
            }
            case 2:
            {
                typedef Spectra::DenseHermMatProd<Cplx> Op;
                drive<Cplx>(d, c, family, n, [&]() { return std::make_unique<One<Op>>(Ac); }, [&](One<Op>& o) { return std::make_unique<Spectra::HermEigsSolver<Op>>(o.op, nev, ncv); },
                            [&](One<Op>& o, int v) { Finger f; FP_CALL(Cplx, o.op, perform_op, n, v, f); return f; });
                break;
            }
            case 3:
            {
                typedef Spectra::SparseHermMatProd<Cplx> Op;
                drive<Cplx>(d, c, family, n, [&]() { return std::make_unique<One<Op>>(Acs); }, [&](One<Op>& o) { return std::make_unique<Spectra::HermEigsSolver<Op>>(o.op, nev, ncv); },
                            [&](One<Op>& o, int v) { Finger f; FP_CALL(Cplx, o.op, perform_op, n, v, f); return f; });
                break;
            }
            case 4:
            {
                typedef Spectra::DenseSymShiftSolve<Real> Op;
                drive<Real>(d, c, family, n, [&]() { return std::make_unique<One<Op>>(A); }, [&](One<Op>& o) { return std::make_unique<Spectra::SymEigsShiftSolver<Op>>(o.op, nev, ncv, sr); },
                            [&](One<Op>& o, int v) { Finger f; FP_CALL(Real, o.op, perform_op, n, v, f); return f; });
                break;
            }
            case 5:
            {
                typedef Spectra::SparseSymShiftSolve<Real> Op;
                drive<Real>(d, c, family, n, [&]() { return std::make_unique<One<Op>>(As); }, [&](One<Op>& o) { return std::make_unique<Spectra::SymEigsShiftSolver<Op>>(o.op, nev, ncv, sr); },
                            [&](One<Op>& o, int v) { Finger f; FP_CALL(Real, o.op, perform_op, n, v, f); return f; });
                break;
            }
            case 6:
            {
                typedef Spectra::DenseGenMatProd<Real> Op;
                drive<Real>(d, c, family, n, [&]() { return std::make_unique<One<Op>>(A); }, [&](One<Op>& o) { return std::make_unique<Spectra::GenEigsSolver<Op>>(o.op, nev, ncv); },
                            [&](One<Op>& o, int v) { Finger f; FP_CALL(Real, o.op, perform_op, n, v, f); fp_times<Real>(o.op, n, v, f); return f; });
                break;
            }
            case 7:
            {
                typedef Spectra::SparseGenMatProd<Real> Op;
                drive<Real>(d, c, family, n, [&]() { return std::make_unique<One<Op>>(As); }, [&](One<Op>& o) { return std::make_unique<Spectra::GenEigsSolver<Op>>(o.op, nev, ncv); },
                            [&](One<Op>& o, int v) { Finger f; FP_CALL(Real, o.op, perform_op, n, v, f); fp_times<Real>(o.op, n, v, f); return f; });
                break;
            }
            case 8:
            {
                typedef Spectra::DenseGenRealShiftSolve<Real> Op;
                drive<Real>(d, c, family, n, [&]() { return std::make_unique<One<Op>>(A); }, [&](One<Op>& o) { return std::make_unique<Spectra::GenEigsRealShiftSolver<Op>>(o.op, nev, ncv, sr); },
                            [&](One<Op>& o, int v) { Finger f; FP_CALL(Real, o.op, perform_op, n, v, f); return f; });
                break;
            }
            case 9:
            {
                typedef Spectra::SparseGenRealShiftSolve<Real> Op;
                drive<Real>(d, c, family, n, [&]() { return std::make_unique<One<Op>>(As); }, [&](One<Op>& o) { return std::make_unique<Spectra::GenEigsRealShiftSolver<Op>>(o.op, nev, ncv, sr); },
                            [&](One<Op>& o, int v) { Finger f; FP_CALL(Real, o.op, perform_op, n, v, f); return f; });
                break;
            }
            case 10:
            {
                typedef Spectra::DenseGenComplexShiftSolve<Real> Op;
                drive<Real>(d, c, family, n, [&]() { return std::make_unique<One<Op>>(A); }, [&](One<Op>& o) { return std::make_unique<Spectra::GenEigsComplexShiftSolver<Op>>(o.op, nev, ncv, sr, si); },
                            [&](One<Op>& o, int v) { Finger f; FP_CALL(Real, o.op, perform_op, n, v, f); return f; });
                break;
            }
            default:
            {
                typedef Spectra::SparseGenComplexShiftSolve<Real> Op;
                drive<Real>(d, c, family, n, [&]() { return std::make_unique<One<Op>>(As); }, [&](One<Op>& o) { return std::make_unique<Spectra::GenEigsComplexShiftSolver<Op>>(o.op, nev, ncv, sr, si); },
                            [&](One<Op>& o, int v) { Finger f; FP_CALL(Real, o.op, perform_op, n, v, f); return f; });
                break;
            }
        }
        return;
    }
    // ---- generalized symmetric solvers: A from the recipe (banded for the sparse wrappers), B positive definite with kappa <= 1e3 ----
    vf::Lcg g((uint64_t) d.range("B_seed", 0, 65535));
    int ke = (int) d.range("B_log10_kappa", 0, 3);
    MatL Bl;
    if (sparse_kind || kind == 17)
    {
        // banded SPD: diagonally dominant tridiagonal-like matrix
        Bl = MatL::Zero(n, n);
        for (Index i = 0; i < n; i++)
        {
            Bl(i, i) = 2 + (ld) g.u();
            if (i + 1 < n)
                Bl(i, i + 1) = Bl(i + 1, i) = (ld) g.u() / 2;
        }
    }
    else
    {
        vf::VecL ev(n);
        for (Index i = 0; i < n; i++)
            ev[i] = std::pow((ld) 10, -(ld) ke * (ld) i / (ld) std::max<Index>(n - 1, 1));
        MatL Q = vf::random_orthogonal(n, g);
        Bl = Q * ev.asDiagonal() * Q.transpose();
        Bl = ((Bl + Bl.transpose()) / 2).eval();
    }
    Mat B = Bl.cast<Real>();
    Mat A = vf::Narrow<Real>::mat(band(P.A, bw));
    SpMat As = vf::to_sparse<Real>(A), Bs = vf::to_sparse<Real>(B);
    Real sigma = 0;
    if (kind >= 15)
    {
        // a shift outside the spectrum of the pencil the mode factorizes: (A, B) for shift-invert and Cayley, (K = B, K_G = A) for buckling
        MatL Al = A.cast<ld>(), BB = B.cast<ld>();
        Eigen::GeneralizedSelfAdjointEigenSolver<MatL> ges(MatL(Al / P.scale), BB, Eigen::EigenvaluesOnly);
        vf::VecL mu = ges.eigenvalues() * P.scale;
        ld lo = mu[0], hi = mu[n - 1], spread = std::max(hi - lo, (std::abs(lo) + std::abs(hi)) * (ld) 1e-3);
        if (!(spread > 0))
        {
            c.rejected = true;
            return;
        }
        ld s = d.flag("sigma_below") ? lo - spread / 5 : hi + spread / 5;
        if (kind == 17)
            s = 1 / (std::abs(s) > 0 ? s : spread);
        if (s == 0)
            s = spread / 5;
        sigma = (Real) s;
    }
    const Real sigma0 = sigma;
    g_toggle_shift = nullptr;
    if (kind >= 15)
    {
        // the other shift of the "solver with another shift used these wrappers before" history: twice as far from the spectrum
        const Real sigma_alt = (Real) ((ld) sigma0 * 2);
        g_toggle_shift = [&sigma, sigma0, sigma_alt](bool on) { sigma = on ? sigma_alt : sigma0; };
    }
    switch (kind)
    {
        case 12:
        {
            typedef Spectra::DenseSymMatProd<Real> Op;
            typedef Spectra::DenseCholesky<Real> BOp;
            typedef Two<Op, BOp> T;
            drive<Real>(d, c, family, n, [&]() { return std::make_unique<T>(A, B); },
                        [&](T& o) { return std::make_unique<Spectra::SymGEigsSolver<Op, BOp, GEigsMode::Cholesky>>(o.op, o.bop, nev, ncv); },
                        [&](T& o, int v) { Finger f; FP_CALL(Real, o.op, perform_op, n, v, f); FP_CALL(Real, o.bop, lower_triangular_solve, n, v, f); FP_CALL(Real, o.bop, upper_triangular_solve, n, v, f); return f; });
            break;
        }
        case 13:
        {
            typedef Spectra::SparseSymMatProd<Real> Op;
            typedef Spectra::SparseCholesky<Real> BOp;
            typedef Two<Op, BOp> T;
            drive<Real>(d, c, family, n, [&]() { return std::make_unique<T>(As, Bs); },
                        [&](T& o) { return std::make_unique<Spectra::SymGEigsSolver<Op, BOp, GEigsMode::Cholesky>>(o.op, o.bop, nev, ncv); },
                        [&](T& o, int v) { Finger f; FP_CALL(Real, o.op, perform_op, n, v, f); FP_CALL(Real, o.bop, lower_triangular_solve, n, v, f); FP_CALL(Real, o.bop, upper_triangular_solve, n, v, f); return f; });
            break;
        }
        case 14:
        {
            typedef Spectra::SparseSymMatProd<Real> Op;
            typedef Spectra::SparseRegularInverse<Real> BOp;
            typedef Two<Op, BOp> T;
            drive<Real>(d, c, family, n, [&]() { return std::make_unique<T>(As, Bs); },
                        [&](T& o) { return std::make_unique<Spectra::SymGEigsSolver<Op, BOp, GEigsMode::RegularInverse>>(o.op, o.bop, nev, ncv); },
                        [&](T& o, int v) { Finger f; FP_CALL(Real, o.op, perform_op, n, v, f); FP_CALL(Real, o.bop, solve, n, v, f); FP_CALL(Real, o.bop, perform_op, n, v, f); return f; });
            break;
        }
        case 15:
        {
            typedef Spectra::SymShiftInvert<Real, Eigen::Dense, Eigen::Dense> Op;
            typedef Spectra::DenseSymMatProd<Real> BOp;
            typedef Two<Op, BOp> T;
            drive<Real>(d, c, family, n, [&]() { return std::make_unique<T>(A, B, B); },
                        [&](T& o) { return std::make_unique<Spectra::SymGEigsShiftSolver<Op, BOp, GEigsMode::ShiftInvert>>(o.op, o.bop, nev, ncv, sigma); },
                        [&](T& o, int v) { Finger f; FP_CALL(Real, o.op, perform_op, n, v, f); FP_CALL(Real, o.bop, perform_op, n, v, f); return f; });
            break;
        }
        case 16:
        {
            typedef Spectra::SymShiftInvert<Real, Eigen::Sparse, Eigen::Sparse> Op;
            typedef Spectra::SparseSymMatProd<Real> BOp;
            typedef Two<Op, BOp> T;
            drive<Real>(d, c, family, n, [&]() { return std::make_unique<T>(As, Bs, Bs); },
                        [&](T& o) { return std::make_unique<Spectra::SymGEigsShiftSolver<Op, BOp, GEigsMode::ShiftInvert>>(o.op, o.bop, nev, ncv, sigma); },
                        [&](T& o, int v) { Finger f; FP_CALL(Real, o.op, perform_op, n, v, f); FP_CALL(Real, o.bop, perform_op, n, v, f); return f; });
            break;
        }
        case 17:
        {
            // buckling: K = B (positive definite, dense), K_G = A (sparse)
            typedef Spectra::SymShiftInvert<Real, Eigen::Dense, Eigen::Sparse> Op;
            typedef Spectra::DenseSymMatProd<Real> BOp;
            typedef Two<Op, BOp> T;
            drive<Real>(d, c, family, n, [&]() { return std::make_unique<T>(B, As, B); },
                        [&](T& o) { return std::make_unique<Spectra::SymGEigsShiftSolver<Op, BOp, GEigsMode::Buckling>>(o.op, o.bop, nev, ncv, sigma); },
                        [&](T& o, int v) { Finger f; FP_CALL(Real, o.op, perform_op, n, v, f); FP_CALL(Real, o.bop, perform_op, n, v, f); return f; });
            break;
        }
        default:
        {
            typedef Spectra::SymShiftInvert<Real, Eigen::Sparse, Eigen::Dense> Op;
            typedef Spectra::DenseSymMatProd<Real> BOp;
            typedef Two<Op, BOp> T;
            drive<Real>(d, c, family, n, [&]() { return std::make_unique<T>(As, B, B); },
                        [&](T& o) { return std::make_unique<Spectra::SymGEigsShiftSolver<Op, BOp, GEigsMode::Cayley>>(o.op, o.bop, nev, ncv, sigma); },
                        [&](T& o, int v) { Finger f; FP_CALL(Real, o.op, perform_op, n, v, f); FP_CALL(Real, o.bop, perform_op, n, v, f); return f; });
            break;
        }
    }
}

int main(int argc, char** argv)
{
    return vf::run_main(argc, argv, "C06", run_case);
}
