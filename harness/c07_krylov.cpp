// C07 - Krylov factorization invariant A V = V H + f e_k', V^H B V = I, V^H B f = 0, H Hessenberg / real
// symmetric tridiagonal, at every point where the factorization is passed on.
// Mode A drives Arnoldi / Lanczos directly through their public interface with drawn restart sequences and
// shifts; mode B observes real solver runs. Both use the guarded H1 observer as the probe and vf::FacOracle.
#include "vf/eigen_assert.hpp"
#include <Eigen/Core>
#include <Eigen/Dense>
#include <Spectra/LinAlg/Arnoldi.h>
#include <Spectra/LinAlg/Lanczos.h>
#include <Spectra/SymEigsSolver.h>
#include <Spectra/HermEigsSolver.h>
#include <Spectra/GenEigsSolver.h>
#include <Spectra/SymEigsShiftSolver.h>
#include <Spectra/SymGEigsSolver.h>
#include <Spectra/SymGEigsShiftSolver.h>
#include <Spectra/MatOp/DenseSymMatProd.h>
#include <Spectra/MatOp/DenseHermMatProd.h>
#include <Spectra/MatOp/DenseGenMatProd.h>
#include <Spectra/MatOp/DenseSymShiftSolve.h>
#include "vf/oracle.hpp"
#include "vf/solverkit.hpp"
#include "vf/faccheck.hpp"
#include "vf/runner.hpp"

#ifndef VF_REAL
#define VF_REAL double
#endif
typedef VF_REAL Real;
typedef std::complex<Real> Cplx;
using vf::ld;
using vf::cld;
using vf::CMatL;
using vf::CVecL;
using vf::MatL;
using vf::VecL;
using vf::Index;
using Spectra::SortRule;
static const ld EPS = (ld) std::numeric_limits<Real>::epsilon();

// B operator for the generalized modes (user functor): y = B x, solve: y = B^{-1} x
template <typename S>
class DenseBFunctor
{
public:
    using Scalar = S;
    typedef Eigen::Matrix<S, Eigen::Dynamic, Eigen::Dynamic> Mat;
    typedef Eigen::Matrix<S, Eigen::Dynamic, 1> Vec;
    Mat B;
    Eigen::LLT<Mat> llt;
    explicit DenseBFunctor(const Mat& b) :
        B(b), llt(b) {}
    Index rows() const { return B.rows(); }
    Index cols() const { return B.cols(); }
    void perform_op(const S* x_in, S* y_out) const
    {
        Eigen::Map<const Vec> x(x_in, B.cols());
        Eigen::Map<Vec> y(y_out, B.rows());
        y.noalias() = B * x;
    }
    void solve(const S* x_in, S* y_out) const
    {
        Eigen::Map<const Vec> x(x_in, B.cols());
        Eigen::Map<Vec> y(y_out, B.rows());
        y = llt.solve(x);
    }
};
// (A - sigma B)^{-1} x as a user functor
template <typename S>
class PencilShiftFunctor
{
public:
    using Scalar = S;
    typedef Eigen::Matrix<S, Eigen::Dynamic, Eigen::Dynamic> Mat;
    typedef Eigen::Matrix<S, Eigen::Dynamic, 1> Vec;
    Mat A, B;
    Eigen::PartialPivLU<Mat> lu;
    PencilShiftFunctor(const Mat& a, const Mat& b) :
        A(a), B(b) {}
    Index rows() const { return A.rows(); }
    Index cols() const { return A.cols(); }
    void set_shift(const S& sigma) { lu.compute(A - sigma * B); }
    void perform_op(const S* x_in, S* y_out) const
    {
        Eigen::Map<const Vec> x(x_in, A.cols());
        Eigen::Map<Vec> y(y_out, A.rows());
        y = lu.solve(x);
    }
};

static void finish(vf::FacOracle& fo, vf::Case& c, const char* prefix)
{
    vf::report().stat(std::string(prefix) + " factorization/((1+r) n eps |OP|)", (double) fo.worst_fac);
    vf::report().stat(std::string(prefix) + " orthonormality/((1+r) n eps kB)", (double) fo.worst_orth);
    vf::report().stat(std::string(prefix) + " V'Bf/((1+r) n eps kB |OP|)", (double) fo.worst_vf);
    vf::report().stat(std::string(prefix) + " below band/(n eps |OP|)", (double) fo.worst_hess);
    if (std::getenv("VF_DEBUG2") && !fo.failed && (fo.worst_orth > 8 || fo.worst_fac > 8 || fo.worst_vf > 8))
        std::fprintf(stderr, "HIGH orth=%.1Lf fac=%.1Lf vf=%.1Lf restarts=%ld | %s\n", fo.worst_orth, fo.worst_fac, fo.worst_vf, fo.restarts, c.desc.c_str());
    c.feat["worst_orth"] = (double) fo.worst_orth;
    c.feat["checks"] = (double) fo.checks;
    c.feat["restarts_at_failure"] = (double) fo.fail_restarts;
    c.feat["arnoldi"] = fo.lanczos ? 0 : 1;
    c.feat["min_pos_beta"] = (double) fo.min_pos_beta;
    c.feat["single_precision"] = std::is_same<Real, float>::value ? 1 : 0;
    if (fo.failed)
        throw vf::Violation(fo.fail_kind, fo.fail_detail);
}

// SPD matrix B = Q diag(kappa^(-i/(n-1))) Q' (real), rounded to Real
static MatL make_spd(vf::Draw& d, Index n, ld& kappa)
{
    vf::Lcg g((uint64_t) d.range("B_seed", 0, 65535));
    int ke = (int) d.range("B_log10_kappa", 0, 6);
    kappa = std::pow((ld) 10, (ld) ke);
    VecL ev(n);
    for (Index i = 0; i < n; i++)
        ev[i] = std::pow(kappa, -(ld) i / (ld) std::max<Index>(n - 1, 1));
    MatL Q = vf::random_orthogonal(n, g);
    MatL B = Q * ev.asDiagonal() * Q.transpose();
    MatL Bs = (B + B.transpose()) / 2;
    Eigen::Matrix<Real, Eigen::Dynamic, Eigen::Dynamic> Br = Bs.cast<Real>();
    MatL back = Br.cast<ld>();
    for (Index j = 0; j < n; j++)
        for (Index i = j + 1; i < n; i++)
            back(j, i) = back(i, j);
    return back;
}

// ------------------------------------------------------------------------------------------------------------------
// Mode A: direct drive
template <typename S, typename Fac, typename RestartFn>
static void direct_drive(Fac& fac, vf::Draw& d, vf::Case& c, vf::FacOracle& fo, Index n, Index m, const CMatL& eigvecs, RestartFn restart)
{
    typedef Eigen::Matrix<S, Eigen::Dynamic, 1> Vec;
    vf::ObserveFac<S> obs(&fo);
    // start vector
    int sk = (int) d.range("start_kind", 0, 3);
    CVecL vl = CVecL::Zero(n);
    static const char* SK[4] = {"random", "eigenvector", "sum_of_eigenvectors", "invariant_subspace_vector"};
    if (sk == 0 || eigvecs.cols() == 0)
    {
        vf::Lcg g((uint64_t) d.range("start_seed", 0, 255));
        for (Index i = 0; i < n; i++)
            vl[i] = cld(g.u(), vf::Sc<S>::is_complex ? g.u() : 0);
    }
    else if (sk == 1)
        vl = eigvecs.col((Index) d.range("start_eigvec", 0, n - 1));
    else
    {
        int k = (sk == 2) ? (int) d.range("start_ncomb", 2, 3) : (int) d.range("start_subspace_dim", 2, std::max<long>(2, std::min<long>(n - 1, 6)));
        vf::Lcg g((uint64_t) d.range("start_seed", 0, 255));
        Index first = (Index) d.range("start_first", 0, n - 1);
        for (int j = 0; j < k; j++)
            vl += eigvecs.col((first + j) % n) * cld(sk == 2 ? (ld) (j + 1) : g.u());
    }
    if (!vf::Sc<S>::is_complex)
        for (Index i = 0; i < n; i++)
            vl[i] = cld(vl[i].real(), 0);
    if (vl.norm() == 0)
        vl[0] = 1;
    c.cls(std::string("start/") + SK[eigvecs.cols() == 0 ? 0 : sk]);
    Vec v0 = vf::Narrow<S>::mat(vl);
    {
        // is the start vector numerically in the null space of the operator? (single precision: see KF-C07-FLOAT)
        CVecL vr = vf::widen(v0);
        ld ratio = fo.normOP > 0 && vr.norm() > 0 ? (fo.OP * vr).norm() / (fo.normOP * vr.norm()) : 1;
        c.feat["start_nullspace_ratio"] = (double) ratio;
    }
    Eigen::Map<const Vec> v0map(v0.data(), n);
    Index ops = 0;
    if (vf::options().geti("dump", 0))
    {
        // triage aid: the operator and the start vector in full precision
        std::fprintf(stderr, "DUMP n=%ld\n", (long) n);
        for (Index j = 0; j < n; j++)
            for (Index i = 0; i < n; i++)
                std::fprintf(stderr, "OP %ld %ld %.21Lg %.21Lg\n", (long) i, (long) j, fo.OP(i, j).real(), fo.OP(i, j).imag());
        for (Index i = 0; i < n; i++)
            std::fprintf(stderr, "V0 %ld %.21Lg %.21Lg\n", (long) i, (ld) std::real(v0[i]), (ld) std::imag(v0[i]));
    }
    fac.init(v0map, ops);
    VF_CHECK(fac.subspace_dim() == 1, "dimension", "subspace_dim() = " << fac.subspace_dim() << " after init");
    int nops = (int) d.dim("nops", 1, 30);
    int restarts = 0;
    std::ostringstream os;
    for (int op = 0; op < nops; op++)
    {
        Index k = fac.subspace_dim();
        if (k < m)
        {
            Index to = (Index) d.range("extend_to", k + 1, m);
            if (d.one_in("extend_full", 2))
                to = m;
            fac.factorize_from(k, to, ops);
            os << "extend(" << k << "->" << to << ") ";
            VF_CHECK(fac.subspace_dim() == to, "dimension", "subspace_dim() = " << fac.subspace_dim() << " after factorize_from(" << k << "," << to << ")");
        }
        else
        {
            Index knew = restart(fac, d, os);
            restarts++;
            VF_CHECK(fac.subspace_dim() == knew, "dimension", "subspace_dim() = " << fac.subspace_dim() << " after a restart to " << knew);
            fac.factorize_from(knew, m, ops);
            os << "extend(" << knew << "->" << m << ") ";
        }
        if (fo.failed)
            break;
    }
    c.add_desc(os.str());
    c.nontrivial = restarts >= 1;
    if (restarts >= 1)
        c.cls("with_restart");
}

static void direct_case(vf::Draw& d, vf::Case& c)
{
    int kind = (int) d.range("fac_kind", 0, 3);  // 0 Arnoldi real general, 1 Lanczos real symmetric, 2 Lanczos complex Hermitian, 3 Lanczos with B inner product
    static const char* KN[4] = {"Arnoldi<real general>", "Lanczos<real symmetric>", "Lanczos<complex Hermitian>", "Lanczos<B inner product>"};
    Index n = (Index) d.dim("n", 2, 30);
    Index m = (Index) d.range("m", 2, n);
    if (kind == 0 && m < 3 && n >= 3)
        m = 3;
    vf::FacOracle fo;
    fo.eps = EPS;
    fo.tiny = std::sqrt((ld) std::numeric_limits<Real>::min());
    fo.lanczos = kind != 0;
    std::ostringstream os;
    os << "direct " << KN[kind] << "<" << vf::Sc<Real>::name() << "> n=" << n << " m=" << m;
    c.cls(std::string("direct/") + KN[kind]);

    if (kind == 0)
    {
        typedef Eigen::Matrix<Real, Eigen::Dynamic, Eigen::Dynamic> Mat;
        // general real matrix classes: random, normal (rotation blocks), low rank, triangular, scaled
        int cls = (int) d.range("gen_class", 0, 3);
        vf::Lcg g((uint64_t) d.range("content_seed", 0, 65535));
        MatL A(n, n);
        for (Index j = 0; j < n; j++)
            for (Index i = 0; i < n; i++)
                A(i, j) = g.u();
        if (cls == 1)
            for (Index j = 0; j < n; j++)
                for (Index i = j + 1; i < n; i++)
                    A(i, j) = 0;
        else if (cls == 2)
        {
            VecL u(n), w(n);
            for (Index i = 0; i < n; i++)
            {
                u[i] = (ld) (g.below(5) - 2);
                w[i] = (ld) (g.below(5) - 2);
            }
            A = u * w.transpose();
            if (n > 2)
            {
                VecL u2(n);
                for (Index i = 0; i < n; i++)
                    u2[i] = (ld) (g.below(3) - 1);
                A += u2 * u.transpose();
            }
        }
        else if (cls == 3)
            A = (A - A.transpose()).eval();  // skew: purely imaginary spectrum
        d.scale10("scale_exp", vf::max_scale_exp<Real>());
        long se = d.scale10_exp_last();
        A *= std::pow((ld) 10, (ld) se);
        Mat As = A.cast<Real>();
        fo.OP = vf::widen(As);
        fo.normOP = vf::fro_scaled(fo.OP);
        os << " class=" << cls << " scale=1e" << se;
        c.add_desc(os.str());
        c.feat["scale_exp"] = (double) se;
        if (fo.normOP == 0)
        {
            c.rejected = true;
            return;
        }
        Eigen::EigenSolver<MatL> es(MatL(A / std::pow((ld) 10, (ld) se)));
        CMatL evecs = es.eigenvectors();
        // real start vectors only: use the real part of an eigenvector (invariant when the eigenvalue is real)
        typedef Spectra::DenseGenMatProd<Real> Op;
        typedef Spectra::ArnoldiOp<Real, Op, Spectra::IdentityBOp> AOp;
        Op op(As);
        AOp aop(op, Spectra::IdentityBOp());
        Spectra::Arnoldi<Real, AOp> fac(aop, m);
        auto restart = [&](Spectra::Arnoldi<Real, AOp>& f, vf::Draw& dd, std::ostringstream& o) -> Index {
            // remove p in [1, m-1] directions with exact or arbitrary shifts, single or double
            Index p = (Index) dd.range("remove", 1, m - 1);
            Mat Q = Mat::Identity(m, m);
            Spectra::UpperHessenbergQR<Real> hb(m);
            Spectra::DoubleShiftQR<Real> ds(m);
            int shift_src = (int) dd.range("shift_source", 0, 1);
            Eigen::EigenSolver<MatL> hes(MatL(f.matrix_H().template cast<ld>()), false);
            Index done = 0;
            while (done < p)
            {
                bool dbl = (p - done >= 2) && m >= 3 && dd.flag("double_shift");
                if (dbl)
                {
                    ld s, t;
                    if (shift_src == 0)
                    {
                        std::complex<ld> mu = hes.eigenvalues()[(Index) dd.range("ritz_index", 0, m - 1)];
                        s = 2 * mu.real();
                        t = std::norm(mu);
                    }
                    else
                    {
                        ld re = (ld) dd.range("shift_re", -16, 16) / 8 * (ld) fo.normOP / std::sqrt((ld) n), im = (ld) dd.range("shift_im", 0, 16) / 8 * (ld) fo.normOP / std::sqrt((ld) n);
                        s = 2 * re;
                        t = re * re + im * im;
                    }
                    ds.compute(f.matrix_H(), (Real) s, (Real) t);
                    ds.apply_YQ(Q);
                    f.compress_H(ds);
                    done += 2;
                    o << "dshift ";
                    c.cls("double_shift");
                }
                else
                {
                    ld mu = (shift_src == 0) ? hes.eigenvalues()[(Index) dd.range("ritz_index", 0, m - 1)].real() : (ld) dd.range("shift_re", -16, 16) / 8 * (ld) fo.normOP / std::sqrt((ld) n);
                    hb.compute(f.matrix_H(), (Real) mu);
                    hb.apply_YQ(Q);
                    f.compress_H(hb);
                    done += 1;
                    o << "shift ";
                }
            }
            f.compress_V(Q);
            c.cls(shift_src == 0 ? "exact_ritz_shifts" : "arbitrary_shifts");
            return m - done;
        };
        try
        {
            direct_drive<Real>(fac, d, c, fo, n, m, evecs.imag().norm() == 0 ? evecs : CMatL(evecs.real().cast<cld>()), restart);
        }
        catch (const std::invalid_argument&)
        {
            c.rejected = true;  // zero start vector etc.
        }
        finish(fo, c, "direct");
        return;
    }
    // Lanczos kinds
    const bool cplx = kind == 2;
    vf::HermRecipe R = cplx ? vf::make_herm<Cplx>(d, true, n, n) : vf::make_herm<Real>(d, false, n, n);
    os << " class=" << R.name << " scale=1e" << R.scale_exp;
    c.feat["scale_exp"] = (double) R.scale_exp;
    c.cls("class/" + R.name);
    if (vf::fro_scaled(R.A) == 0)
    {
        c.add_desc(os.str());
        c.rejected = true;
        return;
    }
    auto lanczos_restart = [&](auto& f, vf::Draw& dd, std::ostringstream& o) -> Index {
        typedef Eigen::Matrix<Real, Eigen::Dynamic, Eigen::Dynamic> RMat;
        Index p = (Index) dd.range("remove", 1, m - 1);
        RMat Q = RMat::Identity(m, m);
        Spectra::TridiagQR<Real> qr(m);
        int shift_src = (int) dd.range("shift_source", 0, 1);
        RMat Hr = f.matrix_H().real();
        Eigen::SelfAdjointEigenSolver<MatL> hes(MatL(Hr.template cast<ld>()), Eigen::EigenvaluesOnly);
        for (Index j = 0; j < p; j++)
        {
            ld mu = (shift_src == 0) ? hes.eigenvalues()[(Index) dd.range("ritz_index", 0, m - 1)] : (ld) dd.range("shift_re", -16, 16) / 8 * (ld) fo.normOP / std::sqrt((ld) n);
            qr.compute(f.matrix_H().real(), (Real) mu);
            qr.apply_YQ(Q);
            f.compress_H(qr);
            o << "shift ";
        }
        f.compress_V(Q);
        c.cls(shift_src == 0 ? "exact_ritz_shifts" : "arbitrary_shifts");
        return m - p;
    };
    try
    {
        if (kind == 1)
        {
            typedef Eigen::Matrix<Real, Eigen::Dynamic, Eigen::Dynamic> Mat;
            Mat As = vf::Narrow<Real>::mat(R.A);
            fo.OP = R.A;
            fo.normOP = vf::fro_scaled(fo.OP);
            c.add_desc(os.str());
            typedef Spectra::DenseSymMatProd<Real> Op;
            typedef Spectra::ArnoldiOp<Real, Op, Spectra::IdentityBOp> AOp;
            Op op(As);
            AOp aop(op, Spectra::IdentityBOp());
            Spectra::Lanczos<Real, AOp> fac(aop, m);
            direct_drive<Real>(fac, d, c, fo, n, m, R.Q, lanczos_restart);
        }
        else if (kind == 2)
        {
            typedef Eigen::Matrix<Cplx, Eigen::Dynamic, Eigen::Dynamic> Mat;
            Mat As = vf::Narrow<Cplx>::mat(R.A);
            fo.OP = R.A;
            fo.normOP = vf::fro_scaled(fo.OP);
            c.add_desc(os.str());
            typedef Spectra::DenseHermMatProd<Cplx> Op;
            typedef Spectra::ArnoldiOp<Cplx, Op, Spectra::IdentityBOp> AOp;
            Op op(As);
            AOp aop(op, Spectra::IdentityBOp());
            Spectra::Lanczos<Cplx, AOp> fac(aop, m);
            direct_drive<Cplx>(fac, d, c, fo, n, m, R.Q, lanczos_restart);
        }
        else
        {
            // OP = B^{-1} A, self-adjoint in the B inner product
            typedef Eigen::Matrix<Real, Eigen::Dynamic, Eigen::Dynamic> Mat;
            ld kappa;
            MatL B = make_spd(d, n, kappa);
            Mat As = vf::Narrow<Real>::mat(R.A);
            Mat Bs = B.cast<Real>();
            MatL Binv = B.inverse();
            MatL Ar = R.A.real();
            MatL OPl = Binv * Ar;
            Mat OPs = OPl.cast<Real>();
            // the functor applies B^{-1} A through a Cholesky solve in working precision; the reference operator is B^{-1} A in long double
            fo.OP = vf::widen(OPl);
            fo.set_B(vf::widen(B), kappa);
            fo.set_norm_from_OP();
            // B^{-1} is applied by a Cholesky solve in working precision: the operator itself carries an error kappa(B) eps ||OP||
            fo.op_err_factor = kappa;
            fo.kappaB = kappa;
            os << " kappa(B)=1e" << std::log10((double) kappa);
            c.add_desc(os.str());
            c.cls("B_inner_product");
            typedef Spectra::SymGEigsRegInvOp<vf::FunctorOp<Real>, DenseBFunctor<Real>> Op;
            typedef Spectra::ArnoldiOp<Real, Op, DenseBFunctor<Real>> AOp;
            vf::FunctorOp<Real> aop_user(As);
            DenseBFunctor<Real> bop(Bs);
            Op op(aop_user, bop);
            Spectra::Lanczos<Real, AOp> fac(AOp(op, bop), m);
            // B-orthonormal eigenvectors are not needed for start vectors: use plain random / recipe vectors
            direct_drive<Real>(fac, d, c, fo, n, m, CMatL(), lanczos_restart);
        }
    }
    catch (const std::invalid_argument&)
    {
        c.rejected = true;
    }
    finish(fo, c, "direct");
}

// ------------------------------------------------------------------------------------------------------------------
// Mode B: observe real solver runs
template <typename S, typename Solver>
static void run_observed(Solver& eigs, vf::Draw& d, vf::Case& c, vf::FacOracle& fo, Index n, const int* rules, int nrules, bool use_default_start)
{
    typedef Eigen::Matrix<S, Eigen::Dynamic, 1> Vec;
    vf::ObserveFac<S> obs(&fo);
    int ncomp = (int) d.range("computes", 1, 2);
    bool threw = false;
    try
    {
        if (use_default_start)
            eigs.init();
        else
        {
            vf::Lcg g((uint64_t) d.range("start_seed", 0, 255));
            Vec v(n);
            for (Index i = 0; i < n; i++)
                v[i] = (S) (Real) g.u();
            if (d.flag("start_unit"))
            {
                v.setZero();
                v[(Index) d.range("start_unit_at", 0, n - 1)] = S(1);
            }
            eigs.init(v.data());
        }
        for (int k = 0; k < ncomp; k++)
        {
            int sel = rules[d.range("selection", 0, nrules - 1)];
            long maxit = d.range("maxit", 0, 50);
            ld tol = vf::draw_tol<Real>(d);
            eigs.compute(vf::ALL_RULES[sel], (Index) maxit, (Real) tol);
            if (fo.failed)
                break;
        }
    }
    catch (const std::runtime_error& e)
    {
        threw = true;
        c.cls(std::string("runtime_error: ") + e.what());
    }
    catch (const std::invalid_argument& e)
    {
        threw = true;
        c.cls(std::string("invalid_argument: ") + e.what());
    }
    if (threw)
        c.rejected = true;
    c.nontrivial = fo.restarts >= 1 || fo.checks >= 3;
    if (fo.restarts >= 1)
        c.cls("with_restart");
}

static void observed_case(vf::Draw& d, vf::Case& c)
{
    int kind = (int) d.range("solver", 0, 5);
    static const char* KN[6] = {"SymEigsSolver", "HermEigsSolver", "GenEigsSolver", "SymEigsShiftSolver", "SymGEigsSolver<RegularInverse>", "SymGEigsShiftSolver<ShiftInvert>"};
    vf::FacOracle fo;
    fo.eps = EPS;
    fo.tiny = std::sqrt((ld) std::numeric_limits<Real>::min());
    fo.lanczos = kind != 2;
    std::ostringstream os;
    os << "observed " << KN[kind] << "<" << vf::Sc<Real>::name() << ">";
    c.cls(std::string("observed/") + KN[kind]);
    Index nmax = 24;
    if (kind == 2)
    {
        typedef Eigen::Matrix<Real, Eigen::Dynamic, Eigen::Dynamic> Mat;
        Index n = (Index) d.dim("n", 3, nmax);
        int cls = (int) d.range("gen_class", 0, 3);
        vf::Lcg g((uint64_t) d.range("content_seed", 0, 65535));
        MatL A(n, n);
        for (Index j = 0; j < n; j++)
            for (Index i = 0; i < n; i++)
                A(i, j) = g.u();
        if (cls == 1)
        {
            // permutation / orthogonal-like: magnitude ties
            A.setZero();
            for (Index i = 0; i < n; i++)
                A((i + 1) % n, i) = (g.below(2) ? 1 : -1);
        }
        else if (cls == 2)
        {
            VecL u(n), w(n);
            for (Index i = 0; i < n; i++)
            {
                u[i] = (ld) (g.below(5) - 2);
                w[i] = (ld) (g.below(5) - 2);
            }
            A = u * w.transpose();
        }
        else if (cls == 3)
            A = (A - A.transpose()).eval();
        d.scale10("scale_exp", vf::max_scale_exp<Real>());
        long se = d.scale10_exp_last();
        A *= std::pow((ld) 10, (ld) se);
        Mat As = A.cast<Real>();
        fo.OP = vf::widen(As);
        fo.normOP = vf::fro_scaled(fo.OP);
        Index nev, ncv;
        vf::draw_nev_ncv(d, n, true, nev, ncv);
        os << " n=" << n << " class=" << cls << " scale=1e" << se << " nev=" << nev << " ncv=" << ncv;
        c.add_desc(os.str());
        c.feat["scale_exp"] = (double) se;
        if (fo.normOP == 0)
        {
            c.rejected = true;
            return;
        }
        Spectra::DenseGenMatProd<Real> op(As);
        Spectra::GenEigsSolver<Spectra::DenseGenMatProd<Real>> eigs(op, nev, ncv);
        run_observed<Real>(eigs, d, c, fo, n, vf::GEN_RULES, 6, d.flag("default_start"));
        finish(fo, c, "observed");
        return;
    }
    const bool cplx = kind == 1;
    vf::HermRecipe R = cplx ? vf::make_herm<Cplx>(d, true, 2, nmax) : vf::make_herm<Real>(d, false, 2, nmax);
    const Index n = R.n;
    Index nev, ncv;
    vf::draw_nev_ncv(d, n, false, nev, ncv);
    os << " class=" << R.name << " n=" << n << " scale=1e" << R.scale_exp << " nev=" << nev << " ncv=" << ncv;
    c.feat["scale_exp"] = (double) R.scale_exp;
    c.cls("class/" + R.name);
    ld normA = vf::fro_scaled(R.A);
    if (normA == 0)
    {
        c.add_desc(os.str());
        c.rejected = true;
        return;
    }
    bool dflt = d.flag("default_start");
    if (kind == 0)
    {
        typedef Eigen::Matrix<Real, Eigen::Dynamic, Eigen::Dynamic> Mat;
        Mat As = vf::Narrow<Real>::mat(R.A);
        fo.OP = R.A;
        fo.normOP = normA;
        c.add_desc(os.str());
        Spectra::DenseSymMatProd<Real> op(As);
        Spectra::SymEigsSolver<Spectra::DenseSymMatProd<Real>> eigs(op, nev, ncv);
        run_observed<Real>(eigs, d, c, fo, n, vf::SYM_RULES, 5, dflt);
    }
    else if (kind == 1)
    {
        typedef Eigen::Matrix<Cplx, Eigen::Dynamic, Eigen::Dynamic> Mat;
        Mat As = vf::Narrow<Cplx>::mat(R.A);
        fo.OP = R.A;
        fo.normOP = normA;
        c.add_desc(os.str());
        Spectra::DenseHermMatProd<Cplx> op(As);
        Spectra::HermEigsSolver<Spectra::DenseHermMatProd<Cplx>> eigs(op, nev, ncv);
        run_observed<Cplx>(eigs, d, c, fo, n, vf::SYM_RULES, 5, dflt);
    }
    else if (kind == 3)
    {
        typedef Eigen::Matrix<Real, Eigen::Dynamic, Eigen::Dynamic> Mat;
        Mat As = vf::Narrow<Real>::mat(R.A);
        // sigma outside the spectrum by 10 % of the spread, or in the largest gap
        Eigen::SelfAdjointEigenSolver<CMatL> es(R.A / cld(R.scale), Eigen::EigenvaluesOnly);
        VecL ev = es.eigenvalues() * R.scale;
        ld spread = std::max(ev[n - 1] - ev[0], (std::abs(ev[0]) + std::abs(ev[n - 1])) * (ld) 1e-3);
        ld sig = d.flag("sigma_below") ? ev[0] - spread / 10 : ev[n - 1] + spread / 10;
        Index gi = 0;
        for (Index i = 0; i + 1 < n; i++)
            if (ev[i + 1] - ev[i] > ev[gi + 1] - ev[gi])
                gi = i;
        if (d.flag("sigma_in_gap") && ev[gi + 1] - ev[gi] >= (ld) 2e-3 * spread)
            sig = (ev[gi] + ev[gi + 1]) / 2;
        Real sigma = (Real) sig;
        CMatL M = R.A - cld((ld) sigma) * CMatL::Identity(n, n);
        fo.OP = M.inverse();
        fo.normOP = vf::fro_scaled(fo.OP);
        // the operator is applied through an LDLT factorization in working precision: its own error is cond(A - sigma I) eps ||OP||
        ld dmin = std::numeric_limits<ld>::infinity(), dmax = 0;
        for (Index i = 0; i < n; i++)
        {
            dmin = std::min(dmin, std::abs(ev[i] - (ld) sigma));
            dmax = std::max(dmax, std::abs(ev[i] - (ld) sigma));
        }
        fo.op_err_factor = std::max((ld) 1, dmax / dmin);
        os << " sigma=" << vf::num(sigma) << " cond=" << vf::num(dmax / dmin);
        c.add_desc(os.str());
        try
        {
            Spectra::DenseSymShiftSolve<Real> op(As);
            Spectra::SymEigsShiftSolver<Spectra::DenseSymShiftSolve<Real>> eigs(op, nev, ncv, sigma);
            run_observed<Real>(eigs, d, c, fo, n, vf::SYM_RULES, 5, dflt);
        }
        catch (const std::invalid_argument&)
        {
            c.rejected = true;
        }
    }
    else
    {
        typedef Eigen::Matrix<Real, Eigen::Dynamic, Eigen::Dynamic> Mat;
        ld kappa;
        MatL B = make_spd(d, n, kappa);
        Mat As = vf::Narrow<Real>::mat(R.A);
        Mat Bs = B.cast<Real>();
        MatL Ar = R.A.real();
        fo.set_B(vf::widen(B), kappa);
        fo.kappaB = kappa;
        os << " kappa(B)=1e" << std::log10((double) kappa);
        c.cls("B_inner_product");
        if (kind == 4)
        {
            MatL OPl = B.inverse() * Ar;
            fo.OP = vf::widen(OPl);
            fo.set_norm_from_OP();
            // B^{-1} is applied by a Cholesky solve in working precision: error kappa(B) eps ||OP||
            fo.op_err_factor = kappa;
            c.add_desc(os.str());
            vf::FunctorOp<Real> aop(As);
            DenseBFunctor<Real> bop(Bs);
            Spectra::SymGEigsSolver<vf::FunctorOp<Real>, DenseBFunctor<Real>, Spectra::GEigsMode::RegularInverse> eigs(aop, bop, nev, ncv);
            run_observed<Real>(eigs, d, c, fo, n, vf::SYM_RULES, 5, dflt);
        }
        else
        {
            // generalized eigenvalues of (A, B) to place sigma
            Eigen::GeneralizedSelfAdjointEigenSolver<MatL> ges(Ar / R.scale, B, Eigen::EigenvaluesOnly);
            VecL ev = ges.eigenvalues() * R.scale;
            ld spread = std::max(ev[n - 1] - ev[0], (std::abs(ev[0]) + std::abs(ev[n - 1])) * (ld) 1e-3);
            ld sig = d.flag("sigma_below") ? ev[0] - spread / 10 : ev[n - 1] + spread / 10;
            Real sigma = (Real) sig;
            MatL M = Ar - (ld) sigma * B;
            MatL OPl = M.inverse() * B;
            fo.OP = vf::widen(OPl);
            fo.set_norm_from_OP();
            Eigen::JacobiSVD<MatL> svd(M);
            ld condM = svd.singularValues()[0] / svd.singularValues()[n - 1];
            fo.op_err_factor = std::max((ld) 1, condM);
            os << " sigma=" << vf::num(sigma) << " cond(A-sB)=" << vf::num(condM);
            c.add_desc(os.str());
            PencilShiftFunctor<Real> aop(As, Bs);
            DenseBFunctor<Real> bop(Bs);
            Spectra::SymGEigsShiftSolver<PencilShiftFunctor<Real>, DenseBFunctor<Real>, Spectra::GEigsMode::ShiftInvert> eigs(aop, bop, nev, ncv, sigma);
            run_observed<Real>(eigs, d, c, fo, n, vf::SYM_RULES, 5, dflt);
        }
    }
    finish(fo, c, "observed");
}

static void run_case(vf::Draw& d, vf::Case& c)
{
    if (d.range("mode", 0, 1) == 0)
        direct_case(d, c);
    else
        observed_case(d, c);
    if (const char* p = std::getenv("VF_DUMP_HIGH"))
        if (c.f("worst_orth") > 30)
            d.save(p, "high ratio case");
}

// KF-C07-DRIFT: in a stagnating restarted Arnoldi run the deviation of V^H V from I grows geometrically with the
// number of implicit restarts (restart vectors V*Q are never re-normalised and the DGKS test skips the
// re-orthogonalisation that would notice); signature: orthonormality of the Arnoldi (general) family after >= 10 restarts.
static std::string match(const vf::Violation& v, const vf::Case& c)
{
    if ((v.kind == "orthonormality" || v.kind == "residual_orthogonality") && c.f("arnoldi") > 0 && c.f("restarts_at_failure") >= 10)
        return "arnoldi_orthogonality_drift";
    // KF-C07-FLOAT: single precision only: a residual whose norm is below ~1e-19 (its square underflows in the unscaled
    // Eigen norm()) is normalised with a wrong norm, so the next basis vector does not have unit length
    if ((v.kind == "orthonormality" || v.kind == "residual_orthogonality" || v.kind == "f_norm") && c.f("single_precision") > 0 &&
        (c.f("min_pos_beta") < 1e-18 || (c.feat.count("start_nullspace_ratio") && c.f("start_nullspace_ratio") < 1e-12)))
        return "float_norm_underflow";
    return "";
}

int main(int argc, char** argv)
{
    return vf::run_main(argc, argv, "C07", run_case, match);
}
