// C17, second unit - LOBPCG on one solver object whose pencil is CHANGED between compute() calls: setB(B') (and optionally
// setPreconditioner) after a first compute(), then compute() again, up to three rounds. The statement is about "the symmetric pencil
// (A, B) (B = I if none was set)": after every compute() that reports Success the results must describe the pencil that is in force
// at that call - the k smallest eigenvalues of (A, B_current) in ascending order, an n-by-k X with X' B_current X = I,
// residuals() == A X - B_current X diag(lambda) with column norms below tol*n. Anything the object keeps from an earlier call (cached
// products with the old B, an old Gram matrix, a stale status) makes the second round answer for the wrong pencil.
// The main unit (c17_lobpcg.cpp) covers the input space of a single pencil; this one covers setter / compute histories on benign inputs
// (well separated small eigenvalues, kappa(B) <= 10, no or diagonal preconditioner, every round changes B so that no round starts from a
// converged iterate of its own pencil - that regime belongs to the open finding KF-C17-3 and is exercised by the main unit).
#include "vf/eigen_assert.hpp"
#include <Eigen/Core>
#include <Eigen/Sparse>
#include <Eigen/Eigenvalues>
#include "vf/oracle.hpp"
#include "vf/gen.hpp"
#include "vf/solverkit.hpp"
#include "vf/runner.hpp"
#include <Spectra/contrib/LOBPCGSolver.h>

typedef double Real;
using vf::ld;
using vf::MatL;
using vf::VecL;
using vf::Index;
typedef Eigen::Matrix<Real, Eigen::Dynamic, Eigen::Dynamic> Mat;
typedef Eigen::SparseMatrix<Real> SpMat;

static const ld EPS = std::numeric_limits<Real>::epsilon();

static MatL round_sym(const MatL& M)
{
    Mat Ms = M.cast<Real>();
    MatL R = Ms.cast<ld>();
    for (Index j = 0; j < R.cols(); j++)
        for (Index i = j + 1; i < R.rows(); i++)
            R(j, i) = R(i, j);
    return R;
}

static void run_case(vf::Draw& d, vf::Case& c)
{
    const Index k = (Index) d.dim("k", 1, 4);
    const Index n = (Index) d.dim("n", 5 * k + 1, 5 * k + 20);
    vf::Lcg g((uint64_t) d.range("content_seed", 0, 65535));
    // A: k + 1 small eigenvalues spaced by >= 10 % of their spread, the others well above
    VecL ev(n);
    {
        ld x = (ld) 0.2 + g.u() / 8;
        for (Index i = 0; i <= k && i < n; i++)
        {
            ev[i] = x;
            x += (ld) 0.15 + (g.u() + (ld) 0.5) / 8;
        }
        for (Index i = k + 1; i < n; i++)
            ev[i] = (ld) 3 + (ld) 2 * (g.u() + (ld) 0.5) + (ld) i / (ld) n;
    }
    const bool indefinite = d.flag("indefinite");
    if (indefinite)
        for (Index i = 0; i < n; i++)
            ev[i] -= 1;
    MatL A = round_sym(vf::sym_from_spectrum(ev, vf::random_orthogonal(n, g)));
    // three different SPD matrices with eigenvalues in [1, kappa], kappa <= 10; index 0 stands for "B never set" (identity)
    std::vector<MatL> Bs(4);
    Bs[0] = MatL::Identity(n, n);
    for (int j = 1; j <= 3; j++)
    {
        const ld kappa = (ld) 1 + (ld) d.range("kappa_B_minus_1", 1, 9);
        VecL bev(n);
        for (Index i = 0; i < n; i++)
            bev[i] = 1 + (kappa - 1) * (g.u() + 1) / 2;  // u() is uniform in (-1, 1)
        bev[0] = 1;
        bev[n - 1] = kappa;
        Bs[j] = round_sym(vf::sym_from_spectrum(bev, vf::random_orthogonal(n, g)));
    }
    Mat X0(n, k);
    for (Index j = 0; j < k; j++)
        for (Index i = 0; i < n; i++)
            X0(i, j) = (Real) g.u();
    const int rounds = (int) d.range("rounds", 2, 3);
    const bool first_has_B = d.flag("B_set_before_first_compute");
    const bool use_prec = d.flag("diagonal_preconditioner");
    const bool prec_reset_between = use_prec && d.flag("preconditioner_set_again_between");
    const int maxit_kind = (int) d.range("maxit_kind", 0, 2);
    const Real tol = (Real) std::pow(10.0, -(double) d.range("tol_exp", 5, 8));

    std::ostringstream os;
    os << "LOBPCGSolver<double> n=" << n << " k=" << k << (indefinite ? " indefinite A" : " positive definite A") << (use_prec ? " diagonal preconditioner" : "") << " tol=" << vf::num(tol) << " history:";
    SpMat Asp = vf::to_sparse<Real>(Mat(A.cast<Real>())), Xsp = vf::to_sparse<Real>(X0);
    Spectra::LOBPCGSolver<Real> solver(Asp, Xsp);
    SpMat Tsp;
    if (use_prec)
    {
        Mat T = Mat::Zero(n, n);
        for (Index i = 0; i < n; i++)
            T(i, i) = (Real) (1 / std::max((ld) 0.25, std::abs(A(i, i))));
        Tsp = vf::to_sparse<Real>(T);
        solver.setPreconditioner(Tsp);
    }
    int cur = 0;  // index into Bs of the matrix in force
    int successes = 0, successes_after_change = 0;
    std::vector<std::string> pending_desc;
    for (int r = 0; r < rounds; r++)
    {
        if (r == 0)
        {
            if (first_has_B)
            {
                cur = 1;
                SpMat Bsp = vf::to_sparse<Real>(Mat(Bs[1].cast<Real>()));
                solver.setB(Bsp);
                os << " setB(B1);";
            }
        }
        else
        {
            // every later round changes the pencil
            cur = (cur == 0) ? 1 + (int) d.range("next_B", 0, 2) : 1 + ((cur - 1 + 1 + (int) d.range("next_B_step", 0, 1)) % 3);
            SpMat Bsp = vf::to_sparse<Real>(Mat(Bs[cur].cast<Real>()));
            solver.setB(Bsp);
            os << " setB(B" << cur << ");";
            if (prec_reset_between)
            {
                solver.setPreconditioner(Tsp);
                os << " setPreconditioner(T);";
            }
        }
        const int maxit = maxit_kind == 0 ? (int) n : (maxit_kind == 1 ? (int) (2 * n) : 200);
        os << " compute(" << maxit << ");";
        bool threw = false;
        std::string what;
        try
        {
            solver.compute(maxit, tol);
        }
        catch (const std::invalid_argument& e)
        {
            threw = true;
            what = std::string("invalid_argument: ") + e.what();
        }
        catch (const std::runtime_error& e)
        {
            threw = true;
            what = std::string("runtime_error: ") + e.what();
        }
        if (threw)
        {
            c.cls("compute_threw: " + what);
            os << "[threw]";
            VF_CHECK(solver.info() != Eigen::Success, "status_after_exception", "round " << r << ": compute() left by an exception (" << what << ") but info()==Success");
            break;
        }
        if (solver.info() != Eigen::Success)
        {
            os << "[not converged]";
            c.cls("round_not_successful");
            continue;
        }
        os << "[Success]";
        successes++;
        if (r > 0)
            successes_after_change++;
        c.desc = os.str();
        // ---- oracle for the pencil (A, Bs[cur]) ----
        const MatL& B = Bs[cur];
        Eigen::GeneralizedSelfAdjointEigenSolver<MatL> ges(A, B, Eigen::EigenvaluesOnly | Eigen::Ax_lBx);
        VecL lam = ges.eigenvalues();
        const ld spread = lam[n - 1] - lam[0];
        Eigen::SelfAdjointEigenSolver<MatL> bes(B, Eigen::EigenvaluesOnly);
        const ld lminB = bes.eigenvalues()[0], lmaxB = bes.eigenvalues()[n - 1];
        auto evals = solver.eigenvalues();
        auto X = solver.eigenvectors();
        auto Rs = solver.residuals();
        VF_CHECK(evals.size() == k, "eigenvalues_shape", "round " << r << ": eigenvalues() has " << evals.size() << " entries, k = " << k);
        VF_CHECK(X.rows() == n && X.cols() == k, "eigenvectors_shape", "round " << r << ": eigenvectors() is " << X.rows() << "x" << X.cols() << ", expected " << n << "x" << k);
        VF_CHECK(Rs.rows() == n && Rs.cols() == k, "residuals_shape", "round " << r << ": residuals() is " << Rs.rows() << "x" << Rs.cols());
        VecL th = evals.template cast<ld>();
        MatL Xl = X.template cast<ld>(), Rl = Rs.template cast<ld>();
        VF_CHECK(vf::all_finite(th) && vf::all_finite(Xl) && vf::all_finite(Rl), "nonfinite", "round " << r << ": NaN/Inf in the results of a successful compute()");
        // the solver's own criterion is absolute: column norm of the residual < tol * n; an eigenvalue then errs by at most ||r|| / sqrt(lambda_min(B)) / ||x||_B
        const ld tolv = (ld) 1e-6 * spread + 100 * (ld) tol * (ld) n / std::sqrt(lminB);
        // Features for the open finding KF-C17-7 (LOBPCG stopped by its residual criterion at an eigenpair that is not among the smallest):
        // every returned value is a genuine eigenvalue of the pencil IN FORCE and the true residual A X - B_current X diag(theta) meets the
        // solver's own criterion (column norms below tol * n). An answer that describes another pencil (stale B, stale products) has
        // neither property, so it is never absorbed by that finding.
        {
            bool in_spec = true;
            for (Index i = 0; i < k; i++)
            {
                ld best = std::numeric_limits<ld>::infinity();
                for (Index j = 0; j < n; j++)
                    best = std::min(best, std::abs(th[i] - lam[j]));
                if (!(best <= tolv))
                    in_spec = false;
            }
            MatL TR = A * Xl - B * Xl * th.asDiagonal();
            ld worst = 0;
            for (Index i = 0; i < k; i++)
                worst = std::max(worst, TR.col(i).norm());
            c.feat["r.all_in_spectrum_of_pencil_in_force"] = in_spec ? 1 : 0;
            c.feat["r.true_residual_over_criterion"] = (double) (worst / ((ld) tol * (ld) n));
        }
        for (Index i = 0; i < k; i++)
        {
            if (i + 1 < k)
                VF_CHECK(th[i] <= th[i + 1] + tolv, "order", "round " << r << " (B" << cur << "): eigenvalues not ascending: " << vf::num(th[i]) << " before " << vf::num(th[i + 1]));
            VF_CHECK(std::abs(th[i] - lam[i]) <= tolv, "not_the_smallest",
                     "round " << r << " (pencil (A, B" << cur << ") in force" << (r > 0 ? ", set after an earlier compute()" : "") << "): Success but eigenvalue " << i << " = " << vf::num(th[i]) << ", the " << i
                              << "-th smallest eigenvalue of the pencil is " << vf::num(lam[i]) << " (tolerance " << vf::num(tolv) << ")");
        }
        // X' B X = I: asserted loosely here (1e-3) - the main unit owns the rounding-level statement and the open finding about it
        MatL G = Xl.transpose() * B * Xl - MatL::Identity(k, k);
        VF_CHECK(vf::maxabs(G) <= (ld) 1e-3, "not_B_orthonormal", "round " << r << " (B" << cur << "): Success but max|X' B X - I| = " << vf::num(vf::maxabs(G)) << " for the matrix B that is in force");
        vf::report().stat("max|X'BX - I| on Success", (double) vf::maxabs(G));
        // residuals() is A X - B X diag(lambda) for the pencil in force, and every column is below tol * n
        MatL Rref = A * Xl - B * Xl * th.asDiagonal();
        const ld rbound = 64 * (ld) n * EPS * (vf::fro_scaled(A) + std::max(std::abs(th[0]), std::abs(th[k - 1])) * lmaxB * std::sqrt((ld) n)) * std::max((ld) 1, vf::fro_scaled(Xl));
        VF_CHECK(vf::maxabs(MatL(Rl - Rref)) <= rbound, "residual_identity",
                 "round " << r << " (B" << cur << "): residuals() differs from A X - B X diag(lambda) by " << vf::num(vf::maxabs(MatL(Rl - Rref))) << " > " << vf::num(rbound));
        for (Index j = 0; j < k; j++)
            VF_CHECK(Rref.col(j).norm() <= (ld) tol * (ld) n + rbound, "residual_norm", "round " << r << " (B" << cur << "): Success but ||A x - lambda B x|| = " << vf::num(Rref.col(j).norm()) << " for column " << j << " >= tol*n = " << vf::num((ld) tol * (ld) n));
    }
    c.desc = os.str();
    c.cls(std::string("k=") + std::to_string((long) k));
    if (successes_after_change > 0)
    {
        c.nontrivial = true;
        c.cls("Success_after_setB_between_computes");
    }
    if (successes > 0)
        c.cls("some_round_successful");
    if (first_has_B)
        c.cls("B_set_before_first_compute");
    if (use_prec)
        c.cls("with_preconditioner");
}

// KF-C17-7 as it shows in this unit: Success with genuine eigenvalues of the pencil in force whose true residuals (with the B in force) meet
// the solver's own criterion, but not the k smallest ones (see the main unit for the mechanism). Everything else is reported.
static std::string match(const vf::Violation& v, const vf::Case& c)
{
    if (v.kind == "not_the_smallest" && c.f("r.all_in_spectrum_of_pencil_in_force") > 0 && c.f("r.true_residual_over_criterion", 1e30) <= 1.0)
        return "lobpcg_stopped_at_interior_eigenpair";
    return "";
}

int main(int argc, char** argv)
{
    return vf::run_main(argc, argv, "C17", run_case, match);
}
