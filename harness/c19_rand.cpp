// C19 - internal random generator: exact Park-Miller sequence, range, non-degenerate states,
// purity (no hidden global / time / address dependent state).
// Layers: (1) enumeration of generator states (all 2^31-2 in thorough, strided in quick) against
// 64-bit modular arithmetic; (2) every seed form the library generates (0, 2i+123j);
// (3) rapidcheck: recipe-drawn scalar type, seed, draw counts, interleavings of several generator
// objects and threads, compared with a reference model written here.
#include "vf/eigen_assert.hpp"
#include <Eigen/Core>
#include <Spectra/Util/SimpleRandom.h>
#include <Spectra/SymEigsSolver.h>
#include <Spectra/HermEigsSolver.h>
#include <Spectra/GenEigsSolver.h>
#include "vf/runner.hpp"
#include <complex>
#include <thread>
#include <cstring>

static const uint64_t M = 2147483647ULL;  // 2^31 - 1
static inline uint64_t ref_next(uint64_t s) { return (16807ULL * s) % M; }
static inline uint64_t ref_init(unsigned long seed) { return seed ? (uint64_t)(seed & M) : 1ULL; }

template <typename T>
static bool biteq(const T& a, const T& b)
{
    return std::memcmp(&a, &b, sizeof(T)) == 0;
}
// long double has padding bytes: compare values (no NaN can occur here)
static bool biteq(const long double& a, const long double& b) { return a == b && std::signbit(a) == std::signbit(b); }
static bool biteq(const std::complex<long double>& a, const std::complex<long double>& b)
{
    return biteq(a.real(), b.real()) && biteq(a.imag(), b.imag());
}

template <typename R>
static R ref_scalar(uint64_t state)
{
    return R((long) state) / R((unsigned long) M) - R(0.5);
}

// reference model of one generator object
template <typename Scalar>
struct Model
{
    typedef typename Eigen::NumTraits<Scalar>::Real Real;
    uint64_t s;
    explicit Model(unsigned long seed) :
        s(ref_init(seed)) {}
    Scalar draw() { return draw_impl((Scalar*) nullptr); }

private:
    template <typename T>
    T draw_impl(T*)
    {
        s = ref_next(s);
        return ref_scalar<T>(s);
    }
    template <typename T>
    std::complex<T> draw_impl(std::complex<T>*)
    {
        s = ref_next(s);
        T re = ref_scalar<T>(s);
        s = ref_next(s);
        T im = ref_scalar<T>(s);
        return std::complex<T>(re, im);
    }
};

template <typename T>
static bool in_range(const T& x)
{
    return x >= T(-0.5) && x <= T(0.5);
}
template <typename T>
static bool in_range(const std::complex<T>& x)
{
    return in_range(x.real()) && in_range(x.imag());
}

static const char* TYPE_NAMES[6] = {"float", "double", "long double", "complex<float>", "complex<double>", "complex<long double>"};

// One history: several generator objects of one scalar type, each with its own seed; a drawn
// interleaving of single draws / vector draws; every value compared with the model of that object.
template <typename Scalar>
static void history(vf::Draw& d, vf::Case& c, int type)
{
    typedef Eigen::Matrix<Scalar, Eigen::Dynamic, 1> Vector;
    int nobj = (int) d.range("nobj", 1, 4);
    std::vector<Spectra::SimpleRandom<Scalar>> objs;
    std::vector<Model<Scalar>> models;
    std::ostringstream os;
    os << TYPE_NAMES[type] << " objs=" << nobj << " seeds=[";
    bool degenerate = false;
    for (int k = 0; k < nobj; k++)
    {
        int form = (int) d.range("seedform", 0, 3);
        unsigned long seed;
        if (form == 0)
            seed = 0;
        else if (form == 1)  // the form used by Arnoldi::expand_basis: 2*i + 123*iter
            seed = 2UL * (unsigned long) d.range("i", 0, 4000) + 123UL * (unsigned long) d.range("iter", 0, 4);
        else if (form == 2)
            seed = (unsigned long) d.range("seed31", 1, (long) M - 1);
        else  // bits above 2^31 are masked away by the constructor
            seed = ((unsigned long) d.range("hi", 0, 1 << 20) << 31) | (unsigned long) d.range("seed31", 1, (long) M - 1);
        os << seed << (k + 1 < nobj ? "," : "");
        objs.emplace_back(seed);
        models.emplace_back(seed);
        if (models.back().s == 0 || models.back().s == M)
            degenerate = true;
    }
    os << "]";
    int nops = (int) d.dim("nops", 1, 40);
    os << " ops=" << nops;
    c.add_desc(os.str());
    c.cls(TYPE_NAMES[type]);
    if (degenerate)
    {
        c.rejected = true;
        return;
    }
    bool interleaved = false;
    int last = -1;
    long draws = 0;
    for (int op = 0; op < nops; op++)
    {
        int k = (int) d.range("obj", 0, nobj - 1);
        if (last >= 0 && k != last)
            interleaved = true;
        last = k;
        int kind = (int) d.range("kind", 0, 2);
        if (kind == 0)
        {
            Scalar got = objs[k].random();
            Scalar want = models[k].draw();
            draws++;
            VF_CHECK(biteq(got, want), "sequence", "object " << k << " draw " << draws << " got " << got << " want " << want);
            VF_CHECK(in_range(got), "range", "draw " << got << " outside [-0.5,0.5]");
        }
        else
        {
            Eigen::Index len = (Eigen::Index) d.range("len", 0, 17);
            Vector v;
            if (kind == 1)
                v = objs[k].random_vec(len);
            else
            {
                v.resize(len);
                objs[k].random_vec(v);
            }
            VF_CHECK(v.size() == len, "veclen", "random_vec(" << len << ") returned " << v.size());
            for (Eigen::Index i = 0; i < len; i++)
            {
                Scalar want = models[k].draw();
                draws++;
                VF_CHECK(biteq(v[i], want), "sequence_vec", "object " << k << " element " << i << " got " << v[i] << " want " << want);
                VF_CHECK(in_range(v[i]), "range", "draw " << v[i] << " outside [-0.5,0.5]");
            }
        }
        VF_CHECK(models[k].s >= 1 && models[k].s <= M - 1, "degenerate_state", "state " << models[k].s);
    }
    c.nontrivial = draws >= 2;
    if (interleaved)
        c.cls("interleaved_objects");
    c.feat["draws"] = (double) draws;
}

// Threads: T threads each own a generator (same or different seeds) and draw concurrently; each
// thread's sequence must equal the sequential model (no shared state).
static void threads_case(vf::Draw& d, vf::Case& c)
{
    int nt = (int) d.range("threads", 2, 8);
    int nd = (int) d.range("draws", 1, 300);
    bool same = d.flag("same_seed");
    std::vector<unsigned long> seeds(nt);
    for (int t = 0; t < nt; t++)
        seeds[t] = same ? 0UL : (unsigned long) (2 * t + 123 * (t % 5));
    std::vector<int> bad(nt, 0);
    std::vector<std::thread> th;
    for (int t = 0; t < nt; t++)
        th.emplace_back([&, t]() {
            Spectra::SimpleRandom<double> g(seeds[t]);
            Model<double> m(seeds[t]);
            for (int i = 0; i < nd; i++)
            {
                double a = g.random(), b = m.draw();
                if (!biteq(a, b))
                    bad[t]++;
            }
        });
    for (auto& x : th)
        x.join();
    std::ostringstream os;
    os << "threads=" << nt << " draws=" << nd << (same ? " same seed" : " library seeds");
    c.add_desc(os.str());
    c.cls("threads");
    c.nontrivial = true;
    for (int t = 0; t < nt; t++)
        VF_CHECK(bad[t] == 0, "thread_sequence", "thread " << t << ": " << bad[t] << " of " << nd << " draws differ from the sequential model");
}

// Direct state check through the free function, the form the enumeration layer uses.
static void state_case(vf::Draw& d, vf::Case& c)
{
    long s = d.range("state", 1, (long) M - 1);
    long got = Spectra::next_long_rand(s);
    uint64_t want = ref_next((uint64_t) s);
    std::ostringstream os;
    os << "next_long_rand(" << s << ")";
    c.add_desc(os.str());
    c.cls("state");
    // Schrage-style split carries when the low partial product exceeds 2^31-1
    c.nontrivial = (16807ULL * ((uint64_t) s & 0xFFFF) + (((16807ULL * ((uint64_t) s >> 16)) & 0x7FFF) << 16)) > M;
    VF_CHECK((uint64_t) got == want, "park_miller", "next_long_rand(" << s << ") = " << got << ", 16807*s mod (2^31-1) = " << want);
    VF_CHECK(got >= 1 && got <= (long) M - 1, "degenerate_state", "state " << got);
}

// "Hence default-initialised solvers are reproducible across runs, platforms and threads": the start vector that init() (no argument) hands to
// the operator is recorded for solvers of a drawn size in the calling thread and in threads started one after another and concurrently.
// All recordings of one (solver class, n) must be bit-identical. Which seed the library uses is its own business (not asserted).
template <typename S>
struct RecordingOp
{
    using Scalar = S;
    Eigen::Index n;
    mutable std::vector<S> first;
    mutable bool have = false;
    Eigen::Index rows() const { return n; }
    Eigen::Index cols() const { return n; }
    void perform_op(const S* x, S* y) const
    {
        if (!have)
        {
            first.assign(x, x + n);
            have = true;
        }
        for (Eigen::Index i = 0; i < n; i++)
            y[i] = x[i] * S(typename Eigen::NumTraits<S>::Real(1 + i % 5));
    }
};
template <typename S, typename MakeAndInit>
static std::vector<S> default_start(Eigen::Index n, MakeAndInit mk)
{
    RecordingOp<S> op;
    op.n = n;
    mk(op);
    return op.first;
}
template <typename S, typename MakeAndInit>
static void default_start_case(vf::Draw& d, vf::Case& c, const char* name, MakeAndInit mk)
{
    const Eigen::Index n = (Eigen::Index) d.range("n", 4, 40);
    const Eigen::Index n_other = (Eigen::Index) d.range("n_other", 4, 60);
    const int nthreads = (int) d.range("threads", 1, 4);
    const bool concurrent = d.flag("concurrent");
    {
        std::ostringstream os;
        os << "default start vector of " << name << " n=" << n << ", " << nthreads << (concurrent ? " concurrent" : " consecutive") << " thread(s), another solver of size " << n_other << " initialised in between";
        c.add_desc(os.str());
    }
    c.cls("default_start_vector");
    c.cls(std::string("default_start_vector/") + name);
    c.nontrivial = true;
    std::vector<S> base = default_start<S>(n, mk);
    VF_CHECK((Eigen::Index) base.size() == n, "default_start_not_seen", name << ": init() did not apply the operator");
    std::vector<std::vector<S>> got((size_t) nthreads);
    auto job = [&](int t) {
        (void) default_start<S>(n_other, mk);   // another size first: a cached prefix / shared generator would show
        got[(size_t) t] = default_start<S>(n, mk);
    };
    if (concurrent)
    {
        std::vector<std::thread> th;
        for (int t = 0; t < nthreads; t++)
            th.emplace_back(job, t);
        for (auto& x : th)
            x.join();
    }
    else
        for (int t = 0; t < nthreads; t++)
        {
            std::thread x(job, t);
            x.join();
        }
    std::vector<S> again = default_start<S>(n, mk);
    got.push_back(again);
    for (size_t t = 0; t < got.size(); t++)
    {
        bool same = got[t].size() == base.size() && std::memcmp(got[t].data(), base.data(), base.size() * sizeof(S)) == 0;
        VF_CHECK(same, "default_start_not_reproducible", name << " n=" << n << ": the default start vector " << (t + 1 == got.size() ? "of a later call in the calling thread" : "in another thread")
                                                               << " differs from the one of the first call (hidden global / per-thread generator state)");
    }
}
static void default_start_dispatch(vf::Draw& d, vf::Case& c)
{
    int k = (int) d.range("solver", 0, 3);
    switch (k)
    {
        case 0:
            return default_start_case<double>(d, c, "SymEigsSolver<double>", [](RecordingOp<double>& op) { Spectra::SymEigsSolver<RecordingOp<double>> e(op, 1, 3); e.init(); });
        case 1:
            return default_start_case<float>(d, c, "SymEigsSolver<float>", [](RecordingOp<float>& op) { Spectra::SymEigsSolver<RecordingOp<float>> e(op, 1, 3); e.init(); });
        case 2:
            return default_start_case<std::complex<double>>(d, c, "HermEigsSolver<complex<double>>", [](RecordingOp<std::complex<double>>& op) { Spectra::HermEigsSolver<RecordingOp<std::complex<double>>> e(op, 1, 3); e.init(); });
        default:
            return default_start_case<double>(d, c, "GenEigsSolver<double>", [](RecordingOp<double>& op) { Spectra::GenEigsSolver<RecordingOp<double>> e(op, 1, 4); e.init(); });
    }
}

static void run_case(vf::Draw& d, vf::Case& c)
{
    int mode = (int) d.range("mode", 0, 3);
    if (mode == 1)
        return state_case(d, c);
    if (mode == 2)
        return threads_case(d, c);
    if (mode == 3)
        return default_start_dispatch(d, c);
    int type = (int) d.range("type", 0, 5);
    switch (type)
    {
        case 0: return history<float>(d, c, type);
        case 1: return history<double>(d, c, type);
        case 2: return history<long double>(d, c, type);
        case 3: return history<std::complex<float>>(d, c, type);
        case 4: return history<std::complex<double>>(d, c, type);
        default: return history<std::complex<long double>>(d, c, type);
    }
}

static int fail_state(long s, const std::string& msg)
{
    vf::report().violations++;
    vf::report().violation_msgs.push_back(msg);
    if (!vf::options().failtape.empty())
    {
        vf::TapeDraw d(std::vector<long>{1, s});
        vf::Case c;
        try
        {
            run_case(d, c);
        }
        catch (...)
        {
        }
        d.save(vf::options().failtape, "C19 " + msg);
    }
    return 1;
}

// Enumeration layer: states lo..hi step `stride` through next_long_rand, plus the float/double/long double
// mapping at each visited state (RandomScalar), plus all library seed forms.
static int enumerate(long part, long parts, long stride)
{
    long total = (long) M - 1;  // states 1 .. M-1
    long per = (total + parts - 1) / parts;
    long lo = 1 + part * per, hi = std::min<long>((long) M - 1, lo + per - 1);
    long count = 0, carries = 0;
    auto visit = [&](long s) -> int {
        long got = Spectra::next_long_rand(s);
        uint64_t want = ref_next((uint64_t) s);
        count++;
        if ((16807ULL * ((uint64_t) s & 0xFFFF) + (((16807ULL * ((uint64_t) s >> 16)) & 0x7FFF) << 16)) > M)
            carries++;
        if ((uint64_t) got != want || got < 1 || got > (long) M - 1)
            return fail_state(s, "park_miller: next_long_rand(" + std::to_string(s) + ") = " + std::to_string(got) + ", expected " + std::to_string(want));
        // scalar mapping at this state (the draw that follows state s)
        long st = s;
        double x = Spectra::RandomScalar<double>::run(st);
        if (st != (long) want || !biteq(x, ref_scalar<double>(want)) || !(x >= -0.5 && x <= 0.5))
            return fail_state(s, "scalar_map<double> at state " + std::to_string(s));
        st = s;
        float xf = Spectra::RandomScalar<float>::run(st);
        if (st != (long) want || !biteq(xf, ref_scalar<float>(want)) || !(xf >= -0.5f && xf <= 0.5f))
            return fail_state(s, "scalar_map<float> at state " + std::to_string(s));
        return 0;
    };
    for (long s = lo; s <= hi; s += stride)
        if (visit(s))
            return 1;
    if (part == 0)
    {
        for (long s = 1; s <= 64; s++)
            if (visit(s) || visit((long) M - s))
                return 1;
        // every seed the library can generate: 0 (solver default start vector) and 2*i + 123*iter
        long nseeds = 0;
        for (long i = 0; i < (1L << 20); i++)
            for (long j = 0; j < 5; j++)
            {
                unsigned long seed = (unsigned long) (2 * i + 123 * j);
                Spectra::SimpleRandom<double> g(seed);
                uint64_t s = ref_init(seed);
                if (s < 1 || s > M - 1)
                    return fail_state((long) s, "library seed " + std::to_string(seed) + " gives a degenerate initial state");
                for (int k = 0; k < 3; k++)
                {
                    s = ref_next(s);
                    double x = g.random();
                    if (!biteq(x, ref_scalar<double>(s)) || s < 1 || s > M - 1)
                        return fail_state((long) s, "library seed " + std::to_string(seed) + " draw " + std::to_string(k) + " differs from the model");
                }
                nseeds++;
            }
        vf::report().notes["library_seeds"] = std::to_string(nseeds) + " seeds of the forms 0 and 2i+123j (i<2^20, j<5), 3 draws each, compared with the model";
        count += nseeds;
        vf::report().classes["library_seed_form"] += nseeds;
    }
    vf::report().evaluations += count;
    vf::report().enumerated_nontrivial += carries;
    vf::report().classes["enumerated_state"] += count;
    vf::report().classes["enumerated_state_with_carry"] += carries;
    vf::report().notes["enumeration"] = "states " + std::to_string(lo) + ".." + std::to_string(hi) + " stride " + std::to_string(stride) + " (" + std::to_string(count) + " visited)";
    vf::report().samples.push_back("next_long_rand(" + std::to_string(lo) + ") .. next_long_rand(" + std::to_string(hi) + ") stride " + std::to_string(stride) + ", each compared with 16807*s mod (2^31-1) and with the float/double scalar map");
    vf::report().exhaustive = (stride == 1);
    return 0;
}

int main(int argc, char** argv)
{
    vf::parse_args(argc, argv);
    if (vf::options().replay.empty())
    {
        long stride = vf::options().geti("stride", 127);
        if (stride > 0 && enumerate(vf::options().geti("exh_part", 0), vf::options().geti("exh_parts", 1), stride))
        {
            vf::write_out("C19");
            return 1;
        }
    }
    return vf::run_main(argc, argv, "C19", run_case);
}
