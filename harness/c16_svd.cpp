// C16 - PartialSVDSolver returns the leading singular triplets with orthonormal factors, for tall / wide / square,
// dense (column / row major, block of a larger matrix) and sparse (column / row major) inputs, under histories of
// compute() calls with matrix_U / matrix_V calls in between. One translation unit per real scalar type (VF_REAL).
//
// How the tolerances are derived (nothing is guessed): the solver runs SymEigsSolver(LargestAlge, maxit, tol) on the
// Gram operator G = B'B with B = A (tall, m > n) or B = A' (wide and square). A returned eigenpair (theta, x) of G
// satisfies the documented SymEigsSolver test plus rounding (same shape and constant as C01):
//     ||G x - theta x|| <= delta := tol * max(eps^(2/3), theta) + 64 (m+n) eps (1+r) ||A||_F^2 ,   r = restarts,
//     max|X'X - I| <= 64 p eps (1+r),  p = min(m,n).
// The solver then reports sigma = sqrt(theta) and the other factor y = B x / sigma. Hence, exactly,
//     |sigma - s|        = |theta - s^2| / (sigma + s) <= delta / (sigma + s)      for the matched singular value s of A,
//     B x - sigma y      = rounding of one product          <= 64 (m+n) eps ||A||,
//     B'y - sigma x      = (G x - theta x) / sigma          <= delta / sigma + 64 (m+n) eps ||A||,
//     y_i'y_j - [i==j]   = (theta_j (x_i'x_j - [i==j]) + x_i'r_j) / (sigma_i sigma_j)
//                        <= orth * sigma_j/sigma_i + delta_j / (sigma_i sigma_j)   (and the same with i, j exchanged).
// The factor identities are asserted for singular values >= 1e-4 ||A||_F (as the property says); finiteness,
// non-negativity and ordering of the singular values for every input including exactly rank-deficient ones.
// Every returned value must be a singular value of A, with multiplicity (order-preserving injective matching into a long double
// JacobiSVD reference); that they are the LARGEST ones is asserted when ncv = min(m,n) (complete factorization) or when the leading
// values are well separated and above the absolute eps^(2/3) floor of the inner convergence test (see drive()).
// "Describes the most recent compute()": after every factor request a fresh solver object is run with the arguments of the last
// compute() (which re-initialises with a fixed seed, so the run is deterministic) and must return bit-identical factors.
#include "vf/eigen_assert.hpp"
#include <Eigen/Core>
#include <Eigen/Sparse>
#include <Eigen/SVD>
#include <Spectra/contrib/PartialSVDSolver.h>
#include "vf/oracle.hpp"
#include "vf/solverkit.hpp"
#include "vf/runner.hpp"

#ifndef VF_REAL
#define VF_REAL double
#endif
typedef VF_REAL Real;
using vf::ld;
using vf::MatL;
using vf::VecL;
using vf::Index;

static const ld CTOL = 64;
static const ld EPS = (ld) std::numeric_limits<Real>::epsilon();
static const ld SIG_FLOOR = (ld) 1e-4;  // factor identities for singular values >= SIG_FLOOR * ||A||_F

typedef Eigen::Matrix<Real, Eigen::Dynamic, Eigen::Dynamic, Eigen::ColMajor> DenseCol;
typedef Eigen::Matrix<Real, Eigen::Dynamic, Eigen::Dynamic, Eigen::RowMajor> DenseRow;
typedef Eigen::SparseMatrix<Real, Eigen::ColMajor> SparseCol;
typedef Eigen::SparseMatrix<Real, Eigen::RowMajor> SparseRow;
typedef Eigen::Matrix<Real, Eigen::Dynamic, 1> VecR;

// ---------------------------------------------------------------------------------------------------------
// Matrix recipe: A (m x n) in the user's scaling, exactly representable in Real, with reference singular values.
struct SvdRecipe
{
    Index m = 0, n = 0, p = 0;
    int cls = 0;
    std::string name;
    long scale_exp = 0;
    MatL A;
    VecL sref;                 // reference singular values of the rounded matrix, descending (long double JacobiSVD)
    ld N = 0;                  // ||A||_F
    bool exact_deficient = false;  // rank < p by construction, in exact arithmetic
    Index exact_rank = 0;
};
static const char* const CLASS_NAMES[9] = {"small_integer", "separated", "generic_random", "exact_low_rank", "repeated", "graded", "clustered_top", "banded", "numerical_zero_tail"};

static MatL orthonormal_columns(Index rows, Index cols, vf::Lcg& g)
{
    MatL Q = vf::random_orthogonal(rows, g);
    return Q.leftCols(cols);
}

static SvdRecipe make_matrix(vf::Draw& d)
{
    SvdRecipe r;
    const Index nmax = (Index) vf::options().geti("nmax", 40);
    int shape = (int) d.range("shape", 0, 2);  // 0 square, 1 tall, 2 wide
    r.cls = (int) d.range("matrix_class", 0, 8);
    r.p = (Index) d.dim("p", 2, nmax - 1);
    Index extra = (shape == 0) ? 0 : (Index) d.dim("extra", 1, std::max<Index>(1, nmax - r.p));
    r.m = (shape == 1) ? r.p + extra : r.p;
    r.n = (shape == 2) ? r.p + extra : r.p;
    const Index m = r.m, n = r.n, p = r.p;
    vf::Lcg g((uint64_t) d.range("content_seed", 0, 65535));
    const bool single = std::is_same<Real, float>::value;
    VecL s = VecL::Zero(p);
    bool from_factors = true;
    r.A = MatL::Zero(m, n);
    switch (r.cls)
    {
        case 0:  // small integers with many zeros: rank deficiency and ties are likely for small sizes
            for (Index j = 0; j < n; j++)
                for (Index i = 0; i < m; i++)
                    r.A(i, j) = (g.below(3) == 0) ? (ld) 0 : (ld) (g.below(5) - 2);
            from_factors = false;
            break;
        case 1:  // geometrically separated
        {
            static const ld RHO[4] = {0.3L, 0.5L, 0.7L, 0.9L};
            ld rho = RHO[d.range("rho", 0, 3)];
            for (Index i = 0; i < p; i++)
                s[i] = std::pow(rho, (ld) i);
            break;
        }
        case 2:  // uniform entries (the shape of the library's own test)
            for (Index j = 0; j < n; j++)
                for (Index i = 0; i < m; i++)
                    r.A(i, j) = g.u();
            from_factors = false;
            break;
        case 3:  // exactly rank deficient: product of small-integer factors, exact in every precision
        {
            r.exact_deficient = true;
            r.exact_rank = (Index) d.range("rank", 1, p - 1);
            MatL B(m, r.exact_rank), C(r.exact_rank, n);
            for (Index j = 0; j < r.exact_rank; j++)
                for (Index i = 0; i < m; i++)
                    B(i, j) = (ld) (g.below(5) - 2);
            for (Index j = 0; j < n; j++)
                for (Index i = 0; i < r.exact_rank; i++)
                    C(i, j) = (ld) (g.below(5) - 2);
            r.A = B * C;
            from_factors = false;
            break;
        }
        case 4:  // few distinct levels with multiplicities
        {
            static const ld LEV[3] = {1.0L, 0.5L, 0.125L};
            for (Index i = 0; i < p; i++)
                s[i] = LEV[g.below(3)];
            if (d.flag("exact_multiplicity"))
            {
                // signed partial permutation times the levels: multiplicities hold exactly after rounding
                std::vector<Index> rows(m), cols(n);
                for (Index i = 0; i < m; i++)
                    rows[i] = i;
                for (Index i = 0; i < n; i++)
                    cols[i] = i;
                for (Index i = m - 1; i > 0; i--)
                    std::swap(rows[i], rows[g.below(i + 1)]);
                for (Index i = n - 1; i > 0; i--)
                    std::swap(cols[i], cols[g.below(i + 1)]);
                for (Index i = 0; i < p; i++)
                    r.A(rows[i], cols[i]) = s[i] * (g.below(2) ? 1 : -1);
                from_factors = false;
            }
            break;
        }
        case 5:  // graded over many decades (values far below 1e-4 ||A||)
        {
            static const int DEC_D[4] = {4, 8, 12, 16};
            static const int DEC_F[4] = {2, 4, 6, 8};
            int dec = (single ? DEC_F : DEC_D)[d.range("decades", 0, 3)];
            for (Index i = 0; i < p; i++)
                s[i] = std::pow((ld) 10, -(ld) dec * (ld) i / (ld) std::max<Index>(p - 1, 1));
            break;
        }
        case 6:  // a tight cluster at the top, the rest separated
        {
            long gq = d.range("cluster_gap_exp", 3, single ? 5 : 9);
            ld gap = std::pow((ld) 10, -(ld) gq);
            Index csize = std::min<Index>(p, 2 + g.below(2));
            for (Index i = 0; i < p; i++)
                s[i] = (i < csize) ? 1 - gap * (ld) i : std::pow((ld) 0.6, (ld) (i - csize + 1));
            break;
        }
        case 7:  // banded (the natural sparse input)
        {
            Index bw = 1 + g.below(2);
            for (Index j = 0; j < n; j++)
                for (Index i = 0; i < m; i++)
                    if (std::abs((long) (i - j)) <= bw)
                        r.A(i, j) = g.dy();
            from_factors = false;
            break;
        }
        default:  // separated head, exactly zero prescribed tail: zero only up to rounding of the rounded matrix
        {
            Index rk = (Index) d.range("rank", 1, p - 1);
            for (Index i = 0; i < rk; i++)
                s[i] = std::pow((ld) 0.7, (ld) i);
            break;
        }
    }
    if (from_factors)
    {
        MatL P = orthonormal_columns(m, p, g), Q = orthonormal_columns(n, p, g);
        r.A = P * s.asDiagonal() * Q.transpose();
    }
    d.scale10("scale_exp", vf::max_scale_exp<Real>());
    r.scale_exp = d.scale10_exp_last();
    r.A *= std::pow((ld) 10, (ld) r.scale_exp);
    // round to the scalar type under test
    for (Index j = 0; j < n; j++)
        for (Index i = 0; i < m; i++)
            r.A(i, j) = (ld) (Real) r.A(i, j);
    r.N = vf::fro_scaled(r.A);
    r.sref = VecL::Zero(p);
    if (r.N > 0)
    {
        Eigen::JacobiSVD<MatL> svd(r.A / r.N);
        r.sref = svd.singularValues() * r.N;
    }
    r.name = CLASS_NAMES[r.cls];
    return r;
}

// ---------------------------------------------------------------------------------------------------------
struct Args
{
    bool defaults = false;
    long maxit = 1000;
    ld tol = 1e-10L;  // as the solver sees it (rounded to Real)
};

static Args draw_args(vf::Draw& d)
{
    Args a;
    a.defaults = d.one_in("default_args", 8);
    if (a.defaults)
    {
        a.tol = (ld) (Real) 1e-10;
        return a;
    }
    a.maxit = vf::draw_maxit(d);
    a.tol = (ld) (Real) vf::draw_tol<Real>(d);
    return a;
}

template <typename Solver>
static Index call_compute(Solver& svds, const Args& a)
{
    if (a.defaults)
        return svds.compute();
    return svds.compute((Index) a.maxit, (Real) a.tol);
}

struct Bounds
{
    ld tol, eps23, R, orthX, prodround;
    ld delta(ld sigma) const { return tol * std::max(eps23, sigma * sigma) + R; }
};

// ---------------------------------------------------------------------------------------------------------
// Oracle for the singular values returned by one compute(). Returns them widened.
static VecL check_values(const VecR& sv_s, Index ret, Index ncomp, const SvdRecipe& R, const Bounds& b, vf::Case& c, const char* when)
{
    VF_CHECK(ret >= 0 && ret <= ncomp && sv_s.size() == ret, "counts", when << ": compute() returned " << ret << " (ncomp=" << ncomp << "), singular_values().size()=" << sv_s.size());
    VecL sv = vf::widen_real(sv_s);
    for (Index i = 0; i < ret; i++)
    {
        if (!std::isfinite((double) sv[i]))
        {
            // feature for the known-finding signature: the reference value at this position is zero up to the accuracy of the Gram eigenvalue
            c.feat["nan_at_negligible"] = (R.sref[i] * R.sref[i] <= b.delta(0)) ? 1 : 0;
            c.feat["nan_ref_rel"] = (double) (R.sref[i] / R.N);
        }
        VF_CHECK(std::isfinite((double) sv[i]), "nonfinite_sigma",
                 when << ": singular value " << i << " of " << ret << " is " << (double) sv[i] << "; reference s_" << i << " = " << vf::num(R.sref[i]) << " = " << vf::num(R.sref[i] / R.N) << " ||A||");
        VF_CHECK(sv[i] >= 0, "negative_sigma", when << ": singular value " << i << " = " << vf::num(sv[i]));
        if (i > 0)
            // weaker reading: up to the rounding of the square root itself (Eigen's default vectorised float sqrt is an rsqrt + Newton
            // approximation that is 1-2 ulp off and differs from the scalar sqrt used for the unaligned / remainder entries)
            VF_CHECK(sv[i] <= sv[i - 1] * (1 + 4 * EPS), "order", when << ": singular values not non-increasing at " << i << ": " << vf::num(sv[i - 1]) << " < " << vf::num(sv[i]));
    }
    // genuine, with multiplicity: an order-preserving injective matching into the reference values
    auto close = [&](Index i, Index j, ld* ratio) {
        ld den = sv[i] + R.sref[j];
        ld err = std::abs(sv[i] - R.sref[j]);
        ld bound = (den > 0 ? b.delta(sv[i]) / den : 0) + CTOL * EPS * std::max(sv[i], R.sref[j]);
        if (ratio)
            *ratio = bound > 0 ? err / bound : (err > 0 ? std::numeric_limits<ld>::infinity() : 0);
        return err <= bound;
    };
    Index j = 0;
    bool top = true;
    ld worst = 0;
    for (Index i = 0; i < ret; i++)
    {
        ld q = 0;
        while (j < R.p && !close(i, j, &q))
            j++;
        VF_CHECK(j < R.p, "spurious_value",
                 when << ": returned value " << i << " = " << vf::num(sv[i]) << " matches no (further) singular value of A within delta/(sigma+s), delta=" << vf::num(b.delta(sv[i]))
                      << "; reference head: " << vf::show(R.sref.head(std::min<Index>(R.p, 6)).transpose()) << " returned: " << vf::show(sv.transpose()));
        if (j != i)
            top = false;
        worst = std::max(worst, q);
        j++;
    }
    c.feat["top_k"] = top ? 1 : 0;
    c.feat["max_match"] = (double) (j - 1);  // largest reference index used by the matching
    if (ret > 0)
        vf::report().stat("singular value error / bound (matched)", (double) worst);
    return sv;
}

// Oracle for the factors. X = eigenvector-side factor (V for tall, U otherwise), Y = derived factor.
static void check_factors(const MatL& U, const MatL& V, const VecL& sv, Index ret, Index kU, Index kV, const SvdRecipe& R, const Bounds& b, vf::Case& c, const char* when)
{
    const Index m = R.m, n = R.n;
    const Index cu = std::min(kU, ret), cv = std::min(kV, ret);
    VF_CHECK(U.rows() == m && U.cols() == cu, "factor_shape", when << ": matrix_U(" << kU << ") is " << U.rows() << "x" << U.cols() << ", expected " << m << "x" << cu << " (nconv=" << ret << ")");
    VF_CHECK(V.rows() == n && V.cols() == cv, "factor_shape", when << ": matrix_V(" << kV << ") is " << V.rows() << "x" << V.cols() << ", expected " << n << "x" << cv << " (nconv=" << ret << ")");
    const bool tall = m > n;
    const MatL& X = tall ? V : U;
    const MatL& Y = tall ? U : V;
    const char* Xn = tall ? "V" : "U";
    const char* Yn = tall ? "U" : "V";
    // eigenvector side: orthonormal for every returned column
    if (X.cols() > 0)
    {
        VF_CHECK(vf::all_finite(X), "nonfinite_factor", when << ": NaN/Inf in matrix_" << Xn);
        MatL Gx = X.transpose() * X - MatL::Identity(X.cols(), X.cols());
        ld o = vf::maxabs(Gx);
        VF_CHECK(o <= b.orthX, "orthonormality_eig_side", when << ": max|" << Xn << "'" << Xn << " - I| = " << vf::num(o) << " > " << vf::num(b.orthX) << " (" << X.cols() << " columns)");
        vf::report().stat(std::string("max|X'X-I| / bound, X = eigenvector-side factor"), (double) (o / b.orthX));
    }
    // columns whose singular value is not negligible relative to ||A||
    Index q = 0;
    while (q < ret && sv[q] >= SIG_FLOOR * R.N)
        q++;
    if (q < ret)
        c.cls("some_requested_sigma_below_1e-4_normA");
    const Index qy = std::min(q, Y.cols()), qx = std::min(q, X.cols()), qb = std::min(qy, qx);
    if (qy > 0)
        VF_CHECK(vf::all_finite(Y.leftCols(qy)), "nonfinite_factor", when << ": NaN/Inf in the first " << qy << " columns of matrix_" << Yn);
    // derived side: orthonormality
    for (Index i = 0; i < qy; i++)
        for (Index j = i; j < qy; j++)
        {
            ld g = Y.col(i).dot(Y.col(j)) - (i == j ? 1 : 0);
            ld si = sv[i], sj = sv[j];
            ld b1 = b.orthX * sj / si + b.delta(sj) / (si * sj);
            ld b2 = b.orthX * si / sj + b.delta(si) / (si * sj);
            ld bound = std::min(b1, b2) + b.prodround * (1 / si + 1 / sj);
            VF_CHECK(std::abs(g) <= bound, "orthonormality_derived_side",
                     when << ": |" << Yn << "_" << i << "'" << Yn << "_" << j << " - [i==j]| = " << vf::num(std::abs(g)) << " > " << vf::num(bound) << " (sigma_i=" << vf::num(si) << ", sigma_j=" << vf::num(sj)
                          << ", tol=" << vf::num(b.tol) << ", ||A||=" << vf::num(R.N) << ")");
            vf::report().stat("|Y'Y-I|_ij / bound, Y = derived factor", (double) (std::abs(g) / bound));
        }
    // A V = U S and A'U = V S on the common columns
    for (Index i = 0; i < qb; i++)
    {
        ld e1 = (R.A * V.col(i) - sv[i] * U.col(i)).norm();
        ld e2 = (R.A.transpose() * U.col(i) - sv[i] * V.col(i)).norm();
        ld inherited = b.delta(sv[i]) / sv[i] + b.prodround;
        ld bAV = tall ? b.prodround : inherited;   // tall: U = A V / S by construction
        ld bAtU = tall ? inherited : b.prodround;  // wide: V = A'U / S by construction
        VF_CHECK(e1 <= bAV, "AV_eq_US", when << ": ||A v_" << i << " - sigma_" << i << " u_" << i << "|| = " << vf::num(e1) << " > " << vf::num(bAV) << " (sigma=" << vf::num(sv[i]) << ", tol=" << vf::num(b.tol) << ", ||A||=" << vf::num(R.N) << ")");
        VF_CHECK(e2 <= bAtU, "AtU_eq_VS", when << ": ||A'u_" << i << " - sigma_" << i << " v_" << i << "|| = " << vf::num(e2) << " > " << vf::num(bAtU) << " (sigma=" << vf::num(sv[i]) << ", tol=" << vf::num(b.tol) << ", ||A||=" << vf::num(R.N) << ")");
        vf::report().stat(tall ? "||Av-su|| / bound (by construction)" : "||Av-su|| / bound (inherited)", (double) (e1 / bAV));
        vf::report().stat(tall ? "||A'u-sv|| / bound (inherited)" : "||A'u-sv|| / bound (by construction)", (double) (e2 / bAtU));
        if (b.tol * std::max(b.eps23, sv[i] * sv[i]) < b.R / CTOL / 8)  // tol term below an eighth of one rounding unit: calibration of the constant
        {
            ld qq = (tall ? e2 : e1) / (b.R / CTOL / sv[i]);
            vf::report().stat("inherited identity / ((m+n) eps (1+r) |A|^2/sigma) when tol*theta is below (m+n) eps |A|^2 / 8", (double) qq);
            if (qq > 4 && std::getenv("VF_DEBUG"))
                std::fprintf(stderr, "HIGH %.2f i=%ld sigma/N=%.3g tol=%.3g R=%.3g err=%.3g | %s\n", (double) qq, (long) i, (double) (sv[i] / R.N), (double) b.tol, (double) b.R, (double) (tall ? e2 : e1), c.desc.c_str());
        }
    }
    if (qb > 0)
        c.feat["columns_checked"] = c.f("columns_checked") + (double) qb;
}

// ---------------------------------------------------------------------------------------------------------
template <typename MatT, typename Arg>
static void drive(const Arg& mat, vf::Draw& d, vf::Case& c, const SvdRecipe& R, Index ncomp, Index ncv)
{
    typedef Spectra::PartialSVDSolver<MatT> Solver;
    vf::FacEvents fe;
    vf::ObserveEvents obs(&fe);
    Solver svds(mat, ncomp, ncv);
    const int ncomputes = 1 + (int) d.range("extra_computes", 0, 2);
    long populated_at = -1;  // index of the compute after which matrix_U/V first cached >= 1 vector
    Index populated_cols = 0; // number of eigenvectors cached at that moment
    bool any_checked = false;
    for (int t = 0; t < ncomputes; t++)
    {
        const bool last = (t == ncomputes - 1);
        Args a = draw_args(d);
        std::ostringstream when;
        when << "compute #" << (t + 1) << " of " << ncomputes;
        fe.clear();
        Index ret = call_compute(svds, a);
        const long restarts = fe.compressed;
        {
            std::ostringstream os;
            if (a.defaults)
                os << "compute()";
            else
                os << "compute(maxit=" << a.maxit << ",tol=" << vf::num(a.tol) << ")";
            os << "->" << ret;
            c.add_desc(os.str());
        }
        if (ret < ncomp)
            c.cls(ret > 0 ? "partial_convergence" : "nothing_converged");
        Bounds b;
        b.tol = a.tol;
        b.eps23 = std::pow(EPS, (ld) 2 / 3);
        b.R = CTOL * (ld) (R.m + R.n) * EPS * (ld) (1 + restarts) * R.N * R.N;
        b.orthX = CTOL * (ld) R.p * EPS * (ld) (1 + restarts);
        b.prodround = CTOL * (ld) (R.m + R.n) * EPS * R.N;
        VecR sv_s = svds.singular_values();
        const std::string w = when.str();
        VecL sv = check_values(sv_s, ret, ncomp, R, b, c, w.c_str());
        // "The largest": a residual test cannot prove it. With ncv = min(m,n) the Lanczos factorization is complete and the Ritz values are
        // the eigenvalues of the Gram matrix, so the clause is asserted unconditionally. With ncv < min(m,n) a Krylov space built from one
        // start vector holds one copy of a multiple eigenvalue, and below theta = eps^(2/3) the documented test is absolute; there the clause
        // is asserted when the leading ncomp+1 singular values of A are simple and separated by >= 1e-2 sigma_1 and sigma_ncomp^2 >= eps^(2/3)
        // (a failure in that regime is Krylov misconvergence: known finding, see match()).
        bool separated = true;
        for (Index i = 0; i < ncomp; i++)
            if (R.sref[i] - R.sref[i + 1] < (ld) 1e-2 * R.sref[0])
                separated = false;
        const bool above_floor = R.sref[ncomp - 1] * R.sref[ncomp - 1] >= b.eps23;
        const bool complete = (ncv == R.p);
        c.feat["ncv_lt_p"] = complete ? 0 : 1;
        if (complete || (separated && above_floor))
        {
            c.cls(std::string(complete ? "largest_asserted/ncv=p" : "largest_asserted/ncv<p_separated") + (ret == ncomp ? "/all_converged" : "/partial"));
            if (ret == ncomp)
                VF_CHECK(c.f("top_k") > 0, "not_the_largest", w << ": the " << ret << " returned values " << vf::show(sv.transpose()) << " are singular values of A but not the " << ret << " largest: "
                                                               << vf::show(R.sref.head(std::min<Index>(R.p, ncomp + 2)).transpose()) << " (ncv=" << ncv << ", p=" << R.p << ", restarts=" << restarts << ")");
            else
                VF_CHECK(c.f("max_match") < (double) ncomp, "not_the_largest", w << ": a converged value is not among the " << ncomp << " largest singular values of A: returned " << vf::show(sv.transpose())
                                                                                << ", reference " << vf::show(R.sref.head(std::min<Index>(R.p, ncomp + 2)).transpose()) << " (ncv=" << ncv << ", p=" << R.p << ", restarts=" << restarts << ")");
        }
        else if (ret > 0 && c.f("top_k") == 0)
            c.cls(!above_floor ? "genuine_but_not_the_largest/below_eps23_floor" : (ret < ncomp ? "genuine_but_not_the_largest/partial_convergence" : "genuine_but_not_the_largest/multiple_or_clustered"));
        bool want_factors = last || d.flag("factors_between_computes");
        if (!want_factors)
            continue;
        // k: below, at and above nconv
        auto draw_k = [&](const char* label) -> Index {
            int mode = (int) d.range(label, 0, 3);
            if (mode == 0)
                return ncomp;
            if (mode == 1)
                return ncomp + 3;
            if (mode == 2)
                return std::max<Index>(0, ret - 1);
            return (Index) d.range("k_value", 0, ncomp);
        };
        Index kU = draw_k("kU_mode"), kV = draw_k("kV_mode");
        bool u_first = d.flag("U_before_V");
        {
            std::ostringstream os;
            os << (u_first ? "U(" : "V(") << (u_first ? kU : kV) << ")," << (u_first ? "V(" : "U(") << (u_first ? kV : kU) << ")";
            c.add_desc(os.str());
        }
        const bool stale = populated_at >= 0 && populated_at < t;
        if (stale)
        {
            c.feat["stale_cache"] = 1;
            // leftCols(min(k, nconv)) on the cached matrix indexes past its columns
            c.feat["stale_overrun"] = (std::min(std::max(kU, kV), ret) > populated_cols) ? 1 : 0;
            c.cls("factors_requested_after_a_later_compute_(cache_populated_earlier)");
        }
        if (kU < ret || kV < ret)
            c.cls("k<nconv");
        if (kU > ret || kV > ret)
            c.cls("k>nconv");
        Eigen::Matrix<Real, Eigen::Dynamic, Eigen::Dynamic> U_s, V_s;
        if (u_first)
        {
            U_s = svds.matrix_U(kU);
            V_s = svds.matrix_V(kV);
        }
        else
        {
            V_s = svds.matrix_V(kV);
            U_s = svds.matrix_U(kU);
        }
        if (populated_at < 0 && ret >= 1)
        {
            populated_at = t;
            populated_cols = ret;
        }
        // "describe the most recent compute()": a fresh solver object given the same arguments must return the same factors
        {
            vf::FacEvents fe2;
            vf::ObserveEvents obs2(&fe2);
            Solver fresh(mat, ncomp, ncv);
            Index ret2 = call_compute(fresh, a);
            VecR sv2 = fresh.singular_values();
            VF_CHECK(ret2 == ret && vf::bits_equal(sv2, sv_s), "not_reproducible", w << ": a fresh solver with the same arguments returns " << ret2 << " values " << vf::show(sv2.transpose()) << ", this object returned " << ret << ": " << vf::show(sv_s.transpose()));
            Eigen::Matrix<Real, Eigen::Dynamic, Eigen::Dynamic> U2 = fresh.matrix_U(kU), V2 = fresh.matrix_V(kV);
            bool same = U2.rows() == U_s.rows() && U2.cols() == U_s.cols() && V2.rows() == V_s.rows() && V2.cols() == V_s.cols() && vf::bits_equal(U2, U_s) && vf::bits_equal(V2, V_s);
            ld du = 0, dv = 0;
            if (!same && U2.cols() == U_s.cols() && V2.cols() == V_s.cols() && U2.rows() == U_s.rows() && V2.rows() == V_s.rows())
            {
                du = U_s.cols() ? vf::maxabs(vf::widen_real(U2) - vf::widen_real(U_s)) : 0;
                dv = V_s.cols() ? vf::maxabs(vf::widen_real(V2) - vf::widen_real(V_s)) : 0;
            }
            VF_CHECK(same, "factors_not_of_last_compute",
                     w << ": matrix_U(" << kU << ") is " << U_s.rows() << "x" << U_s.cols() << ", matrix_V(" << kV << ") is " << V_s.rows() << "x" << V_s.cols() << "; a fresh solver with the arguments of this compute() gives "
                       << U2.rows() << "x" << U2.cols() << " and " << V2.rows() << "x" << V2.cols() << ", max|dU|=" << vf::num(du) << " max|dV|=" << vf::num(dv) << " (nconv=" << ret << ")");
        }
        MatL U = vf::widen_real(U_s), V = vf::widen_real(V_s);
        check_factors(U, V, sv, ret, kU, kV, R, b, c, w.c_str());
        if (ret > 0)
            any_checked = true;
    }
    if (ncomputes >= 2)
        c.cls("history_with_2+_computes");
    c.nontrivial = any_checked && (ncomputes >= 2 || R.exact_deficient || c.f("below_floor_requested") > 0);
}

static void run_case(vf::Draw& d, vf::Case& c)
{
    SvdRecipe R = make_matrix(d);
    const Index p = R.p;
    // legal (ncomp, ncv): 1 <= ncomp <= p-1, ncomp < ncv <= p
    Index ncomp, ncv;
    vf::draw_nev_ncv(d, p, false, ncomp, ncv);
    int form = (int) d.range("storage_form", 0, 4);
    static const char* FORM_NAMES[5] = {"dense_colmajor", "dense_rowmajor", "sparse_colmajor", "sparse_rowmajor", "dense_colmajor_block"};
    const char* shape = R.m > R.n ? "tall" : (R.m < R.n ? "wide" : "square");
    std::ostringstream os;
    os << "PartialSVDSolver<" << vf::Sc<Real>::name() << "," << FORM_NAMES[form] << "> " << shape << " " << R.m << "x" << R.n << " class=" << R.name << " scale=1e" << R.scale_exp << " ncomp=" << ncomp << " ncv=" << ncv;
    if (R.exact_deficient)
        os << " rank=" << R.exact_rank;
    c.cls(std::string("scalar/") + vf::Sc<Real>::name());
    c.cls(std::string("shape/") + shape);
    c.cls(std::string("form/") + FORM_NAMES[form]);
    c.cls("class/" + R.name);
    c.feat["scale_exp"] = (double) R.scale_exp;
    c.sfeat["class"] = R.name;
    if (R.N == 0)
    {
        c.add_desc(os.str() + " zero matrix");
        c.rejected = true;  // every orthonormal set is a set of singular vectors; C13 covers the zero operator
        return;
    }
    // numerical rank relative to the floor of the factor identities, and to rounding
    Index above_floor = 0, above_round = 0;
    for (Index i = 0; i < p; i++)
    {
        if (R.sref[i] >= SIG_FLOOR * R.N)
            above_floor++;
        if (R.sref[i] * R.sref[i] > CTOL * (ld) (R.m + R.n) * EPS * R.N * R.N)
            above_round++;
    }
    if (ncomp > above_floor)
        c.feat["below_floor_requested"] = 1;
    if (ncomp > above_round)
        c.cls("ncomp_beyond_numerical_rank_of_the_Gram_matrix");
    if (R.exact_deficient && ncomp > R.exact_rank)
        c.cls("ncomp_beyond_exact_rank");
    if (ncv == p)
        c.cls("ncv=p");
    c.add_desc(os.str());

    DenseCol Ac(R.m, R.n);
    for (Index j = 0; j < R.n; j++)
        for (Index i = 0; i < R.m; i++)
            Ac(i, j) = (Real) R.A(i, j);
    try
    {
        if (form == 0)
            drive<DenseCol>(Ac, d, c, R, ncomp, ncv);
        else if (form == 1)
        {
            DenseRow Ar = Ac;
            drive<DenseRow>(Ar, d, c, R, ncomp, ncv);
        }
        else if (form == 2)
        {
            SparseCol sp = vf::to_sparse<Real, Eigen::ColMajor>(Ac);
            drive<SparseCol>(sp, d, c, R, ncomp, ncv);
        }
        else if (form == 3)
        {
            SparseRow sp = vf::to_sparse<Real, Eigen::RowMajor>(Ac);
            drive<SparseRow>(sp, d, c, R, ncomp, ncv);
        }
        else
        {
            // a block of a larger column-major matrix binds to Ref<const Matrix> without a copy (outer stride > rows)
            Index r0 = (Index) d.range("block_row0", 0, 2), c0 = (Index) d.range("block_col0", 0, 2);
            DenseCol big = DenseCol::Constant(R.m + r0 + 1, R.n + c0 + 2, (Real) 7);
            big.block(r0, c0, R.m, R.n) = Ac;
            Eigen::Ref<const DenseCol> ref(big.block(r0, c0, R.m, R.n));
            drive<DenseCol>(ref, d, c, R, ncomp, ncv);
        }
    }
    catch (const std::runtime_error& e)
    {
        // TridiagEigen: failed to compute all the eigenvalues (iteration limit of the dense kernel): allowed, counted by message
        c.rejected = true;
        c.cls(std::string("runtime_error: ") + e.what());
    }
}

// Known-finding signatures (KNOWN_FINDINGS.txt), keyed on the root causes in PartialSVDSolver.h (D11):
//  svd_sqrt_of_negative_eigenvalue: singular_values() takes cwiseSqrt() of Gram eigenvalues; for a requested value beyond the
//      numerical rank the computed eigenvalue is 0 +- rounding and its square root is NaN when the sign is negative.
//  svd_krylov_misconvergence: (inherited from the symmetric solver, D13) with ncv < min(m,n) every returned value is a genuine singular
//      value of A (the matching oracle passed) but a larger, well separated one was never seen by the Krylov space.
//  svd_stale_factor_cache: m_evecs is filled by the first matrix_U/V call and never invalidated by compute(), so after a later
//      compute() the factors are built from the eigenvectors of the earlier one (or leftCols() indexes past the cached columns).
static std::string match(const vf::Violation& v, const vf::Case& c)
{
    if (v.kind == "nonfinite_sigma" && c.f("nan_at_negligible") > 0)
        return "svd_sqrt_of_negative_eigenvalue";
    if (v.kind == "not_the_largest" && c.f("ncv_lt_p") > 0)
        return "svd_krylov_misconvergence";
    if ((v.kind == "factors_not_of_last_compute" && c.f("stale_cache") > 0) || (v.kind == "eigen_assert" && c.f("stale_overrun") > 0))
        return "svd_stale_factor_cache";
    return "";
}

int main(int argc, char** argv)
{
    return vf::run_main(argc, argv, "C16", run_case, match);
}
