// C01 - symmetric / Hermitian solvers hand back only genuine, orthonormal eigenpairs, under any outcome and
// any init()/compute() history. One translation unit per real scalar type (VF_REAL).
#include "vf/eigen_assert.hpp"
#include <Eigen/Core>
#include <Eigen/Sparse>
#include <Spectra/SymEigsSolver.h>
#include <Spectra/HermEigsSolver.h>
#include <Spectra/SymEigsShiftSolver.h>
#include <Spectra/MatOp/DenseSymMatProd.h>
#include <Spectra/MatOp/DenseHermMatProd.h>
#include <Spectra/MatOp/SparseSymMatProd.h>
#include <Spectra/MatOp/SparseHermMatProd.h>
#include <Spectra/MatOp/DenseSymShiftSolve.h>
#include <Spectra/MatOp/SparseSymShiftSolve.h>
#include "vf/oracle.hpp"
#include "vf/solverkit.hpp"
#include "vf/runner.hpp"

#ifndef VF_REAL
#define VF_REAL double
#endif
typedef VF_REAL Real;
typedef std::complex<Real> Cplx;
using vf::ld;
using vf::cld;
using vf::CMatL;
using vf::CVecL;
using vf::VecL;
using vf::Index;
using Spectra::SortRule;
using Spectra::CompInfo;

static const ld CTOL = 64;
static const ld EPS = (ld) std::numeric_limits<Real>::epsilon();

// user functor performing the shift-and-invert product with a dense LU in the scalar type
template <typename S>
class FunctorShiftOp
{
public:
    using Scalar = S;
    typedef Eigen::Matrix<S, Eigen::Dynamic, Eigen::Dynamic> Mat;
    typedef Eigen::Matrix<S, Eigen::Dynamic, 1> Vec;
    Mat M;
    Eigen::PartialPivLU<Mat> lu;
    explicit FunctorShiftOp(const Mat& m) :
        M(m) {}
    Index rows() const { return M.rows(); }
    Index cols() const { return M.cols(); }
    void set_shift(const S& sigma)
    {
        Mat T = M;
        T.diagonal().array() -= sigma;
        lu.compute(T);
    }
    void perform_op(const S* x_in, S* y_out) const
    {
        Eigen::Map<const Vec> x(x_in, M.cols());
        Eigen::Map<Vec> y(y_out, M.rows());
        y = lu.solve(x);
    }
};

struct Args
{
    int sel, sort;
    long maxit;
    ld tol;
};

static Args draw_args(vf::Draw& d)
{
    Args a;
    a.sel = vf::SYM_RULES[d.range("selection", 0, 4)];
    a.sort = vf::SYM_SORT_RULES[d.range("sorting", 0, 3)];
    a.maxit = vf::draw_maxit(d);
    a.tol = vf::draw_tol<Real>(d);
    return a;
}

struct Context
{
    const vf::HermRecipe* R;
    VecL ref_ev;        // reference eigenvalues of the rounded matrix (ascending)
    ld normA;           // Frobenius norm of A
    bool shift_mode = false;
    ld sigma = 0;
    ld norm_shifted = 0, kappa_shifted = 1, numax = 0;  // ||A - sigma I||_2, cond(A - sigma I), max |nu|
};

// Oracle for one compute(): every returned pair is a genuine unit-norm eigenpair, vectors orthonormal
template <typename Solver>
static void check_pairs(Solver& eigs, Index ret, const Context& cx, const Args& a, long restarts, const vf::FacEvents& fe, vf::Case& c, const char* when)
{
    const Index n = cx.R->n;
    auto evals_s = eigs.eigenvalues();
    auto evecs_s = eigs.eigenvectors();
    VF_CHECK(evals_s.size() == ret && evecs_s.cols() == ret && evecs_s.rows() == n, "counts",
             when << ": compute() returned " << ret << ", eigenvalues().size()=" << evals_s.size() << ", eigenvectors() is " << evecs_s.rows() << "x" << evecs_s.cols());
    if (ret == 0)
        return;
    VecL th = vf::widen_real(evals_s);
    CMatL X = vf::widen(evecs_s);
    VF_CHECK(vf::all_finite(th) && vf::all_finite(X), "nonfinite", when << ": NaN/Inf in the returned pairs");
    const ld eps23 = std::pow(EPS, (ld) 2 / 3);
    const ld rfac = (ld) (1 + restarts);
    const ld round_slack = CTOL * (ld) n * EPS * cx.normA;
    ld worst = 0;
    for (Index i = 0; i < ret; i++)
    {
        ld nx = X.col(i).norm();
        VF_CHECK(std::abs(nx - 1) <= 8 * (ld) n * EPS * rfac, "unit_norm", when << ": ||x_" << i << "|| - 1 = " << vf::num(nx - 1));
        ld res = (cx.R->A * X.col(i) - cld(th[i]) * X.col(i)).norm();
        ld bound;
        if (!cx.shift_mode)
            bound = a.tol * std::max(eps23, std::abs(th[i])) + round_slack * rfac;
        else
        {
            // documented test in nu = 1/(theta - sigma): ||OP x - nu x|| <= tol max(eps^(2/3), |nu|); A x - theta x = -(A - sigma I)(OP x - nu x)/nu
            ld nu = 1 / (th[i] - cx.sigma);
            bound = a.tol * cx.norm_shifted * std::max((ld) 1, eps23 / std::abs(nu)) +
                CTOL * (ld) n * EPS * rfac * (cx.normA + cx.kappa_shifted * cx.norm_shifted * cx.numax / std::abs(nu));
        }
        VF_CHECK(res <= bound, "residual",
                 when << ": ||A x - theta x|| = " << vf::num(res) << " > " << vf::num(bound) << " for pair " << i << " theta=" << vf::num(th[i]) << " (tol=" << vf::num(a.tol)
                      << ", ||A||=" << vf::num(cx.normA) << ", info=" << vf::info_name(eigs.info()) << ", restarts=" << restarts << ")");
        vf::report().stat(cx.shift_mode ? "shift residual/bound (passing pairs)" : "plain residual/bound (passing pairs)", (double) (res / bound));
        if (!cx.shift_mode && a.tol * std::max(eps23, std::abs(th[i])) < round_slack)
        {
            ld q = res / ((ld) n * EPS * cx.normA * rfac);
            vf::report().stat("plain residual/(n eps |A| (1+r)) when tol is below rounding (passing pairs)", (double) q);
            if (q > 16 && std::getenv("VF_DEBUG"))
                std::fprintf(stderr, "HIGH ratio %.1f fz=%ld lr=%ld ex=%ld dropped=%Lg | %s\n", (double) q, fe.forced_zero, fe.local_restart, fe.expand_ok, fe.max_dropped_beta / cx.normA, c.desc.c_str());
        }
        worst = std::max(worst, res / bound);
    }
    CMatL G = X.adjoint() * X - CMatL::Identity(ret, ret);
    ld orth = vf::maxabs(G);
    vf::report().stat("orthonormality/(n eps (1+r))", (double) (orth / ((ld) n * EPS * rfac)));
    VF_CHECK(orth <= CTOL * (ld) n * EPS * rfac, "orthonormality", when << ": max|X^H X - I| = " << vf::num(orth) << " > " << vf::num(CTOL * (ld) n * EPS * rfac) << " (" << ret << " vectors, restarts=" << restarts << ")");
    (void) fe;
    (void) c;
}

// Drives one solver object through a drawn history; every compute() is checked.
template <typename S, typename Solver>
static void drive(Solver& eigs, vf::Draw& d, vf::Case& c, const Context& cx)
{
    typedef Eigen::Matrix<S, Eigen::Dynamic, 1> Vec;
    const vf::HermRecipe& R = *cx.R;
    const Index n = R.n;
    vf::FacEvents fe;
    vf::ObserveEvents obs(&fe);
    auto start_vector = [&](Vec& v) -> std::string {
        int kind = (int) d.range("start_kind", 0, 4);
        CVecL vl = CVecL::Zero(n);
        std::string name;
        if (kind == 0)
        {
            vf::Lcg g((uint64_t) d.range("start_seed", 0, 255));
            for (Index i = 0; i < n; i++)
                vl[i] = cld(g.u(), vf::Sc<S>::is_complex ? g.u() : 0);
            name = "random";
        }
        else if (kind == 1)
        {
            vl = R.Q.col((Index) d.range("start_eigvec", 0, n - 1));
            name = "eigenvector";
        }
        else if (kind == 2)
        {
            int k = (int) d.range("start_ncomb", 2, 3);
            for (int j = 0; j < k; j++)
                vl += R.Q.col((Index) d.range("start_eigvec", 0, n - 1)) * cld((ld) (j + 1));
            name = "combination_of_eigenvectors";
        }
        else if (kind == 3)
        {
            vl[(Index) d.range("start_unit", 0, n - 1)] = 1;  // unit vector (null-space vector of the low-rank class when it is the last one)
            name = "unit_vector";
        }
        else
        {
            vl.setOnes();
            name = "ones";
        }
        if (vl.norm() == 0)
            vl[0] = 1;
        v = vf::Narrow<S>::mat(vl);
        // is the start vector numerically in the null space of A? (||A v0|| at rounding level relative to ||A|| ||v0||)
        {
            CVecL vr = vf::widen(v);
            ld ratio = (R.A * vr).norm() / (cx.normA * vr.norm());
            c.feat["start_nullspace_ratio"] = (double) ratio;
        }
        return name;
    };
    // history
    int nprefix = (int) d.range("history_len", 0, 3);
    bool initialised = false;
    bool fresh_init = false;
    long computes = 0;
    std::ostringstream hist;
    auto do_init = [&]() {
        bool with_v = d.flag("init_with_vector");
        fe.clear();
        if (with_v)
        {
            Vec v;
            std::string nm = start_vector(v);
            hist << "init(" << nm << ") ";
            c.cls("start/" + nm);
            eigs.init(v.data());
        }
        else
        {
            hist << "init() ";
            c.cls("start/default");
            eigs.init();
        }
        initialised = true;
        fresh_init = true;
    };
    auto do_compute = [&](const char* when) {
        Args a = draw_args(d);
        hist << "compute(" << vf::ALL_RULE_NAMES[a.sel] << ",maxit=" << a.maxit << ",tol=" << vf::num(a.tol) << "," << vf::ALL_RULE_NAMES[a.sort] << ") ";
        Index ret = eigs.compute(vf::ALL_RULES[a.sel], (Index) a.maxit, (Real) a.tol, vf::ALL_RULES[a.sort]);
        computes++;
        if (!fresh_init)
            c.cls("compute_without_fresh_init");
        fresh_init = false;
        if (eigs.info() == CompInfo::NotConverging && ret > 0)
            c.cls("partial_convergence");
        if (eigs.info() == CompInfo::NotConverging)
            c.cls("NotConverging");
        if (fe.breakdown())
            c.cls("breakdown_seen_by_observer");
        c.feat["forced_zero"] = (double) fe.forced_zero;
        c.feat["local_restart"] = (double) fe.local_restart;
        c.feat["expand"] = (double) (fe.expand_ok + fe.expand_gaveup);
        c.feat["dropped_beta_rel"] = cx.normA > 0 ? (double) (fe.max_dropped_beta / cx.normA) : 0;
        if (ret > 0 && n >= 4)
            c.nontrivial = true;
        c.add_desc(hist.str());
        hist.str("");
        // tol as the solver saw it (rounded to the scalar type)
        a.tol = (ld) (Real) a.tol;
        check_pairs(eigs, ret, cx, a, fe.compressed, fe, c, when);
    };
    do_init();
    for (int k = 0; k < nprefix; k++)
    {
        int op = (int) d.range("op", 0, 2);
        if (op == 0)
            do_init();
        else
            do_compute("prefix compute");
    }
    if (d.flag("final_init"))
        do_init();
    do_compute("final compute");
    if (computes >= 2)
        c.cls("history_with_2+_computes");
}

template <typename S>
static void solver_case(vf::Draw& d, vf::Case& c, int kind)
{
    typedef Eigen::Matrix<S, Eigen::Dynamic, Eigen::Dynamic> Mat;
    const bool cplx = vf::Sc<S>::is_complex;
    Index nmax = (Index) vf::options().geti("nmax", 40);
    vf::HermRecipe R = vf::make_herm<S>(d, cplx, 2, nmax);
    const Index n = R.n;
    Index nev, ncv;
    vf::draw_nev_ncv(d, n, false, nev, ncv);
    int form = (int) d.range("op_form", 0, 2);
    Context cx;
    cx.R = &R;
    cx.normA = vf::fro_scaled(R.A);
    Mat As = vf::Narrow<S>::mat(R.A);
    static const char* KIND_NAMES[3] = {"SymEigsSolver", "HermEigsSolver", "SymEigsShiftSolver"};
    static const char* FORM_NAMES[3] = {"dense_wrapper", "sparse_wrapper", "user_functor"};
    std::ostringstream os;
    os << KIND_NAMES[kind] << "<" << vf::Sc<S>::name() << "," << FORM_NAMES[form] << "> class=" << R.name << " n=" << n << " scale=1e" << R.scale_exp << " nev=" << nev << " ncv=" << ncv;
    c.cls(std::string(KIND_NAMES[kind]) + "/" + vf::Sc<S>::name());
    c.cls(std::string("form/") + FORM_NAMES[form]);
    c.cls("class/" + R.name);
    c.feat["scale_exp"] = (double) R.scale_exp;
    c.sfeat["class"] = R.name;
    if (ncv == nev + 1)
        c.cls("ncv=nev+1");
    if (ncv == n)
        c.cls("ncv=n");
    if (cx.normA == 0)
    {
        // zero matrix: outside this property's interest (every vector is an eigenvector); C13 covers it
        c.add_desc(os.str() + " zero matrix");
        c.rejected = true;
        return;
    }
    c.add_desc(os.str());

    try
    {
        if (kind == 0 || kind == 1)
        {
            if (form == 0)
            {
                typedef typename std::conditional<vf::Sc<S>::is_complex, Spectra::DenseHermMatProd<S>, Spectra::DenseSymMatProd<S>>::type Op;
                Op op(As);
                typedef typename std::conditional<vf::Sc<S>::is_complex, Spectra::HermEigsSolver<Op>, Spectra::SymEigsSolver<Op>>::type Solver;
                Solver eigs(op, nev, ncv);
                drive<S>(eigs, d, c, cx);
            }
            else if (form == 1)
            {
                Eigen::SparseMatrix<S> sp = vf::to_sparse<S>(As);
                typedef typename std::conditional<vf::Sc<S>::is_complex, Spectra::SparseHermMatProd<S>, Spectra::SparseSymMatProd<S>>::type Op;
                Op op(sp);
                typedef typename std::conditional<vf::Sc<S>::is_complex, Spectra::HermEigsSolver<Op>, Spectra::SymEigsSolver<Op>>::type Solver;
                Solver eigs(op, nev, ncv);
                drive<S>(eigs, d, c, cx);
            }
            else
            {
                typedef vf::FunctorOp<S> Op;
                Op op(As);
                typedef typename std::conditional<vf::Sc<S>::is_complex, Spectra::HermEigsSolver<Op>, Spectra::SymEigsSolver<Op>>::type Solver;
                Solver eigs(op, nev, ncv);
                drive<S>(eigs, d, c, cx);
            }
        }
    }
    catch (const std::runtime_error& e)
    {
        // allowed outcome ("or raises"); counted by message
        c.rejected = true;
        c.cls(std::string("runtime_error: ") + e.what());
    }
}

// real-only shift-and-invert solver
static void shift_case(vf::Draw& d, vf::Case& c)
{
    typedef Real S;
    typedef Eigen::Matrix<S, Eigen::Dynamic, Eigen::Dynamic> Mat;
    Index nmax = (Index) vf::options().geti("nmax", 40);
    vf::HermRecipe R = vf::make_herm<S>(d, false, 2, nmax);
    const Index n = R.n;
    Index nev, ncv;
    vf::draw_nev_ncv(d, n, false, nev, ncv);
    int form = (int) d.range("op_form", 0, 2);
    Context cx;
    cx.R = &R;
    cx.normA = vf::fro_scaled(R.A);
    Mat As = vf::Narrow<S>::mat(R.A);
    static const char* FORM_NAMES[3] = {"dense_wrapper", "sparse_wrapper", "user_functor"};
    std::ostringstream os;
    os << "SymEigsShiftSolver<" << vf::Sc<S>::name() << "," << FORM_NAMES[form] << "> class=" << R.name << " n=" << n << " scale=1e" << R.scale_exp << " nev=" << nev << " ncv=" << ncv;
    c.cls(std::string("SymEigsShiftSolver/") + vf::Sc<S>::name());
    c.cls(std::string("form/") + FORM_NAMES[form]);
    c.cls("class/" + R.name);
    c.feat["scale_exp"] = (double) R.scale_exp;
    c.sfeat["class"] = R.name;
    if (cx.normA == 0)
    {
        c.add_desc(os.str() + " zero matrix");
        c.rejected = true;
        return;
    }
    Eigen::SelfAdjointEigenSolver<CMatL> es(R.A / cld(R.scale), Eigen::EigenvaluesOnly);
    cx.ref_ev = es.eigenvalues() * R.scale;
    ld spread = std::max(cx.ref_ev[n - 1] - cx.ref_ev[0], (std::abs(cx.ref_ev[n - 1]) + std::abs(cx.ref_ev[0])) * (ld) 1e-3);
    std::vector<ld> cand;
    cand.push_back(cx.ref_ev[0] - spread / 10);
    cand.push_back(cx.ref_ev[n - 1] + spread / 10);
    for (Index i = 0; i + 1 < n; i++)
        if (cx.ref_ev[i + 1] - cx.ref_ev[i] >= (ld) 2e-3 * spread)
            cand.push_back((cx.ref_ev[i] + cx.ref_ev[i + 1]) / 2);
    ld sig = cand[(size_t) d.range("sigma_pos", 0, (long) cand.size() - 1)];
    cx.shift_mode = true;
    cx.sigma = (ld) (Real) sig;
    ld dmin = std::numeric_limits<ld>::infinity(), dmax = 0;
    for (Index i = 0; i < n; i++)
    {
        dmin = std::min(dmin, std::abs(cx.ref_ev[i] - cx.sigma));
        dmax = std::max(dmax, std::abs(cx.ref_ev[i] - cx.sigma));
    }
    if (!(dmin > 0))
    {
        c.add_desc(os.str() + " sigma on an eigenvalue");
        c.rejected = true;
        return;
    }
    cx.norm_shifted = dmax;
    cx.kappa_shifted = dmax / dmin;
    cx.numax = 1 / dmin;
    os << " sigma=" << vf::num(cx.sigma) << " cond(A-sI)=" << vf::num(cx.kappa_shifted);
    c.add_desc(os.str());
    try
    {
        if (form == 0)
        {
            Spectra::DenseSymShiftSolve<S> op(As);
            Spectra::SymEigsShiftSolver<Spectra::DenseSymShiftSolve<S>> eigs(op, nev, ncv, (S) cx.sigma);
            drive<S>(eigs, d, c, cx);
        }
        else if (form == 1)
        {
            Eigen::SparseMatrix<S> sp = vf::to_sparse<S>(As);
            Spectra::SparseSymShiftSolve<S> op(sp);
            Spectra::SymEigsShiftSolver<Spectra::SparseSymShiftSolve<S>> eigs(op, nev, ncv, (S) cx.sigma);
            drive<S>(eigs, d, c, cx);
        }
        else
        {
            FunctorShiftOp<S> op(As);
            Spectra::SymEigsShiftSolver<FunctorShiftOp<S>> eigs(op, nev, ncv, (S) cx.sigma);
            drive<S>(eigs, d, c, cx);
        }
    }
    catch (const std::invalid_argument&)
    {
        // factorization of A - sigma I refused (allowed), counted
        c.rejected = true;
        c.cls("set_shift_rejected");
    }
    catch (const std::runtime_error& e)
    {
        c.rejected = true;
        c.cls(std::string("runtime_error: ") + e.what());
    }
}

static void run_case(vf::Draw& d, vf::Case& c)
{
    int kind = (int) d.range("solver", 0, 2);
    if (kind == 0)
        solver_case<Real>(d, c, 0);
    else if (kind == 1)
        solver_case<Cplx>(d, c, 1);
    else
        shift_case(d, c);
}

// Known-finding signatures (KNOWN_FINDINGS.txt).
static std::string match(const vf::Violation& v, const vf::Case& c)
{
    if (v.kind == "residual" || v.kind == "orthonormality" || v.kind == "unit_norm")
    {
        // KF-C01-FLOAT: single precision, start vector numerically in the null space of A: A*v0 consists of rounding noise of
        // magnitude ~1e-21, the square of which underflows in the unscaled norm(), so the first basis vector is not normalised
        if (std::is_same<Real, float>::value && c.feat.count("start_nullspace_ratio") && c.f("start_nullspace_ratio") < 1e-12)
            return "float_norm_underflow";
    }
    return "";
}

int main(int argc, char** argv)
{
    return vf::run_main(argc, argv, "C01", run_case, match);
}
