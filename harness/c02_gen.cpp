// C02 - general (nonsymmetric) solvers hand back only genuine unit-norm eigenpairs, lambda in A's spectrum,
// distinct pairs distinct, under any outcome and any init()/compute() history. One TU per real scalar type.
#include "vf/eigen_assert.hpp"
#include <Eigen/Core>
#include <Eigen/Sparse>
#include <Eigen/Eigenvalues>
#include <Spectra/GenEigsSolver.h>
#include <Spectra/GenEigsRealShiftSolver.h>
#include <Spectra/GenEigsComplexShiftSolver.h>
#include <Spectra/MatOp/DenseGenMatProd.h>
#include <Spectra/MatOp/SparseGenMatProd.h>
#include <Spectra/MatOp/DenseGenRealShiftSolve.h>
#include <Spectra/MatOp/SparseGenRealShiftSolve.h>
#include <Spectra/MatOp/DenseGenComplexShiftSolve.h>
#include <Spectra/MatOp/SparseGenComplexShiftSolve.h>
#include "vf/oracle.hpp"
#include "vf/solverkit.hpp"
#include "vf/runner.hpp"

#ifndef VF_REAL
#define VF_REAL double
#endif
typedef VF_REAL Real;
using vf::ld;
using vf::cld;
using vf::CMatL;
using vf::CVecL;
using vf::MatL;
using vf::VecL;
using vf::Index;
using Spectra::SortRule;
using Spectra::CompInfo;

static const ld CTOL = 64;
static const ld EPS = (ld) std::numeric_limits<Real>::epsilon();
typedef Eigen::Matrix<Real, Eigen::Dynamic, Eigen::Dynamic> Mat;
typedef Eigen::Matrix<Real, Eigen::Dynamic, 1> Vec;

struct Args
{
    int sel, sort;
    long maxit;
    ld tol;
};
static Args draw_args(vf::Draw& d)
{
    Args a;
    a.sel = vf::GEN_RULES[d.range("selection", 0, 5)];
    a.sort = vf::GEN_RULES[d.range("sorting", 0, 5)];
    a.maxit = vf::draw_maxit(d);
    a.tol = vf::draw_tol<Real>(d);
    return a;
}

enum Mode
{
    PLAIN = 0,
    REAL_SHIFT = 1,
    COMPLEX_SHIFT = 2
};

struct Context
{
    const vf::GenRecipe* R;
    CMatL Ac;                 // A widened to complex long double
    std::vector<cld> ref_ev;  // reference eigenvalues of the rounded matrix
    ld normA = 0;
    ld min_gap = 0;           // smallest distance between two reference eigenvalues
    bool normal = false;      // eigenvector basis orthonormal by construction
    Mode mode = PLAIN;
    cld sigma = 0;
    ld norm_shifted = 0, kappa_shifted = 1, normOP = 0;  // 2-norms: ||A - sigma I||, cond, ||(A - sigma I)^-1||
    bool critical_construction = false;
    bool re_sigma_on_eigenvalue = false;  // constructed: Re sigma is EXACTLY an eigenvalue of A (legal: A - sigma I is nonsingular for Im sigma != 0)
};

static cld nu_of(const Context& cx, cld lambda)
{
    if (cx.mode == REAL_SHIFT)
        return cld(1) / (lambda - cx.sigma);
    return (cld(1) / (lambda - cx.sigma) + cld(1) / (lambda - std::conj(cx.sigma))) / cld(2);
}

template <typename Solver>
static void check_pairs(Solver& eigs, Index ret, const Context& cx, const Args& a, long restarts, vf::Case& c, const char* when)
{
    const Index n = cx.R->n;
    auto evals_s = eigs.eigenvalues();
    auto evecs_s = eigs.eigenvectors();
    VF_CHECK(evals_s.size() == ret && evecs_s.cols() == ret && evecs_s.rows() == n, "counts",
             when << ": compute() returned " << ret << ", eigenvalues().size()=" << evals_s.size() << ", eigenvectors() is " << evecs_s.rows() << "x" << evecs_s.cols());
    if (ret == 0)
        return;
    CVecL th = vf::widen(evals_s);
    CMatL X = vf::widen(evecs_s);
    VF_CHECK(vf::all_finite(th) && vf::all_finite(X), "nonfinite", when << ": NaN/Inf in the returned pairs");
    const ld eps23 = std::pow(EPS, (ld) 2 / 3);
    const ld rfac = (ld) (1 + restarts);
    const ld round_slack = CTOL * (ld) n * EPS * cx.normA * rfac;
    bool any_complex = false;
    for (Index i = 0; i < ret; i++)
    {
        ld nx = X.col(i).norm();
        VF_CHECK(std::abs(nx - 1) <= 8 * (ld) n * EPS * rfac, "unit_norm", when << ": ||x_" << i << "|| - 1 = " << vf::num(nx - 1) << " lambda=" << th[i] << " restarts=" << restarts << " info=" << vf::info_name(eigs.info()));
        if (th[i].imag() != 0)
            any_complex = true;
        ld res = (cx.Ac * X.col(i) - th[i] * X.col(i)).norm();
        ld bound = -1;
        if (cx.mode == PLAIN)
            bound = a.tol * std::max(eps23, std::abs(th[i])) + round_slack;
        else if (cx.mode == REAL_SHIFT)
        {
            ld nu = std::abs(nu_of(cx, th[i]));
            bound = a.tol * cx.norm_shifted * std::max((ld) 1, eps23 / nu) + round_slack + CTOL * (ld) n * EPS * rfac * cx.kappa_shifted * cx.norm_shifted * cx.normOP / nu;
        }
        else if (cx.R->prescribed || cx.normal)
        {
            // complex shift: nu(lambda) has critical points, so the back-transformed scale depends on the spectrum. With x = sum_j c_j s_j,
            // (A - theta) x = sum_j (lambda_j - theta) c_j s_j and (OP - nu) x = sum_j (nu_j - nu) c_j s_j for ANY theta, hence
            //     ||(A - theta) x|| <= cond(S) * K * ||(OP - nu) x||,   K = max_j |lambda_j - theta| / |nu_j - nu|
            // (1/|nu'(lambda_j*)| for the nearest eigenvalue, where the quotient is 0/0 in the limit). nu = nu_of(theta) is the Ritz value the
            // solver converged on whichever root it reported, because both roots of the back-transformation map to the same nu.
            cld nu = nu_of(cx, th[i]);
            size_t jstar = 0;
            for (size_t j = 1; j < cx.ref_ev.size(); j++)
                if (std::abs(cx.ref_ev[j] - th[i]) < std::abs(cx.ref_ev[jstar] - th[i]))
                    jstar = j;
            // ROOT CHOICE. The inequality above is weak (K huge) exactly when the reported theta is the WRONG root of the quadratic, so a wrong
            // root could hide behind its own scale. It is decided separately and without any scale: of the two roots of nu, the one that is the
            // eigenvalue gives the (much) smaller true residual with the returned vector. The reported root may not be worse than the other one
            // by more than a factor 4 plus the accuracy asked for (near the branch point the two roots coincide and either is fine).
            if (std::abs(nu) > 0)
            {
                const ld si = cx.sigma.imag();
                const cld sq = std::sqrt(cld(1) - cld(4 * si * si) * nu * nu);
                const cld r1 = cld(cx.sigma.real(), 0) + (cld(1) + sq) / (cld(2) * nu);
                const cld r2 = cld(cx.sigma.real(), 0) + cld(2 * si * si) * nu / (cld(1) + sq);
                const cld alt = (std::abs(r1 - th[i]) >= std::abs(r2 - th[i])) ? r1 : r2;  // the root that was NOT reported
                const ld res_alt = (cx.Ac * X.col(i) - alt * X.col(i)).norm();
                const ld slack2 = 16 * a.tol * cx.norm_shifted + round_slack + CTOL * (ld) n * EPS * rfac * cx.kappa_shifted * cx.norm_shifted;
                // the library's probe: real shift r = u1 * Re(sigma) + u2 with the first two draws of its generator seeded with 0
                {
                    const ld u1 = (ld) -0.49999217363074056L, u2 = (ld) -0.36846221185683375L;
                    const ld r = u1 * cx.sigma.real() + u2;
                    ld dmin = std::numeric_limits<ld>::infinity(), rad = 0;
                    for (const cld& l : cx.ref_ev)
                    {
                        dmin = std::min(dmin, std::abs(l - cld(r, 0)));
                        rad = std::max(rad, std::abs(l));
                    }
                    c.feat["probe_shift_distance_to_spectrum/radius"] = (double) (dmin / rad);
                    c.feat["probe_shift"] = (double) r;
                }
                VF_CHECK(res <= 4 * res_alt + slack2, "wrong_root",
                         when << ": pair " << i << " is reported with lambda=" << th[i] << " (||A x - lambda x|| = " << vf::num(res) << ") but the other root of the back-transformation of its Ritz value nu=" << nu
                              << ", lambda'=" << alt << ", fits the returned vector far better (||A x - lambda' x|| = " << vf::num(res_alt) << "): the wrong root was selected (sigma=" << cx.sigma << ", ||A||=" << vf::num(cx.normA) << ", the solver's probe shift r=" << c.f("probe_shift") << " is " << c.f("probe_shift_distance_to_spectrum/radius") << " spectral radii from the nearest eigenvalue of A, tol=" << vf::num(a.tol) << ")");
            }
            if (cx.re_sigma_on_eigenvalue && std::abs(cx.ref_ev[jstar] - cld(cx.sigma.real(), 0)) <= (ld) 1e-10 * cx.normA)
            {
                // the eigenvalue at Re sigma itself has nu = 0: no residual scale exists for it (unit norm, finiteness and the root choice stay asserted)
                c.cls("pair_at_re_sigma(residual not asserted)");
                continue;
            }
            ld K = 0;
            for (size_t j = 0; j < cx.ref_ev.size(); j++)
            {
                if (j == jstar)
                {
                    cld l = cx.ref_ev[j];
                    cld dnu = -(cld(1) / ((l - cx.sigma) * (l - cx.sigma)) + cld(1) / ((l - std::conj(cx.sigma)) * (l - std::conj(cx.sigma)))) / cld(2);
                    K = std::max(K, 1 / std::abs(dnu));
                }
                else if (std::abs(cx.ref_ev[j] - cx.ref_ev[jstar]) <= (ld) 1e-12 * cx.normA)
                    continue;  // another copy of the same (multiple) eigenvalue: it contributes like the nearest one
                else
                {
                    ld dn = std::abs(nu_of(cx, cx.ref_ev[j]) - nu);
                    K = std::max(K, dn > 0 ? std::abs(cx.ref_ev[j] - th[i]) / dn : std::numeric_limits<ld>::infinity());
                }
            }
            ld KS = K * cx.R->condS;
            if (std::isfinite((double) KS) && KS * std::abs(nu) <= (ld) 1e4 * cx.norm_shifted * std::abs(nu) + (ld) 1e4)
                bound = KS * (a.tol * std::max(eps23, std::abs(nu)) + CTOL * (ld) n * EPS * rfac * cx.kappa_shifted * cx.normOP) + round_slack;
            else
                c.cls("complex_shift_scale_unbounded(residual not asserted)");
        }
        if (bound >= 0)
        {
            VF_CHECK(res <= bound, "residual",
                     when << ": ||A x - lambda x|| = " << vf::num(res) << " > " << vf::num(bound) << " for pair " << i << " lambda=" << th[i] << " (tol=" << vf::num(a.tol) << ", ||A||="
                          << vf::num(cx.normA) << ", info=" << vf::info_name(eigs.info()) << ", restarts=" << restarts << ")");
            static const char* MN[3] = {"plain", "real shift", "complex shift"};
            vf::report().stat(std::string(MN[cx.mode]) + " residual/bound (passing pairs)", (double) (res / bound));
        }
        // lambda lies in A's spectrum (Bauer-Fike with the measured residual, classes with a known eigenvector conditioning)
        if ((cx.normal || cx.R->prescribed) && bound >= 0)
        {
            ld dist = std::numeric_limits<ld>::infinity();
            for (const cld& l : cx.ref_ev)
                dist = std::min(dist, std::abs(l - th[i]));
            VF_CHECK(dist <= cx.R->condS * (res + round_slack) * 2 + round_slack, "not_in_spectrum",
                     when << ": returned lambda " << th[i] << " is " << vf::num(dist) << " away from the spectrum of A (residual " << vf::num(res) << ")");
        }
    }
    if (any_complex)
        c.cls("complex_pairs_returned");
    // distinct returned pairs are distinct eigenpairs: on simple, separated spectra the nearest-reference map is injective
    // "Distinct returned pairs are distinct eigenpairs (no eigenvalue is overwritten by a copy of its neighbour)": two returned values that
    // belong to the same simple reference eigenvalue AND agree with each other to rounding level are a copy. Two Ritz values that merely
    // lie within the requested accuracy of one eigenvalue are not: with a loose tolerance (and a non-normal matrix) two different
    // eigenvalues of the projected matrix can both pass the convergence test next to one eigenvalue of A, each a valid eigenpair to the
    // accuracy asked for; they differ from each other at the level of that accuracy, not at rounding level.
    if (cx.min_gap > 0)
    {
        std::vector<std::vector<Index>> hit(cx.ref_ev.size());
        bool decidable = true;
        for (Index i = 0; i < ret && decidable; i++)
        {
            size_t jstar = 0;
            for (size_t j = 1; j < cx.ref_ev.size(); j++)
                if (std::abs(cx.ref_ev[j] - th[i]) < std::abs(cx.ref_ev[jstar] - th[i]))
                    jstar = j;
            if (std::abs(cx.ref_ev[jstar] - th[i]) > cx.min_gap / 4)
                decidable = false;  // not close enough to any reference eigenvalue to decide (partial convergence with a loose tol)
            else
                hit[jstar].push_back(i);
        }
        if (decidable)
        {
            c.cls("distinctness_decided");
            // "the same number": a few units in the last place (a copy is produced by assignment, not by computation)
            for (size_t j = 0; j < hit.size(); j++)
                for (size_t a = 0; a < hit[j].size(); a++)
                    for (size_t b = a + 1; b < hit[j].size(); b++)
                    {
                        const cld ta = th[hit[j][a]], tb = th[hit[j][b]];
                        if (std::abs(ta - tb) > 8 * EPS * std::max(std::abs(ta), std::abs(tb)))
                        {
                            c.cls("two_ritz_values_within_tolerance_of_one_eigenvalue(not a copy)");
                            continue;
                        }
                        std::ostringstream all;
                        all << " returned:";
                        for (Index i = 0; i < ret; i++)
                            all << " " << th[i];
                        all << " reference spectrum:";
                        for (const cld& l : cx.ref_ev)
                            all << " " << l;
                        VF_CHECK(false, "duplicate_eigenvalue", when << ": returned pairs " << hit[j][a] << " and " << hit[j][b] << " carry the same eigenvalue " << ta << " (reference " << cx.ref_ev[j] << "): a copy of a neighbour;" << all.str());
                    }
        }
    }
}

template <typename Solver>
static void drive(Solver& eigs, vf::Draw& d, vf::Case& c, const Context& cx)
{
    const vf::GenRecipe& R = *cx.R;
    const Index n = R.n;
    vf::FacEvents fe;
    vf::ObserveEvents obs(&fe);
    auto start_vector = [&](Vec& v) -> std::string {
        int kind = (int) d.range("start_kind", 0, 3);
        VecL vl = VecL::Zero(n);
        std::string name;
        if (kind == 0)
        {
            vf::Lcg g((uint64_t) d.range("start_seed", 0, 255));
            for (Index i = 0; i < n; i++)
                vl[i] = g.u();
            name = "random";
        }
        else if (kind == 1)
        {
            vl[(Index) d.range("start_unit", 0, n - 1)] = 1;
            name = "unit_vector";
        }
        else if (kind == 2)
        {
            vl.setOnes();
            name = "ones";
        }
        else
        {
            for (Index i = 0; i < n; i++)
                vl[i] = (ld) d.range("sv", -2, 2);
            name = "small_integers";
        }
        if (vl.norm() == 0)
            vl[0] = 1;
        v = vl.cast<Real>();
        return name;
    };
    int nprefix = (int) d.range("history_len", 0, 3);
    bool fresh_init = false;
    long computes = 0;
    std::ostringstream hist;
    auto do_init = [&]() {
        bool with_v = d.flag("init_with_vector");
        fe.clear();
        if (with_v)
        {
            Vec v;
            std::string nm = start_vector(v);
            hist << "init(" << nm << ") ";
            c.cls("start/" + nm);
            eigs.init(v.data());
        }
        else
        {
            hist << "init() ";
            c.cls("start/default");
            eigs.init();
        }
        fresh_init = true;
    };
    auto do_compute = [&](const char* when) {
        Args a = draw_args(d);
        hist << "compute(" << vf::ALL_RULE_NAMES[a.sel] << ",maxit=" << a.maxit << ",tol=" << vf::num(a.tol) << "," << vf::ALL_RULE_NAMES[a.sort] << ") ";
        Index ret = eigs.compute(vf::ALL_RULES[a.sel], (Index) a.maxit, (Real) a.tol, vf::ALL_RULES[a.sort]);
        computes++;
        if (!fresh_init)
            c.cls("compute_without_fresh_init");
        fresh_init = false;
        if (eigs.info() == CompInfo::NotConverging && ret > 0)
            c.cls("partial_convergence");
        if (eigs.info() == CompInfo::NotConverging)
            c.cls("NotConverging");
        if (fe.breakdown())
            c.cls("breakdown_seen_by_observer");
        c.feat["computes"] = (double) computes;
        if (ret > 0 && n >= 5)
            c.nontrivial = true;
        c.add_desc(hist.str());
        hist.str("");
        a.tol = (ld) (Real) a.tol;
        check_pairs(eigs, ret, cx, a, fe.compressed, c, when);
    };
    do_init();
    for (int k = 0; k < nprefix; k++)
    {
        if (d.range("op", 0, 2) == 0)
            do_init();
        else
            do_compute("prefix compute");
    }
    if (d.flag("final_init"))
        do_init();
    do_compute("final compute");
    if (computes >= 2)
        c.cls("history_with_2+_computes");
}

static void run_case(vf::Draw& d, vf::Case& c)
{
    int mode = (int) d.range("solver", 0, 2);
    static const char* MODE_NAMES[3] = {"GenEigsSolver", "GenEigsRealShiftSolver", "GenEigsComplexShiftSolver"};
    static const char* FORM_NAMES[3] = {"dense_wrapper", "sparse_wrapper", "user_functor"};
    Index nmax = (Index) vf::options().geti("nmax", 32);
    vf::GenRecipe R = vf::make_gen<Real>(d, 3, nmax);
    const Index n = R.n;
    Index nev, ncv;
    vf::draw_nev_ncv(d, n, true, nev, ncv);
    int form = (int) d.range("op_form", 0, mode == 0 ? 2 : 1);
    Context cx;
    cx.R = &R;
    cx.mode = (Mode) mode;
    cx.Ac = vf::widen(R.A);
    cx.normA = vf::fro_scaled(R.A);
    cx.normal = (R.cls == 1 || R.cls == 2 || R.cls == 3 || R.cls == 4 || R.cls == 9);
    Mat As = R.A.cast<Real>();
    std::ostringstream os;
    os << MODE_NAMES[mode] << "<" << vf::Sc<Real>::name() << "," << FORM_NAMES[form] << "> class=" << R.name << " n=" << n << " scale=1e" << R.scale_exp << " nev=" << nev << " ncv=" << ncv;
    c.cls(std::string(MODE_NAMES[mode]) + "/" + vf::Sc<Real>::name());
    c.cls(std::string("form/") + FORM_NAMES[form]);
    c.cls("class/" + R.name);
    c.feat["scale_exp"] = (double) R.scale_exp;
    c.feat["mode"] = mode;
    c.sfeat["class"] = R.name;
    if (ncv == n)
        c.cls("ncv=n");
    if (cx.normA == 0)
    {
        c.add_desc(os.str() + " zero matrix");
        c.rejected = true;
        return;
    }
    // reference spectrum of the rounded matrix
    {
        Eigen::EigenSolver<MatL> es(MatL(R.A / R.scale), false);
        for (Index i = 0; i < n; i++)
            cx.ref_ev.push_back(es.eigenvalues()[i] * R.scale);
        ld spread = 0;
        for (Index i = 0; i < n; i++)
            spread = std::max(spread, std::abs(cx.ref_ev[i]));
        ld gap = std::numeric_limits<ld>::infinity();
        for (Index i = 0; i < n; i++)
            for (Index j = i + 1; j < n; j++)
                gap = std::min(gap, std::abs(cx.ref_ev[i] - cx.ref_ev[j]));
        // distinctness is decided only for spectra that are simple and separated by >= 1 % of the spectral radius, and
        // whose eigenvalues are well conditioned (normal or prescribed cond(S) <= 100), so the reference itself is trustworthy
        if ((cx.normal || R.prescribed) && gap >= (ld) 0.01 * spread)
            cx.min_gap = gap;
    }
    if (mode != PLAIN)
    {
        // shift: at least 1 % of the spectral radius away from every eigenvalue (by construction, not rejection)
        ld rad = 0, lo = std::numeric_limits<ld>::infinity(), hi = -lo;
        for (const cld& l : cx.ref_ev)
        {
            rad = std::max(rad, std::abs(l));
            lo = std::min(lo, l.real());
            hi = std::max(hi, l.real());
        }
        std::vector<cld> cand;
        cand.push_back(cld(lo - rad / 5, 0));
        cand.push_back(cld(hi + rad / 5, 0));
        std::vector<ld> re;
        for (const cld& l : cx.ref_ev)
            re.push_back(l.real());
        std::sort(re.begin(), re.end());
        for (size_t i = 0; i + 1 < re.size(); i++)
            cand.push_back(cld((re[i] + re[i + 1]) / 2, 0));
        ld sigi = 0;
        if (mode == COMPLEX_SHIFT)
            sigi = rad * (ld) d.range("sigma_imag_16th", 1, 16) / 16;
        std::vector<cld> good;
        for (cld s : cand)
        {
            s = cld(s.real(), sigi);
            ld dm = std::numeric_limits<ld>::infinity();
            for (const cld& l : cx.ref_ev)
            {
                dm = std::min(dm, std::min(std::abs(l - s), std::abs(l - std::conj(s))));
                // nu(lambda) = (lambda - Re sigma) / ((lambda - Re sigma)^2 + (Im sigma)^2) vanishes at lambda = Re sigma, where the
                // back-transformation divides by nu: an eigenvalue there is outside the method's domain, like sigma on an eigenvalue
                dm = std::min(dm, std::abs(l - cld(s.real(), 0)));
                // on the circle |lambda - Re sigma| = |Im sigma| the map nu(lambda) has its branch points: a conjugate pair on it is mapped to ONE
                // real double eigenvalue of the iterated operator and cannot be separated by a real iteration (two eigenvalues with equal nu: no
                // residual scale exists). Keep every eigenvalue 1 % of the spectral radius away from that circle; the deliberately constructed
                // real eigenvalue on the circle (class "critical_sigma_construction") is added separately below
                if (sigi > 0)
                    dm = std::min(dm, std::abs(std::abs(l - cld(s.real(), 0)) - sigi));
            }
            if (dm >= (ld) 0.01 * rad)
                good.push_back(s);
        }
        if (good.empty())
            good.push_back(cld(hi + rad / 5 + rad, sigi));
        cld sig = good[(size_t) d.range("sigma_pos", 0, (long) good.size() - 1)];
        // constructed critical case (triangular class: eigenvalues are the exactly representable diagonal entries):
        // a real eigenvalue lambda0 with |lambda0 - Re sigma| = |Im sigma| exactly
        if (mode == COMPLEX_SHIFT && R.cls == 5 && d.flag("critical_sigma"))
        {
            Index j = (Index) d.range("critical_at", 0, n - 1);
            ld dd = std::ldexp((ld) 1, (int) d.range("critical_log2", -3, 1)) * R.scale;
            sig = cld(R.A(j, j) + (d.flag("critical_sign") ? dd : -dd), dd);
            cx.critical_construction = true;
            c.cls("critical_sigma_construction");
        }
        // second constructed case (signed permutation matrices: eigenvalues +s / -s are exact when they occur): Re sigma EXACTLY on a real
        // eigenvalue lambda0 of A. A - sigma I is nonsingular (Im sigma != 0), so the problem is legal; nu(lambda0) = 0, so lambda0 is the least
        // wanted eigenvalue under LargestMagn and every other pair has its usual scale. Any auxiliary real shift the solver derives from
        // Re sigma alone hits an exactly singular matrix here.
        if (mode == COMPLEX_SHIFT && R.cls == 4 && d.flag("re_sigma_on_eigenvalue"))
        {
            const ld s0 = R.A.cwiseAbs().maxCoeff();
            const ld r0 = d.flag("re_sigma_negative") ? -s0 : s0;
            Eigen::FullPivLU<MatL> lu0(MatL(R.A - r0 * MatL::Identity(n, n)));
            lu0.setThreshold(0);
            bool ok = !lu0.isInvertible();
            cld s(r0, sigi);
            for (const cld& l : cx.ref_ev)
            {
                if (std::abs(l - cld(r0, 0)) <= (ld) 1e-12 * rad)
                    continue;  // the eigenvalue(s) at Re sigma
                ld dm = std::min(std::abs(l - s), std::abs(l - std::conj(s)));
                dm = std::min(dm, std::abs(l - cld(r0, 0)));
                dm = std::min(dm, std::abs(std::abs(l - cld(r0, 0)) - sigi));
                if (dm < (ld) 0.01 * rad)
                    ok = false;
            }
            if (ok)
            {
                sig = s;
                cx.re_sigma_on_eigenvalue = true;
                c.cls("re_sigma_on_eigenvalue_construction");
            }
        }
        if (sig.real() == 0 && sig.imag() == 0)
            sig = cld(rad / 5, sigi);
        cx.sigma = cld((ld) (Real) sig.real(), (ld) (Real) sig.imag());
        CMatL M = cx.Ac - cx.sigma * CMatL::Identity(n, n);
        Eigen::JacobiSVD<CMatL> svd(M);
        ld smax = svd.singularValues()[0], smin = svd.singularValues()[n - 1];
        if (!(smin > 0))
        {
            c.add_desc(os.str() + " singular shifted matrix");
            c.rejected = true;
            return;
        }
        // a shift for which A - sigma I is numerically singular is "a shift that is an eigenvalue" for every practical purpose (the
        // factorization the operator relies on has no correct digit): outside the domain, like the exactly singular one (as in C13)
        if (smax / smin > std::min((ld) 1e12, (ld) 0.01 / EPS))
        {
            c.add_desc(os.str() + " numerically singular shifted matrix (cond " + vf::num(smax / smin) + ")");
            c.rejected = true;
            c.cls("rejected/numerically_singular_shift");
            return;
        }
        cx.norm_shifted = smax;
        cx.kappa_shifted = smax / smin;
        cx.normOP = 1 / smin;
        os << " sigma=" << cx.sigma << " cond(A-sI)=" << vf::num(cx.kappa_shifted);
    }
    c.add_desc(os.str());
    try
    {
        if (mode == PLAIN)
        {
            if (form == 0)
            {
                Spectra::DenseGenMatProd<Real> op(As);
                Spectra::GenEigsSolver<Spectra::DenseGenMatProd<Real>> eigs(op, nev, ncv);
                drive(eigs, d, c, cx);
            }
            else if (form == 1)
            {
                Eigen::SparseMatrix<Real> sp = vf::to_sparse<Real>(As);
                Spectra::SparseGenMatProd<Real> op(sp);
                Spectra::GenEigsSolver<Spectra::SparseGenMatProd<Real>> eigs(op, nev, ncv);
                drive(eigs, d, c, cx);
            }
            else
            {
                vf::FunctorOp<Real> op(As);
                Spectra::GenEigsSolver<vf::FunctorOp<Real>> eigs(op, nev, ncv);
                drive(eigs, d, c, cx);
            }
        }
        else if (mode == REAL_SHIFT)
        {
            if (form == 0)
            {
                Spectra::DenseGenRealShiftSolve<Real> op(As);
                Spectra::GenEigsRealShiftSolver<Spectra::DenseGenRealShiftSolve<Real>> eigs(op, nev, ncv, (Real) cx.sigma.real());
                drive(eigs, d, c, cx);
            }
            else
            {
                Eigen::SparseMatrix<Real> sp = vf::to_sparse<Real>(As);
                Spectra::SparseGenRealShiftSolve<Real> op(sp);
                Spectra::GenEigsRealShiftSolver<Spectra::SparseGenRealShiftSolve<Real>> eigs(op, nev, ncv, (Real) cx.sigma.real());
                drive(eigs, d, c, cx);
            }
        }
        else
        {
            if (form == 0)
            {
                Spectra::DenseGenComplexShiftSolve<Real> op(As);
                Spectra::GenEigsComplexShiftSolver<Spectra::DenseGenComplexShiftSolve<Real>> eigs(op, nev, ncv, (Real) cx.sigma.real(), (Real) cx.sigma.imag());
                drive(eigs, d, c, cx);
            }
            else
            {
                Eigen::SparseMatrix<Real> sp = vf::to_sparse<Real>(As);
                Spectra::SparseGenComplexShiftSolve<Real> op(sp);
                Spectra::GenEigsComplexShiftSolver<Spectra::SparseGenComplexShiftSolve<Real>> eigs(op, nev, ncv, (Real) cx.sigma.real(), (Real) cx.sigma.imag());
                drive(eigs, d, c, cx);
            }
        }
    }
    catch (const std::invalid_argument& e)
    {
        c.rejected = true;
        c.cls(std::string("invalid_argument: ") + e.what());
    }
    catch (const std::runtime_error& e)
    {
        c.rejected = true;
        c.cls(std::string("runtime_error: ") + e.what());
    }
}

// Known-finding signatures (KNOWN_FINDINGS.txt)
static std::string match(const vf::Violation& v, const vf::Case& c)
{
    // KF-C02-1: GenEigsComplexShiftSolver decides between the two roots of its back-transformation by applying the operator at ONE fixed
    // pseudo-random real probe shift r = u1 * Re(sigma) + u2 and comparing with v / (root - r). When r happens to lie next to an eigenvalue of A
    // (any eigenvalue, wanted or not), inv(A - r I) amplifies the tolerance-level error of the Ritz vector along that eigenvector by
    // 1/|lambda_k - r| and the comparison is decided by noise: the wrong root is reported although the other one fits the returned vector.
    // Keyed on the violation kind AND on the probe shift being within 5 % of the spectral radius of an eigenvalue of A (computed by the
    // harness from the reference spectrum): a wrong root with a probe shift that is far from the spectrum is a different defect and is reported.
    if (v.kind == "wrong_root" && c.f("probe_shift_distance_to_spectrum/radius", 1.0) < 0.05)
        return "complex_shift_root_probe_next_to_an_eigenvalue";
    return "";
}

int main(int argc, char** argv)
{
    return vf::run_main(argc, argv, "C02", run_case, match);
}
