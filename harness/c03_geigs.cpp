// C03 - symmetric generalized solvers: every pair reported as converged is an eigenpair of the ORIGINAL pencil
// (K x = lambda K_G x in buckling mode) and the vectors are orthonormal in the inner product of the positive-definite
// matrix of the pencil (B, or K in buckling mode), under any init()/compute() history.
//
// Asserted after EVERY compute(), for every returned pair, with all reference quantities from long double decompositions:
//   ||A x - lambda B x||_2 <= tol * C_mode + 64 n eps (1+restarts) kappa_F G_mode ||x||        (K x - lambda K_G x in buckling mode)
//   max |X^T B X - I|     <= 64 n eps (1+restarts) max(kappa(B), kappa_F)                      (X^T K X in buckling mode)
// C_mode is the exact image of the documented convergence test |est| ||f||_W < tol max(eps^(2/3), |nu|) under each back-transformation
// (see check_pairs), kappa_F the condition number of the matrix that is factorized (B, or A - sigma B), G_mode the rounding scale
// (||A|| + |lambda| ||B|| plus, where the mode itself works with something larger, that quantity; see check_pairs and props_d/c03.py).
//
// One translation unit per real scalar type (VF_REAL). C03_PART selects the solver family compiled into the unit
// (0 = both, 1 = SymGEigsSolver {Cholesky, RegularInverse}, 2 = SymGEigsShiftSolver {ShiftInvert, Buckling, Cayley});
// C03_SPARSE = 0 keeps the dense-only subset of the instantiation list (float / long double units).
#include "vf/eigen_assert.hpp"
#include <Eigen/Core>
#include <Eigen/Sparse>
#include <Eigen/Cholesky>
#include <Eigen/Eigenvalues>
#include <Spectra/SymGEigsSolver.h>
#include <Spectra/SymGEigsShiftSolver.h>
#include <Spectra/MatOp/DenseSymMatProd.h>
#include <Spectra/MatOp/SparseSymMatProd.h>
#include <Spectra/MatOp/DenseCholesky.h>
#include <Spectra/MatOp/SparseCholesky.h>
#include <Spectra/MatOp/SparseRegularInverse.h>
#include <Spectra/MatOp/SymShiftInvert.h>
#include "vf/oracle.hpp"
#include "vf/solverkit.hpp"
#include "vf/runner.hpp"
#include <functional>
#include <algorithm>
#include <chrono>
#include <iostream>

#ifndef VF_REAL
#define VF_REAL double
#endif
#ifndef C03_PART
#define C03_PART 0
#endif
#ifndef C03_SPARSE
#define C03_SPARSE 1
#endif
typedef VF_REAL Real;
using vf::ld;
using vf::MatL;
using vf::VecL;
using vf::Index;
using Spectra::SortRule;
using Spectra::CompInfo;
using Spectra::GEigsMode;

static const ld CTOL = 64;
static const ld EPS = (ld) std::numeric_limits<Real>::epsilon();
static const ld EPS_LD = (ld) std::numeric_limits<ld>::epsilon();

typedef Eigen::Matrix<Real, Eigen::Dynamic, 1> VecR;
typedef Eigen::Matrix<Real, Eigen::Dynamic, Eigen::Dynamic> MatR;

enum Mode
{
    M_CHOL = 0,
    M_REGINV = 1,
    M_SHIFTINV = 2,
    M_BUCKLING = 3,
    M_CAYLEY = 4
};
static const char* const MODE_NAMES[5] = {"Cholesky", "RegularInverse", "ShiftInvert", "Buckling", "Cayley"};

// -------------------------------------------------------------------------------------------------------------
// The generated pencil and everything the oracle needs, all in long double and independent of Spectra.
struct Problem
{
    Index n = 0;
    int mode = 0;
    MatL A;  // the symmetric matrix of the pencil (A; K_G in buckling mode), exactly representable in Real
    MatL P;  // the positive-definite matrix of the pencil (B; K in buckling mode), exactly representable in Real
    ld normA = 0, normP = 0;          // Frobenius norms
    ld pmin = 0, pmax = 0, kappaP = 1;  // extreme eigenvalues / condition number of P (long double reference)
    VecL ref;    // reference eigenvalues, ascending: lambda of (A, P); in buckling mode mu = 1/lambda of (K_G, K)
    MatL refX;   // reference eigenvectors (P-orthonormal)
    MatL Lref;   // Cholesky factor of P (start vectors of the Cholesky mode)
    // shift family
    ld sigma = 0;         // as the solver sees it (rounded to Real)
    ld norm_shift2 = 0;   // ||A - sigma B||_2  (||K - sigma K_G||_2)
    ld kappaF = 1;        // condition number of the matrix that is factorized: P, or the shifted matrix
    ld rho_nu = 0;        // largest |nu_i| of the iteration operator (reference spectrum): ||OP|| in the inner product of the iteration
    ld inf_ratio = 1;     // buckling: min_i |mu_i * sigma| ; nu rounds to 1 (lambda = inf) when this is at rounding level
    MatL OPref;           // the iteration operator in long double (classification of start vectors only)
    std::string aname, pname;
};

// -------------------------------------------------------------------------------------------------------------
// Typed matrix arguments. `uplo` is the triangle the wrapper is told to use; `other` says what the other triangle holds:
// 0 = the symmetric counterpart, 1 = garbage (finite, of the magnitude of the matrix), 2 = nothing (sparse: not stored; dense: garbage).
static ld garbage(const MatL& M, Index i, Index j)
{
    ld mx = M.cwiseAbs().maxCoeff();
    if (mx == 0)
        mx = 1;
    return (ld) (Real) (mx * (ld) (1 + ((3 * i + 5 * j) % 7)) / 4);
}
static bool in_triangle(int uplo, Index i, Index j)
{
    return (uplo == Eigen::Lower) ? (i >= j) : (i <= j);
}
template <int Flags>
static Eigen::Matrix<Real, Eigen::Dynamic, Eigen::Dynamic, Flags> dense_arg(const MatL& M, int uplo, int other)
{
    Eigen::Matrix<Real, Eigen::Dynamic, Eigen::Dynamic, Flags> r(M.rows(), M.cols());
    for (Index j = 0; j < M.cols(); j++)
        for (Index i = 0; i < M.rows(); i++)
            r(i, j) = (Real) ((in_triangle(uplo, i, j) || other == 0) ? M(i, j) : garbage(M, i, j));
    return r;
}
template <int Flags>
static Eigen::SparseMatrix<Real, Flags> sparse_arg(const MatL& M, int uplo, int other)
{
    Eigen::SparseMatrix<Real, Flags> sp(M.rows(), M.cols());
    std::vector<Eigen::Triplet<Real>> t;
    for (Index j = 0; j < M.cols(); j++)
        for (Index i = 0; i < M.rows(); i++)
        {
            if (in_triangle(uplo, i, j) || other == 0)
            {
                if (M(i, j) != 0)
                    t.emplace_back(i, j, (Real) M(i, j));
            }
            else if (other == 1)
                t.emplace_back(i, j, (Real) garbage(M, i, j));
        }
    sp.setFromTriplets(t.begin(), t.end());
    sp.makeCompressed();
    return sp;
}

// operand descriptions: the typed matrix, the wrapper built on it, and labels
template <int Uplo_, int Flags_>
struct DenseM
{
    static const int Uplo = Uplo_, Flags = Flags_;
    static const bool sparse = false;
    typedef Eigen::Dense Type;
    typedef Eigen::Matrix<Real, Eigen::Dynamic, Eigen::Dynamic, Flags_> Mat;
    typedef Spectra::DenseSymMatProd<Real, Uplo_, Flags_> Prod;
    typedef Spectra::DenseCholesky<Real, Uplo_, Flags_> Chol;
    static Mat make(const MatL& M, int other) { return dense_arg<Flags_>(M, Uplo_, other); }
};
template <int Uplo_, int Flags_>
struct SparseM
{
    static const int Uplo = Uplo_, Flags = Flags_;
    static const bool sparse = true;
    typedef Eigen::Sparse Type;
    typedef Eigen::SparseMatrix<Real, Flags_> Mat;
    typedef Spectra::SparseSymMatProd<Real, Uplo_, Flags_> Prod;
    typedef Spectra::SparseCholesky<Real, Uplo_, Flags_> Chol;
    typedef Spectra::SparseRegularInverse<Real, Uplo_, Flags_> RegInv;
    static Mat make(const MatL& M, int other) { return sparse_arg<Flags_>(M, Uplo_, other); }
};
static const int L = Eigen::Lower, U = Eigen::Upper, CM = Eigen::ColMajor, RM = Eigen::RowMajor;

template <typename M>
static std::string mname()
{
    return std::string(M::sparse ? "sparse" : "dense") + (M::Uplo == Eigen::Lower ? ",Lower" : ",Upper") + (M::Flags == Eigen::ColMajor ? ",Col" : ",Row");
}

// user-defined B operator of the regular-inverse mode ("define their own that implements all the public member functions as in
// SparseRegularInverse"): dense product and dense LLT solve in the scalar type. Lets the mode run in the dense-only units and
// for condition numbers at which the wrapper's conjugate-gradient solver legitimately gives up.
class UserRegInv
{
public:
    using Scalar = Real;
    MatR M;
    Eigen::LLT<MatR> llt;
    explicit UserRegInv(const MatR& m) :
        M(m), llt(m) {}
    Index rows() const { return M.rows(); }
    Index cols() const { return M.cols(); }
    bool ok() const { return llt.info() == Eigen::Success; }
    void solve(const Real* x_in, Real* y_out) const
    {
        Eigen::Map<const VecR> x(x_in, M.rows());
        Eigen::Map<VecR> y(y_out, M.rows());
        y = llt.solve(x);
    }
    void perform_op(const Real* x_in, Real* y_out) const
    {
        Eigen::Map<const VecR> x(x_in, M.rows());
        Eigen::Map<VecR> y(y_out, M.rows());
        y.noalias() = M * x;
    }
};

// -------------------------------------------------------------------------------------------------------------
// Type-erased view of a solver object: the history driver and the oracle are compiled once, not once per instantiation.
struct Handle
{
    std::function<void()> init0;
    std::function<void(const Real*)> init1;
    std::function<Index(SortRule, Index, Real, SortRule)> compute;
    std::function<VecR()> evals;
    std::function<MatR()> evecs;
    std::function<CompInfo()> info;
};
template <typename Solver>
static Handle make_handle(Solver& s)
{
    Handle h;
    h.init0 = [&s]() { s.init(); };
    h.init1 = [&s](const Real* v) { s.init(v); };
    h.compute = [&s](SortRule sel, Index maxit, Real tol, SortRule sort) { return s.compute(sel, maxit, tol, sort); };
    h.evals = [&s]() -> VecR { return s.eigenvalues(); };
    h.evecs = [&s]() -> MatR { return s.eigenvectors(); };
    h.info = [&s]() { return s.info(); };
    return h;
}

struct Args
{
    int sel, sort;
    long maxit;
    ld tol;
};

// -------------------------------------------------------------------------------------------------------------
// Oracle for one compute().
static void check_pairs(const Handle& eigs, Index ret, const Problem& pb, const Args& a, long restarts, vf::Case& c, const char* when)
{
    const Index n = pb.n;
    const bool buck = pb.mode == M_BUCKLING;
    VecR evals_s = eigs.evals();
    MatR evecs_s = eigs.evecs();
    VF_CHECK(evals_s.size() == ret && evecs_s.cols() == ret && (ret == 0 || evecs_s.rows() == n), "counts",
             when << ": compute() returned " << ret << ", eigenvalues().size()=" << evals_s.size() << ", eigenvectors() is " << evecs_s.rows() << "x" << evecs_s.cols());
    if (ret == 0)
        return;
    VecL th = evals_s.template cast<ld>();
    MatL X = evecs_s.template cast<ld>();
    const ld eps23 = std::pow(EPS, (ld) 2 / 3);
    const ld rfac = (ld) (1 + restarts);
    const std::string mode = MODE_NAMES[pb.mode];
    VF_CHECK(vf::all_finite(X), "nonfinite", when << ": NaN/Inf in the returned vectors");
    for (Index i = 0; i < ret; i++)
    {
        const ld lam = th[i];
        if (!std::isfinite((double) lam) && !std::isnan((double) lam) && buck && pb.inf_ratio <= CTOL * (ld) n * EPS * rfac * pb.kappaF)
        {
            // K_G is singular to working precision: the pencil K x = lambda K_G x has an infinite eigenvalue (nu = 1)
            c.cls("buckling_infinite_eigenvalue_returned");
            continue;
        }
        VF_CHECK(std::isfinite((double) lam), "nonfinite", when << ": eigenvalue " << i << " is " << vf::num(lam));
        const VecL x = X.col(i);
        const ld nx = x.norm();
        ld res, gsum;
        if (!buck)
        {
            res = (pb.A * x - lam * (pb.P * x)).norm();
            gsum = (pb.normA + std::abs(lam) * pb.normP) * nx;
        }
        else
        {
            res = (pb.P * x - lam * (pb.A * x)).norm();
            gsum = (pb.normP + std::abs(lam) * pb.normA) * nx;
        }
        // tol * C_mode: the documented test |est| ||f||_W < tol max(eps^(2/3), |nu|) pushed through the back-transformation
        // back-transformation: pencil residual = tfac * M * r with r = OP x - nu x the residual of the iteration, M = L, B or the shifted matrix
        ld tfac, nu, mnorm;
        switch (pb.mode)
        {
            case M_CHOL:
            case M_REGINV:
                // A x - theta B x = L r (||r||_2 < thresh)  resp.  = B r (||r||_B < thresh): ||.||_2 <= sqrt(lambda_max(B)) thresh
                nu = lam;
                tfac = 1;
                mnorm = std::sqrt(pb.pmax);
                break;
            case M_SHIFTINV:
                // nu = 1/(lambda - sigma);  A x - lambda B x = -(A - sigma B) r / nu,  ||r||_2 <= ||r||_B / sqrt(lambda_min(B))
                nu = 1 / (lam - pb.sigma);
                tfac = std::abs(lam - pb.sigma);
                mnorm = pb.norm_shift2 / std::sqrt(pb.pmin);
                break;
            case M_BUCKLING:
                // nu = lambda/(lambda - sigma);  K x - lambda K_G x = -((lambda - sigma)/sigma) (K - sigma K_G) r,  (lambda - sigma)/sigma = lambda/(sigma nu)
                nu = lam / (lam - pb.sigma);
                tfac = std::abs((lam - pb.sigma) / pb.sigma);
                mnorm = pb.norm_shift2 / std::sqrt(pb.pmin);
                break;
            default:
                // nu = (lambda + sigma)/(lambda - sigma);  A x - lambda B x = -((lambda - sigma)/(2 sigma)) (A - sigma B) r,  (lambda - sigma)/(2 sigma) = (lambda + sigma)/(2 sigma nu)
                nu = (lam + pb.sigma) / (lam - pb.sigma);
                tfac = std::abs((lam - pb.sigma) / (2 * pb.sigma));
                mnorm = pb.norm_shift2 / std::sqrt(pb.pmin);
                break;
        }
        const ld cmode = tfac * mnorm * std::max(eps23, std::abs(nu));
        const ld tolpart = a.tol * cmode;
        // rounding scale: the user's pencil, plus the matrix the operator works with pushed through the same back-transformation.
        // Cholesky: the pencil itself. Regular inverse: y = B^-1 (A v) is accurate relative to ||y|| ~ rho ||v||, rho = max |lambda_i|, for the
        // Lanczos vectors v (not relative to |lambda| ||x||), which leaves B * error ~ rho ||B||. Shift modes: the solve with A - sigma B has a
        // backward error relative to ||A - sigma B||, which is not bounded by ||A|| + |lambda| ||B|| when |sigma| >> |lambda| (or |lambda| >> |sigma|
        // in the buckling and Cayley back-transformations): tfac |nu| ||A - sigma B|| is its image in the pencil residual.
        ld gmode;
        if (pb.mode == M_CHOL)
            gmode = gsum;
        else if (pb.mode == M_REGINV)
            gmode = (pb.normA + std::max(std::abs(lam), pb.rho_nu) * pb.normP) * nx;
        else
            gmode = gsum + tfac * std::abs(nu) * pb.norm_shift2 * nx;
        const ld roundpart = CTOL * (ld) n * EPS * rfac * pb.kappaF * gmode;
        const ld bound = tolpart + roundpart;
        if (std::getenv("C03_CALIB"))
        {
            // calibration aid (never set by props_d/c03.py): records (residual - tol*C_mode) in units of the asserted rounding scale and of the
            // plain scale n eps (1+r) kappa_F (||A|| + |lambda| ||B||) ||x|| for ALL pairs, asserts nothing
            ld over = std::max((ld) 0, res - tolpart);
            vf::report().stat("CALIB " + mode + ": (residual - tol*C_mode)/(n eps (1+r) kappa_F (|A|+|lambda||B|)|x|)", (double) (over / ((ld) n * EPS * rfac * pb.kappaF * gsum)));
            vf::report().stat("CALIB " + mode + ": (residual - tol*C_mode)/(n eps (1+r) kappa_F G_mode)", (double) (over / (roundpart / CTOL)));
            if (over > roundpart && std::getenv("VF_DEBUG"))
                std::fprintf(stderr, "CALIB-RES %s %.3g lam %.3Lg sigma %.3Lg rho %.3Lg nu %.3Lg | %s\n", mode.c_str(), (double) (over / (roundpart / CTOL)), lam, pb.sigma, pb.rho_nu, nu, c.desc.c_str());
            continue;
        }
        VF_CHECK(res <= bound, "residual",
                 when << ": " << (buck ? "||K x - lambda K_G x||" : "||A x - lambda B x||") << " = " << vf::num(res) << " > " << vf::num(bound) << " = tol*C_mode " << vf::num(tolpart) << " + rounding "
                      << vf::num(roundpart) << " for pair " << i << " lambda=" << vf::num(lam) << " (mode " << mode << ", tol=" << vf::num(a.tol) << ", (|A|+|lambda||B|)|x|=" << vf::num(gsum) << ", rounding scale=" << vf::num(gmode)
                      << ", kappa_F=" << vf::num(pb.kappaF) << ", kappa(P)=" << vf::num(pb.kappaP) << ", info=" << vf::info_name(eigs.info()) << ", restarts=" << restarts << ")");
        vf::report().stat(mode + ": residual/bound (passing pairs)", (double) (res / bound));
        vf::report().stat(mode + ": (residual - tol*C_mode)/(n eps (1+r) kappa_F G_mode) (passing pairs)", (double) (std::max((ld) 0, res - tolpart) / (roundpart / CTOL)));
        if (tolpart >= roundpart)
            vf::report().stat(mode + ": residual/(tol*C_mode) when tol*C_mode dominates (passing pairs)", (double) (res / tolpart));
        if (std::getenv("VF_DEBUG") && res / bound > 0.25)
            std::fprintf(stderr, "HIGH res/bound %.3g tolpart %.3Lg roundpart %.3Lg nullspace_ratio %.3g opv_abs %.3g | %s\n", (double) (res / bound), tolpart, roundpart, c.f("start_nullspace_ratio", 1), c.f("start_opv_abs", 1), c.desc.c_str());
        // the bound constrains the pair only if it is well below the trivial size of the residual
        if (bound <= (ld) 1e-3 * gsum)
            c.nontrivial = true;
        else
            c.cls("pair_with_vacuous_bound");
    }
    // orthonormality in the inner product of the positive-definite matrix (columns with an infinite eigenvalue included)
    MatL G = X.transpose() * pb.P * X - MatL::Identity(ret, ret);
    ld orth = vf::maxabs(G);
    ld obound = CTOL * (ld) n * EPS * rfac * std::max(pb.kappaP, pb.kappaF);
    if (std::getenv("C03_CALIB"))
    {
        vf::report().stat("CALIB " + mode + " orthonormality/(n eps (1+r) max(kappa(P),kappa_F))", (double) (orth / (obound / CTOL)));
        if (orth > obound && std::getenv("VF_DEBUG"))
            std::fprintf(stderr, "CALIB-ORTH %s %.3g | %s\n", mode.c_str(), (double) (orth / (obound / CTOL)), c.desc.c_str());
        return;
    }
    VF_CHECK(orth <= obound, "orthonormality",
             when << ": max|X^T " << (buck ? "K" : "B") << " X - I| = " << vf::num(orth) << " > " << vf::num(obound) << " (mode " << mode << ", " << ret << " vectors, kappa(P)=" << vf::num(pb.kappaP)
                  << ", kappa_F=" << vf::num(pb.kappaF) << ", restarts=" << restarts << ", info=" << vf::info_name(eigs.info()) << ")");
    vf::report().stat(mode + ": orthonormality/(n eps (1+r) max(kappa(P),kappa_F))", (double) (orth / (obound / CTOL)));
    if (std::getenv("VF_DEBUG") && orth / obound > 0.1)
        std::fprintf(stderr, "HIGH orth/bound %.3g nullspace_ratio %.3g opv_abs %.3g | %s\n", (double) (orth / obound), c.f("start_nullspace_ratio", 1), c.f("start_opv_abs", 1), c.desc.c_str());
    if (obound > (ld) 1e-3)
        c.cls("orthonormality_bound_vacuous");
}

// -------------------------------------------------------------------------------------------------------------
// Drives one solver object through a drawn history; every compute() is checked.
static void drive(const Handle& eigs, vf::Draw& d, vf::Case& c, const Problem& pb)
{
    const Index n = pb.n;
    vf::FacEvents fe;
    vf::ObserveEvents obs(&fe);
    auto start_vector = [&](VecR& v) -> std::string {
        int kind = (int) d.range("start_kind", 0, 4);
        VecL vl = VecL::Zero(n);
        std::string name;
        if (kind == 0)
        {
            vf::Lcg g((uint64_t) d.range("start_seed", 0, 255));
            for (Index i = 0; i < n; i++)
                vl[i] = g.u();
            name = "random";
        }
        else if (kind == 1)
        {
            // an eigenvector of the iteration operator (invariant subspace of dimension 1): x for B^-1 A and the shift operators, L^T x for L^-1 A L^-T
            vl = pb.refX.col((Index) d.range("start_eigvec", 0, n - 1));
            if (pb.mode == M_CHOL)
                vl = pb.Lref.transpose() * vl;
            name = "eigenvector";
        }
        else if (kind == 2)
        {
            int k = (int) d.range("start_ncomb", 2, 3);
            for (int j = 0; j < k; j++)
                vl += pb.refX.col((Index) d.range("start_eigvec", 0, n - 1)) * (ld) (j + 1);
            if (pb.mode == M_CHOL)
                vl = pb.Lref.transpose() * vl;
            name = "combination_of_eigenvectors";
        }
        else if (kind == 3)
        {
            vl[(Index) d.range("start_unit", 0, n - 1)] = 1;
            name = "unit_vector";
        }
        else
        {
            vl.setOnes();
            name = "ones";
        }
        if (!(vl.norm() > 0) || !vf::all_finite(vl))
        {
            vl.setZero();
            vl[0] = 1;
        }
        vl /= vl.cwiseAbs().maxCoeff();
        v = vl.template cast<Real>();
        {
            // is the start vector numerically in the null space of the iteration operator? (||OP v0|| at rounding level relative to ||OP|| ||v0||)
            VecL vr = v.template cast<ld>();
            ld ratio = (pb.OPref * vr).norm() / (vf::fro_scaled(pb.OPref) * vr.norm());
            if (!c.feat.count("start_nullspace_ratio") || (double) ratio < c.feat["start_nullspace_ratio"])
                c.feat["start_nullspace_ratio"] = (double) ratio;
            ld opv = (pb.OPref * vr).norm();  // v0 has max |entry| = 1
            if (!c.feat.count("start_opv_abs") || (double) opv < c.feat["start_opv_abs"])
                c.feat["start_opv_abs"] = (double) opv;
        }
        if (std::getenv("C03_DUMP"))
            std::cerr << "start vector (" << name << ") = " << v.transpose() << "\n";
        return name;
    };
    int nprefix = (int) d.range("history_len", 0, 2);
    bool fresh_init = false;
    long computes = 0;
    std::ostringstream hist;
    auto do_init = [&]() {
        bool with_v = d.flag("init_with_vector");
        fe.clear();
        if (with_v)
        {
            VecR v;
            std::string nm = start_vector(v);
            hist << "init(" << nm << ") ";
            c.cls("start/" + nm);
            eigs.init1(v.data());
        }
        else
        {
            hist << "init() ";
            c.cls("start/default");
            eigs.init0();
        }
        fresh_init = true;
    };
    auto do_compute = [&](const char* when) {
        Args a;
        a.sel = vf::SYM_RULES[d.range("selection", 0, 4)];
        a.sort = vf::SYM_SORT_RULES[d.range("sorting", 0, 3)];
        a.maxit = vf::draw_maxit(d);
        a.tol = vf::draw_tol<Real>(d);
        hist << "compute(" << vf::ALL_RULE_NAMES[a.sel] << ",maxit=" << a.maxit << ",tol=" << vf::num(a.tol) << "," << vf::ALL_RULE_NAMES[a.sort] << ") ";
        Index ret = eigs.compute(vf::ALL_RULES[a.sel], (Index) a.maxit, (Real) a.tol, vf::ALL_RULES[a.sort]);
        computes++;
        if (!fresh_init)
            c.cls("compute_without_fresh_init");
        fresh_init = false;
        if (eigs.info() == CompInfo::NotConverging && ret > 0)
            c.cls("partial_convergence");
        if (eigs.info() == CompInfo::NotConverging)
            c.cls("NotConverging");
        if (fe.breakdown())
            c.cls("breakdown_seen_by_observer");
        if (fe.compressed > 0)
            c.cls("with_restart");
        c.feat["restarts"] = (double) fe.compressed;
        hist << "-> " << ret << " pairs, " << vf::info_name(eigs.info()) << ", " << fe.compressed << " restarts ";
        c.add_desc(hist.str());
        hist.str("");
        if (ret > 0)
            c.cls("pairs_returned");
        a.tol = (ld) (Real) a.tol;  // as the solver saw it
        check_pairs(eigs, ret, pb, a, fe.compressed, c, when);
    };
    do_init();
    for (int k = 0; k < nprefix; k++)
    {
        int op = (int) d.range("op", 0, 2);
        if (op == 0)
            do_init();
        else
            do_compute("prefix compute");
    }
    if (d.flag("final_init"))
        do_init();
    do_compute("final compute");
    if (computes >= 2)
        c.cls("history_with_2+_computes");
    if (computes >= 2)
        c.cls(std::string("repeated_compute/") + MODE_NAMES[pb.mode]);
}

// -------------------------------------------------------------------------------------------------------------
// Instantiations. Every function builds the typed matrices, the wrappers and the solver, then hands over to drive().
struct Run
{
    const Problem* pb;
    Index nev, ncv;
    int other[3];  // content of the unused triangle of the first / second / third typed matrix
    vf::Draw* d;
    vf::Case* c;
};
static void label_operand(vf::Case& c, bool sparse, int uplo, int flags)
{
    // one label per case, however many operands have the attribute
    auto once = [&c](const char* k) {
        if (std::find(c.classes.begin(), c.classes.end(), std::string(k)) == c.classes.end())
            c.cls(k);
    };
    if (uplo == Eigen::Upper)
        once("Upper");
    if (flags == Eigen::RowMajor)
        once("RowMajor");
    if (sparse)
        once("some_sparse_operand");
}
static void cholesky_status(bool ok, const Problem& pb, vf::Case& c)
{
    // the factorization may refuse B only when B is not positive definite to working precision
    VF_CHECK(ok || CTOL * (ld) pb.n * EPS * pb.kappaP >= 1, "cholesky_status", "Cholesky wrapper reports failure for a positive-definite B with kappa=" << vf::num(pb.kappaP));
    if (!ok)
    {
        c.rejected = true;
        c.cls("cholesky_refused");
    }
}

#if C03_PART == 0 || C03_PART == 1
template <typename AM, typename BM>
static void run_cholesky(const Run& r)
{
    const Problem& pb = *r.pb;
    typename AM::Mat Am = AM::make(pb.A, r.other[0]);
    typename BM::Mat Bm = BM::make(pb.P, r.other[1]);
    typedef typename AM::Prod Op;
    typedef typename BM::Chol BOp;
    Op op(Am);
    BOp Bop(Bm);
    r.c->cls(std::string("Cholesky/") + (BM::sparse ? "sparse_B" : "dense_B"));
    label_operand(*r.c, AM::sparse, AM::Uplo, AM::Flags);
    label_operand(*r.c, BM::sparse, BM::Uplo, BM::Flags);
    cholesky_status(Bop.info() == CompInfo::Successful, pb, *r.c);
    if (r.c->rejected)
        return;
    Spectra::SymGEigsSolver<Op, BOp, GEigsMode::Cholesky> eigs(op, Bop, r.nev, r.ncv);
    drive(make_handle(eigs), *r.d, *r.c, pb);
}
#if C03_SPARSE
template <typename AM, typename BM>
static void run_reginv(const Run& r)
{
    const Problem& pb = *r.pb;
    typename AM::Mat Am = AM::make(pb.A, r.other[0]);
    typename BM::Mat Bm = BM::make(pb.P, r.other[1]);
    typedef typename AM::Prod Op;
    typedef typename BM::RegInv BOp;
    Op op(Am);
    BOp Bop(Bm);
    r.c->cls("RegularInverse/sparse_B");
    label_operand(*r.c, AM::sparse, AM::Uplo, AM::Flags);
    label_operand(*r.c, BM::sparse, BM::Uplo, BM::Flags);
    Spectra::SymGEigsSolver<Op, BOp, GEigsMode::RegularInverse> eigs(op, Bop, r.nev, r.ncv);
    drive(make_handle(eigs), *r.d, *r.c, pb);
}
#endif
template <typename AM>
static void run_reginv_user(const Run& r)
{
    const Problem& pb = *r.pb;
    typename AM::Mat Am = AM::make(pb.A, r.other[0]);
    MatR Bm = pb.P.template cast<Real>();
    typedef typename AM::Prod Op;
    Op op(Am);
    UserRegInv Bop(Bm);
    r.c->cls("RegularInverse/user_functor_B");
    label_operand(*r.c, AM::sparse, AM::Uplo, AM::Flags);
    cholesky_status(Bop.ok(), pb, *r.c);
    if (r.c->rejected)
        return;
    Spectra::SymGEigsSolver<Op, UserRegInv, GEigsMode::RegularInverse> eigs(op, Bop, r.nev, r.ncv);
    drive(make_handle(eigs), *r.d, *r.c, pb);
}
#endif

#if C03_PART == 0 || C03_PART == 2
// M1 / M2: storage of the first / second matrix handed to SymShiftInvert (A, B; K, K_G in buckling mode);
// BP: storage of the matrix behind the B operator (B; K in buckling mode)
template <typename M1, typename M2, typename BP, GEigsMode Mode>
static void run_shift(const Run& r)
{
    const Problem& pb = *r.pb;
    const bool buck = Mode == GEigsMode::Buckling;
    // buckling mode: the operator is (K - sigma K_G)^-1 with K positive definite, and the B operator multiplies by K
    typename M1::Mat m1 = M1::make(buck ? pb.P : pb.A, r.other[0]);
    typename M2::Mat m2 = M2::make(buck ? pb.A : pb.P, r.other[1]);
    typename BP::Mat bm = BP::make(pb.P, r.other[2]);
    typedef Spectra::SymShiftInvert<Real, typename M1::Type, typename M2::Type, M1::Uplo, M2::Uplo, M1::Flags, M2::Flags> Op;
    typedef typename BP::Prod BOp;
    Op op(m1, m2);
    BOp Bop(bm);
    r.c->cls(std::string(MODE_NAMES[pb.mode]) + "/" + (BP::sparse ? "sparse_B" : "dense_B"));
    r.c->cls(std::string("SymShiftInvert/") + (M1::sparse ? "sparse" : "dense") + "-" + (M2::sparse ? "sparse" : "dense"));
    label_operand(*r.c, M1::sparse, M1::Uplo, M1::Flags);
    label_operand(*r.c, M2::sparse, M2::Uplo, M2::Flags);
    label_operand(*r.c, BP::sparse, BP::Uplo, BP::Flags);
    Spectra::SymGEigsShiftSolver<Op, BOp, Mode> eigs(op, Bop, r.nev, r.ncv, (Real) pb.sigma);
    drive(make_handle(eigs), *r.d, *r.c, pb);
}
#endif

struct Inst
{
    const char* name;
    void (*fn)(const Run&);
    int noperands;
    bool reginv_cg;  // the wrapper's CG solver is involved (kappa(B) limited by the generator)
};

#if C03_PART == 0 || C03_PART == 1
static const Inst CHOL_INST[] = {
    {"A:dense,Lower,Col B:DenseCholesky,Lower,Col", &run_cholesky<DenseM<L, CM>, DenseM<L, CM>>, 2, false},
    {"A:dense,Upper,Col B:DenseCholesky,Upper,Col", &run_cholesky<DenseM<U, CM>, DenseM<U, CM>>, 2, false},
    {"A:dense,Lower,Row B:DenseCholesky,Lower,Row", &run_cholesky<DenseM<L, RM>, DenseM<L, RM>>, 2, false},
    {"A:dense,Upper,Row B:DenseCholesky,Upper,Row", &run_cholesky<DenseM<U, RM>, DenseM<U, RM>>, 2, false},
#if C03_SPARSE
    {"A:dense,Lower,Col B:SparseCholesky,Lower,Col", &run_cholesky<DenseM<L, CM>, SparseM<L, CM>>, 2, false},
    {"A:dense,Upper,Row B:SparseCholesky,Upper,Col", &run_cholesky<DenseM<U, RM>, SparseM<U, CM>>, 2, false},
    {"A:sparse,Lower,Col B:SparseCholesky,Lower,Col", &run_cholesky<SparseM<L, CM>, SparseM<L, CM>>, 2, false},
    {"A:sparse,Upper,Col B:SparseCholesky,Upper,Row", &run_cholesky<SparseM<U, CM>, SparseM<U, RM>>, 2, false},
    {"A:sparse,Lower,Row B:SparseCholesky,Lower,Row", &run_cholesky<SparseM<L, RM>, SparseM<L, RM>>, 2, false},
    {"A:sparse,Upper,Row B:DenseCholesky,Lower,Col", &run_cholesky<SparseM<U, RM>, DenseM<L, CM>>, 2, false},
#endif
};
static const Inst REGINV_INST[] = {
    {"A:dense,Lower,Col B:user functor (dense LLT)", &run_reginv_user<DenseM<L, CM>>, 1, false},
    {"A:dense,Upper,Row B:user functor (dense LLT)", &run_reginv_user<DenseM<U, RM>>, 1, false},
#if C03_SPARSE
    {"A:dense,Lower,Col B:SparseRegularInverse,Lower,Col", &run_reginv<DenseM<L, CM>, SparseM<L, CM>>, 2, true},
    {"A:sparse,Lower,Col B:SparseRegularInverse,Upper,Col", &run_reginv<SparseM<L, CM>, SparseM<U, CM>>, 2, true},
    {"A:sparse,Upper,Row B:SparseRegularInverse,Lower,Row", &run_reginv<SparseM<U, RM>, SparseM<L, RM>>, 2, true},
    {"A:dense,Upper,Row B:SparseRegularInverse,Upper,Row", &run_reginv<DenseM<U, RM>, SparseM<U, RM>>, 2, true},
#endif
};
#endif

#if C03_PART == 0 || C03_PART == 2
#if C03_SPARSE
#define C03_SHIFT_LIST(MODE)                                                                                                                        \
    {"S:dense,Lower,Col/dense,Lower,Col Bop:dense,Lower,Col", &run_shift<DenseM<L, CM>, DenseM<L, CM>, DenseM<L, CM>, MODE>, 3, false},          \
    {"S:dense,Upper,Col/dense,Upper,Col Bop:dense,Upper,Col", &run_shift<DenseM<U, CM>, DenseM<U, CM>, DenseM<U, CM>, MODE>, 3, false},          \
    {"S:dense,Lower,Row/dense,Upper,Row Bop:dense,Lower,Row", &run_shift<DenseM<L, RM>, DenseM<U, RM>, DenseM<L, RM>, MODE>, 3, false},          \
    {"S:dense,Upper,Row/dense,Lower,Col Bop:dense,Upper,Row", &run_shift<DenseM<U, RM>, DenseM<L, CM>, DenseM<U, RM>, MODE>, 3, false},          \
    {"S:dense,Lower,Col/sparse,Lower,Col Bop:sparse,Lower,Col", &run_shift<DenseM<L, CM>, SparseM<L, CM>, SparseM<L, CM>, MODE>, 3, false},      \
    {"S:dense,Upper,Row/sparse,Upper,Row Bop:sparse,Upper,Row", &run_shift<DenseM<U, RM>, SparseM<U, RM>, SparseM<U, RM>, MODE>, 3, false},      \
    {"S:sparse,Lower,Col/dense,Lower,Col Bop:dense,Lower,Col", &run_shift<SparseM<L, CM>, DenseM<L, CM>, DenseM<L, CM>, MODE>, 3, false},        \
    {"S:sparse,Upper,Row/dense,Upper,Row Bop:sparse,Upper,Col", &run_shift<SparseM<U, RM>, DenseM<U, RM>, SparseM<U, CM>, MODE>, 3, false},      \
    {"S:sparse,Lower,Col/sparse,Lower,Col Bop:sparse,Lower,Col", &run_shift<SparseM<L, CM>, SparseM<L, CM>, SparseM<L, CM>, MODE>, 3, false},    \
    {"S:sparse,Upper,Col/sparse,Upper,Col Bop:sparse,Upper,Col", &run_shift<SparseM<U, CM>, SparseM<U, CM>, SparseM<U, CM>, MODE>, 3, false},    \
    {"S:sparse,Lower,Row/sparse,Upper,Row Bop:sparse,Lower,Row", &run_shift<SparseM<L, RM>, SparseM<U, RM>, SparseM<L, RM>, MODE>, 3, false},    \
    {"S:sparse,Upper,Col/sparse,Lower,Row Bop:sparse,Upper,Row", &run_shift<SparseM<U, CM>, SparseM<L, RM>, SparseM<U, RM>, MODE>, 3, false},    \
    {"S:dense,Lower,Col/sparse,Upper,Col Bop:dense,Upper,Col", &run_shift<DenseM<L, CM>, SparseM<U, CM>, DenseM<U, CM>, MODE>, 3, false},        \
    {"S:sparse,Lower,Col/dense,Upper,Col Bop:sparse,Lower,Row", &run_shift<SparseM<L, CM>, DenseM<U, CM>, SparseM<L, RM>, MODE>, 3, false},
#else
#define C03_SHIFT_LIST(MODE)                                                                                                               \
    {"S:dense,Lower,Col/dense,Lower,Col Bop:dense,Lower,Col", &run_shift<DenseM<L, CM>, DenseM<L, CM>, DenseM<L, CM>, MODE>, 3, false}, \
    {"S:dense,Upper,Col/dense,Upper,Col Bop:dense,Upper,Col", &run_shift<DenseM<U, CM>, DenseM<U, CM>, DenseM<U, CM>, MODE>, 3, false}, \
    {"S:dense,Lower,Row/dense,Upper,Row Bop:dense,Lower,Row", &run_shift<DenseM<L, RM>, DenseM<U, RM>, DenseM<L, RM>, MODE>, 3, false}, \
    {"S:dense,Upper,Row/dense,Lower,Col Bop:dense,Upper,Row", &run_shift<DenseM<U, RM>, DenseM<L, CM>, DenseM<U, RM>, MODE>, 3, false},
#endif
static const Inst SHIFTINV_INST[] = {C03_SHIFT_LIST(GEigsMode::ShiftInvert)};
static const Inst BUCKLING_INST[] = {C03_SHIFT_LIST(GEigsMode::Buckling)};
static const Inst CAYLEY_INST[] = {C03_SHIFT_LIST(GEigsMode::Cayley)};
#endif

template <size_t N>
static const Inst& pick_inst(vf::Draw& d, const Inst (&list)[N])
{
    return list[(size_t) d.range("instantiation", 0, (long) N - 1)];
}

// -------------------------------------------------------------------------------------------------------------
// Generator of the positive-definite matrix: prescribed spectrum kappa^(-i/(n-1)) in five structures.
static const char* const P_KINDS[5] = {"Q_diag_Qt", "diagonal", "block_diagonal", "tridiagonal", "arrow"};
static MatL make_pd(vf::Draw& d, Index n, int max_kappa_exp, std::string& name, long& kexp_q)
{
    int kind = (int) d.range("pd_structure", 0, 4);
    kexp_q = d.range("pd_kappa_q", 0, 4L * max_kappa_exp);  // kappa = 10^(q/4)
    ld kappa = std::pow((ld) 10, (ld) kexp_q / 4);
    vf::Lcg g((uint64_t) d.range("pd_seed", 0, 65535));
    VecL ev(n);
    for (Index i = 0; i < n; i++)
        ev[i] = std::pow(kappa, -(ld) i / (ld) std::max<Index>(n - 1, 1));
    MatL P = MatL::Zero(n, n);
    if (kind == 0)
        P = vf::sym_from_spectrum(ev, vf::random_orthogonal(n, g));
    else if (kind == 1)
    {
        // diagonal, entries in random order
        std::vector<Index> perm(n);
        for (Index i = 0; i < n; i++)
            perm[i] = i;
        for (Index i = n - 1; i > 0; i--)
            std::swap(perm[i], perm[g.below(i + 1)]);
        for (Index i = 0; i < n; i++)
            P(i, i) = ev[perm[i]];
    }
    else if (kind == 2 && n >= 4)
    {
        Index n1 = 1 + g.below(n - 2);
        MatL Q = MatL::Zero(n, n);
        Q.topLeftCorner(n1, n1) = vf::random_orthogonal(n1, g);
        Q.bottomRightCorner(n - n1, n - n1) = vf::random_orthogonal(n - n1, g);
        // spread the spectrum over both blocks
        VecL ev2(n);
        std::vector<Index> perm(n);
        for (Index i = 0; i < n; i++)
            perm[i] = i;
        for (Index i = n - 1; i > 0; i--)
            std::swap(perm[i], perm[g.below(i + 1)]);
        for (Index i = 0; i < n; i++)
            ev2[i] = ev[perm[i]];
        P = vf::sym_from_spectrum(ev2, Q);
    }
    else if (kind == 3)
    {
        // tridiagonal, strictly diagonally dominant: diagonal in [1/kappa-ish, 1], off-diagonals below half of the neighbours' minimum
        for (Index i = 0; i < n; i++)
            P(i, i) = ev[(Index) g.below(n)];
        for (Index i = 0; i + 1 < n; i++)
        {
            ld off = (ld) 0.45 * std::min(P(i, i), P(i + 1, i + 1)) * g.u();
            P(i + 1, i) = off;
            P(i, i + 1) = off;
        }
    }
    else
    {
        // arrow: diagonal plus a first row/column (forces a non-trivial fill-reducing permutation), diagonally dominant by construction
        for (Index i = 0; i < n; i++)
            P(i, i) = ev[(Index) g.below(n)];
        ld dmin = P.diagonal().minCoeff();
        for (Index i = 1; i < n; i++)
        {
            ld off = (ld) 0.9 * dmin / (ld) n * g.u();
            P(i, 0) = off;
            P(0, i) = off;
        }
        kind = 4;
    }
    name = P_KINDS[kind];
    return P;
}

static void symmetrize_round(MatL& M)
{
    MatR Ms = M.template cast<Real>();
    M = Ms.template cast<ld>();
    for (Index j = 0; j < M.cols(); j++)
        for (Index i = j + 1; i < M.rows(); i++)
            M(j, i) = M(i, j);
}

// candidates for a shift by construction away from every entry of the ascending list ev: outside both ends and in the middle of wide gaps
static bool place_shift(vf::Draw& d, const VecL& ev, ld& out, ld& spread)
{
    const Index n = ev.size();
    spread = std::max(ev[n - 1] - ev[0], (std::abs(ev[n - 1]) + std::abs(ev[0])) * (ld) 1e-3);
    std::vector<ld> cand;
    if (spread > 0)
    {
        cand.push_back(ev[0] - spread / 10);
        cand.push_back(ev[n - 1] + spread / 10);
        for (Index i = 0; i + 1 < n; i++)
            if (ev[i + 1] - ev[i] >= (ld) 2e-3 * spread)
                cand.push_back((ev[i] + ev[i + 1]) / 2);
    }
    // nonzero by construction: at least 1e-3*spread away from zero as well
    std::vector<ld> keep;
    for (ld s : cand)
        if (std::abs(s) >= (ld) 1e-3 * spread)
            keep.push_back(s);
    long k = d.range("sigma_pos", 0, std::max<long>(0, (long) keep.size() - 1));
    if (keep.empty())
        return false;
    out = keep[(size_t) k];
    return true;
}

static void run_case(vf::Draw& d, vf::Case& c)
{
    Problem pb;
#if C03_PART == 1
    pb.mode = (int) d.range("mode", 0, 1);
#elif C03_PART == 2
    pb.mode = 2 + (int) d.range("mode", 0, 2);
#else
    pb.mode = (int) d.range("mode", 0, 4);
#endif
    const bool shift_family = pb.mode >= M_SHIFTINV;
    const bool buck = pb.mode == M_BUCKLING;
    const Inst* inst = nullptr;
    switch (pb.mode)
    {
#if C03_PART == 0 || C03_PART == 1
        case M_CHOL: inst = &pick_inst(d, CHOL_INST); break;
        case M_REGINV: inst = &pick_inst(d, REGINV_INST); break;
#endif
#if C03_PART == 0 || C03_PART == 2
        case M_SHIFTINV: inst = &pick_inst(d, SHIFTINV_INST); break;
        case M_BUCKLING: inst = &pick_inst(d, BUCKLING_INST); break;
        case M_CAYLEY: inst = &pick_inst(d, CAYLEY_INST); break;
#endif
        default: break;
    }
    Index nmax = (Index) vf::options().geti("nmax", 24);
    vf::HermRecipe R = vf::make_herm<Real>(d, false, 2, nmax);
    const Index n = R.n;
    pb.n = n;
    pb.A = R.A.real();
    pb.aname = R.name;
    // positive-definite matrix: kappa = 10^[0,8] (single precision: 10^[0,4]); the wrapper's CG solver legitimately gives up above ~1e2..1e3
    int max_kexp = std::is_same<Real, float>::value ? 4 : 8;
    if (inst->reginv_cg)
        max_kexp = 2;
    long kq = 0;
    pb.P = make_pd(d, n, max_kexp, pb.pname, kq);
    d.scale10("pd_scale_exp", std::is_same<Real, float>::value ? 2 : 3);
    long pexp = d.scale10_exp_last();
    pb.P *= std::pow((ld) 10, (ld) pexp);
    symmetrize_round(pb.P);
    Index nev, ncv;
    vf::draw_nev_ncv(d, n, false, nev, ncv);
    Run run;
    run.pb = &pb;
    run.nev = nev;
    run.ncv = ncv;
    run.d = &d;
    run.c = &c;
    for (int k = 0; k < 3; k++)
        run.other[k] = (k < inst->noperands) ? (int) d.range("unused_triangle", 0, 2) : 0;

    std::ostringstream os;
    os << (shift_family ? "SymGEigsShiftSolver<" : "SymGEigsSolver<") << MODE_NAMES[pb.mode] << "," << vf::Sc<Real>::name() << "> [" << inst->name << "] "
       << (buck ? "K_G" : "A") << "=" << R.name << " scale=1e" << R.scale_exp << " " << (buck ? "K" : "B") << "=" << pb.pname << " kappa=1e" << (double) kq / 4 << " scale=1e" << pexp << " n=" << n << " nev=" << nev
       << " ncv=" << ncv << " unused_triangles=" << run.other[0] << run.other[1] << run.other[2];
    c.cls(std::string("mode/") + MODE_NAMES[pb.mode]);
    c.cls("A_class/" + R.name);
    c.cls("P_structure/" + pb.pname);
    c.sfeat["inst"] = inst->name;
    c.sfeat["mode"] = MODE_NAMES[pb.mode];
    c.feat["scale_exp"] = (double) R.scale_exp;
    if (n >= 12)
        c.cls("n>=12");
    if (ncv == nev + 1)
        c.cls("ncv=nev+1");
    if (ncv == n)
        c.cls("ncv=n");
    for (int k = 0; k < inst->noperands; k++)
        if (run.other[k] != 0)
        {
            c.cls("unused_triangle_garbage_or_absent");
            break;
        }

    pb.normA = vf::fro_scaled(pb.A);
    pb.normP = vf::fro_scaled(pb.P);
    if (pb.normA == 0)
    {
        // zero matrix: every vector is an eigenvector (K_G = 0: no finite eigenvalue at all); left to C13
        c.add_desc(os.str() + " zero matrix");
        c.rejected = true;
        return;
    }
    // reference quantities of the rounded matrices
    {
        Eigen::SelfAdjointEigenSolver<MatL> es(pb.P / pb.normP);
        pb.pmin = es.eigenvalues()[0] * pb.normP;
        pb.pmax = es.eigenvalues()[n - 1] * pb.normP;
        if (!(pb.pmin > 16 * (ld) n * EPS_LD * pb.pmax))
        {
            c.add_desc(os.str() + " P not positive definite after rounding");
            c.rejected = true;
            return;
        }
        pb.kappaP = pb.pmax / pb.pmin;
        Eigen::LLT<MatL> llt(pb.P);
        pb.Lref = llt.matrixL();
    }
    {
        // (A, P): A x = lambda P x; in buckling mode this is K_G x = mu K x with mu = 1/lambda
        Eigen::GeneralizedSelfAdjointEigenSolver<MatL> ges(pb.A / pb.normA, pb.P / pb.normP);
        pb.ref = ges.eigenvalues() * (pb.normA / pb.normP);
        pb.refX = ges.eigenvectors() / std::sqrt(pb.normP);
    }
    pb.kappaF = pb.kappaP;
    pb.rho_nu = pb.ref.cwiseAbs().maxCoeff();  // Cholesky / regular inverse: nu = lambda
    if (pb.kappaP >= (ld) 1e6)
        c.cls("kappa(P)>=1e6");
    if (shift_family)
    {
        ld s, spread;
        if (!place_shift(d, pb.ref, s, spread))
        {
            c.add_desc(os.str() + " no admissible shift");
            c.rejected = true;
            return;
        }
        // buckling mode: the candidates live in mu = 1/lambda (so that an exactly singular K_G is allowed), sigma = 1/tau
        pb.sigma = (ld) (Real) (buck ? 1 / s : s);
        if (!(pb.sigma != 0) || !std::isfinite((double) pb.sigma))
        {
            c.add_desc(os.str() + " shift not representable");
            c.rejected = true;
            return;
        }
        MatL Ms = buck ? MatL(pb.P - pb.sigma * pb.A) : MatL(pb.A - pb.sigma * pb.P);
        ld ms = vf::fro_scaled(Ms);
        Eigen::SelfAdjointEigenSolver<MatL> es(Ms / ms, Eigen::EigenvaluesOnly);
        ld smax = es.eigenvalues().cwiseAbs().maxCoeff() * ms, smin = es.eigenvalues().cwiseAbs().minCoeff() * ms;
        ld delta = 8 * (ld) n * EPS_LD * smax;  // accuracy of the reference
        if (!(smin > 2 * delta))
        {
            c.add_desc(os.str() + " shifted matrix singular to the precision of the reference");
            c.rejected = true;
            return;
        }
        pb.norm_shift2 = smax;
        pb.kappaF = smax / (smin - delta);
        pb.rho_nu = 0;
        for (Index i = 0; i < n; i++)
        {
            // buckling: ref holds mu = 1/lambda, nu = lambda/(lambda - sigma) = 1/(1 - sigma mu)
            ld nu_i = (pb.mode == M_SHIFTINV) ? 1 / (pb.ref[i] - pb.sigma) : (buck ? 1 / (1 - pb.sigma * pb.ref[i]) : (pb.ref[i] + pb.sigma) / (pb.ref[i] - pb.sigma));
            pb.rho_nu = std::max(pb.rho_nu, std::abs(nu_i));
        }
        if (buck)
        {
            pb.inf_ratio = std::numeric_limits<ld>::infinity();
            for (Index i = 0; i < n; i++)
                pb.inf_ratio = std::min(pb.inf_ratio, std::abs(pb.ref[i] * pb.sigma));
        }
        os << " sigma=" << vf::num(pb.sigma) << " cond(shifted)=" << vf::num(pb.kappaF);
        if (pb.kappaF >= (ld) 1e6)
            c.cls("kappa_F>=1e6");
    }
    c.add_desc(os.str());
    {
        Eigen::FullPivLU<MatL> lu;
        switch (pb.mode)
        {
            case M_CHOL:
            {
                MatL T = pb.Lref.triangularView<Eigen::Lower>().solve(pb.A);  // L^-1 A
                pb.OPref = pb.Lref.triangularView<Eigen::Lower>().solve(T.transpose()).transpose();  // (L^-1 (L^-1 A)^T)^T = L^-1 A L^-T
                break;
            }
            case M_REGINV:
                lu.compute(pb.P);
                pb.OPref = lu.solve(pb.A);
                break;
            case M_SHIFTINV:
                lu.compute(pb.A - pb.sigma * pb.P);
                pb.OPref = lu.solve(pb.P);
                break;
            case M_BUCKLING:
                lu.compute(pb.P - pb.sigma * pb.A);
                pb.OPref = lu.solve(pb.P);
                break;
            default:
                lu.compute(pb.A - pb.sigma * pb.P);
                pb.OPref = lu.solve(pb.A + pb.sigma * pb.P);
                break;
        }
    }
    if (std::getenv("C03_DUMP"))
    {
        std::cerr.precision(21);
        std::cerr << "A=\n" << pb.A << "\nP=\n" << pb.P << "\nsigma=" << pb.sigma << "\nref=" << pb.ref.transpose() << "\n";
    }
    auto t_start = std::chrono::steady_clock::now();
    struct SlowReport
    {
        std::chrono::steady_clock::time_point t0;
        vf::Case* c;
        ~SlowReport()
        {
            double sec = std::chrono::duration<double>(std::chrono::steady_clock::now() - t0).count();
            if (sec > 0.5 && std::getenv("VF_DEBUG"))
                std::fprintf(stderr, "SLOW %.2fs | %s\n", sec, c->desc.c_str());
        }
    } slow_report{t_start, &c};
    try
    {
        inst->fn(run);
    }
    catch (const std::invalid_argument& e)
    {
        // factorization of the shifted matrix refused (allowed), counted; anything else with this type is a violation
        if (shift_family && std::string(e.what()).find("factorization failed") != std::string::npos)
        {
            c.rejected = true;
            c.cls("set_shift_rejected");
            c.nontrivial = false;
        }
        else
            throw;
    }
    catch (const std::runtime_error& e)
    {
        // allowed outcome ("or raises"): the CG solver of SparseRegularInverse gives up, TridiagEigen does not converge; counted by message
        c.rejected = true;
        c.cls(std::string("runtime_error: ") + e.what());
    }
}

// Known-finding signatures (KNOWN_FINDINGS.txt).
static std::string match(const vf::Violation& v, const vf::Case& c)
{
    if (v.kind == "residual" || v.kind == "orthonormality")
    {
        // KF-C03-FLOAT (same root cause as KF-C01-FLOAT / KF-C07-FLOAT): single precision, start vector numerically in the null space of the
        // iteration operator: OP*v0 consists of rounding noise of magnitude ~1e-21, the square of which underflows in the unscaled norm(), so the
        // first basis vector is not normalised
        if (std::is_same<Real, float>::value && c.feat.count("start_nullspace_ratio") && c.f("start_nullspace_ratio") < 1e-12)
            return "float_norm_underflow";
    }
    return "";
}

int main(int argc, char** argv)
{
    return vf::run_main(argc, argv, "C03", run_case, match);
}
