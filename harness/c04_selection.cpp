// C04 - when a solver reports Successful, the k eigenvalues it returns are the k that the selection rule names,
// of the spectrum the rule is documented to act on (A's own spectrum, or nu(lambda) in the shift modes).
// Spectra are prescribed by construction with keys spaced >= 1 % of the key spread; three regimes (DESIGN 6/C04):
//   R1  ncv = n                      exactly decidable, asserted strictly for every family and every rule
//   R2  ncv < n, one-ended (exterior) target, symmetric / Hermitian / generalized families: asserted strictly
//   R3  ncv < n and (general family | interior target = SmallestMagn on a sign-indefinite spectrum | two-ended magnitude target =
//       LargestMagn on a sign-indefinite spectrum | wanted eigenvalue exactly zero of a singular matrix):
//       a wrong set made only of genuine, distinct eigenvalues is finding D13 `krylov_misconvergence`
// One translation unit per real scalar type (VF_REAL) and family group: C04_PLAIN = the six standard-problem solvers (user functor
// operators from vf/families.hpp), C04_GENERALIZED = the five generalized modes (library wrappers), C04_CONTRIB = Davidson / PartialSVD /
// LOBPCG. The groups are separate units only to keep each compilation short.
#include "vf/eigen_assert.hpp"
#include <Eigen/Core>
#include <Eigen/Sparse>
#include <Eigen/Eigenvalues>
#include "vf/oracle.hpp"
#include "vf/solverkit.hpp"
#ifdef C04_PLAIN
#include "vf/families.hpp"  // counting functor operators and the dispatcher over the six standard-problem solver classes
#endif
#include "vf/runner.hpp"
#include <Spectra/MatOp/DenseSymMatProd.h>
#ifdef C04_GENERALIZED
#include <Spectra/SymGEigsSolver.h>
#include <Spectra/SymGEigsShiftSolver.h>
#include <Spectra/MatOp/SparseSymMatProd.h>
#include <Spectra/MatOp/DenseCholesky.h>
#include <Spectra/MatOp/SparseRegularInverse.h>
#include <Spectra/MatOp/SymShiftInvert.h>
#endif
#ifdef C04_CONTRIB
#include <Spectra/DavidsonSymEigsSolver.h>
#include <Spectra/contrib/PartialSVDSolver.h>
#include <Spectra/contrib/LOBPCGSolver.h>
#endif
#include <algorithm>
#include <numeric>

#ifndef VF_REAL
#define VF_REAL double
#endif
typedef VF_REAL Real;
typedef std::complex<Real> Cplx;
using vf::ld;
using vf::cld;
using vf::CMatL;
using vf::CVecL;
using vf::MatL;
using vf::VecL;
using vf::Index;
using Spectra::SortRule;
using Spectra::CompInfo;
typedef Eigen::Matrix<Real, Eigen::Dynamic, Eigen::Dynamic> Mat;
typedef Eigen::Matrix<Real, Eigen::Dynamic, 1> Vec;

static const ld EPS = (ld) std::numeric_limits<Real>::epsilon();
static const ld PI_L = (ld) 3.14159265358979323846264338327950288L;

// ---------------------------------------------------------------------------------------------------------
enum Fam
{
    F_SYM = 0,
    F_HERM,
    F_GEN,
    F_SYMSHIFT,
    F_GENREAL,
    F_GENCPLX,
    F_GCHOL,
    F_GREGINV,
    F_GSHIFT,
    F_GBUCK,
    F_GCAYLEY,
    F_DAVIDSON,
    F_SVD,
    F_LOBPCG,
    F_COUNT
};
static const char* const FAM_NAMES[F_COUNT] = {"SymEigsSolver", "HermEigsSolver", "GenEigsSolver", "SymEigsShiftSolver", "GenEigsRealShiftSolver",
                                                "GenEigsComplexShiftSolver", "SymGEigsSolver<Cholesky>", "SymGEigsSolver<RegularInverse>",
                                                "SymGEigsShiftSolver<ShiftInvert>", "SymGEigsShiftSolver<Buckling>", "SymGEigsShiftSolver<Cayley>",
                                                "DavidsonSymEigsSolver", "PartialSVDSolver", "LOBPCGSolver"};
static bool fam_general(int f) { return f == F_GEN || f == F_GENREAL || f == F_GENCPLX; }
static bool fam_generalized(int f) { return f >= F_GCHOL && f <= F_GCAYLEY; }
static bool fam_krylov(int f) { return f <= F_GCAYLEY; }

// the spectral transformation the selection rule is documented to act through
enum Tmode
{
    T_NONE = 0,
    T_SI,      // nu = 1 / (lambda - sigma)
    T_BUCK,    // nu = lambda / (lambda - sigma)
    T_CAYLEY,  // nu = (lambda + sigma) / (lambda - sigma)
    T_CPLX     // nu = (1/(lambda - sigma) + 1/(lambda - conj sigma)) / 2   (complex shift, real arithmetic)
};
static Tmode fam_tmode(int f)
{
    switch (f)
    {
        case F_SYMSHIFT:
        case F_GENREAL:
        case F_GSHIFT: return T_SI;
        case F_GBUCK: return T_BUCK;
        case F_GCAYLEY: return T_CAYLEY;
        case F_GENCPLX: return T_CPLX;
        default: return T_NONE;
    }
}
static cld nu_of(Tmode m, cld sigma, cld l)
{
    switch (m)
    {
        case T_SI: return cld(1) / (l - sigma);
        case T_BUCK: return l / (l - sigma);
        case T_CAYLEY: return (l + sigma) / (l - sigma);
        case T_CPLX: return (cld(1) / (l - sigma) + cld(1) / (l - std::conj(sigma))) / cld(2);
        default: return l;
    }
}
// inverse map of the invertible modes (sigma real)
static cld lambda_of(Tmode m, ld sigma, cld nu)
{
    switch (m)
    {
        case T_SI: return cld(sigma) + cld(1) / nu;
        case T_BUCK: return cld(sigma) * nu / (nu - cld(1));
        case T_CAYLEY: return cld(sigma) * (nu + cld(1)) / (nu - cld(1));
        default: return nu;
    }
}
// the other root of nu(lambda) = nu0 in the complex-shift mode (lambda - sigma_r = (1 +- s) / (2 nu), product of the two = sigma_i^2)
static cld other_root_cplx(cld sigma, cld l)
{
    cld t = l - cld(sigma.real());
    return cld(sigma.real()) + cld(sigma.imag() * sigma.imag()) / t;
}

// rule index into vf::ALL_RULES: 0 LargestMagn 1 LargestReal 2 LargestImag 3 LargestAlge 4 SmallestMagn 5 SmallestReal 6 SmallestImag 7 SmallestAlge 8 BothEnds
static bool rule_magn(int r) { return r == 0 || r == 4; }
static bool rule_imag(int r) { return r == 2 || r == 6; }
static bool rule_largest(int r) { return r < 4; }
static ld key_of(int rule, cld v)
{
    if (rule_magn(rule))
        return std::abs(v);
    if (rule_imag(rule))
        return std::fabs(v.imag());
    return v.real();
}

// The specification of "the k eigenvalues the rule names": indices into keys[]
static std::vector<size_t> wanted_set(const std::vector<ld>& keys, int rule, Index k)
{
    std::vector<size_t> idx(keys.size());
    std::iota(idx.begin(), idx.end(), (size_t) 0);
    std::stable_sort(idx.begin(), idx.end(), [&](size_t a, size_t b) { return keys[a] > keys[b]; });  // descending
    std::vector<size_t> w;
    const size_t n = keys.size();
    if (rule == 8)
    {
        size_t kt = (size_t) (k + 1) / 2, kb = (size_t) k / 2;  // ceil(k/2) from the top, floor(k/2) from the bottom
        for (size_t i = 0; i < kt; i++)
            w.push_back(idx[i]);
        for (size_t i = 0; i < kb; i++)
            w.push_back(idx[n - 1 - i]);
    }
    else if (rule_largest(rule))
        for (size_t i = 0; i < (size_t) k; i++)
            w.push_back(idx[i]);
    else
        for (size_t i = 0; i < (size_t) k; i++)
            w.push_back(idx[n - 1 - i]);
    return w;
}
// is the wanted set of size k separated from the rest by >= gapmin in the key?
static bool boundary_separated(const std::vector<ld>& keys, int rule, Index k, ld gapmin)
{
    std::vector<ld> s(keys);
    std::sort(s.begin(), s.end(), [](ld a, ld b) { return a > b; });
    const Index n = (Index) s.size();
    if (k < 1 || k >= n)
        return false;
    if (rule == 8)
    {
        Index kt = (k + 1) / 2, kb = k / 2;
        if (kt + kb >= n)
            return false;
        if (s[kt - 1] - s[kt] < gapmin)
            return false;
        if (kb > 0 && s[n - kb - 1] - s[n - kb] < gapmin)
            return false;
        return true;
    }
    if (rule_largest(rule))
        return s[k - 1] - s[k] >= gapmin;
    return s[n - k - 1] - s[n - k] >= gapmin;
}

// ---------------------------------------------------------------------------------------------------------
// Key grids. m keys lo + (slot + jitter) h with |jitter| <= amp, slots inside a forbidden zone skipped: consecutive keys differ by
// >= (1 - 2 amp) h, which jitter_amp() keeps >= 1.25 % of the spread.
static ld jitter_amp(Index m)
{
    ld a = ((ld) 1 - (ld) 0.0125 * ((ld) 1.25 * (ld) m + 6)) / 2;
    return std::min((ld) 0.35, std::max((ld) 0, a));
}
struct Zone
{
    ld centre, half;
};
static std::vector<ld> key_grid(vf::Lcg& g, Index m, ld lo, ld width, const std::vector<Zone>& forbidden, bool first_exact)
{
    std::vector<ld> k;
    const ld h = width / (ld) std::max<Index>(m - 1, 1);
    const ld amp = jitter_amp(m);
    long slot = 0;
    while ((Index) k.size() < m && slot < 100000)
    {
        ld jit = (first_exact && slot == 0) ? 0 : amp * g.u();
        ld v = lo + ((ld) slot + jit) * h;
        slot++;
        bool bad = false;
        for (const Zone& z : forbidden)
            if (std::fabs(v - z.centre) < z.half)
                bad = true;
        if (!bad)
            k.push_back(v);
    }
    return k;
}
static std::vector<Zone> forbidden_zones(Tmode tm)
{
    std::vector<Zone> z;
    if (tm == T_SI || tm == T_BUCK)
        z.push_back({0, (ld) 0.07});  // nu = 0: lambda infinite (shift-invert) / lambda = 0 (buckling: K would be singular)
    if (tm == T_BUCK || tm == T_CAYLEY)
        z.push_back({1, (ld) 0.07});  // nu = 1: lambda infinite
    return z;
}

// real spectra (symmetric / Hermitian / generalized families) in the transformed variable nu
static std::vector<ld> real_nu(vf::Draw& d, vf::Lcg& g, Index n, int rule, Tmode tm, bool singular, std::string& shape)
{
    std::vector<Zone> fz = forbidden_zones(tm);
    std::vector<ld> nu;
    if (rule_magn(rule))
    {
        int sk = (int) d.range("sign_kind", 0, 2);  // all positive, all negative, mixed
        if (singular && sk == 2)
            sk = 0;
        std::vector<Zone> fzm;
        for (const Zone& z : fz)
            if (z.centre > 0)
                fzm.push_back(z);  // |nu| = 1 is skipped whatever the sign
        std::vector<ld> k = key_grid(g, n, singular ? 0 : (ld) 0.25, 1, fzm, singular);
        for (ld v : k)
            nu.push_back(sk == 0 ? v : (sk == 1 ? -v : (g.below(2) ? v : -v)));
        static const char* SN[3] = {"magnitude_grid_positive", "magnitude_grid_negative", "magnitude_grid_mixed_signs"};
        shape = SN[sk];
    }
    else
    {
        int ik = (int) d.range("interval_kind", 0, 4);
        static const ld LO[5] = {(ld) 0.3, (ld) -1.3, -1, (ld) -0.4, -1}, W[5] = {1, 1, 2, (ld) 1.4, (ld) 1.4};
        static const char* IN[5] = {"positive_definite", "negative_definite", "indefinite_symmetric", "indefinite_mostly_positive", "indefinite_mostly_negative"};
        if (singular)
        {
            std::vector<ld> k = key_grid(g, n, 0, 1, fz, true);
            bool neg = (ik % 2) == 1;
            for (ld v : k)
                nu.push_back(neg ? -v : v);
            shape = neg ? "singular_NSD" : "singular_PSD";
        }
        else
        {
            nu = key_grid(g, n, LO[ik], W[ik], fz, false);
            shape = IN[ik];
        }
    }
    if (singular && rule_magn(rule))
        shape = (nu.back() < 0) ? "singular_NSD" : "singular_PSD";
    // random order
    for (Index i = n - 1; i > 0; i--)
        std::swap(nu[(size_t) i], nu[(size_t) g.below(i + 1)]);
    return nu;
}

// conjugate-closed spectra (general family) in the transformed variable; conjugate partners adjacent, +Im first
static std::vector<cld> cplx_nu(vf::Draw& d, vf::Lcg& g, Index n, int rule, Tmode tm, bool singular, std::string& shape)
{
    std::vector<cld> nu;
    std::vector<Zone> fz = forbidden_zones(tm);
    if (rule_imag(rule))
    {
        // pairs with spaced |Im nu|; at most one real eigenvalue (all real eigenvalues share the key 0)
        Index p = n / 2, r = n % 2;
        std::vector<ld> k = key_grid(g, p, (ld) 0.25, 1, {}, false);
        for (ld v : k)
        {
            ld re = g.u();
            nu.push_back(cld(re, v));
            nu.push_back(cld(re, -v));
        }
        if (r)
        {
            ld re = ((ld) 0.2 + (ld) 0.8 * std::fabs(g.u())) * (g.below(2) ? 1 : -1);
            nu.push_back(cld(re, 0));
        }
        shape = "imag_grid_pairs";
        return nu;
    }
    // group structure first: about a third of the groups are conjugate pairs
    std::vector<int> gsize;
    {
        Index rem = n;
        bool first = true;
        while (rem > 0)
        {
            int sz = (rem >= 2 && g.below(3) == 0 && !(first && singular)) ? 2 : 1;
            gsize.push_back(sz);
            rem -= sz;
            first = false;
        }
    }
    const Index m = (Index) gsize.size();
    if (rule_magn(rule))
    {
        std::vector<Zone> fzm;
        for (const Zone& z : fz)
            if (z.centre > 0)
                fzm.push_back(z);
        std::vector<ld> k = key_grid(g, m, singular ? 0 : (ld) 0.25, 1, fzm, singular);
        for (Index j = 0; j < m; j++)
        {
            if (gsize[(size_t) j] == 2)
            {
                ld th = PI_L * ((ld) 0.15 + (ld) 0.7 * std::fabs(g.u()));
                nu.push_back(cld(k[(size_t) j] * std::cos(th), k[(size_t) j] * std::sin(th)));
                nu.push_back(std::conj(nu.back()));
            }
            else
                nu.push_back(cld(g.below(2) ? k[(size_t) j] : -k[(size_t) j], 0));
        }
        shape = singular ? "singular_magnitude_grid" : "magnitude_grid";
    }
    else
    {
        int ik = (int) d.range("interval_kind", 0, 4);
        static const ld LO[5] = {(ld) 0.3, (ld) -1.3, -1, (ld) -0.4, -1}, W[5] = {1, 1, 2, (ld) 1.4, (ld) 1.4};
        static const char* IN[5] = {"real_grid_right_half_plane", "real_grid_left_half_plane", "real_grid_symmetric", "real_grid_mostly_right", "real_grid_mostly_left"};
        std::vector<ld> k;
        if (singular)
        {
            k = key_grid(g, m, 0, 1, fz, true);
            if (ik % 2)
                for (ld& v : k)
                    v = -v;
            shape = "singular_real_grid";
        }
        else
        {
            k = key_grid(g, m, LO[ik], W[ik], fz, false);
            shape = IN[ik];
        }
        for (Index j = 0; j < m; j++)
        {
            if (gsize[(size_t) j] == 2)
            {
                ld im = (ld) 0.2 + (ld) 0.8 * std::fabs(g.u());
                nu.push_back(cld(k[(size_t) j], im));
                nu.push_back(cld(k[(size_t) j], -im));
            }
            else
                nu.push_back(cld(k[(size_t) j], 0));
        }
    }
    return nu;
}

// complex shift: nu(lambda) is two-to-one, so lambda is prescribed and the groups are picked greedily from a pool so that the
// keys of nu are spaced >= 1.5 % of the pool's key spread (>= the final spread)
static std::vector<cld> cplx_shift_lambda(vf::Lcg& g, Index n_target, int rule, cld sigma)
{
    struct Cand
    {
        cld l;
        bool pair;
        ld key;
    };
    std::vector<Cand> pool;
    const bool imagr = rule_imag(rule);
    for (Index t = 0; t < 14 * n_target; t++)
    {
        bool pair = imagr ? true : (g.below(3) == 0);
        ld re = (ld) 1.5 * g.u();
        ld im = pair ? (ld) 0.1 + (ld) 0.9 * std::fabs(g.u()) : 0;
        cld l(re, im);
        if (std::abs(l - sigma) < (ld) 0.15 || std::abs(l - std::conj(sigma)) < (ld) 0.15)
            continue;
        cld nu = nu_of(T_CPLX, sigma, l);
        if (std::abs(nu) < (ld) 0.04)
            continue;
        // keep away from the critical points of nu(lambda), where the two roots of the back-transformation coincide
        cld lo = other_root_cplx(sigma, l);
        if (std::abs(lo - l) < (ld) 0.2 * std::abs(l - cld(sigma.real())) || std::abs(lo - std::conj(l)) < (ld) 0.2 * std::abs(l - cld(sigma.real())))
            continue;
        pool.push_back({l, pair, key_of(rule, nu)});
    }
    std::vector<cld> lam;
    if (pool.size() < 4)
        return lam;
    ld kmin = pool[0].key, kmax = pool[0].key;
    for (const Cand& c : pool)
    {
        kmin = std::min(kmin, c.key);
        kmax = std::max(kmax, c.key);
    }
    if (imagr)
        kmin = 0;
    const ld delta = (ld) 0.015 * (kmax - kmin);
    std::vector<ld> acc;
    Index count = 0;
    if (imagr && (n_target % 2))
    {
        // the single real eigenvalue (key 0)
        for (int t = 0; t < 50; t++)
        {
            cld l((ld) 1.5 * g.u(), 0);
            cld nu = nu_of(T_CPLX, sigma, l);
            cld lo = other_root_cplx(sigma, l);
            if (std::abs(l - sigma) < (ld) 0.15 || std::abs(nu) < (ld) 0.04 || std::abs(lo - l) < (ld) 0.2 * std::abs(l - cld(sigma.real())))
                continue;
            lam.push_back(l);
            acc.push_back(0);
            count = 1;
            break;
        }
    }
    for (const Cand& c : pool)
    {
        if (count >= n_target)
            break;
        if (c.pair && count + 2 > n_target)
            continue;
        bool ok = true;
        for (ld a : acc)
            if (std::fabs(a - c.key) < delta)
                ok = false;
        if (!ok)
            continue;
        acc.push_back(c.key);
        if (c.pair)
        {
            lam.push_back(c.l);
            lam.push_back(std::conj(c.l));
            count += 2;
        }
        else
        {
            lam.push_back(c.l);
            count += 1;
        }
    }
    return lam;
}

// real block diagonal matrix of a conjugate-closed list with adjacent partners
static MatL block_diag_of(const std::vector<cld>& lam)
{
    const Index n = (Index) lam.size();
    MatL D = MatL::Zero(n, n);
    for (Index i = 0; i < n; i++)
    {
        const cld e = lam[(size_t) i];
        if (e.imag() != 0 && i + 1 < n)
        {
            D(i, i) = e.real();
            D(i + 1, i + 1) = e.real();
            D(i, i + 1) = std::fabs(e.imag());
            D(i + 1, i) = -std::fabs(e.imag());
            i++;
        }
        else
            D(i, i) = e.real();
    }
    return D;
}

// ---------------------------------------------------------------------------------------------------------
struct Outcome
{
    bool ran = false;
    bool successful = false;
    long nconv = 0, niter = 0;
    std::vector<cld> vals;
    std::string info;
};
template <typename V>
static std::vector<cld> to_vals(const V& v)
{
    CMatL w = vf::widen(v);
    std::vector<cld> r;
    for (Index i = 0; i < w.rows(); i++)
        r.push_back(w(i, 0));
    return r;
}
// Optional history before the observed compute(): an earlier compute() on the same solver object with ANOTHER selection rule,
// followed by the observed compute() either directly (continuing from the existing factorization) or after a new init().
// Only drawn in regime R1 (ncv = n), where the selected set stays exactly decidable whatever the history.
static int g_prior_rule = -1;
static bool g_prior_reinit = false;
template <typename Solver>
static void run_krylov(Solver& eigs, int rule, long maxit, Real tol, Outcome& o)
{
    eigs.init();
    if (g_prior_rule >= 0)
    {
        eigs.compute(vf::ALL_RULES[g_prior_rule], (Index) maxit, tol);
        if (g_prior_reinit)
            eigs.init();
    }
    o.nconv = (long) eigs.compute(vf::ALL_RULES[rule], (Index) maxit, tol);
    o.ran = true;
    o.successful = (eigs.info() == CompInfo::Successful);
    o.info = vf::info_name(eigs.info());
    o.niter = (long) eigs.num_iterations();
    o.vals = to_vals(eigs.eigenvalues());
}

// Everything the oracle needs
struct Ref
{
    Tmode tm = T_NONE;
    cld sigma = 0;
    std::vector<cld> lam;  // reference eigenvalues (of the rounded input, long double)
    std::vector<cld> nu;   // their images under the documented transformation
    std::vector<ld> keys;  // rule key of nu
    ld spread = 0, numax = 0, lammax = 0;
};

static void fill_ref(Ref& R, int rule)
{
    R.nu.clear();
    R.keys.clear();
    R.numax = 0;
    R.lammax = 0;
    for (const cld& l : R.lam)
    {
        cld v = nu_of(R.tm, R.sigma, l);
        R.nu.push_back(v);
        R.keys.push_back(key_of(rule, v));
        R.numax = std::max(R.numax, std::abs(v));
        R.lammax = std::max(R.lammax, std::abs(l));
    }
    ld kmin = R.keys[0], kmax = R.keys[0];
    for (ld k : R.keys)
    {
        kmin = std::min(kmin, k);
        kmax = std::max(kmax, k);
    }
    R.spread = kmax - kmin;
}
// all gaps between distinct key groups >= frac * spread? (keys closer than 1e-7 * spread belong to one group: conjugate partners, real
// eigenvalues under the |Im| rules)
static bool keys_separated(const std::vector<ld>& keys, ld spread, ld frac, ld& mingap)
{
    std::vector<ld> s(keys);
    std::sort(s.begin(), s.end());
    mingap = spread;
    bool ok = true;
    for (size_t i = 0; i + 1 < s.size(); i++)
    {
        ld g = s[i + 1] - s[i];
        if (g <= (ld) 1e-7 * spread)
            continue;
        mingap = std::min(mingap, g);
        if (g < frac * spread)
            ok = false;
    }
    return ok;
}

// The oracle. tolv: tolerance in the transformed variable.
static bool check_selection(const Ref& R, int rule, Index k, const Outcome& o, ld tolv, bool singular_class, vf::Case& c, const std::string& regime, const std::string& fam)
{
    VF_CHECK((Index) o.vals.size() == k && o.nconv == (long) k, "count",
             "Successful but compute() returned " << o.nconv << " and eigenvalues() has " << o.vals.size() << " entries (nev=" << k << ")");
    const size_t n = R.lam.size();
    std::vector<cld> rnu;
    for (const cld& l : o.vals)
    {
        VF_CHECK(std::isfinite((double) l.real()) && std::isfinite((double) l.imag()), "nonfinite", "returned eigenvalue " << l << " with Successful");
        rnu.push_back(nu_of(R.tm, R.sigma, l));
    }
    // the tolerance must stay far below half the smallest key gap, otherwise neither direction of the verdict is decidable
    {
        ld mg;
        keys_separated(R.keys, R.spread, 0, mg);
        if (!(tolv <= mg / 4))
        {
            c.cls("tolerance_not_below_gap/4(selection not asserted)");
            return false;
        }
        vf::report().stat("tolerance / smallest key gap (asserted cases)", (double) (tolv / mg));
    }
    // (a) every returned value is a genuine eigenvalue, distinct returned values belong to distinct reference eigenvalues
    std::vector<int> owner(n, -1);
    std::vector<long> assigned(o.vals.size(), -1);
    bool all_genuine = true;
    std::ostringstream bad;
    for (size_t i = 0; i < o.vals.size(); i++)
    {
        long best = -1, best_any = -1;
        ld bd = std::numeric_limits<ld>::infinity(), bd_any = bd;
        for (size_t j = 0; j < n; j++)
        {
            ld dist = std::abs(R.nu[j] - rnu[i]);
            if (!(dist == dist))
                dist = std::numeric_limits<ld>::infinity();
            if (dist < bd_any)
            {
                bd_any = dist;
                best_any = (long) j;
            }
            if (owner[j] < 0 && dist < bd)
            {
                bd = dist;
                best = (long) j;
            }
        }
        bool ok = (best >= 0 && bd <= tolv);
        if (ok && R.tm == T_CPLX)
        {
            // the back-transformation has two roots: the returned lambda must be the eigenvalue, not the other root
            cld lo = other_root_cplx(R.sigma, R.lam[(size_t) best]);
            if (std::abs(o.vals[i] - lo) < std::abs(o.vals[i] - R.lam[(size_t) best]) && std::abs(o.vals[i] - std::conj(lo)) < std::abs(o.vals[i] - R.lam[(size_t) best]))
            {
                ok = false;
                bad << " [" << i << "] " << o.vals[i] << " is the other root of the back-transformation of eigenvalue " << R.lam[(size_t) best] << ";";
            }
        }
        if (ok)
        {
            owner[(size_t) best] = (int) i;
            assigned[i] = best;
        }
        else
        {
            all_genuine = false;
            if (best_any >= 0 && bd_any <= tolv)
                bad << " [" << i << "] " << o.vals[i] << " duplicates reference eigenvalue " << R.lam[(size_t) best_any] << ";";
            else
                bad << " [" << i << "] " << o.vals[i] << " (nu=" << rnu[i] << ") is " << vf::num(bd_any) << " from the nearest reference value"
                    << (best_any >= 0 ? " nu=" : "") << (best_any >= 0 ? R.nu[(size_t) best_any] : cld(0)) << " (tolerance " << vf::num(tolv) << ");";
        }
    }
    // (b) the multiset of keys equals the multiset of the top-k reference keys
    std::vector<size_t> want = wanted_set(R.keys, rule, k);
    std::vector<ld> wk, rk;
    for (size_t j : want)
        wk.push_back(R.keys[j]);
    for (const cld& v : rnu)
        rk.push_back(key_of(rule, v));
    std::sort(wk.begin(), wk.end());
    std::sort(rk.begin(), rk.end());
    ld worst = 0;
    for (size_t i = 0; i < wk.size(); i++)
    {
        ld e = std::fabs(wk[i] - rk[i]);
        if (!(e == e))
            e = std::numeric_limits<ld>::infinity();
        worst = std::max(worst, e);
    }
    const bool keys_ok = worst <= tolv;
    c.feat["all_genuine"] = all_genuine ? 1 : 0;
    if (!keys_ok)
    {
        // which wanted eigenvalues are missing, and are they all exactly-zero eigenvalues of a singular matrix?
        std::ostringstream miss;
        bool only_zero = singular_class;
        int nmiss = 0;
        for (size_t j : want)
            if (owner[j] < 0)
            {
                nmiss++;
                miss << " " << R.lam[j] << (R.tm != T_NONE ? " (nu=" : "") << (R.tm != T_NONE ? vf::num(R.keys[j]) : std::string()) << (R.tm != T_NONE ? ")" : "");
                if (!(std::abs(R.lam[j]) <= 64 * (ld) n * EPS * R.lammax))
                    only_zero = false;
            }
        if (nmiss == 0)
            only_zero = false;
        c.feat["missed_only_zero"] = only_zero ? 1 : 0;
        c.feat["missed"] = nmiss;
        std::ostringstream ret;
        for (const cld& l : o.vals)
            ret << " " << l;
        std::ostringstream wnt;
        for (size_t j : want)
            wnt << " " << R.lam[j];
        c.cls(std::string(all_genuine ? "mismatch_all_genuine/" : "mismatch_with_spurious_value/") + regime + "/" + fam + (only_zero ? "/missed_only_zero" : ""));
        VF_CHECK(keys_ok, "not_the_selected_set",
                 regime << " " << fam << " " << vf::ALL_RULE_NAMES[rule] << " nev=" << k << ": returned {" << ret.str() << " } but the rule names {" << wnt.str() << " }; missing:" << miss.str()
                        << "; key mismatch " << vf::num(worst) << " > tolerance " << vf::num(tolv) << " (key spread " << vf::num(R.spread) << "); "
                        << (all_genuine ? "every returned value is a genuine, distinct eigenvalue" : ("NOT all genuine:" + bad.str())) << "; iterations=" << o.niter);
    }
    VF_CHECK(all_genuine, "not_an_eigenvalue", regime << " " << fam << " " << vf::ALL_RULE_NAMES[rule] << " nev=" << k << ": keys match the selected set but" << bad.str());
    // ratios of passing cases
    ld worstv = 0;
    for (size_t i = 0; i < o.vals.size(); i++)
        worstv = std::max(worstv, std::abs(R.nu[(size_t) assigned[i]] - rnu[i]));
    vf::report().stat(regime.substr(0, 2) + " key error / tolerance (passing)", (double) (worst / tolv));
    vf::report().stat(regime.substr(0, 2) + " value error / tolerance (passing)", (double) (worstv / tolv));
    return true;
}

// tolerance handed to the Krylov solvers: 1e-10, or 64 eps where that is larger (single precision)
static ld solver_tol() { return std::max((ld) 1e-10, 64 * EPS); }

// ---------------------------------------------------------------------------------------------------------
// Krylov families
#if defined(C04_PLAIN) || defined(C04_GENERALIZED)
struct Plan
{
    int fam = 0, rule = 0;
    Index n = 0, nev = 0, ncv = 0;
    bool r1 = false, singular = false;
    ld scale = 1;
    long scale_exp = 0;
    std::string shape;
};


static void krylov_case(vf::Draw& d, vf::Case& c, int fam)
{
    Plan P;
    P.fam = fam;
    const bool general = fam_general(fam);
    const Tmode tm = fam_tmode(fam);
    {
        int cnt = general ? 6 : 5;
        const int* rules = general ? vf::GEN_RULES : vf::SYM_RULES;
        P.rule = rules[d.range("rule", 0, cnt - 1)];
    }
    P.r1 = d.range("regime", 0, 9) < 5;
    const Index nmax = (Index) vf::options().geti("nmax", 24);
    P.n = (Index) d.dim("n", 6, fam == F_GENCPLX ? std::min<Index>(nmax, 14) : nmax);
    // singular class: plain modes only (the iterated operator itself is singular); not for the |Im| rules
    if (tm == T_NONE && !rule_imag(P.rule))
        P.singular = d.one_in("singular_class", 5);
    const long cseed = d.range("content_seed", 0, 65535);
    vf::Lcg g((uint64_t) cseed);
    const int mse = std::is_same<Real, float>::value ? 3 : 6;
    d.scale10("scale_exp", mse);
    P.scale_exp = d.scale10_exp_last();
    P.scale = std::pow((ld) 10, (ld) P.scale_exp);
    // Extreme scales (plain symmetric / Hermitian families, regime R1 only, where the selected set is decidable whatever the convergence
    // test does): eigenvalues whose SQUARES leave the floating-point range (|lambda| ~ 1e+-150..250 in double and long double, 1e20..1e30 in
    // float) while the matrix itself is perfectly representable. A selection key that is monotone in |lambda| only while lambda^2 is
    // representable (|lambda|^2, lambda*lambda, ...) silently turns into a tie there.
    if ((fam == F_SYM || fam == F_HERM) && P.r1 && !P.singular && d.one_in("extreme_scale", 6))
    {
        const bool is_float = std::is_same<Real, float>::value;
        const bool huge = is_float ? true : d.flag("extreme_huge");
        const long e = is_float ? d.range("extreme_exp", 20, 30) : d.range("extreme_exp", 150, 250);
        P.scale_exp = huge ? e : -e;
        P.scale = std::pow((ld) 10, (ld) P.scale_exp);
        c.cls(huge ? "extreme_scale/huge" : "extreme_scale/tiny");
    }
    ld sigma_unit = 0;
    ld sigma_im_unit = 0;
    if (tm != T_NONE)
    {
        long q = d.range("sigma_q", -6, 6);
        if (q == 0 && (tm == T_BUCK || tm == T_CAYLEY))
            q = 2;  // buckling and Cayley modes require a nonzero shift
        sigma_unit = (ld) q / 4;
        if (tm == T_CPLX)
            sigma_im_unit = (ld) d.range("sigma_imag_8th", 1, 8) / 8;
    }
    // ---- prescribed spectrum (unit scale) ----
    std::vector<cld> lam_unit;
    if (fam == F_GENCPLX)
    {
        lam_unit = cplx_shift_lambda(g, P.n, P.rule, cld(sigma_unit, sigma_im_unit));
        P.shape = "greedy_pool";
        if ((Index) lam_unit.size() < 6)
        {
            c.rejected = true;
            c.cls("generator: complex-shift pool too small");
            c.add_desc(std::string(FAM_NAMES[fam]) + " (spectrum pool exhausted)");
            return;
        }
        P.n = (Index) lam_unit.size();
    }
    else if (general)
    {
        std::vector<cld> nu = cplx_nu(d, g, P.n, P.rule, tm, P.singular, P.shape);
        for (const cld& v : nu)
            lam_unit.push_back(lambda_of(tm, sigma_unit, v));
    }
    else
    {
        std::vector<ld> nu = real_nu(d, g, P.n, P.rule, tm, P.singular, P.shape);
        for (ld v : nu)
            lam_unit.push_back(lambda_of(tm, sigma_unit, cld(v, 0)));
    }
    const Index n = P.n;
    Ref R;
    R.tm = tm;
    const ld sigma_user_r = (ld) (Real) (sigma_unit * P.scale), sigma_user_i = (ld) (Real) (sigma_im_unit * P.scale);
    R.sigma = cld(sigma_user_r, sigma_user_i);
    // prescribed keys must be spaced >= 1 % of their spread (generator self-check; the domain of the property is ~0.5 %)
    {
        Ref Pp;
        Pp.tm = tm;
        Pp.sigma = cld(sigma_unit, sigma_im_unit);
        Pp.lam = lam_unit;
        fill_ref(Pp, P.rule);
        ld mg;
        if (!keys_separated(Pp.keys, Pp.spread, (ld) 0.01, mg))
        {
            c.rejected = true;
            c.cls("generator: prescribed keys closer than 1 % (discarded)");
            c.add_desc(std::string(FAM_NAMES[fam]) + " prescribed key gap " + vf::num(mg / Pp.spread));
            return;
        }
        vf::report().stat("smallest prescribed key gap / spread (inverse)", (double) (Pp.spread / mg));
    }
    // ---- matrices in the user's scaling, rounded to the scalar type; reference spectrum of the rounded input ----
    CMatL Aplain;  // standard problems: the matrix handed to the solver (exactly representable in the scalar type)
    MatL Al, Bl;  // generalized families: (A, B) or (K, KG)
    long b_exp = 0;
    ld condM = 1;
#ifdef C04_PLAIN
    if (fam == F_SYM || fam == F_SYMSHIFT || fam == F_HERM)
    {
        VecL ev(n);
        for (Index i = 0; i < n; i++)
            ev[i] = lam_unit[(size_t) i].real();
        CMatL A;
        // Reflection-symmetric variant (J A J = A with J the reversal permutation, exactly): every eigenvector is symmetric or antisymmetric
        // under J and the prescribed eigenvalues alternate between the two classes. A start vector that is itself invariant under J (a constant
        // vector, say) can only ever see one class; the library's default start vector is documented as random, so the selected set must be found.
        const bool reflect = d.one_in("reflection_symmetric", 4);
        if (reflect)
        {
            c.cls("matrix/reflection_symmetric");
            P.shape += "+reflection_symmetric";
            const Index ns = (n + 1) / 2, na = n / 2;
            CMatL Bs = CMatL::Zero(n, ns), Ba = CMatL::Zero(n, na);
            const ld r2 = std::sqrt((ld) 0.5);
            for (Index k = 0; k < na; k++)
            {
                Bs(k, k) = r2;
                Bs(n - 1 - k, k) = r2;
                Ba(k, k) = r2;
                Ba(n - 1 - k, k) = -r2;
            }
            if (ns > na)
                Bs(na, na) = 1;
            CMatL Qs, Qa;
            if (fam == F_HERM)
            {
                Qs = Bs * vf::random_unitary(ns, g);
                Qa = Ba * vf::random_unitary(na, g);
            }
            else
            {
                Qs = Bs * vf::widen(vf::random_orthogonal(ns, g));
                Qa = Ba * vf::widen(vf::random_orthogonal(na, g));
            }
            CMatL Q(n, n);
            for (Index i = 0; i < n; i++)
                Q.col(i) = (i % 2 == 0) ? Qs.col(i / 2) : Qa.col(i / 2);
            A = vf::herm_from_spectrum(ev, Q);
        }
        else if (fam == F_HERM)
            A = vf::herm_from_spectrum(ev, vf::random_unitary(n, g));
        else
            A = vf::widen(vf::sym_from_spectrum(ev, vf::random_orthogonal(n, g)));
        A *= cld(P.scale);
        if (fam == F_HERM)
            vf::round_to_scalar<Cplx>(A);
        else
            vf::round_to_scalar<Real>(A);
        for (Index j = 0; j < n; j++)
        {
            A(j, j) = cld(A(j, j).real(), 0);
            for (Index i = j + 1; i < n; i++)
                A(j, i) = std::conj(A(i, j));
        }
        if (reflect)
        {
            // make the symmetry exact after rounding: A(n-1-i, n-1-j) = A(i, j), anti-diagonal entries real
            for (Index j = 0; j < n; j++)
                for (Index i = j; i < n; i++)
                {
                    const Index ir = n - 1 - i, jr = n - 1 - j;
                    cld v = A(i, j);
                    if (ir == j)
                        v = cld(v.real(), 0);
                    A(i, j) = v;
                    A(j, i) = std::conj(v);
                    A(ir, jr) = v;
                    A(jr, ir) = std::conj(v);
                }
        }
        Aplain = A;
        Eigen::SelfAdjointEigenSolver<CMatL> es(CMatL(A / cld(P.scale)), Eigen::EigenvaluesOnly);
        for (Index i = 0; i < n; i++)
            R.lam.push_back(cld(es.eigenvalues()[i] * P.scale, 0));
    }
    else if (general)
    {
        MatL D = block_diag_of(lam_unit);
        MatL Q = vf::random_orthogonal(n, g);
        MatL A = Q * D * Q.transpose() * P.scale;
        Mat As = A.cast<Real>();
        A = As.cast<ld>();
        Aplain = vf::widen(A);
        Eigen::EigenSolver<MatL> es(MatL(A / P.scale), false);
        for (Index i = 0; i < n; i++)
            R.lam.push_back(es.eigenvalues()[i] * P.scale);
    }
#endif
#ifdef C04_GENERALIZED
    if (fam_generalized(fam))
    {
        // pencil (M D M^T, M M^T): generalized eigenvalues are D; buckling: (K, K_G) = (M M^T, M D^-1 M^T)
        int ck = (int) d.range("cond_M", 0, 2);
        static const ld CM[3] = {1, (ld) 1.5, 3};
        condM = CM[ck];
        MatL Q1 = vf::random_orthogonal(n, g), Q2 = vf::random_orthogonal(n, g);
        VecL sv(n);
        for (Index i = 0; i < n; i++)
            sv[i] = std::pow(condM, -(ld) i / (ld) (n - 1));
        MatL M = Q1 * sv.asDiagonal() * Q2.transpose();
        d.scale10("B_scale_exp", 2);
        b_exp = d.scale10_exp_last();
        const ld bs = std::pow((ld) 10, (ld) b_exp);
        VecL Dv(n);
        for (Index i = 0; i < n; i++)
            Dv[i] = lam_unit[(size_t) i].real() * P.scale;
        MatL Bm = M * M.transpose() * bs;
        MatL Am;
        if (fam == F_GBUCK)
            Am = M * Dv.cwiseInverse().asDiagonal() * M.transpose() * bs;  // K_G
        else
            Am = M * Dv.asDiagonal() * M.transpose() * bs;
        Bm = ((Bm + Bm.transpose()) / 2).eval();
        Am = ((Am + Am.transpose()) / 2).eval();
        Mat As = Am.cast<Real>(), Bs = Bm.cast<Real>();
        Al = As.cast<ld>();
        Bl = Bs.cast<ld>();
        for (Index j = 0; j < n; j++)
            for (Index i = j + 1; i < n; i++)
            {
                Al(j, i) = Al(i, j);
                Bl(j, i) = Bl(i, j);
            }
        Eigen::GeneralizedSelfAdjointEigenSolver<MatL> ges;
        if (fam == F_GBUCK)
        {
            // K_G x = mu K x, lambda = 1 / mu
            ges.compute(MatL(Al * P.scale / bs), MatL(Bl / bs), Eigen::EigenvaluesOnly | Eigen::Ax_lBx);
            for (Index i = 0; i < n; i++)
                R.lam.push_back(cld(P.scale / ges.eigenvalues()[i], 0));
        }
        else
        {
            ges.compute(MatL(Al / (P.scale * bs)), MatL(Bl / bs), Eigen::EigenvaluesOnly | Eigen::Ax_lBx);
            for (Index i = 0; i < n; i++)
                R.lam.push_back(cld(ges.eigenvalues()[i] * P.scale, 0));
        }
    }
#endif
    if ((Index) R.lam.size() != n)
    {
        c.rejected = true;
        c.cls("family not built in this unit");
        return;
    }
    fill_ref(R, P.rule);
    // the reference spectrum must reproduce the prescription (rounding moves eigenvalues by O(n eps ||A||)) and stay separated
    {
        ld worst = 0;
        for (const cld& lu : lam_unit)
        {
            ld best = std::numeric_limits<ld>::infinity();
            for (const cld& l : R.lam)
                best = std::min(best, std::abs(l - lu * P.scale));
            worst = std::max(worst, best);
        }
        ld lmax = 0;
        for (const cld& lu : lam_unit)
            lmax = std::max(lmax, std::abs(lu) * P.scale);
        ld mg;
        bool sep = keys_separated(R.keys, R.spread, (ld) 0.005, mg);
        if (!(worst <= (ld) 1e-3 * lmax) || !sep)
        {
            c.rejected = true;
            c.cls("generator: reference spectrum of the rounded input left the separated domain (discarded)");
            c.cls(std::string("discarded/") + FAM_NAMES[fam] + (sep ? "/reference_far_from_prescription" : "/reference_keys_not_separated"));
            c.add_desc(std::string(FAM_NAMES[fam]) + " reference/prescription distance " + vf::num(worst / lmax));
            if (vf::options().geti("debug", 0))
                std::fprintf(stderr, "DISCARD %s rule=%d n=%ld scale=1e%ld worst/lmax=%Lg mingap/spread=%Lg sigma=%Lg\n", FAM_NAMES[fam], P.rule, (long) n, P.scale_exp, worst / lmax, mg / R.spread, sigma_unit);
            return;
        }
    }
    // ---- nev (boundary must not split a key group, e.g. a conjugate pair) and ncv ----
    {
        Index kmax = P.r1 ? (n - 1) / 2 : (n - 2) / 2;
        if (general)
            kmax = std::min(kmax, n - 2);
        std::vector<Index> valid;
        for (Index k = 1; k <= kmax; k++)
            if (boundary_separated(R.keys, P.rule, k, (ld) 0.005 * R.spread))
                valid.push_back(k);
        if (valid.empty())
        {
            c.rejected = true;
            c.cls("generator: no admissible nev");
            c.add_desc(std::string(FAM_NAMES[fam]) + " no admissible nev");
            return;
        }
        P.nev = valid[(size_t) d.dim("nev_index", 0, (long) valid.size() - 1)];
        P.ncv = P.r1 ? n : (Index) d.range("ncv", 2 * P.nev + 1, n - 1);
    }
    // ---- regime ----
    bool has_pos = false, has_neg = false;
    for (const cld& v : R.nu)
    {
        if (v.real() > 0)
            has_pos = true;
        if (v.real() < 0)
            has_neg = true;
    }
    const bool interior = !general && P.rule == 4 && has_pos && has_neg;
    // LargestMagn on a sign-indefinite real spectrum is a two-ended target: how many of the nev values come from each end is decided by
    // comparing magnitudes across the ends, and the Ritz value at the other end is neither wanted nor tested while it is still smaller
    const bool two_sided = !general && P.rule == 0 && has_pos && has_neg;
    bool zero_wanted = false;
    if (P.singular)
        for (size_t j : wanted_set(R.keys, P.rule, P.nev))
            if (std::abs(R.lam[j]) <= 64 * (ld) n * EPS * R.lammax)
                zero_wanted = true;
    std::string regime = P.r1 ? "R1" : ((general || interior || two_sided || zero_wanted) ? "R3" : "R2");
    c.feat["ncv_lt_n"] = P.ncv < n ? 1 : 0;
    c.feat["general_family"] = general ? 1 : 0;
    c.feat["interior_target"] = interior ? 1 : 0;
    c.feat["two_sided_magnitude_target"] = two_sided ? 1 : 0;
    c.feat["singular_class"] = P.singular ? 1 : 0;
    c.feat["krylov"] = 1;
    c.sfeat["regime"] = regime;
    const ld tol = solver_tol();
    std::ostringstream os;
    os << regime << " " << FAM_NAMES[fam] << "<" << vf::Sc<Real>::name() << "> " << vf::ALL_RULE_NAMES[P.rule] << " spectrum=" << P.shape << " n=" << n << " scale=1e" << P.scale_exp << " nev=" << P.nev
       << " ncv=" << P.ncv << " seed=" << cseed;
    if (tm != T_NONE)
        os << " sigma=" << R.sigma;
    if (fam_generalized(fam))
        os << " cond(M)=" << vf::num(condM) << " B_scale=1e" << b_exp;
    g_prior_rule = -1;
    g_prior_reinit = false;
    if (P.r1)
    {
        int hist = (int) d.range("prior_compute", 0, 2);
        if (hist > 0)
        {
            const int nr = general ? 6 : 5;
            const int* rules = general ? vf::GEN_RULES : vf::SYM_RULES;
            int pr = rules[d.range("prior_rule", 0, nr - 1)];
            if (pr != P.rule)
            {
                g_prior_rule = pr;
                g_prior_reinit = (hist == 2);
                c.cls(g_prior_reinit ? "history/prior_compute_other_rule_then_init" : "history/prior_compute_other_rule_no_init");
            }
        }
    }
    os << " init();";
    if (g_prior_rule >= 0)
        os << " compute(" << vf::ALL_RULE_NAMES[g_prior_rule] << ");" << (g_prior_reinit ? " init();" : "");
    os << " compute(maxit=3000, tol=" << vf::num(tol) << ")";
    c.add_desc(os.str());
    // ---- run ----
    Outcome o;
    const long maxit = 3000;
    try
    {
#ifdef C04_PLAIN
        if (!fam_generalized(fam))
        {
            vf::Problem<Real> VP;
            VP.A = Aplain;
            static const int MAPF[6] = {vf::FAM_SYM, vf::FAM_HERM, vf::FAM_GEN, vf::FAM_SYMSHIFT, vf::FAM_GENREAL, vf::FAM_GENCPLX};
            VP.family = MAPF[fam];
            VP.n = n;
            VP.nev = P.nev;
            VP.ncv = P.ncv;
            VP.sigma = R.sigma;
            vf::with_family<Real>(VP, [&](auto& op, auto& make, auto tag) {
                (void) op;
                (void) tag;
                auto eigs = make();
                run_krylov(*eigs, P.rule, maxit, (Real) tol, o);
            });
        }
#endif
#ifdef C04_GENERALIZED
        if (fam_generalized(fam))
        {
            Mat As = Al.cast<Real>(), Bs = Bl.cast<Real>();
            const Real sigma = (Real) R.sigma.real();
            typedef Spectra::SymShiftInvert<Real, Eigen::Dense, Eigen::Dense> SsiOp;
            typedef Spectra::DenseSymMatProd<Real> ProdOp;
            if (fam == F_GCHOL)
            {
                ProdOp op(As);
                Spectra::DenseCholesky<Real> bop(Bs);
                Spectra::SymGEigsSolver<ProdOp, Spectra::DenseCholesky<Real>, Spectra::GEigsMode::Cholesky> eigs(op, bop, P.nev, P.ncv);
                run_krylov(eigs, P.rule, maxit, (Real) tol, o);
            }
            else if (fam == F_GREGINV)
            {
                Eigen::SparseMatrix<Real> Asp = vf::to_sparse<Real>(As), Bsp = vf::to_sparse<Real>(Bs);
                Spectra::SparseSymMatProd<Real> op(Asp);
                Spectra::SparseRegularInverse<Real> bop(Bsp);
                Spectra::SymGEigsSolver<Spectra::SparseSymMatProd<Real>, Spectra::SparseRegularInverse<Real>, Spectra::GEigsMode::RegularInverse> eigs(op, bop, P.nev, P.ncv);
                run_krylov(eigs, P.rule, maxit, (Real) tol, o);
            }
            else if (fam == F_GSHIFT)
            {
                SsiOp op(As, Bs);
                ProdOp bop(Bs);
                Spectra::SymGEigsShiftSolver<SsiOp, ProdOp, Spectra::GEigsMode::ShiftInvert> eigs(op, bop, P.nev, P.ncv, sigma);
                run_krylov(eigs, P.rule, maxit, (Real) tol, o);
            }
            else if (fam == F_GBUCK)
            {
                // K = Bs (positive definite), K_G = As
                SsiOp op(Bs, As);
                ProdOp kop(Bs);
                Spectra::SymGEigsShiftSolver<SsiOp, ProdOp, Spectra::GEigsMode::Buckling> eigs(op, kop, P.nev, P.ncv, sigma);
                run_krylov(eigs, P.rule, maxit, (Real) tol, o);
            }
            else
            {
                SsiOp op(As, Bs);
                ProdOp bop(Bs);
                Spectra::SymGEigsShiftSolver<SsiOp, ProdOp, Spectra::GEigsMode::Cayley> eigs(op, bop, P.nev, P.ncv, sigma);
                run_krylov(eigs, P.rule, maxit, (Real) tol, o);
            }
        }
#endif
    }
    catch (const std::invalid_argument& e)
    {
        c.rejected = true;
        c.cls(std::string("invalid_argument: ") + e.what());
        return;
    }
    catch (const std::runtime_error& e)
    {
        c.rejected = true;
        c.cls(std::string("runtime_error: ") + e.what());
        return;
    }
    if (!o.ran)
    {
        c.rejected = true;
        c.cls("family not built in this unit");
        return;
    }
    const std::string fr = std::string(FAM_NAMES[fam]) + "/" + vf::ALL_RULE_NAMES[P.rule];
    if (!o.successful)
    {
        c.cls("not_successful(" + o.info + ")/" + regime + "/" + FAM_NAMES[fam]);
        return;
    }
    c.nontrivial = true;
    c.cls("spectrum/" + P.shape);
    if (P.singular)
        c.cls(std::string("singular_class/") + regime + (zero_wanted ? "/zero_wanted" : "/zero_not_wanted"));
    if (interior)
        c.cls("interior_target/" + regime);
    if (two_sided)
        c.cls("two_sided_magnitude_target/" + regime);
    const ld tolv = std::max((ld) 1e-6 * R.spread, 100 * tol * R.numax);
    if (check_selection(R, P.rule, P.nev, o, tolv, P.singular, c, regime, FAM_NAMES[fam]))
    {
        // counted only when the oracle was applied and passed
        c.cls(regime + "/" + fr);
        c.cls(regime + "/" + vf::Sc<Real>::name());
        c.cls("selection_verified/" + regime);
    }
}
#endif

// ---------------------------------------------------------------------------------------------------------
#ifdef C04_CONTRIB
// Davidson: diagonally dominant symmetric matrices; exterior targets only (LargestAlge, SmallestAlge; the magnitude rules on definite
// spectra, where they name one end)
static void davidson_case(vf::Draw& d, vf::Case& c)
{
    static const int DRULES[4] = {3, 7, 0, 4};
    const int rule = DRULES[d.range("rule", 0, 3)];
    const Index nmax = (Index) vf::options().geti("nmax", 24);
    const Index n = (Index) d.dim("n", 10, std::max<Index>(10, 2 * nmax));
    vf::Lcg g((uint64_t) d.range("content_seed", 0, 65535));
    d.scale10("scale_exp", 3);
    const long scale_exp = d.scale10_exp_last();
    const ld scale = std::pow((ld) 10, (ld) scale_exp);
    const bool neg = d.flag("negative_definite");
    std::vector<ld> diag = key_grid(g, n, (ld) 0.3, 1, {}, false);
    for (Index i = n - 1; i > 0; i--)
        std::swap(diag[(size_t) i], diag[(size_t) g.below(i + 1)]);
    const ld h = (ld) 1 / (ld) (n - 1);
    const ld offd = (ld) 0.3 * h / std::sqrt((ld) n) * (ld) (1 + d.range("coupling", 0, 3));
    MatL A = MatL::Zero(n, n);
    for (Index j = 0; j < n; j++)
    {
        A(j, j) = neg ? -diag[(size_t) j] : diag[(size_t) j];
        for (Index i = j + 1; i < n; i++)
        {
            A(i, j) = offd * g.u();
            A(j, i) = A(i, j);
        }
    }
    A *= scale;
    Mat As = A.cast<Real>();
    A = As.cast<ld>();
    Ref R;
    Eigen::SelfAdjointEigenSolver<MatL> es(MatL(A / scale), Eigen::EigenvaluesOnly);
    for (Index i = 0; i < n; i++)
        R.lam.push_back(cld(es.eigenvalues()[i] * scale, 0));
    fill_ref(R, rule);
    ld mg;
    if (!keys_separated(R.keys, R.spread, (ld) 0.01, mg))
    {
        c.rejected = true;
        c.cls("generator: Davidson reference keys closer than 1 % (discarded)");
        return;
    }
    const Index nev = (Index) d.dim("nev", 1, std::max<Index>(1, n / 5));
    const Real tol = (Real) ((ld) 1e-9 * scale);  // Davidson's test is absolute: ||r|| < tol
    std::ostringstream os;
    os << "R2 DavidsonSymEigsSolver<" << vf::Sc<Real>::name() << ",DenseSymMatProd> " << vf::ALL_RULE_NAMES[rule] << " diagonally dominant " << (neg ? "negative" : "positive") << " definite n=" << n
       << " scale=1e" << scale_exp << " off-diagonal<=" << vf::num(offd) << " nev=" << nev << " compute(maxit=300, tol=" << vf::num(tol) << ")";
    c.add_desc(os.str());
    c.feat["krylov"] = 0;
    Outcome o;
    try
    {
        Spectra::DenseSymMatProd<Real> op(As);
        Spectra::DavidsonSymEigsSolver<Spectra::DenseSymMatProd<Real>> solver(op, nev);
        o.nconv = (long) solver.compute(vf::ALL_RULES[rule], 300, tol);
        o.successful = solver.info() == CompInfo::Successful;
        o.info = vf::info_name(solver.info());
        o.niter = (long) solver.num_iterations();
        o.vals = to_vals(solver.eigenvalues());
    }
    catch (const std::invalid_argument& e)
    {
        c.rejected = true;
        c.cls(std::string("invalid_argument: ") + e.what());
        return;
    }
    if (!o.successful)
    {
        c.cls("not_successful(" + o.info + ")/R2/DavidsonSymEigsSolver");
        return;
    }
    c.nontrivial = true;
    const ld tolv = std::max((ld) 1e-6 * R.spread, 100 * (ld) tol);
    if (check_selection(R, rule, nev, o, tolv, false, c, "R2", "DavidsonSymEigsSolver"))
    {
        c.cls(std::string("R2/DavidsonSymEigsSolver/") + vf::ALL_RULE_NAMES[rule]);
        c.cls("selection_verified/R2");
    }
}

// PartialSVD: prescribed singular values, "the rule" is fixed: the largest ones. Success = every requested value converged.
static void svd_case(vf::Draw& d, vf::Case& c)
{
    const Index nmax = (Index) vf::options().geti("nmax", 24);
    const Index p = (Index) d.dim("p", 6, nmax);
    const int shape = (int) d.range("shape", 0, 2);  // square, tall, wide
    const Index extra = shape == 0 ? 0 : (Index) d.range("extra", 1, 8);
    const Index m = shape == 1 ? p + extra : p, nn = shape == 2 ? p + extra : p;
    vf::Lcg g((uint64_t) d.range("content_seed", 0, 65535));
    d.scale10("scale_exp", std::is_same<Real, float>::value ? 3 : 6);
    const long scale_exp = d.scale10_exp_last();
    const ld scale = std::pow((ld) 10, (ld) scale_exp);
    const bool r1 = d.range("regime", 0, 9) < 5;
    std::vector<ld> sv = key_grid(g, p, (ld) 0.25, 1, {}, false);
    MatL U = vf::random_orthogonal(m, g), V = vf::random_orthogonal(nn, g);
    MatL S = MatL::Zero(m, nn);
    for (Index i = 0; i < p; i++)
        S(i, i) = sv[(size_t) i];
    MatL A = U * S * V.transpose() * scale;
    Mat As = A.cast<Real>();
    A = As.cast<ld>();
    Ref R;
    // reference singular values: square roots of the eigenvalues of the smaller Gram matrix in long double (cond(A) <= 6, so squaring costs nothing)
    {
        MatL An = A / scale;
        MatL G = (m <= nn) ? MatL(An * An.transpose()) : MatL(An.transpose() * An);
        Eigen::SelfAdjointEigenSolver<MatL> gs(MatL((G + G.transpose()) / 2), Eigen::EigenvaluesOnly);
        for (Index i = 0; i < p; i++)
            R.lam.push_back(cld(std::sqrt(std::max((ld) 0, gs.eigenvalues()[i])) * scale, 0));
    }
    const int rule = 3;  // LargestAlge on the singular values
    fill_ref(R, rule);
    ld mg;
    if (!keys_separated(R.keys, R.spread, (ld) 0.01, mg))
    {
        c.rejected = true;
        c.cls("generator: SVD reference keys closer than 1 % (discarded)");
        return;
    }
    const Index kmax = r1 ? (p - 1) / 2 : (p - 2) / 2;
    const Index ncomp = (Index) d.dim("ncomp", 1, kmax);
    const Index ncv = r1 ? p : (Index) d.range("ncv", 2 * ncomp + 1, p - 1);
    const std::string regime = r1 ? "R1" : "R2";
    const ld tol = solver_tol();
    std::ostringstream os;
    os << regime << " PartialSVDSolver<" << vf::Sc<Real>::name() << "> " << m << "x" << nn << " prescribed singular values scale=1e" << scale_exp << " ncomp=" << ncomp << " ncv=" << ncv << " compute(3000, " << vf::num(tol) << ")";
    c.add_desc(os.str());
    c.feat["krylov"] = 0;
    Outcome o;
    try
    {
        Spectra::PartialSVDSolver<Mat> svds(As, ncomp, ncv);
        o.nconv = (long) svds.compute(3000, (Real) tol);
        o.successful = (o.nconv == (long) ncomp);
        o.vals = to_vals(svds.singular_values());
    }
    catch (const std::invalid_argument& e)
    {
        c.rejected = true;
        c.cls(std::string("invalid_argument: ") + e.what());
        return;
    }
    if (!o.successful)
    {
        c.cls("not_successful/" + regime + "/PartialSVDSolver");
        return;
    }
    c.nontrivial = true;
    // the solver's test acts on sigma^2: |d sigma| <= tol sigma / 2
    const ld tolv = std::max((ld) 1e-6 * R.spread, 100 * tol * R.numax);
    if (check_selection(R, rule, ncomp, o, tolv, false, c, regime, "PartialSVDSolver"))
    {
        c.cls(regime + "/PartialSVDSolver/largest");
        c.cls("selection_verified/" + regime);
    }
}

// LOBPCG: the k smallest eigenvalues, well separated from the rest; dense random start block
static void lobpcg_case(vf::Draw& d, vf::Case& c)
{
    const Index k = (Index) d.dim("k", 1, 4);
    const Index n = (Index) d.dim("n", 5 * k + 1, 5 * k + 20);
    vf::Lcg g((uint64_t) d.range("content_seed", 0, 65535));
    // k + 1 small eigenvalues spaced >= 10 % of the spread, the others well above
    std::vector<ld> ev = key_grid(g, k + 1, (ld) 0.1, (ld) 0.15 * (ld) (k), {}, false);
    std::vector<ld> hi = key_grid(g, n - k - 1, (ld) 1.5, 1, {}, false);
    ev.insert(ev.end(), hi.begin(), hi.end());
    const ld shift = d.flag("indefinite") ? (ld) -1 : 0;
    VecL evv(n);
    for (Index i = 0; i < n; i++)
        evv[i] = ev[(size_t) i] + shift;
    MatL A = vf::sym_from_spectrum(evv, vf::random_orthogonal(n, g));
    Mat As = A.cast<Real>();
    A = As.cast<ld>();
    for (Index j = 0; j < n; j++)
        for (Index i = j + 1; i < n; i++)
            A(j, i) = A(i, j);
    As = A.cast<Real>();
    Ref R;
    Eigen::SelfAdjointEigenSolver<MatL> es(A, Eigen::EigenvaluesOnly);
    for (Index i = 0; i < n; i++)
        R.lam.push_back(cld(es.eigenvalues()[i], 0));
    const int rule = 7;  // SmallestAlge
    fill_ref(R, rule);
    Mat X0(n, k);
    for (Index j = 0; j < k; j++)
        for (Index i = 0; i < n; i++)
            X0(i, j) = (Real) g.u();
    const Real tol = (Real) 1e-8;
    std::ostringstream os;
    os << "R2 LOBPCGSolver<" << vf::Sc<Real>::name() << "> n=" << n << " k=" << k << (shift != 0 ? " indefinite" : " positive definite") << " dense random start block compute(" << n << ", " << vf::num(tol) << ")";
    c.add_desc(os.str());
    c.feat["krylov"] = 0;
    Outcome o;
    Mat X;
    try
    {
        Eigen::SparseMatrix<Real> Asp = vf::to_sparse<Real>(As), Xsp = vf::to_sparse<Real>(X0);
        Spectra::LOBPCGSolver<Real> solver(Asp, Xsp);
        solver.compute((int) n, tol);
        o.successful = solver.info() == Eigen::Success;
        o.vals = to_vals(solver.eigenvalues());
        o.nconv = (long) o.vals.size();
        X = solver.eigenvectors();
    }
    catch (const std::invalid_argument& e)
    {
        c.rejected = true;
        c.cls(std::string("invalid_argument: ") + e.what());
        return;
    }
    catch (const std::runtime_error& e)
    {
        c.rejected = true;
        c.cls(std::string("runtime_error: ") + e.what());
        return;
    }
    if (!o.successful)
    {
        c.cls("not_successful/R2/LOBPCGSolver");
        return;
    }
    c.nontrivial = true;
    // the test is absolute: column residual norm < tol * n
    const ld tolv = std::max((ld) 1e-6 * R.spread, 100 * (ld) tol * (ld) n);
    // orthonormality of the iterate is C17's matter (finding KF-C17-3); recorded as a feature so that a failure here can be attributed
    if (X.rows() == n && X.cols() == k)
    {
        MatL Xl = X.cast<ld>();
        c.feat["lobpcg_gram_error"] = (double) vf::maxabs(MatL(Xl.transpose() * Xl - MatL::Identity(k, k)));
    }
    if (check_selection(R, rule, k, o, tolv, false, c, "R2", "LOBPCGSolver"))
    {
        c.cls("R2/LOBPCGSolver/smallest");
        c.cls("selection_verified/R2");
    }
}
#endif

// ---------------------------------------------------------------------------------------------------------
static void run_case(vf::Draw& d, vf::Case& c)
{
    // weights: symmetric-type Krylov families 5 (one per rule), general families 6, contrib 3 / 3 / 2
    static const int W[F_COUNT] = {
#ifdef C04_PLAIN
        5, 5, 6, 5, 6, 6,
#else
        0, 0, 0, 0, 0, 0,
#endif
#ifdef C04_GENERALIZED
                                   5, 5, 5, 5, 5,
#else
                                   0, 0, 0, 0, 0,
#endif
#ifdef C04_CONTRIB
                                   3, 3, 2
#else
                                   0, 0, 0
#endif
    };
    int total = 0;
    for (int f = 0; f < F_COUNT; f++)
        total += W[f];
    // the scalar type takes part in the case identity (the units share seeds, so that the same recipe runs in all three precisions)
    d.range("scalar_type_tag", (long) sizeof(Real), (long) sizeof(Real));
    long w = d.range("family_weighted", 0, total - 1);
    int fam = 0;
    for (int f = 0; f < F_COUNT; f++)
    {
        if (w < W[f])
        {
            fam = f;
            break;
        }
        w -= W[f];
    }
    c.cls(std::string("family/") + FAM_NAMES[fam]);
    c.sfeat["family"] = FAM_NAMES[fam];
#if defined(C04_PLAIN) || defined(C04_GENERALIZED)
    if (fam_krylov(fam))
        krylov_case(d, c, fam);
#endif
#ifdef C04_CONTRIB
    if (fam == F_DAVIDSON)
        davidson_case(d, c);
    else if (fam == F_SVD)
        svd_case(d, c);
    else if (fam == F_LOBPCG)
        lobpcg_case(d, c);
#endif
}

// D13 `krylov_misconvergence`: regime R3 only (restarted Krylov process with ncv < n and: general family, or interior target, or LargestMagn
// on a sign-indefinite spectrum (the more-wanted eigenvalue sits at the other end, whose Ritz value is not tested), or the missing
// eigenvalues are exactly-zero eigenvalues of a singular matrix, which Arnoldi::init() removes from the start vector), and every returned
// value is a genuine, distinct reference eigenvalue. Anything else (a value that is not an eigenvalue, a duplicate, ncv = n, an exterior
// target in the symmetric / Hermitian / generalized families) stays a violation.
static std::string match(const vf::Violation& v, const vf::Case& c)
{
    if (v.kind == "not_the_selected_set" && c.f("krylov") == 1 && c.f("ncv_lt_n") == 1 && c.f("all_genuine") == 1 &&
        (c.f("general_family") == 1 || c.f("interior_target") == 1 || c.f("two_sided_magnitude_target") == 1 || (c.f("singular_class") == 1 && c.f("missed_only_zero") == 1)))
        return "krylov_misconvergence";
    return "";
}

int main(int argc, char** argv)
{
    return vf::run_main(argc, argv, "C04", run_case, match);
}
