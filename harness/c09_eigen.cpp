// C09 - small dense eigen-decompositions: TridiagEigen, UpperHessenbergSchur, UpperHessenbergEigen.
#include "vf/eigen_assert.hpp"
#include <Eigen/Core>
#include <Eigen/Eigenvalues>
#include <Spectra/LinAlg/TridiagEigen.h>
#include <Spectra/LinAlg/UpperHessenbergSchur.h>
#include <Spectra/LinAlg/UpperHessenbergEigen.h>
#include "vf/oracle.hpp"
#include "vf/gen.hpp"
#include "vf/runner.hpp"
#include <algorithm>

using vf::ld;
using vf::cld;
using vf::MatL;
using vf::VecL;
using vf::CMatL;
typedef Eigen::Index Index;

static const ld CTOL = 64;

static const char* CLS_NAMES[3] = {"TridiagEigen", "UpperHessenbergSchur", "UpperHessenbergEigen"};
static const char* PAT_NAMES[11] = {"small_int", "dyadic", "seeded_random", "graded", "zero_subdiagonals", "jordan_like", "companion",
                                    "zero_or_diagonal", "equal_diagonal_2x2_blocks", "repeated_eigenvalues", "reducible_small_int_blocks"};

template <typename S>
struct In
{
    Eigen::Matrix<S, Eigen::Dynamic, Eigen::Dynamic> given;
    // how the matrix is handed over: 0 = the plain matrix, 1 = a block in the middle of a larger matrix filled with other numbers
    // (an Eigen::Ref whose outer stride exceeds its row count; every compute() / constructor takes Eigen::Ref<const Matrix>)
    int form = 0;
    Eigen::Matrix<S, Eigen::Dynamic, Eigen::Dynamic> parent;
    Eigen::Ref<const Eigen::Matrix<S, Eigen::Dynamic, Eigen::Dynamic>> arg() const
    {
        if (form == 0)
            return given;
        return parent.block(1, 2, given.rows(), given.cols());
    }
    MatL H;
    ld scale = 1;
    bool nondiag = false;
    bool defective_class = false;
};

// Builds an upper Hessenberg (or symmetric tridiagonal) matrix from the recipe.
template <typename S>
static In<S> make(vf::Draw& d, vf::Case& c, bool tridiag, int pat, Index n)
{
    typedef Eigen::Matrix<S, Eigen::Dynamic, Eigen::Dynamic> Mat;
    In<S> in;
    const ld eps = vf::Sc<S>::eps();
    MatL G = MatL::Zero(n, n);
    auto used = [&](Index i, Index j) { return tridiag ? (i == j || i == j + 1) : (i <= j + 1); };
    switch (pat)
    {
        case 0:
        case 1:
            for (Index j = 0; j < n; j++)
                for (Index i = 0; i < n; i++)
                    if (used(i, j))
                        G(i, j) = pat == 0 ? (ld) d.range("e", -3, 3) : (ld) d.range("e", -32, 32) / 16;
            break;
        case 2:
        case 3:
        case 4:
        {
            vf::Lcg g((uint64_t) d.range("content_seed", 0, 65535));
            int grade = pat == 3 ? (int) d.range("grade", 1, 4) * 4 : 0;
            for (Index j = 0; j < n; j++)
                for (Index i = 0; i < n; i++)
                    if (used(i, j))
                    {
                        G(i, j) = g.u();
                        if (grade)
                            G(i, j) *= std::pow((ld) 10, -(ld) grade * (ld) (i + j) / (ld) (2 * n));
                    }
            if (pat == 4)
                for (Index i = 0; i + 1 < n; i++)
                {
                    int k = (int) d.range("sub", 0, 4);
                    ld diag = std::abs(G(i, i)) + std::abs(G(i + 1, i + 1));
                    if (k == 1)
                        G(i + 1, i) = 0;
                    else if (k == 2)
                        G(i + 1, i) = diag * eps / 2;
                    else if (k == 3)
                        G(i + 1, i) = diag * eps * eps / 2;
                    else if (k == 4)
                        G(i + 1, i) = diag * std::sqrt(eps);
                }
            break;
        }
        case 5:  // Jordan-like: runs of equal diagonal entries, ones above, small couplings below
        {
            ld lam = (ld) d.range("lambda", -3, 3);
            for (Index i = 0; i < n; i++)
            {
                if (i > 0 && d.one_in("newblock", 4))
                    lam = (ld) d.range("lambda", -3, 3);
                G(i, i) = lam;
                if (i + 1 < n)
                {
                    if (!tridiag)
                        G(i, i + 1) = (ld) d.range("sup", 0, 1);
                    int k = (int) d.range("coupling", 0, 17);  // 0, or +-10^-(k-1)
                    ld cpv = k == 0 ? (ld) 0 : std::pow((ld) 10, -(ld) (k - 1));
                    if (k > 0 && d.flag("coupling_neg"))
                        cpv = -cpv;
                    G(i + 1, i) = cpv;
                }
            }
            in.defective_class = true;
            break;
        }
        case 6:  // companion matrix in Hessenberg form (ones on the subdiagonal, coefficients in the last column)
            for (Index i = 0; i + 1 < n; i++)
                G(i + 1, i) = 1;
            if (tridiag)
            {
                for (Index i = 0; i < n; i++)
                    G(i, i) = (ld) d.range("e", -3, 3);
            }
            else
                for (Index i = 0; i < n; i++)
                    G(i, n - 1) = (ld) d.range("coef", -4, 4);
            in.defective_class = true;
            break;
        case 7:
            if (d.flag("diagonal"))
                for (Index i = 0; i < n; i++)
                    G(i, i) = (ld) d.range("e", -3, 3);
            break;
        case 8:  // 2x2 diagonal blocks [a b; c a], coupled above
        {
            vf::Lcg g((uint64_t) d.range("content_seed", 0, 65535));
            for (Index i = 0; i < n; i += 2)
            {
                ld a = (ld) d.range("a", -3, 3);
                G(i, i) = a;
                if (i + 1 < n)
                {
                    G(i + 1, i + 1) = a;
                    ld b = (ld) d.range("b", -4, 4) / 4;
                    ld cc = (ld) d.range("c", -4, 4) / 4;
                    G(i + 1, i) = cc;
                    if (!tridiag)
                        G(i, i + 1) = b;
                    if (i + 2 < n)
                        G(i + 2, i + 1) = (ld) d.range("link", 0, 2) * ((ld) 1 / 1024);
                }
            }
            if (!tridiag)
                for (Index j = 0; j < n; j++)
                    for (Index i = 0; i + 1 < j; i++)
                        G(i, j) = g.dy();
            in.defective_class = true;
            break;
        }
        case 10:  // reducible: [A C; 0 M] with small-integer unreduced Hessenberg blocks. Small integer blocks are where the QR
                  // iteration stalls long enough to need its exceptional shifts (sweeps 10 and 30) while a leading block is still unprocessed
        {
            Index i0 = 0;
            while (i0 < n)
            {
                Index bs = std::min<Index>(n - i0, (Index) d.range("block_size", 1, 5));
                for (Index j = i0; j < i0 + bs; j++)
                    for (Index i = i0; i < i0 + bs; i++)
                        if (tridiag ? (i == j || i == j + 1) : (i <= j + 1))
                        {
                            ld v = (ld) d.range("e", -2, 2);
                            if (i == j + 1 && v == 0)
                                v = 1;  // keep the block unreduced
                            G(i, j) = v;
                        }
                if (!tridiag)
                    for (Index j = i0 + bs; j < n; j++)
                        for (Index i = i0; i < i0 + bs; i++)
                            G(i, j) = (ld) d.range("c", -2, 2);
                i0 += bs;
            }
            in.defective_class = true;
            break;
        }
        default:  // 9: repeated eigenvalues: Q-free construction, diagonal with repeats + Toeplitz off-diagonals
        {
            ld off = (ld) d.range("off", 0, 3) / 2;
            ld dg = (ld) d.range("diag", -2, 2);
            for (Index i = 0; i < n; i++)
            {
                G(i, i) = dg;
                if (i + 1 < n)
                {
                    G(i + 1, i) = (d.one_in("cut", 3) ? 0 : off);
                    if (!tridiag)
                        G(i, i + 1) = G(i + 1, i);
                }
            }
            break;
        }
    }
    // overall scale
    ld scale = 1;
    // 0 unscaled, 1 any decade, 2 / 3 one of the three smallest / largest decades (where triple and quadruple products of
    // entries leave the representable range although squares do not)
    const long scaled = d.range("scaled", 0, 3);
    if (scaled)
    {
        int emax = std::is_same<S, float>::value ? 12 : 100;
        d.scale10("scale", emax);
        long e = d.scale10_exp_last();
        if (scaled == 2)
            e = -(emax - std::labs(e) % 3);
        else if (scaled == 3)
            e = emax - std::labs(e) % 3;
        scale = std::pow((ld) 10, (ld) e);
    }
    in.scale = scale;
    Mat given = Mat::Zero(n, n);
    for (Index j = 0; j < n; j++)
        for (Index i = 0; i < n; i++)
            given(i, j) = (S) (G(i, j) * scale);
    in.H = vf::widen_real(given);
    if (tridiag)
    {
        for (Index i = 0; i + 1 < n; i++)
            in.H(i, i + 1) = in.H(i + 1, i);
        // TridiagEigen documents nothing about the upper triangle; it reads diagonal(-1) only. Mirror or garbage.
        int ign = (int) d.range("upper_part", 0, 1);
        for (Index i = 0; i + 1 < n; i++)
            given(i, i + 1) = ign ? (S) (7 * scale) : given(i + 1, i);
    }
    for (Index j = 0; j < n; j++)
        for (Index i = 0; i < n; i++)
            if (i != j && in.H(i, j) != 0)
                in.nondiag = true;
    in.given = given;
    in.form = (int) d.pick("input_form", 2);
    if (in.form == 1)
    {
        in.parent = Eigen::Matrix<S, Eigen::Dynamic, Eigen::Dynamic>::Constant(n + 4, n + 3, (S) 3.25);
        in.parent.block(1, 2, n, n) = given;
        c.cls("input/block_of_larger_matrix");
    }
    else
        c.cls("input/plain_matrix");
    return in;
}

template <typename S>
static void describe(vf::Case& c, int cls, int pat, Index n, const In<S>& in)
{
    std::ostringstream os;
    os << CLS_NAMES[cls] << "<" << vf::Sc<S>::name() << "> n=" << n << " pattern=" << PAT_NAMES[pat] << " scale=1e" << std::log10((double) in.scale)
       << " H=" << vf::show(in.given, 6);
    c.add_desc(os.str());
    c.cls(std::string(CLS_NAMES[cls]) + "/" + vf::Sc<S>::name());
    c.cls(std::string(CLS_NAMES[cls]) + "/" + PAT_NAMES[pat]);
    c.nontrivial = n >= 3 && in.nondiag;
}

// History: the decomposition objects are reused by their owners. After the checks above, the same object decomposes ANOTHER matrix (other size) and then
// the target again: the second result for the target must be bit-identical to the first (nothing of the other matrix may survive). The draws are made at
// the end of the case so that earlier tapes keep their meaning.
template <typename S, typename Obj, typename Fetch>
static void reuse_check(vf::Draw& d, vf::Case& c, Obj& obj, const Eigen::Matrix<S, Eigen::Dynamic, Eigen::Dynamic>& given, bool tridiag, Fetch fetch)
{
    typedef Eigen::Matrix<S, Eigen::Dynamic, Eigen::Dynamic> Mat;
    if (!d.flag("reuse_after_other_matrix"))
        return;
    const Index n = given.rows();
    const CMatL first = fetch(obj);
    const Index m = (Index) d.range("other_n", 2, n + 3);  // the property quantifies over sizes >= 2 (TridiagEigen asserts on a 1x1 input)
    Mat other = Mat::Zero(m, m);
    for (Index j = 0; j < m; j++)
        for (Index i = 0; i <= std::min<Index>(j + 1, m - 1); i++)
            if (!tridiag || i + 1 >= j)
                other(i, j) = (S) (ld) (((i * 5 + j * 3) % 7) - 3);
    if (tridiag)
        for (Index j = 0; j < m; j++)
            for (Index i = 0; i < j; i++)
                other(i, j) = other(j, i);
    try
    {
        obj.compute(other);
    }
    catch (const std::runtime_error&)
    {
    }
    bool threw = false;
    try
    {
        obj.compute(given);
    }
    catch (const std::runtime_error&)
    {
        threw = true;
    }
    VF_CHECK(!threw, "reuse_changes_result", "the object decomposed the target, then a " << m << "x" << m << " matrix, and now fails on the target");
    const CMatL second = fetch(obj);
    VF_CHECK(vf::bits_equal(first, second), "reuse_changes_result", "the object returns other numbers for the target after it decomposed a " << m << "x" << m << " matrix in between (max diff "
                                                                        << vf::num(first.rows() == second.rows() && first.cols() == second.cols() ? vf::maxabs(first - second) : (ld) -1) << ")");
    c.cls("object_reused_after_other_matrix");
}

template <typename S>
static void tridiag_case(vf::Draw& d, vf::Case& c, int pat, Index n)
{
    typedef Eigen::Matrix<S, Eigen::Dynamic, Eigen::Dynamic> Mat;
    const ld eps = vf::Sc<S>::eps();
    In<S> in = make<S>(d, c, true, pat, n);
    describe<S>(c, 0, pat, n, in);
    const ld normT = vf::fro_scaled(in.H);
    const ld tol = CTOL * (ld) n * eps;
    Spectra::TridiagEigen<S> eig;
    try
    {
        if (d.flag("ctor_computes"))
        {
            Spectra::TridiagEigen<S> e2(in.arg());
            eig = e2;
        }
        else
            eig.compute(in.arg());
    }
    catch (const std::runtime_error&)
    {
        c.rejected = true;  // iteration limit: allowed by the property, counted
        c.cls("iteration_limit_exception");
        return;
    }
    VF_CHECK(eig.eigenvalues().size() == n && eig.eigenvectors().rows() == n && eig.eigenvectors().cols() == n, "dims", "wrong result dimensions");
    VecL dvals = vf::widen_real(eig.eigenvalues());
    MatL Z = vf::widen_real(eig.eigenvectors());
    VF_CHECK(vf::all_finite(dvals) && vf::all_finite(Z), "nonfinite", "NaN/Inf in eigenvalues or eigenvectors");
    ld orth = vf::maxabs(Z.transpose() * Z - MatL::Identity(n, n));
    vf::report().stat("tridiag_orth/(n eps)", (double) (orth / ((ld) n * eps)));
    VF_CHECK(orth <= tol, "orthogonality", "max|Z'Z-I| = " << vf::num(orth) << " > " << vf::num(tol));
    ld res = vf::maxabs(in.H * Z - Z * dvals.asDiagonal());
    if (normT > 0)
        vf::report().stat("tridiag_residual/(n eps |T|)", (double) (res / ((ld) n * eps * normT)));
    VF_CHECK(res <= tol * normT, "residual", "max|TZ - Z diag(d)| = " << vf::num(res) << " > " << vf::num(tol * normT));
    // eigenvalues against an independent symmetric reference (Weyl: backward error bounds the eigenvalue error)
    if (normT > 0)
    {
        Eigen::SelfAdjointEigenSolver<MatL> ref(in.H / in.scale, Eigen::EigenvaluesOnly);
        VecL r = ref.eigenvalues() * in.scale;
        std::vector<ld> got(dvals.data(), dvals.data() + n);
        std::sort(got.begin(), got.end());
        ld worst = 0;
        for (Index i = 0; i < n; i++)
            worst = std::max(worst, std::abs(got[i] - r[i]));
        vf::report().stat("tridiag_eigenvalue_error/(n eps |T|)", (double) (worst / ((ld) n * eps * normT)));
        VF_CHECK(worst <= tol * normT, "eigenvalues", "sorted eigenvalues differ from the reference by " << vf::num(worst) << " > " << vf::num(tol * normT));
    }
    reuse_check<S>(d, c, eig, in.given, true, [](Spectra::TridiagEigen<S>& o) { CMatL r(o.eigenvectors().rows() + 1, o.eigenvectors().cols()); r << vf::widen(o.eigenvalues()).transpose(), vf::widen(o.eigenvectors()); return r; });
}

// eigenvalues of the diagonal blocks of a quasi-triangular T, in order
static std::vector<cld> block_eigenvalues(const MatL& T, std::vector<int>& blocksize)
{
    const Index n = T.rows();
    std::vector<cld> ev;
    Index i = 0;
    while (i < n)
    {
        if (i == n - 1 || T(i + 1, i) == 0)
        {
            ev.push_back(cld(T(i, i), 0));
            blocksize.push_back(1);
            i++;
        }
        else
        {
            ld a = T(i, i), b = T(i, i + 1), cc = T(i + 1, i), dd = T(i + 1, i + 1);
            ld p = (a - dd) / 2, q = p * p + b * cc;
            ld mid = (a + dd) / 2;
            if (q >= 0)
            {
                ld z = std::sqrt(q);
                ev.push_back(cld(mid + z, 0));
                ev.push_back(cld(mid - z, 0));
            }
            else
            {
                ld z = std::sqrt(-q);
                ev.push_back(cld(mid, z));
                ev.push_back(cld(mid, -z));
            }
            blocksize.push_back(2);
            blocksize.push_back(2);
            i += 2;
        }
    }
    return ev;
}

template <typename S>
static bool check_schur(const In<S>& in, const Eigen::Matrix<S, Eigen::Dynamic, Eigen::Dynamic>& input, ld input_norm, Spectra::UpperHessenbergSchur<S>& schur,
                        vf::Case& c, MatL& T, MatL& U)
{
    const Index n = input.rows();
    const ld eps = vf::Sc<S>::eps();
    const ld tol = CTOL * (ld) n * eps;
    VF_CHECK(schur.matrix_T().rows() == n && schur.matrix_T().cols() == n && schur.matrix_U().rows() == n && schur.matrix_U().cols() == n, "dims", "wrong result dimensions");
    T = vf::widen_real(schur.matrix_T());
    U = vf::widen_real(schur.matrix_U());
    VF_CHECK(vf::all_finite(T) && vf::all_finite(U), "nonfinite", "NaN/Inf in T or U");
    ld orth = vf::maxabs(U.transpose() * U - MatL::Identity(n, n));
    vf::report().stat("schur_orth/(n eps)", (double) (orth / ((ld) n * eps)));
    VF_CHECK(orth <= tol, "orthogonality", "max|U'U-I| = " << vf::num(orth) << " > " << vf::num(tol));
    MatL Hin = vf::widen_real(input);
    ld res = vf::maxabs(U * T * U.transpose() - Hin);
    if (input_norm > 0)
        vf::report().stat("schur_residual/(n eps |H|)", (double) (res / ((ld) n * eps * input_norm)));
    VF_CHECK(res <= tol * input_norm, "schur_residual", "max|UTU' - H| = " << vf::num(res) << " > " << vf::num(tol * input_norm));
    // quasi-upper-triangular
    bool exact = true;
    for (Index j = 0; j < n; j++)
        for (Index i = j + 2; i < n; i++)
        {
            VF_CHECK(std::abs(T(i, j)) <= tol * input_norm, "quasi_triangular", "T(" << i << "," << j << ") = " << vf::num(T(i, j)));
            if (T(i, j) != 0)
                exact = false;
        }
    for (Index i = 0; i + 2 < n; i++)
        VF_CHECK(std::min(std::abs(T(i + 1, i)), std::abs(T(i + 2, i + 1))) <= tol * input_norm, "quasi_triangular",
                 "two consecutive subdiagonal entries " << vf::num(T(i + 1, i)) << ", " << vf::num(T(i + 2, i + 1)) << " are both non-negligible");
    if (!exact)
        c.cls("schur_residue_below_subdiagonal");
    (void) in;
    return true;
}

template <typename S>
static void schur_case(vf::Draw& d, vf::Case& c, int pat, Index n)
{
    In<S> in = make<S>(d, c, false, pat, n);
    describe<S>(c, 1, pat, n, in);
    Spectra::UpperHessenbergSchur<S> schur;
    try
    {
        schur.compute(in.arg());
    }
    catch (const std::runtime_error&)
    {
        c.rejected = true;
        c.cls("iteration_limit_exception");
        return;
    }
    MatL T, U;
    check_schur<S>(in, in.given, vf::fro_scaled(in.H), schur, c, T, U);
    std::vector<int> bs;
    std::vector<cld> ev = block_eigenvalues(T, bs);
    bool any2 = false;
    for (int b : bs)
        any2 = any2 || b == 2;
    if (any2)
        c.cls("schur_has_2x2_block");
    reuse_check<S>(d, c, schur, in.given, false, [](Spectra::UpperHessenbergSchur<S>& o) { CMatL r(2 * o.matrix_T().rows(), o.matrix_T().cols()); r << vf::widen(o.matrix_T()), vf::widen(o.matrix_U()); return r; });
}

template <typename S>
static void hesseig_case(vf::Draw& d, vf::Case& c, int pat, Index n)
{
    typedef Eigen::Matrix<S, Eigen::Dynamic, Eigen::Dynamic> Mat;
    typedef std::complex<S> CS;
    const ld eps = vf::Sc<S>::eps();
    In<S> in = make<S>(d, c, false, pat, n);
    describe<S>(c, 2, pat, n, in);
    const ld normH = vf::fro_scaled(in.H);
    const ld tol = CTOL * (ld) n * eps;
    Spectra::UpperHessenbergEigen<S> eig;
    try
    {
        if (d.flag("ctor_computes"))
        {
            Spectra::UpperHessenbergEigen<S> e2(in.arg());
            eig = e2;
        }
        else
            eig.compute(in.arg());
    }
    catch (const std::runtime_error&)
    {
        c.rejected = true;
        c.cls("iteration_limit_exception");
        return;
    }
    Eigen::Matrix<CS, Eigen::Dynamic, 1> evs = eig.eigenvalues();
    Eigen::Matrix<CS, Eigen::Dynamic, Eigen::Dynamic> Xs = eig.eigenvectors();
    VF_CHECK(evs.size() == n && Xs.rows() == n && Xs.cols() == n, "dims", "wrong result dimensions");
    vf::CVecL ev = vf::widen(evs);
    CMatL X = vf::widen(Xs);
    VF_CHECK(vf::all_finite(ev), "nonfinite", "NaN/Inf eigenvalue; H=" << vf::show(in.given));
    VF_CHECK(vf::all_finite(X), "nonfinite", "NaN/Inf in eigenvectors");
    if (normH == 0)
        c.cls("zero_matrix");
    // real eigenvalues carry an exactly zero imaginary part; complex ones are adjacent exact conjugates, positive imaginary part first
    bool any_complex = false;
    for (Index i = 0; i < n; i++)
    {
        if (evs[i].imag() == S(0))
            continue;
        any_complex = true;
        VF_CHECK(evs[i].imag() > S(0), "conjugate_order", "eigenvalue " << i << " = " << ev[i] << " has a negative imaginary part without its positive partner before it");
        VF_CHECK(i + 1 < n, "conjugate_order", "last eigenvalue is complex without a partner");
        VF_CHECK(evs[i + 1].real() == evs[i].real() && evs[i + 1].imag() == -evs[i].imag(), "conjugate_pair",
                 "eigenvalues " << i << "," << i + 1 << " = " << ev[i] << ", " << ev[i + 1] << " are not exact conjugates");
        i++;
    }
    if (any_complex)
        c.cls("complex_pairs");
    // near-multiple eigenvalues (the class where D14 lives): two returned eigenvalues closer than sqrt(eps)*||H||
    bool near_multiple = false;
    for (Index i = 0; i < n && !near_multiple; i++)
        for (Index j = i + 1; j < n; j++)
            if (std::abs(ev[i] - ev[j]) <= std::sqrt(eps) * normH)
            {
                near_multiple = true;
                break;
            }
    c.feat["near_multiple_eigenvalue"] = near_multiple ? 1 : 0;
    if (near_multiple)
        c.cls("near_multiple_eigenvalue");
    // trace
    {
        cld sum = 0;
        for (Index i = 0; i < n; i++)
            sum += ev[i];
        ld tr = in.H.trace();
        ld abs_sum = 0;
        for (Index i = 0; i < n; i++)
            abs_sum += std::abs(in.H(i, i));
        VF_CHECK(std::abs(sum - cld(tr, 0)) <= tol * std::max(normH, abs_sum), "trace", "sum of eigenvalues " << sum << " vs trace " << vf::num(tr));
    }
    // pairing with the diagonal blocks of an independent Schur run on the same scaled matrix
    if (normH > 0)
    {
        S sc = in.given.cwiseAbs().maxCoeff();
        Mat scaled = in.given / sc;
        Spectra::UpperHessenbergSchur<S> schur;
        bool ok = true;
        try
        {
            schur.compute(scaled);
        }
        catch (const std::runtime_error&)
        {
            ok = false;
        }
        if (ok)
        {
            MatL T, U;
            check_schur<S>(in, scaled, vf::fro_scaled(vf::widen_real(scaled)), schur, c, T, U);
            std::vector<int> bs;
            std::vector<cld> bev = block_eigenvalues(T, bs);
            // worst ratio (error / allowed). A 2x2 block [a b; c d] with q = ((a-d)/2)^2 + bc has eigenvalues mid +- sqrt(q):
            // a backward error delta = tol*||H|| moves them by at most min(sqrt(delta*||block||), delta*||block||/sqrt|q|),
            // so that is what "the eigenvalue belongs to this block" can mean for an ill-conditioned block.
            ld worst = 0;
            for (Index i = 0; i < n; i++)
            {
                ld e = std::abs(bev[i] * (ld) sc - ev[i]);
                ld allowed = tol * normH;
                if (bs[i] == 2)
                {
                    Index lo = i, run = 0;
                    for (Index k = i; k >= 0 && bs[k] == 2; k--)
                        run++;
                    if (run % 2 == 0)
                        lo = i - 1;
                    ld e2 = std::min(std::abs(bev[lo] * (ld) sc - ev[i]), std::abs(bev[lo + 1] * (ld) sc - ev[i]));
                    e = std::min(e, e2);
                    ld a = T(lo, lo), b2 = T(lo, lo + 1), c2 = T(lo + 1, lo), d2 = T(lo + 1, lo + 1);
                    ld bn = (std::abs(a) + std::abs(b2) + std::abs(c2) + std::abs(d2)) * (ld) sc;
                    ld z = std::sqrt(std::abs(((a - d2) / 2) * ((a - d2) / 2) + b2 * c2)) * (ld) sc;
                    ld delta = tol * normH;
                    ld cond_allow = (z > 0) ? std::min(std::sqrt(delta * bn), delta * bn / z) : std::sqrt(delta * bn);
                    allowed = std::max(allowed, cond_allow);
                }
                if (allowed > 0)
                    worst = std::max(worst, e / allowed);
            }
            vf::report().stat("hesseig_pairing error/allowed", (double) worst);
            ld pair_tol = 1;
            VF_CHECK(worst <= pair_tol, "pairing", "eigenvalue list differs from the diagonal blocks of the Schur form: error/allowed = " << vf::num(worst));
        }
    }
    // unit norm and residual
    ld worst_res = 0, worst_norm = 0;
    Index worst_i = 0;
    CMatL Hc = vf::widen(in.H);
    for (Index i = 0; i < n; i++)
    {
        ld nx = X.col(i).norm();
        worst_norm = std::max(worst_norm, std::abs(nx - 1));
        ld r = (Hc * X.col(i) - ev[i] * X.col(i)).norm();
        if (r > worst_res)
        {
            worst_res = r;
            worst_i = i;
        }
    }
    VF_CHECK(worst_norm <= CTOL * (ld) n * eps, "unit_norm", "| ||x||-1 | = " << vf::num(worst_norm));
    if (normH > 0)
        vf::report().stat(std::string("hesseig_residual/(n eps |H|) ") + (in.defective_class ? "defective-classes" : "generic-classes"), (double) (worst_res / ((ld) n * eps * normH)));
    c.feat["residual_ratio"] = normH > 0 ? (double) (worst_res / ((ld) n * eps * normH)) : 0;
    VF_CHECK(worst_res <= tol * normH, "eigvec_residual", "||Hx - lambda x|| = " << vf::num(worst_res) << " for pair " << worst_i << " (lambda=" << ev[worst_i] << ") > " << vf::num(tol * normH)
                                                                                 << "; H=" << vf::show(in.given, 8));
    reuse_check<S>(d, c, eig, in.given, false, [](Spectra::UpperHessenbergEigen<S>& o) { CMatL r(o.eigenvectors().rows() + 1, o.eigenvectors().cols()); r << vf::widen(o.eigenvalues()).transpose(), vf::widen(o.eigenvectors()); return r; });
}

template <typename S>
static void typed(vf::Draw& d, vf::Case& c, int cls)
{
    int pat = (int) d.range("pattern", 0, 10);
    Index nmax = (pat <= 1 || pat == 10) ? 12 : (pat == 2 || pat == 3 || pat == 4 ? (Index) vf::options().geti("nmax", 40) : 24);
    Index n = (Index) d.dim("n", 2, nmax);
    if (cls == 0)
        tridiag_case<S>(d, c, pat, n);
    else if (cls == 1)
        schur_case<S>(d, c, pat, n);
    else
        hesseig_case<S>(d, c, pat, n);
}

static void run_case(vf::Draw& d, vf::Case& c)
{
    int cls = (int) d.range("class", 0, 2);
    int type = (int) d.range("type", 0, 2);
    if (type == 0)
        typed<double>(d, c, cls);
    else if (type == 1)
        typed<float>(d, c, cls);
    else
        typed<long double>(d, c, cls);
}

static std::string match(const vf::Violation& v, const vf::Case& c)
{
    // D14: 2x2 Schur block whose discriminant rounds to zero: eigenvector residual / conjugate convention on
    // matrices with a (near-)multiple eigenvalue
    if ((v.kind == "eigvec_residual" || v.kind == "conjugate_vectors" || v.kind == "conjugate_pair" || v.kind == "conjugate_order") && c.f("near_multiple_eigenvalue") > 0)
        return "hess_eigen_degenerate_2x2_block";
    return "";
}

int main(int argc, char** argv)
{
    return vf::run_main(argc, argv, "C09", run_case, match);
}
