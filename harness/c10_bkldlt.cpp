// C10 - Bunch-Kaufman LDLT: success on nonsingular input, backward-stable solve, lower/upper agreement,
// unused triangle never read, NumericalIssue only when (numerically) singular, wrapper turns it into an exception.
#include "vf/eigen_assert.hpp"
#include <Eigen/Core>
#include <Eigen/Eigenvalues>
#include <Spectra/LinAlg/BKLDLT.h>
#include <Spectra/MatOp/DenseSymShiftSolve.h>
#include "vf/oracle.hpp"
#include "vf/gen.hpp"
#include "vf/runner.hpp"

using vf::ld;
using vf::cld;
using vf::CMatL;
using vf::CVecL;
typedef Eigen::Index Index;

static const ld CTOL = 64;
static const char* CLASS_NAMES[8] = {"small_integer", "spd", "indefinite", "zero_diagonal", "block_diagonal", "graded", "arrow_tridiagonal", "wild_entry_scales"};
static const char* FORM_NAMES[5] = {"colmajor", "rowmajor", "block_of_larger", "map", "expression"};

// exact determinant of a small integer matrix (fraction-free Bareiss elimination in 128-bit integers)
static __int128 bareiss_det(std::vector<std::vector<__int128>> a)
{
    const int n = (int) a.size();
    __int128 prev = 1, sign = 1;
    for (int k = 0; k < n - 1; k++)
    {
        if (a[k][k] == 0)
        {
            int sw = -1;
            for (int i = k + 1; i < n; i++)
                if (a[i][k] != 0)
                {
                    sw = i;
                    break;
                }
            if (sw < 0)
                return 0;
            std::swap(a[k], a[sw]);
            sign = -sign;
        }
        for (int i = k + 1; i < n; i++)
            for (int j = k + 1; j < n; j++)
                a[i][j] = (a[i][j] * a[k][k] - a[i][k] * a[k][j]) / prev;
        prev = a[k][k];
    }
    return sign * a[n - 1][n - 1];
}

template <typename S>
struct Types
{
    typedef typename Eigen::NumTraits<S>::Real Real;
    typedef Eigen::Matrix<S, Eigen::Dynamic, Eigen::Dynamic, Eigen::ColMajor> MatC;
    typedef Eigen::Matrix<S, Eigen::Dynamic, Eigen::Dynamic, Eigen::RowMajor> MatR;
    typedef Eigen::Matrix<S, Eigen::Dynamic, 1> Vec;
};

template <typename S>
static S garbage(Index i, Index j)
{
    return S((typename Types<S>::Real)(3 + ((i * 7 + j * 5) % 11)));
}

// factorize through one of the input forms; `uplo` names the triangle that holds the data, the other one is
// either the Hermitian mirror (garbage=false) or finite garbage (garbage=true)
template <typename S>
static void factorize(std::unique_ptr<Spectra::BKLDLT<S>>& solver, const CMatL& A, int form, int uplo, bool garb, typename Types<S>::Real shift, bool via_ctor)
{
    typedef typename Types<S>::MatC MatC;
    typedef typename Types<S>::MatR MatR;
    const Index n = A.rows();
    MatC Ac = vf::Narrow<S>::mat(A);
    if (garb)
        for (Index j = 0; j < n; j++)
            for (Index i = 0; i < n; i++)
            {
                bool unused = (uplo == Eigen::Lower) ? (i < j) : (i > j);
                if (unused)
                    Ac(i, j) = garbage<S>(i, j);
            }
    auto run = [&](const auto& m) {
        // (a computed BKLDLT object is never copied here: its column-pointer table refers to its own storage)
        if (via_ctor)
            solver.reset(new Spectra::BKLDLT<S>(m, uplo, shift));
        else
            solver->compute(m, uplo, shift);
    };
    switch (form)
    {
        case 0: run(Ac); break;
        case 1:
        {
            MatR Ar = Ac;
            run(Ar);
            break;
        }
        case 2:
        {
            MatC big = MatC::Constant(n + 3, n + 2, S(9));
            big.block(2, 1, n, n) = Ac;
            run(big.block(2, 1, n, n));
            break;
        }
        case 3:
        {
            std::vector<S> buf(Ac.data(), Ac.data() + n * n);
            Eigen::Map<const MatC> mp(buf.data(), n, n);
            run(mp);
            break;
        }
        default:
        {
            MatC half = Ac / S(2);
            run(half + half);
            break;
        }
    }
}

template <typename S>
static void bk_case(vf::Draw& d, vf::Case& c)
{
    typedef typename Types<S>::Real Real;
    typedef typename Types<S>::Vec Vec;
    const bool cplx = vf::Sc<S>::is_complex;
    const ld eps = vf::Sc<S>::eps();
    int cls = (int) d.range("class", 0, 7);
    Index nmax = (cls == 0) ? 8 : (cls == 7 ? 7 : (Index) vf::options().geti("nmax", 40));
    Index n = (Index) d.dim("n", 1, nmax);
    CMatL A = CMatL::Zero(n, n);
    bool integer = false;
    ld scale = 1;
    switch (cls)
    {
        case 0:  // entries drawn one by one from small integers (complex: Gaussian integers), exact singularity decidable
            integer = !cplx;
            for (Index j = 0; j < n; j++)
                for (Index i = j; i < n; i++)
                {
                    ld re = (ld) d.range("e", -3, 3);
                    ld im = (cplx && i != j) ? (ld) d.range("ei", -2, 2) : 0;
                    A(i, j) = cld(re, im);
                    A(j, i) = cld(re, -im);
                }
            break;
        case 7:  // every entry drawn on its own as m * 10^e: arbitrary RELATIVE magnitudes between neighbouring entries (a tiny or zero pivot
                 // candidate next to a moderate diagonal entry whose own column holds something huge, ...). The pivoting strategy has to
                 // compare the right quantities to keep element growth bounded; smoothly graded matrices (class 5) never probe that.
        {
            const int emax = std::is_same<Real, float>::value ? 3 : 8;
            for (Index j = 0; j < n; j++)
                for (Index i = j; i < n; i++)
                {
                    long m = d.range("m", -9, 9);
                    if (i == j && d.one_in("zero_diag", 3))
                        m = 0;
                    long e = d.range("e10", -emax, emax);
                    ld re = (ld) m * std::pow((ld) 10, (ld) e);
                    ld im = 0;
                    if (cplx && i != j)
                        im = (ld) d.range("mi", -9, 9) * std::pow((ld) 10, (ld) d.range("e10i", -emax, emax));
                    A(i, j) = cld(re, im);
                    A(j, i) = cld(re, -im);
                }
            break;
        }
        default:
        {
            vf::Lcg g((uint64_t) d.range("content_seed", 0, 65535));
            for (Index j = 0; j < n; j++)
                for (Index i = j; i < n; i++)
                {
                    cld v(g.u(), (cplx && i != j) ? g.u() : 0);
                    A(i, j) = v;
                    A(j, i) = std::conj(v);
                }
            if (cls == 1)  // SPD: A^H A + I/4 (Hermitian positive definite)
            {
                CMatL P = A.adjoint() * A / (ld) n;
                for (Index i = 0; i < n; i++)
                    P(i, i) = cld(P(i, i).real() + 0.25L, 0);
                A = (P + P.adjoint()) / cld(2);
                for (Index i = 0; i < n; i++)
                    A(i, i) = cld(A(i, i).real(), 0);
            }
            else if (cls == 3)  // zero diagonal: forces 2x2 pivots
                for (Index i = 0; i < n; i++)
                    A(i, i) = 0;
            else if (cls == 4)  // block diagonal with blocks of size 1..3
            {
                Index i0 = 0;
                while (i0 < n)
                {
                    Index bs = 1 + g.below(3);
                    for (Index j = i0; j < n; j++)
                        for (Index i = std::min(n, i0 + bs); i < n; i++)
                            if (j < i0 + bs)
                            {
                                A(i, j) = 0;
                                A(j, i) = 0;
                            }
                    i0 += bs;
                }
            }
            else if (cls == 5)  // graded
            {
                int grade = (int) d.range("grade", 1, 3) * 4;
                for (Index j = 0; j < n; j++)
                    for (Index i = 0; i < n; i++)
                        A(i, j) *= std::pow((ld) 10, -(ld) grade * (ld) (i + j) / (ld) (2 * std::max<Index>(n, 1)));
            }
            else if (cls == 6)  // tridiagonal + dense last row/column, tiny diagonal
                for (Index j = 0; j < n; j++)
                    for (Index i = 0; i < n; i++)
                    {
                        bool keep = (i == j) || (i == j + 1) || (j == i + 1) || i == n - 1 || j == n - 1;
                        if (!keep)
                            A(i, j) = 0;
                        else if (i == j)
                            A(i, j) *= (ld) 1e-3;
                    }
            if (d.flag("scaled"))
            {
                int emax = std::is_same<Real, float>::value ? 10 : 60;
                d.scale10("scale", emax);
                scale = std::pow((ld) 10, (ld) d.scale10_exp_last());
                A *= scale;
            }
        }
    }
    // round to the scalar type so that reference and implementation see the same matrix
    {
        typename Types<S>::MatC As = vf::Narrow<S>::mat(A);
        A = vf::widen(As);
        for (Index i = 0; i < n; i++)
            A(i, i) = cld(A(i, i).real(), 0);
    }
    // shift
    int sk = (int) d.range("shift_kind", 0, 3);
    ld shift_l = 0;
    if (sk == 1)
        shift_l = integer ? (ld) d.range("shift", -4, 4) : (ld) d.range("shift", -32, 32) / 16 * scale;
    else if (sk == 2)
    {
        Index k = (Index) d.range("shift_at", 0, n - 1);
        shift_l = A(k, k).real();
    }
    else if (sk == 3)
    {
        Index k = (Index) d.range("shift_at", 0, n - 1);
        shift_l = A(k, k).real() * (1 + (ld) 1e-8) + (ld) 1e-8 * scale;
    }
    const Real shift = (Real) shift_l;
    const ld sigma = (ld) shift;
    // exactly singular pivot by construction: row and column p of A - sigma I vanish exactly (a_pp = sigma, the rest of the line zero).
    // Whatever the pivoting order, elimination keeps that line zero, so a zero pivot with a zero column is met at some step
    // (position p is drawn: first, last, second to last, ... steps are all reached) and NumericalIssue must be reported.
    bool zero_line = d.one_in("exact_zero_line", 4);
    Index zero_at = 0;
    if (zero_line)
    {
        zero_at = (Index) d.range("zero_line_at", 0, n - 1);
        for (Index i = 0; i < n; i++)
        {
            A(i, zero_at) = 0;
            A(zero_at, i) = 0;
        }
        A(zero_at, zero_at) = cld(sigma, 0);
        c.cls("exact_zero_line");
        if (zero_at == n - 2)
            c.cls("exact_zero_line_at_n-2");
    }
    int form = (int) d.range("form", 0, 4);
    int uplo_first = d.flag("upper_first") ? Eigen::Upper : Eigen::Lower;
    bool via_ctor = d.flag("ctor_computes");
    bool prefix_singular = d.flag("prefix_singular_compute");

    CMatL M = A - cld(sigma) * CMatL::Identity(n, n);
    const ld normM = vf::fro_scaled(M);
    // reference: smallest singular value = smallest |eigenvalue| of the Hermitian M
    ld smin = 0, smax = 0;
    if (normM > 0)
    {
        Eigen::SelfAdjointEigenSolver<CMatL> es(M / normM, Eigen::EigenvaluesOnly);
        smin = std::abs(es.eigenvalues()[0]);
        for (Index i = 0; i < n; i++)
        {
            smin = std::min(smin, std::abs(es.eigenvalues()[i]));
            smax = std::max(smax, std::abs(es.eigenvalues()[i]));
        }
        smin *= normM;
        smax *= normM;
    }
    bool exactly_singular = false, exact_known = false;
    if (integer && sigma == std::floor(sigma))
    {
        std::vector<std::vector<__int128>> im(n, std::vector<__int128>(n));
        for (Index i = 0; i < n; i++)
            for (Index j = 0; j < n; j++)
                im[i][j] = (__int128) std::llround((double) M(i, j).real());
        exactly_singular = (bareiss_det(im) == 0);
        exact_known = true;
    }
    const bool well_conditioned = normM > 0 && smin >= (ld) 1e-6 * normM && !(exact_known && exactly_singular);

    std::ostringstream os;
    os << "BKLDLT<" << vf::Sc<S>::name() << "> n=" << n << " class=" << CLASS_NAMES[cls] << " form=" << FORM_NAMES[form] << " uplo_first=" << (uplo_first == Eigen::Lower ? "Lower" : "Upper")
       << " shift=" << (double) sigma << " smin/norm=" << (normM > 0 ? (double) (smin / normM) : 0.0);
    if (n <= 6)
        os << " A=" << vf::show(A, 6);
    c.add_desc(os.str());
    c.cls(std::string("BKLDLT/") + vf::Sc<S>::name());
    c.cls(std::string("class/") + CLASS_NAMES[cls]);
    c.cls(std::string("form/") + FORM_NAMES[form]);
    if (n == 1)
        c.cls("n=1");
    c.nontrivial = n >= 2;

    // b
    CVecL b(n);
    {
        vf::Lcg g((uint64_t) d.range("rhs_seed", 0, 255));
        for (Index i = 0; i < n; i++)
            b[i] = cld(g.dy(), cplx ? g.dy() : 0) * scale;
    }
    // alternatively b = M y for a moderate y: the solution then has order-one components on EVERY row, so that a loss of stability in
    // any elimination step shows in the residual (a random b can leave the affected component negligible)
    if (d.flag("rhs_is_M_times_y") && normM > 0)
    {
        CVecL y(n);
        vf::Lcg g2((uint64_t) d.range("y_seed", 0, 255));
        for (Index i = 0; i < n; i++)
            y[i] = cld(1 + g2.dy() / 4, cplx ? g2.dy() / 4 : 0);
        CVecL My = M * y;
        if (vf::all_finite(My))
        {
            b = My;
            c.cls("rhs_is_M_times_y");
        }
    }
    Vec bs = vf::Narrow<S>::mat(b);
    b = vf::widen(bs);

    auto solve_with = [&](int uplo, bool garb, Spectra::CompInfo& info, Vec& x) {
        std::unique_ptr<Spectra::BKLDLT<S>> sp(new Spectra::BKLDLT<S>());
        if (prefix_singular)
        {
            // an earlier, failing factorization on the same object must not leak into the next one
            typename Types<S>::MatC Z = Types<S>::MatC::Zero(n, n);
            sp->compute(Z, Eigen::Lower, Real(0));
            VF_CHECK(sp->info() == Spectra::CompInfo::NumericalIssue, "zero_matrix_status", "zero matrix reported as " << (int) sp->info());
        }
        factorize<S>(sp, A, form, uplo, garb, shift, via_ctor && !prefix_singular);
        Spectra::BKLDLT<S>& solver = *sp;
        info = solver.info();
        if (info == Spectra::CompInfo::Successful)
        {
            x = solver.solve(bs);
            Vec x2 = bs;
            solver.solve_inplace(x2);
            VF_CHECK(vf::bits_equal(x, x2), "solve_vs_inplace", "solve() and solve_inplace() differ");
        }
    };

    Spectra::CompInfo info1, info2, info3;
    Vec x1, x2, x3;
    solve_with(uplo_first, false, info1, x1);
    if (prefix_singular)
        c.cls("recompute_after_failure");

    VF_CHECK(info1 == Spectra::CompInfo::Successful || info1 == Spectra::CompInfo::NumericalIssue, "status", "info() = " << (int) info1 << " after compute() (neither Successful nor NumericalIssue)");
    if (zero_line)
        VF_CHECK(info1 == Spectra::CompInfo::NumericalIssue, "singular_pivot_not_reported",
                 "row/column " << zero_at << " of A - sigma I is exactly zero (n=" << n << ") but info() = " << (int) info1 << ": an exactly singular pivot was met and numbers are returned instead of NumericalIssue");
    if (well_conditioned)
        VF_CHECK(info1 == Spectra::CompInfo::Successful, "false_singular", "info() = NumericalIssue for a matrix with sigma_min/||M|| = " << vf::num(smin / normM));
    if (info1 == Spectra::CompInfo::NumericalIssue)
    {
        c.cls("reported_singular");
        c.rejected = true;
    }
    auto check_solution = [&](const Vec& x, const char* which) {
        CVecL xl = vf::widen(x);
        VF_CHECK(vf::all_finite(xl) || !well_conditioned, "nonfinite", which << ": solution contains NaN/Inf for a well-conditioned system");
        if (!vf::all_finite(xl))
            return;
        ld r = (M * xl - b).norm();
        ld denom = normM * xl.norm() + b.norm();
        if (denom > 0)
            vf::report().stat("backward_error/(n eps)", (double) (r / ((ld) std::max<Index>(n, 1) * eps * denom)));
        VF_CHECK(r <= CTOL * (ld) n * eps * denom, "residual", which << ": ||(A-sI)x-b|| = " << vf::num(r) << " > " << vf::num(CTOL * (ld) n * eps * denom) << " (sigma_min/||M|| = " << vf::num(normM > 0 ? smin / normM : 0) << ")");
    };
    if (info1 == Spectra::CompInfo::Successful)
        check_solution(x1, "first triangle");

    // the other triangle of the same matrix
    int other = (uplo_first == Eigen::Lower) ? Eigen::Upper : Eigen::Lower;
    solve_with(other, false, info2, x2);
    VF_CHECK(info2 == info1, "lower_upper_status", "status differs between the two triangles: " << (int) info1 << " vs " << (int) info2);
    if (info2 == Spectra::CompInfo::Successful)
    {
        check_solution(x2, "second triangle");
        CVecL dl = vf::widen(x1) - vf::widen(x2);
        if (well_conditioned)
        {
            ld cond = smax / smin;
            VF_CHECK(dl.norm() <= CTOL * (ld) n * eps * cond * vf::widen(x1).norm(), "lower_upper_agreement", "solutions from the two triangles differ by " << vf::num(dl.norm()));
        }
        if (vf::bits_equal(x1, x2))
            vf::report().classes["lower_upper_bit_identical"]++;
    }
    // metamorphic: garbage in the unused triangle changes nothing
    solve_with(uplo_first, true, info3, x3);
    VF_CHECK(info3 == info1, "unused_triangle_read", "status changes when the unused triangle is overwritten");
    if (info3 == Spectra::CompInfo::Successful)
        VF_CHECK(vf::bits_equal(x1, x3), "unused_triangle_read", "solution changes when the unused triangle is overwritten");
    // history: one object first factorizes and solves ANOTHER system (other size, other triangle, other shift), as the shift-solve wrappers do
    // on every set_shift(); nothing of it may survive into the factorization of the target
    if (d.flag("reuse_after_other_system"))
    {
        typedef typename Types<S>::MatC MatC;
        const Index m = (Index) d.range("other_n", 1, n + 3);
        MatC Bm(m, m);
        for (Index j = 0; j < m; j++)
            for (Index i = 0; i < m; i++)
                Bm(i, j) = (i == j) ? S(Real(2 + ((i * 3) % 5))) : S(Real((ld) (((i + j) * 7 + 1) % 5 - 2) / 4));
        std::unique_ptr<Spectra::BKLDLT<S>> sp(new Spectra::BKLDLT<S>());
        sp->compute(Bm, other, Real(0.25));
        if (sp->info() == Spectra::CompInfo::Successful)
        {
            Vec ones = Vec::Ones(m);
            Vec y = sp->solve(ones);
            (void) y;
        }
        factorize<S>(sp, A, form, uplo_first, false, shift, false);
        VF_CHECK(sp->info() == info1, "reuse_changes_status", "status " << (int) sp->info() << " after the object factorized another " << m << "x" << m << " system first, " << (int) info1 << " on a fresh object");
        if (info1 == Spectra::CompInfo::Successful)
        {
            Vec xr = sp->solve(bs);
            VF_CHECK(vf::bits_equal(x1, xr), "reuse_changes_solution", "solution differs from a fresh object's after the object factorized another " << m << "x" << m << " system first (max diff " << vf::num(vf::maxabs(vf::widen(x1) - vf::widen(xr))) << ")");
        }
        c.cls("object_reused_after_other_system");
    }
}

// DenseSymShiftSolve (real scalars): set_shift throws invalid_argument exactly when BKLDLT reports non-success; perform_op == solve
template <typename S, int Uplo, int Flags>
static void wrapper_case(vf::Draw& d, vf::Case& c)
{
    typedef Eigen::Matrix<S, Eigen::Dynamic, Eigen::Dynamic, Flags> Mat;
    typedef Eigen::Matrix<S, Eigen::Dynamic, 1> Vec;
    Index n = (Index) d.dim("n", 1, 10);
    bool singular = d.flag("make_singular");
    Mat A(n, n);
    for (Index j = 0; j < n; j++)
        for (Index i = j; i < n; i++)
        {
            S v = (S) d.range("e", -3, 3);
            A(i, j) = v;
            A(j, i) = v;
        }
    S sigma = (S) d.range("shift", -3, 3);
    if (singular)  // make row/column 0 of A - sigma I vanish
    {
        for (Index i = 0; i < n; i++)
        {
            A(i, 0) = 0;
            A(0, i) = 0;
        }
        A(0, 0) = sigma;
    }
    Mat Ause = A;
    for (Index j = 0; j < n; j++)
        for (Index i = 0; i < n; i++)
        {
            bool unused = (Uplo == Eigen::Lower) ? (i < j) : (i > j);
            if (unused)
                Ause(i, j) = garbage<S>(i, j);
        }
    std::ostringstream os;
    os << "DenseSymShiftSolve<" << vf::Sc<S>::name() << "," << (Uplo == Eigen::Lower ? "Lower" : "Upper") << "," << (Flags == Eigen::RowMajor ? "RowMajor" : "ColMajor") << "> n=" << n
       << " shift=" << (double) sigma << (singular ? " singular-by-construction" : "") << " A=" << vf::show(A, 6);
    c.add_desc(os.str());
    c.cls("DenseSymShiftSolve wrapper");
    c.nontrivial = n >= 2;
    Spectra::BKLDLT<S> direct(A, Eigen::Lower, sigma);
    Spectra::DenseSymShiftSolve<S, Uplo, Flags> op(Ause);
    bool threw = false;
    try
    {
        op.set_shift(sigma);
    }
    catch (const std::invalid_argument&)
    {
        threw = true;
    }
    bool direct_ok = direct.info() == Spectra::CompInfo::Successful;
    if (singular)
        VF_CHECK(!direct_ok, "singular_not_reported", "an exactly zero row/column was not reported as NumericalIssue");
    VF_CHECK(threw == !direct_ok, "wrapper_exception", "set_shift threw=" << threw << " but BKLDLT info()=" << (int) direct.info());
    if (threw)
    {
        c.rejected = true;
        c.cls("wrapper_threw");
        return;
    }
    Vec x(n), y(n);
    for (Index i = 0; i < n; i++)
        x[i] = (S) (((i * 7 + 3) % 9) - 4);
    op.perform_op(x.data(), y.data());
    Vec want = direct.solve(x);
    VF_CHECK(vf::bits_equal(y, want), "wrapper_solve", "perform_op differs from BKLDLT::solve on the full symmetric matrix");
}

static void run_case(vf::Draw& d, vf::Case& c)
{
    int kind = (int) d.range("kind", 0, 7);
    switch (kind)
    {
        case 0: return bk_case<double>(d, c);
        case 1: return bk_case<float>(d, c);
        case 2: return bk_case<long double>(d, c);
        case 3: return bk_case<std::complex<double>>(d, c);
        case 4: return bk_case<std::complex<float>>(d, c);
        case 5: return bk_case<std::complex<long double>>(d, c);
        case 6:
            if (d.flag("upper"))
                return d.flag("rowmajor") ? wrapper_case<double, Eigen::Upper, Eigen::RowMajor>(d, c) : wrapper_case<double, Eigen::Upper, Eigen::ColMajor>(d, c);
            else
                return d.flag("rowmajor") ? wrapper_case<double, Eigen::Lower, Eigen::RowMajor>(d, c) : wrapper_case<double, Eigen::Lower, Eigen::ColMajor>(d, c);
        default:
            if (d.flag("upper"))
                return wrapper_case<float, Eigen::Upper, Eigen::ColMajor>(d, c);
            else
                return wrapper_case<float, Eigen::Lower, Eigen::RowMajor>(d, c);
    }
}

int main(int argc, char** argv)
{
    return vf::run_main(argc, argv, "C10", run_case);
}
