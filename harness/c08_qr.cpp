// C08 - shifted QR helpers: UpperHessenbergQR, TridiagQR, DoubleShiftQR.
// Entries are drawn one by one from small alphabets (so they shrink element-wise); the oracle
// rebuilds every product in long double from the Q the class exposes through apply_YQ(I).
#include "vf/eigen_assert.hpp"
#include <Eigen/Core>
#include <Eigen/Eigenvalues>
#include <Spectra/LinAlg/UpperHessenbergQR.h>
#include <Spectra/LinAlg/DoubleShiftQR.h>
#include "vf/oracle.hpp"
#include "vf/runner.hpp"

using vf::ld;
using vf::MatL;
using vf::VecL;
typedef Eigen::Index Index;

static const ld CTOL = 64;  // DESIGN section 3: calibrated worst ratio <= 4.3, safety factor >= 16

static const char* CLS_NAMES[3] = {"UpperHessenbergQR", "TridiagQR", "DoubleShiftQR"};
static const char* PAT_NAMES[5] = {"small_int", "dyadic", "graded", "negligible_subdiag", "scaled_with_tiny"};

template <typename S>
static ld tiny_value(int k)
{
    switch (k)
    {
        case 0: return (ld) std::numeric_limits<S>::min() * 4;
        case 1: return (ld) std::numeric_limits<S>::min() * 1000;
        case 2: return (ld) std::numeric_limits<S>::denorm_min() * 3;
        default: return (ld) std::numeric_limits<S>::epsilon() * (ld) std::numeric_limits<S>::epsilon();
    }
}

// One entry from the pattern's alphabet (before grading / scaling)
static ld entry(vf::Draw& d, int pat)
{
    if (pat == 0)
        return (ld) d.range("e", -3, 3);
    return (ld) d.range("e", -32, 32) / 16;
}

template <typename S>
struct Input
{
    typedef Eigen::Matrix<S, Eigen::Dynamic, Eigen::Dynamic> Mat;
    Mat given;   // what the class receives (may contain garbage in the part it must ignore)
    // how it is handed over: 0 = the plain matrix, 1 = a block in the middle of a larger matrix (Eigen::Ref with outer stride > rows)
    int form = 0;
    Mat parent;
    Eigen::Ref<const Mat> arg() const
    {
        if (form == 0)
            return given;
        return parent.block(1, 2, given.rows(), given.cols());
    }
    MatL H;      // the matrix the documentation says is used
    ld scale = 1;
    bool any_subdiag = false, negligible = false, exact_zero_sub = false;
};

template <typename S>
static Input<S> make_input(vf::Draw& d, vf::Case& c, int cls, Index n, int pat)
{
    typedef typename Input<S>::Mat Mat;
    Input<S> in;
    const ld eps = vf::Sc<S>::eps();
    int grade = 0;
    if (pat == 2)
        grade = (int) d.range("grade", 1, 4) * 4;  // decades over the matrix
    ld scale = 1;
    if (pat == 4)
    {
        int emax = std::is_same<S, float>::value ? (cls == 2 ? 6 : 12) : (cls == 2 ? 60 : 100);
        d.scale10("scale", emax);
        scale = std::pow((ld) 10, (ld) d.scale10_exp_last());
    }
    in.scale = scale;
    MatL G = MatL::Zero(n, n);
    for (Index j = 0; j < n; j++)
        for (Index i = 0; i < n; i++)
        {
            bool used;
            if (cls == 1)
                used = (i == j) || (i == j + 1);
            else
                used = (i <= j + 1);
            if (!used)
                continue;
            ld v = entry(d, pat);
            if (grade)
                v *= std::pow((ld) 10, -(ld) grade * (ld) (i + j) / (ld) (2 * n));
            G(i, j) = v * scale;
        }
    // negligible / zero / tiny subdiagonals
    if (pat == 3 || pat == 4)
    {
        for (Index i = 0; i + 1 < n; i++)
        {
            int k = (int) d.range("sub", 0, 7);
            ld diag = std::abs(G(i, i)) + std::abs(G(i + 1, i + 1));
            ld sgn = (G(i + 1, i) < 0) ? -1 : 1;
            switch (k)
            {
                case 0: break;                                                  // keep
                case 1: G(i + 1, i) = 0; break;                                 // exact zero
                case 2: G(i + 1, i) = sgn * diag * eps / 4; in.negligible = true; break;   // below the relative deflation threshold
                case 3: G(i + 1, i) = sgn * diag * eps * 4; in.negligible = true; break;   // just above it
                case 4: G(i + 1, i) = sgn * diag * std::sqrt(eps) / 8; break;  // Taylor branch of the rotation
                case 5: G(i + 1, i) = sgn * diag * std::pow(eps, (ld) 0.25) / 16; break;  // around the Taylor cutoff
                case 6: G(i + 1, i) = sgn * tiny_value<typename vf::Sc<S>::Real>((int) d.range("tiny", 0, 3)); in.negligible = true; break;
                default: break;
            }
        }
    }
    // round to the scalar type, then widen again: the reference sees exactly what the class sees
    Mat given = Mat::Zero(n, n);
    for (Index j = 0; j < n; j++)
        for (Index i = 0; i < n; i++)
            given(i, j) = (S) G(i, j);
    in.H = vf::widen_real(given);
    if (cls == 1)  // symmetric tridiagonal built from diagonal and subdiagonal
        for (Index i = 0; i + 1 < n; i++)
            in.H(i, i + 1) = in.H(i + 1, i);
    for (Index i = 0; i + 1 < n; i++)
    {
        if (in.H(i + 1, i) != 0)
            in.any_subdiag = true;
        else
            in.exact_zero_sub = true;
    }
    // the part the documentation says is ignored: garbage (finite) or the mirrored values
    int ign = (int) d.range("ignored_part", 0, 2);
    if (ign)
        for (Index j = 0; j < n; j++)
            for (Index i = 0; i < n; i++)
            {
                bool used = (cls == 1) ? ((i == j) || (i == j + 1)) : (i <= j + 1);
                if (!used)
                    given(i, j) = (ign == 1) ? (S) in.H(j, i) : (S) ((ld) (7 + ((i * 5 + j * 3) % 11)) * scale);
            }
    if (ign == 2)
        c.cls("garbage_in_ignored_part");
    in.given = given;
    in.form = (int) d.pick("input_form", 2);
    if (in.form == 1)
    {
        in.parent = Mat::Constant(n + 4, n + 3, (S) 3.25);
        in.parent.block(1, 2, n, n) = given;
        c.cls("input/block_of_larger_matrix");
    }
    else
        c.cls("input/plain_matrix");
    return in;
}

template <typename S>
static MatL get_Q(const Spectra::UpperHessenbergQR<S>& qr, Index n)
{
    typedef Eigen::Matrix<S, Eigen::Dynamic, Eigen::Dynamic> Mat;
    Mat I = Mat::Identity(n, n);
    qr.apply_YQ(I);
    return vf::widen_real(I);
}

static void check_shape(const MatL& M, int cls, ld bound, vf::Case& c, bool exact_expected)
{
    const Index n = M.rows();
    ld worst = 0;
    bool exact = true;
    for (Index j = 0; j < n; j++)
        for (Index i = 0; i < n; i++)
        {
            bool outside = (cls == 1) ? (i > j + 1 || j > i + 1) : (i > j + 1);
            if (outside)
            {
                worst = std::max(worst, std::abs(M(i, j)));
                if (M(i, j) != 0)
                    exact = false;
            }
        }
    VF_CHECK(worst <= bound, "shape", "Q'HQ has entry " << vf::num(worst) << " outside the " << (cls == 1 ? "tridiagonal" : "Hessenberg") << " band, bound " << vf::num(bound));
    if (exact_expected)
        VF_CHECK(exact, "shape_exact", "Q'HQ has a nonzero entry outside the band where the class writes structural zeros");
    if (cls == 1)
    {
        ld asym = 0;
        for (Index i = 0; i + 1 < n; i++)
            asym = std::max(asym, std::abs(M(i, i + 1) - M(i + 1, i)));
        VF_CHECK(asym <= bound, "symmetry", "tridiagonal Q'TQ asymmetric by " << vf::num(asym));
    }
    if (!exact)
        c.cls("rounding_residue_below_subdiagonal");
}

// UpperHessenbergQR (cls 0) and TridiagQR (cls 1)
// state of the destination handed to matrix_QtHQ(dest): the documented contract is that dest is overwritten
template <typename Mat>
static void prefill_dest(vf::Draw& d, vf::Case& c, Mat& dest, Index n)
{
    typedef typename Mat::Scalar S;
    int kind = (int) d.range("dest_state", 0, 3);
    if (kind == 0)
        return;
    if (kind == 1)
        dest = Mat::Constant(n, n, S(7));
    else if (kind == 2)
        dest = Mat::Constant(n + 1, n + 2, S(-3));
    else
        dest = Mat::Constant(n, n, std::numeric_limits<S>::quiet_NaN());
    c.cls(kind == 2 ? "dest_prefilled_other_size" : "dest_prefilled_same_size");
}

template <typename S, typename QRClass>
static void single_shift_case(vf::Draw& d, vf::Case& c, int cls, Index n, int pat)
{
    typedef Eigen::Matrix<S, Eigen::Dynamic, Eigen::Dynamic> Mat;
    typedef Eigen::Matrix<S, Eigen::Dynamic, 1> Vec;
    const ld eps = vf::Sc<S>::eps();
    Input<S> in = make_input<S>(d, c, cls, n, pat);
    const MatL& H = in.H;
    // shift
    int sk = (int) d.range("shift_kind", 0, 3);
    ld shift_l = 0;
    if (sk == 1)
        shift_l = (ld) d.range("shift", -48, 48) / 16 * in.scale;
    else if (sk == 2)
    {
        Index k = (Index) d.range("shift_at", 0, n - 1);
        shift_l = H(k, k);
    }
    else if (sk == 3)
    {
        // an exact eigenvalue (to working precision) from a long double reference: the shifts the solvers use
        Index k = (Index) d.range("shift_eig", 0, n - 1);
        if (cls == 1)
        {
            Eigen::SelfAdjointEigenSolver<MatL> es(H / in.scale, Eigen::EigenvaluesOnly);
            shift_l = es.eigenvalues()[k] * in.scale;
        }
        else
        {
            Eigen::EigenSolver<MatL> es(H / in.scale, false);
            shift_l = es.eigenvalues()[k].real() * in.scale;
        }
        c.cls("exact_eigenvalue_shift");
    }
    const S shift = (S) shift_l;
    const ld s = (ld) shift;
    const ld normH = vf::fro_scaled(H);
    const ld base = normH + std::abs(s);
    const ld tol = CTOL * (ld) n * eps;

    std::ostringstream os;
    os << CLS_NAMES[cls] << "<" << vf::Sc<S>::name() << "> n=" << n << " pattern=" << PAT_NAMES[pat] << " scale=1e" << std::log10((double) in.scale)
       << " shift=" << (double) s << " H=" << vf::show(in.given, 5);
    c.add_desc(os.str());
    c.cls(std::string(CLS_NAMES[cls]) + "/" + vf::Sc<S>::name());
    c.cls(std::string("pattern/") + PAT_NAMES[pat]);
    if (in.negligible)
        c.cls("negligible_subdiagonal");
    if (in.exact_zero_sub)
        c.cls("exact_zero_subdiagonal");
    c.nontrivial = in.any_subdiag;

    // construction path: either the computing constructor or size-constructor + compute()
    QRClass* qrp;
    QRClass a(n);
    std::unique_ptr<QRClass> b;
    if (d.flag("ctor_computes"))
    {
        b.reset(new QRClass(in.arg(), shift));
        qrp = b.get();
    }
    else
    {
        // calling an accessor before compute() must raise logic_error, not return numbers
        bool threw = false;
        try
        {
            Mat tmp;
            a.matrix_QtHQ(tmp);
        }
        catch (const std::logic_error&)
        {
            threw = true;
        }
        VF_CHECK(threw, "not_computed", "matrix_QtHQ() before compute() did not throw logic_error");
        if (d.flag("prior_compute"))
        {
            // the object has decomposed another matrix (same size, dense pattern, other shift) before: nothing of it may survive
            Mat other = Mat::Zero(n, n);
            for (Index j = 0; j < n; j++)
                for (Index i = 0; i <= std::min<Index>(j + 1, n - 1); i++)
                    other(i, j) = (S) ((ld) (((i * 5 + j * 3) % 7) - 3) * in.scale);
            if (cls == 1)
                other = ((other + other.transpose()) / S(2)).eval();
            a.compute(other, (S) (in.scale / 2));
            c.cls("object_reused_after_other_compute");
        }
        a.compute(in.arg(), shift);
        qrp = &a;
    }
    QRClass& qr = *qrp;

    MatL Q = get_Q<S>(qr, n);
    VF_CHECK(vf::all_finite(Q), "nonfinite", "Q contains NaN/Inf");
    MatL QtQ = Q.transpose() * Q - MatL::Identity(n, n);
    ld orth = vf::maxabs(QtQ);
    vf::report().stat("orth/(n eps)", (double) (orth / ((ld) n * eps)));
    VF_CHECK(orth <= tol, "orthogonality", "max|Q'Q-I| = " << vf::num(orth) << " > " << vf::num(tol));

    // R: upper triangular with exact zeros, Q R = H - sI
    Mat Rs = qr.matrix_R();
    VF_CHECK(Rs.rows() == n && Rs.cols() == n, "dims", "matrix_R is " << Rs.rows() << "x" << Rs.cols());
    MatL R = vf::widen_real(Rs);
    for (Index j = 0; j < n; j++)
        for (Index i = j + 1; i < n; i++)
            VF_CHECK(R(i, j) == 0, "R_not_triangular", "R(" << i << "," << j << ") = " << vf::num(R(i, j)));
    if (base > 0)
    {
        MatL E = Q * R - (H - s * MatL::Identity(n, n));
        ld e = vf::maxabs(E);
        vf::report().stat("QR-(H-sI)/(n eps (|H|+|s|))", (double) (e / ((ld) n * eps * base)));
        VF_CHECK(e <= tol * base, "QR_factorization", "max|QR-(H-sI)| = " << vf::num(e) << " > " << vf::num(tol * base));
    }

    // Q'HQ
    Mat Ts;
    prefill_dest(d, c, Ts, n);
    qr.matrix_QtHQ(Ts);
    VF_CHECK(Ts.rows() == n && Ts.cols() == n, "dims", "matrix_QtHQ is " << Ts.rows() << "x" << Ts.cols());
    MatL T = vf::widen_real(Ts);
    VF_CHECK(vf::all_finite(T), "nonfinite", "Q'HQ contains NaN/Inf");
    {
        MatL E = T - Q.transpose() * H * Q;
        ld e = vf::maxabs(E);
        if (base > 0)
            vf::report().stat("QtHQ/(n eps (|H|+|s|))", (double) (e / ((ld) n * eps * base)));
        VF_CHECK(e <= tol * base, "similarity", "max|matrix_QtHQ - Q'HQ| = " << vf::num(e) << " > " << vf::num(tol * base));
        check_shape(T, cls, tol * base, c, true);
    }

    // apply methods against explicit products with that Q
    Index ncol = (Index) d.range("ycols", 1, 4);
    MatL Y(n, ncol), Yr(ncol, n);
    for (Index j = 0; j < ncol; j++)
        for (Index i = 0; i < n; i++)
        {
            Y(i, j) = (ld) (S) ((ld) (((i * 7 + j * 13 + 3) % 17) - 8) / 8);
            Yr(j, i) = (ld) (S) ((ld) (((i * 5 + j * 11 + 1) % 13) - 6) / 4);
        }
    const ld ynorm = std::max(vf::fro(Y), vf::fro(Yr));
    auto cmp = [&](const MatL& got, const MatL& want, const char* what) {
        ld e = vf::maxabs(got - want);
        vf::report().stat(std::string(what) + "/(n eps |Y|)", (double) (e / ((ld) n * eps * ynorm)));
        VF_CHECK(e <= tol * ynorm, what, "max error " << vf::num(e) << " > " << vf::num(tol * ynorm));
    };
    {
        Vec y = vf::Narrow<S>::mat(vf::widen(Y.col(0)));
        Vec y1 = y;
        qr.apply_QY(y1);
        cmp(vf::widen_real(y1), Q * Y.col(0), "apply_QY(vector)");
        Vec y2 = y;
        qr.apply_QtY(y2);
        cmp(vf::widen_real(y2), Q.transpose() * Y.col(0), "apply_QtY(vector)");
    }
    {
        // operand form: a plain matrix, or a row block of a taller matrix (an Eigen::Ref with an outer stride larger than its
        // row count, which the GenericMatrix = Eigen::Ref<Matrix> parameter accepts); the parent's other rows must stay untouched
        const int oform = (int) d.pick("operand_form", 3);
        c.cls(oform == 0 ? "operand/plain_matrix" : (oform == 1 ? "operand/top_rows_of_taller_matrix" : "operand/middle_rows_of_taller_matrix"));
        auto apply_to = [&](Mat& M, const char* what, auto&& f) {
            if (oform == 0)
            {
                f(Eigen::Ref<Mat>(M));
                return;
            }
            const Index top = (oform == 1) ? 0 : 2, bot = 3;
            const S sentinel = (S) 77.25;
            Mat P = Mat::Constant(M.rows() + top + bot, M.cols(), sentinel);
            P.middleRows(top, M.rows()) = M;
            f(Eigen::Ref<Mat>(P.middleRows(top, M.rows())));
            bool clean = true;
            for (Index j = 0; j < P.cols(); j++)
                for (Index i = 0; i < P.rows(); i++)
                    if ((i < top || i >= top + M.rows()) && !(P(i, j) == sentinel))
                        clean = false;
            VF_CHECK(clean, "apply_wrote_outside_operand", what << " on a row block of a taller matrix changed rows of the parent outside the block");
            M = P.middleRows(top, M.rows());
        };
        Mat Ym = vf::Narrow<S>::mat(vf::widen(Y));
        Mat Y1 = Ym;
        apply_to(Y1, "apply_QY(matrix)", [&](Eigen::Ref<Mat> R) { qr.apply_QY(R); });
        cmp(vf::widen_real(Y1), Q * Y, "apply_QY(matrix)");
        Mat Y2 = Ym;
        apply_to(Y2, "apply_QtY(matrix)", [&](Eigen::Ref<Mat> R) { qr.apply_QtY(R); });
        cmp(vf::widen_real(Y2), Q.transpose() * Y, "apply_QtY(matrix)");
        Mat Yrm = vf::Narrow<S>::mat(vf::widen(Yr));
        Mat Y3 = Yrm;
        apply_to(Y3, "apply_YQ", [&](Eigen::Ref<Mat> R) { qr.apply_YQ(R); });
        cmp(vf::widen_real(Y3), Yr * Q, "apply_YQ");
        Mat Y4 = Yrm;
        apply_to(Y4, "apply_YQt", [&](Eigen::Ref<Mat> R) { qr.apply_YQt(R); });
        cmp(vf::widen_real(Y4), Yr * Q.transpose(), "apply_YQt");
    }
}

template <typename S>
static void double_shift_case(vf::Draw& d, vf::Case& c, Index n, int pat)
{
    typedef Eigen::Matrix<S, Eigen::Dynamic, Eigen::Dynamic> Mat;
    typedef Eigen::Matrix<S, Eigen::Dynamic, 1> Vec;
    const ld eps = vf::Sc<S>::eps();
    Input<S> in = make_input<S>(d, c, 2, n, pat);
    const MatL& H = in.H;
    int sk = (int) d.range("shift_kind", 0, 3);
    ld s_l = 0, t_l = 0;
    if (sk == 1)
    {
        s_l = (ld) d.range("s", -48, 48) / 16 * in.scale;
        t_l = (ld) d.range("t", -48, 48) / 16 * in.scale * in.scale;
    }
    else if (sk >= 2)
    {
        // shifts from exact eigenvalues: s = mu1 + mu2, t = mu1 * mu2 (a conjugate pair or two real ones)
        Eigen::EigenSolver<MatL> es(H / in.scale, false);
        Index k = (Index) d.range("shift_eig", 0, n - 1);
        std::complex<ld> mu1 = es.eigenvalues()[k], mu2;
        if (mu1.imag() != 0)
            mu2 = std::conj(mu1);
        else
        {
            Index k2 = (Index) d.range("shift_eig2", 0, n - 1);
            mu2 = es.eigenvalues()[k2];
            if (mu2.imag() != 0)
                mu2 = mu1;
        }
        s_l = (mu1 + mu2).real() * in.scale;
        t_l = (mu1 * mu2).real() * in.scale * in.scale;
        c.cls(mu1.imag() != 0 ? "exact_conjugate_pair_shift" : "exact_real_pair_shift");
    }
    const S s = (S) s_l, t = (S) t_l;
    const ld sl = (ld) s, tl = (ld) t;
    const ld normH = vf::fro_scaled(H);
    const ld tol = CTOL * (ld) n * eps;
    std::ostringstream os;
    os << "DoubleShiftQR<" << vf::Sc<S>::name() << "> n=" << n << " pattern=" << PAT_NAMES[pat] << " scale=1e" << std::log10((double) in.scale)
       << " s=" << (double) sl << " t=" << (double) tl << " H=" << vf::show(in.given, 5);
    c.add_desc(os.str());
    c.cls(std::string("DoubleShiftQR/") + vf::Sc<S>::name());
    c.cls(std::string("pattern/") + PAT_NAMES[pat]);
    if (in.negligible)
        c.cls("negligible_subdiagonal");
    if (in.exact_zero_sub)
        c.cls("exact_zero_subdiagonal(block split)");
    c.nontrivial = in.any_subdiag;

    Spectra::DoubleShiftQR<S> a(n);
    std::unique_ptr<Spectra::DoubleShiftQR<S>> b;
    Spectra::DoubleShiftQR<S>* qrp = &a;
    if (d.flag("ctor_computes"))
    {
        b.reset(new Spectra::DoubleShiftQR<S>(in.arg(), s, t));
        qrp = b.get();
    }
    else
        a.compute(in.arg(), s, t);
    Spectra::DoubleShiftQR<S>& qr = *qrp;

    Mat I = Mat::Identity(n, n);
    qr.apply_YQ(I);
    MatL Q = vf::widen_real(I);
    VF_CHECK(vf::all_finite(Q), "nonfinite", "Q contains NaN/Inf");
    ld orth = vf::maxabs(Q.transpose() * Q - MatL::Identity(n, n));
    vf::report().stat("ds_orth/(n eps)", (double) (orth / ((ld) n * eps)));
    VF_CHECK(orth <= tol, "orthogonality", "max|Q'Q-I| = " << vf::num(orth) << " > " << vf::num(tol));

    Mat Ts;
    prefill_dest(d, c, Ts, n);
    qr.matrix_QtHQ(Ts);
    VF_CHECK(Ts.rows() == n && Ts.cols() == n, "dims", "matrix_QtHQ is " << Ts.rows() << "x" << Ts.cols());
    MatL T = vf::widen_real(Ts);
    VF_CHECK(vf::all_finite(T), "nonfinite", "Q'HQ contains NaN/Inf");
    // the property's scale for the similarity is n eps (||H|| + |s|); the shift pair of this class enters as
    // |s| and sqrt|t| (t is a product of two shifts)
    const ld base = normH + std::abs(sl) + std::sqrt(std::abs(tl));
    {
        ld e = vf::maxabs(T - Q.transpose() * H * Q);
        if (normH > 0)
            vf::report().stat("ds_QtHQ/(n eps |H|)", (double) (e / ((ld) n * eps * normH)));
        VF_CHECK(e <= tol * normH, "similarity", "max|matrix_QtHQ - Q'HQ| = " << vf::num(e) << " > " << vf::num(tol * normH));
        check_shape(T, 2, tol * normH, c, false);
    }
    // first column of Q parallel to (H^2 - sH + tI) e1
    {
        VecL e1 = VecL::Zero(n);
        e1[0] = 1;
        VecL He1 = H * e1;
        VecL m = H * He1 - sl * He1 + tl * e1;
        ld mn = m.norm();
        ld mscale = normH * normH + std::abs(sl) * normH + std::abs(tl);
        if (mn > 0 && mscale > 0 && mn >= std::sqrt(eps) * mscale)
        {
            VecL q1 = Q.col(0);
            ld cosang = std::abs(q1.dot(m)) / (q1.norm() * mn);
            VecL perp = m - q1 * (q1.dot(m) / q1.squaredNorm());
            ld sinang = perp.norm() / mn;
            (void) cosang;
            ld bound = tol * mscale / mn;
            vf::report().stat("ds_first_column sin/(n eps scale/|Me1|)", (double) (sinang / ((ld) n * eps * mscale / mn)));
            VF_CHECK(sinang <= bound, "first_column", "sin angle(Q e1, (H^2-sH+tI)e1) = " << vf::num(sinang) << " > " << vf::num(bound));
            c.cls("first_column_checked");
        }
        else
            c.cls("first_column_trivial(Me1 negligible)");
    }
    (void) base;
    // apply_QtY(vector) == Q' y ; apply_YQ(matrix) == Y Q
    {
        VecL y(n);
        for (Index i = 0; i < n; i++)
            y[i] = (ld) (S) ((ld) (((i * 7 + 3) % 17) - 8) / 8);
        Vec ys = vf::Narrow<S>::mat(vf::widen(y));
        qr.apply_QtY(ys);
        ld e = vf::maxabs(vf::widen_real(ys) - Q.transpose() * y);
        vf::report().stat("ds_apply_QtY/(n eps |y|)", (double) (e / ((ld) n * eps * y.norm())));
        VF_CHECK(e <= tol * y.norm(), "apply_QtY(vector)", "max error " << vf::num(e));
        Index nr = (Index) d.range("yrows", 1, 4);
        MatL Yr(nr, n);
        for (Index j = 0; j < nr; j++)
            for (Index i = 0; i < n; i++)
                Yr(j, i) = (ld) (S) ((ld) (((i * 5 + j * 11 + 1) % 13) - 6) / 4);
        Mat Ym = vf::Narrow<S>::mat(vf::widen(Yr));
        const int oform = (int) d.pick("operand_form", 3);
        c.cls(oform == 0 ? "operand/plain_matrix" : (oform == 1 ? "operand/top_rows_of_taller_matrix" : "operand/middle_rows_of_taller_matrix"));
        if (oform == 0)
            qr.apply_YQ(Ym);
        else
        {
            const Index top = (oform == 1) ? 0 : 2, bot = 3;
            const S sentinel = (S) 77.25;
            Mat P = Mat::Constant(nr + top + bot, n, sentinel);
            P.middleRows(top, nr) = Ym;
            qr.apply_YQ(P.middleRows(top, nr));
            bool clean = true;
            for (Index j = 0; j < n; j++)
                for (Index i = 0; i < P.rows(); i++)
                    if ((i < top || i >= top + nr) && !(P(i, j) == sentinel))
                        clean = false;
            VF_CHECK(clean, "apply_wrote_outside_operand", "DoubleShiftQR::apply_YQ on a row block of a taller matrix changed rows of the parent outside the block");
            Ym = P.middleRows(top, nr);
        }
        ld e2 = vf::maxabs(vf::widen_real(Ym) - Yr * Q);
        VF_CHECK(e2 <= tol * vf::fro(Yr), "apply_YQ", "max error " << vf::num(e2));
    }
}

template <typename S>
static void typed_case(vf::Draw& d, vf::Case& c, int cls)
{
    Index n = (Index) d.dim("n", cls == 2 ? 3 : 2, 24);
    int pat = (int) d.range("pattern", 0, 4);
    if (cls == 0)
        single_shift_case<S, Spectra::UpperHessenbergQR<S>>(d, c, 0, n, pat);
    else if (cls == 1)
        single_shift_case<S, Spectra::TridiagQR<S>>(d, c, 1, n, pat);
    else
        double_shift_case<S>(d, c, n, pat);
}

static void run_case(vf::Draw& d, vf::Case& c)
{
    int cls = (int) d.range("class", 0, 2);
    int type = (int) d.range("type", 0, 2);
    if (type == 0)
        typed_case<double>(d, c, cls);
    else if (type == 1)
        typed_case<float>(d, c, cls);
    else
        typed_case<long double>(d, c, cls);
}

int main(int argc, char** argv)
{
    return vf::run_main(argc, argv, "C08", run_case);
}
