// C12 - argument validation: invalid arguments are rejected with std::invalid_argument, valid ones are
// accepted; a rejected call leaks nothing and leaves no partially built object behind.
//
// One source, several units (-DC12_UNIT=1..4) so that the solver instantiations compile in parallel:
//   1: SymEigsSolver, HermEigsSolver, SymEigsShiftSolver, DavidsonSymEigsSolver, PartialSVDSolver   (dense)
//   2: GenEigsSolver, GenEigsRealShiftSolver, GenEigsComplexShiftSolver                             (dense)
//   3: SymGEigsSolver Cholesky / RegularInverse, SymGEigsShiftSolver ShiftInvert / Buckling / Cayley
//   4: the ten matrix-operation wrappers whose contract is "matrix must be square" (every shape up to 4x4)
//      + sparse / user-functor operators for the solver layers
//
// Layers (all go through run_case, so every failure has a replay tape):
//   EXHAUSTIVE  mode 0: solver x variant (sigma / SVD shape) x n in [1,12] x (nev, ncv) in [-2, n+3]^2
//               mode 1: all 9 x 9 (selection, sorting) rules on a small valid solver x follow-up x prefix history
//               mode 2: init() with zero / nonzero start vectors, n in [nmin,12]
//               mode 3: wrapper constructors with every shape in [0,4]^2 (SymShiftInvert: [1,4]^4)
//   RANDOM      rapidcheck on the same run_case: n up to 64 (arguments anchored at the documented bounds), random content.
//
// The accept/reject SPECIFICATION below is written from the doxygen text of each constructor / compute() and the
// SortRule enumeration, never from the code. The leak oracle is a live-block counter kept by interposing the
// malloc family in this TU (the build is therefore unsanitised).
#include "vf/eigen_assert.hpp"
#include <cstddef>
#include <cerrno>
#include <cstring>

// ------------------------------------------------------------------------------------------------------------------
// live-block counter (malloc family interposed; glibc exports the real entry points as __libc_*)
// ------------------------------------------------------------------------------------------------------------------
extern "C" {
void* __libc_malloc(size_t);
void* __libc_calloc(size_t, size_t);
void* __libc_realloc(void*, size_t);
void __libc_free(void*);
void* __libc_memalign(size_t, size_t);
}
namespace c12 {
static long g_live = 0;
static inline long live() { return g_live; }
}  // namespace c12
extern "C" {
void* malloc(size_t n) noexcept
{
    void* p = __libc_malloc(n);
    if (p)
        ++c12::g_live;
    return p;
}
void* calloc(size_t a, size_t b) noexcept
{
    void* p = __libc_calloc(a, b);
    if (p)
        ++c12::g_live;
    return p;
}
void* realloc(void* p, size_t n) noexcept
{
    void* q = __libc_realloc(p, n);
    if (!p && q)
        ++c12::g_live;  // behaves as malloc
    else if (p && n == 0 && !q)
        --c12::g_live;  // behaves as free
    return q;
}
void free(void* p) noexcept
{
    if (p)
    {
        --c12::g_live;
        __libc_free(p);
    }
}
void* memalign(size_t a, size_t n) noexcept
{
    void* p = __libc_memalign(a, n);
    if (p)
        ++c12::g_live;
    return p;
}
void* aligned_alloc(size_t a, size_t n) noexcept
{
    void* p = __libc_memalign(a, n);
    if (p)
        ++c12::g_live;
    return p;
}
int posix_memalign(void** out, size_t a, size_t n) noexcept
{
    void* p = __libc_memalign(a, n);
    if (!p)
        return ENOMEM;
    ++c12::g_live;
    *out = p;
    return 0;
}
}

#ifndef C12_UNIT
#define C12_UNIT 1
#endif

#include <Eigen/Core>
#include <Eigen/SparseCore>
#if C12_UNIT == 1
#include <Spectra/SymEigsSolver.h>
#include <Spectra/HermEigsSolver.h>
#include <Spectra/SymEigsShiftSolver.h>
#include <Spectra/DavidsonSymEigsSolver.h>
#include <Spectra/contrib/PartialSVDSolver.h>
#include <Spectra/MatOp/DenseSymMatProd.h>
#include <Spectra/MatOp/DenseHermMatProd.h>
#include <Spectra/MatOp/DenseSymShiftSolve.h>
#elif C12_UNIT == 2
#include <Spectra/GenEigsSolver.h>
#include <Spectra/GenEigsRealShiftSolver.h>
#include <Spectra/GenEigsComplexShiftSolver.h>
#include <Spectra/MatOp/DenseGenMatProd.h>
#include <Spectra/MatOp/DenseGenRealShiftSolve.h>
#include <Spectra/MatOp/DenseGenComplexShiftSolve.h>
#elif C12_UNIT == 3
#include <Spectra/SymGEigsSolver.h>
#include <Spectra/SymGEigsShiftSolver.h>
#include <Spectra/MatOp/DenseSymMatProd.h>
#include <Spectra/MatOp/SparseSymMatProd.h>
#include <Spectra/MatOp/DenseCholesky.h>
#include <Spectra/MatOp/SparseRegularInverse.h>
#include <Spectra/MatOp/SymShiftInvert.h>
#else
#include <Spectra/SymEigsSolver.h>
#include <Spectra/GenEigsSolver.h>
#include <Spectra/SymEigsShiftSolver.h>
#include <Spectra/contrib/PartialSVDSolver.h>
#include <Spectra/MatOp/SparseSymMatProd.h>
#include <Spectra/MatOp/SparseGenMatProd.h>
#include <Spectra/MatOp/SparseSymShiftSolve.h>
#include <Spectra/MatOp/DenseCholesky.h>
#include <Spectra/MatOp/SparseCholesky.h>
#include <Spectra/MatOp/DenseSymShiftSolve.h>
#include <Spectra/MatOp/DenseGenRealShiftSolve.h>
#include <Spectra/MatOp/DenseGenComplexShiftSolve.h>
#include <Spectra/MatOp/SparseGenRealShiftSolve.h>
#include <Spectra/MatOp/SparseGenComplexShiftSolve.h>
#include <Spectra/MatOp/SparseRegularInverse.h>
#include <Spectra/MatOp/SymShiftInvert.h>
#endif
#include "vf/runner.hpp"
#include "vf/gen.hpp"
#include <complex>
#include <memory>
#include <type_traits>

using Spectra::SortRule;
using Index = Eigen::Index;
typedef std::complex<double> cd;
typedef Eigen::MatrixXd Mat;
typedef Eigen::VectorXd Vec;
typedef Eigen::MatrixXcd CMat;
typedef Eigen::SparseMatrix<double> SpMat;

static const SortRule RULES[9] = {SortRule::LargestMagn, SortRule::LargestReal, SortRule::LargestImag,
                                  SortRule::LargestAlge, SortRule::SmallestMagn, SortRule::SmallestReal,
                                  SortRule::SmallestImag, SortRule::SmallestAlge, SortRule::BothEnds};
static const char* RULE_NAMES[9] = {"LargestMagn", "LargestReal", "LargestImag", "LargestAlge", "SmallestMagn",
                                    "SmallestReal", "SmallestImag", "SmallestAlge", "BothEnds"};

// ------------------------------------------------------------------------------------------------------------------
// SPECIFICATION (from the documentation)
// ------------------------------------------------------------------------------------------------------------------
enum Family
{
    FAM_SYM,  // "1 <= nev <= n-1", "nev < ncv <= n"      (SymEigs, HermEigs, SymEigsShift, SymGEigs*, PartialSVD on min(m,n))
    FAM_GEN,  // "1 <= nev <= n-2", "nev+2 <= ncv <= n"   (GenEigs, GenEigsRealShift, GenEigsComplexShift)
    FAM_DAV   // "1 <= nev <= n-1" (no documented constraint on the search-space sizes)
};
static bool spec_ctor(Family f, Index n, Index nev, Index ncv)
{
    switch (f)
    {
        case FAM_SYM: return 1 <= nev && nev <= n - 1 && nev < ncv && ncv <= n;
        case FAM_GEN: return 1 <= nev && nev <= n - 2 && nev + 2 <= ncv && ncv <= n;
        default: return 1 <= nev && nev <= n - 1;
    }
}
// SortRule documentation: LargestMagn/SmallestMagn "both symmetric and general"; *Real/*Imag "only for general eigen
// solvers"; *Alge/BothEnds "only for symmetric eigen solvers".
static bool spec_selection(Family f, int rule)
{
    bool general_only = (rule == 1 || rule == 2 || rule == 5 || rule == 6);
    bool symmetric_only = (rule == 3 || rule == 7 || rule == 8);
    if (f == FAM_GEN)
        return !symmetric_only;
    return !general_only;
}
// compute() doxygen, parameter `sorting`: symmetric family "Supported values are LargestAlge, LargestMagn, SmallestAlge,
// SmallestMagn"; general family "LargestMagn, LargestReal, LargestImag, SmallestMagn, SmallestReal and SmallestImag".
static bool spec_sorting(Family f, int rule)
{
    if (f == FAM_GEN)
        return rule == 0 || rule == 1 || rule == 2 || rule == 4 || rule == 5 || rule == 6;
    return rule == 3 || rule == 0 || rule == 7 || rule == 4;
}

// ------------------------------------------------------------------------------------------------------------------
// deterministic operator content (pure function of (n, seed)); seed 0 = closed formula, else LCG perturbation.
// All matrices are strictly diagonally dominant with a positive diagonal: SPD / nonsingular, every shift used below
// (sigma <= 0) keeps the shifted matrix nonsingular, and the diagonal is distinct (Davidson's preconditioner).
// ------------------------------------------------------------------------------------------------------------------
static Mat sym_matrix(Index n, long seed, int which)
{
    Mat A = Mat::Zero(n, n);
    vf::Lcg g((uint64_t) seed * 4 + (uint64_t) which);
    for (Index i = 0; i < n; i++)
    {
        A(i, i) = (which == 0) ? 2.0 + 0.37 * (double) i + 0.11 * (double) ((i * 7) % 5) : 2.0 + 0.2 * (double) (i % 5) + 0.01 * (double) i;
        if (seed != 0)
            A(i, i) += 0.05 * (double) g.u();
    }
    for (Index i = 0; i + 1 < n; i++)
    {
        double o = 0.2 + 0.002 * (double) i;
        A(i, i + 1) = o;
        A(i + 1, i) = o;
    }
    if (seed != 0)
        for (Index j = 0; j < n; j++)
            for (Index i = j + 1; i < n; i++)
            {
                double o = 0.5 / (double) n * (double) g.u();
                A(i, j) += o;
                A(j, i) += o;
            }
    return A;
}
static Mat gen_matrix(Index n, long seed)
{
    Mat G = sym_matrix(n, seed, 0);
    for (Index i = 0; i + 1 < n; i++)
    {
        G(i, i + 1) += 0.3;
        G(i + 1, i) -= 0.3;
    }
    return G;
}
static CMat herm_matrix(Index n, long seed)
{
    CMat H = sym_matrix(n, seed, 0).cast<cd>();
    for (Index i = 0; i + 1 < n; i++)
    {
        H(i, i + 1) += cd(0, 0.1);
        H(i + 1, i) -= cd(0, 0.1);
    }
    return H;
}
static Mat rect_matrix(Index m, Index n, long seed)
{
    Mat M(m, n);
    vf::Lcg g((uint64_t) seed * 4 + 3);
    for (Index j = 0; j < n; j++)
        for (Index i = 0; i < m; i++)
            M(i, j) = (i == j ? 2.0 + 0.3 * (double) i : 0.1 / (double) (1 + i + j)) + (seed ? 0.05 * (double) g.u() : 0.0);
    return M;
}

// ------------------------------------------------------------------------------------------------------------------
// Rigs: one per solver kind. A rig owns the matrices and operator objects and knows how to call the constructor.
// ------------------------------------------------------------------------------------------------------------------
static const double SIGMAS[4] = {-0.5, 0.0, -0.0, 1e-300};  // variant 0 is the plain valid one
static const char* SIGMA_NAMES[4] = {"sigma=-0.5", "sigma=0", "sigma=-0.0", "sigma=1e-300"};

struct RigDefaults
{
    static constexpr int NVAR = 1;
    static constexpr bool has_init = true;     // init() / init(const Scalar*)
    static constexpr bool has_compute = true;  // compute(selection, ...)
    static constexpr bool has_sorting = true;  // compute(..., sorting)
    static constexpr bool has_ops = true;      // num_operations()
    static constexpr bool sigma_variants = false;
    static constexpr bool zero_sigma_rejected = false;
    static constexpr Index nmin = 2;  // smallest n with a valid (nev, ncv)
    typedef double Scalar;
    static const char* variant_name(int) { return ""; }
};

#if C12_UNIT == 1 || C12_UNIT == 4
template <bool Sparse>
using MatOf = typename std::conditional<Sparse, SpMat, Mat>::type;
template <bool Sparse>
static MatOf<Sparse> as_form(const Mat& D)
{
    if constexpr (Sparse)
        return SpMat(D.sparseView());
    else
        return D;
}

template <typename OpT, bool Sparse>
struct RigSymEigsT : RigDefaults
{
    static constexpr Family family = FAM_SYM;
    static const char* name() { return Sparse ? "SymEigsSolver<SparseSymMatProd>" : "SymEigsSolver<DenseSymMatProd>"; }
    typedef Spectra::SymEigsSolver<OpT> Solver;
    MatOf<Sparse> A;
    OpT op;
    RigSymEigsT(Index n, int, long seed) :
        A(as_form<Sparse>(sym_matrix(n, seed, 0))), op(A) {}
    Solver* make(Index nev, Index ncv) { return new Solver(op, nev, ncv); }
};

template <typename OpT, bool Sparse>
struct RigSymEigsShiftT : RigDefaults
{
    static constexpr Family family = FAM_SYM;
    static const char* name() { return Sparse ? "SymEigsShiftSolver<SparseSymShiftSolve>" : "SymEigsShiftSolver<DenseSymShiftSolve>"; }
    typedef Spectra::SymEigsShiftSolver<OpT> Solver;
    MatOf<Sparse> A;
    OpT op;
    RigSymEigsShiftT(Index n, int, long seed) :
        A(as_form<Sparse>(sym_matrix(n, seed, 0))), op(A) {}
    Solver* make(Index nev, Index ncv) { return new Solver(op, nev, ncv, -0.5); }
};

template <typename MatT, bool Sparse>
struct RigPartialSVDT : RigDefaults
{
    static constexpr Family family = FAM_SYM;
    static constexpr int NVAR = 3;  // square, tall (n+2 x n), wide (n x n+3); the documented size is min(rows, cols) = n
    static constexpr bool has_init = false;
    static constexpr bool has_compute = false;
    static const char* name() { return Sparse ? "PartialSVDSolver<SparseMatrix>" : "PartialSVDSolver<MatrixXd>"; }
    static const char* variant_name(int v) { return v == 0 ? "square" : (v == 1 ? "tall(n+2 x n)" : "wide(n x n+3)"); }
    typedef Spectra::PartialSVDSolver<MatT> Solver;
    MatT M;
    RigPartialSVDT(Index n, int v, long seed) :
        M(as_form<Sparse>(rect_matrix(v == 1 ? n + 2 : n, v == 2 ? n + 3 : n, seed))) {}
    Solver* make(Index nev, Index ncv) { return new Solver(M, nev, ncv); }
};
#endif

#if C12_UNIT == 1
typedef RigSymEigsT<Spectra::DenseSymMatProd<double>, false> RigSymEigs;
typedef RigSymEigsShiftT<Spectra::DenseSymShiftSolve<double>, false> RigSymEigsShift;
typedef RigPartialSVDT<Mat, false> RigPartialSVD;

struct RigHermEigs : RigDefaults
{
    static constexpr Family family = FAM_SYM;
    typedef cd Scalar;
    static const char* name() { return "HermEigsSolver<DenseHermMatProd>"; }
    typedef Spectra::DenseHermMatProd<cd> Op;
    typedef Spectra::HermEigsSolver<Op> Solver;
    CMat A;
    Op op;
    RigHermEigs(Index n, int, long seed) :
        A(herm_matrix(n, seed)), op(A) {}
    Solver* make(Index nev, Index ncv) { return new Solver(op, nev, ncv); }
};

struct RigDavidson : RigDefaults
{
    static constexpr Family family = FAM_DAV;
    static constexpr bool has_init = false;
    static constexpr bool has_sorting = false;
    static constexpr bool has_ops = false;
    static const char* name() { return "DavidsonSymEigsSolver<DenseSymMatProd>"; }
    typedef Spectra::DenseSymMatProd<double> Op;
    typedef Spectra::DavidsonSymEigsSolver<Op> Solver;
    Mat A;
    Op op;
    RigDavidson(Index n, int, long seed) :
        A(sym_matrix(n, seed, 0)), op(A) {}
    // the "ncv" coordinate c selects the constructor: c < 1 -> (op, nev); else (op, nev, nvec_init = c, nvec_max = c + max(nev,1)).
    // Only nev is constrained by the documentation.
    Solver* make(Index nev, Index c)
    {
        if (c < 1)
            return new Solver(op, nev);
        return new Solver(op, nev, c, c + (nev > 1 ? nev : 1));
    }
};
#endif

#if C12_UNIT == 2
struct RigGenBase : RigDefaults
{
    static constexpr Family family = FAM_GEN;
    static constexpr Index nmin = 3;
};
struct RigGenEigs : RigGenBase
{
    static const char* name() { return "GenEigsSolver<DenseGenMatProd>"; }
    typedef Spectra::DenseGenMatProd<double> Op;
    typedef Spectra::GenEigsSolver<Op> Solver;
    Mat A;
    Op op;
    RigGenEigs(Index n, int, long seed) :
        A(gen_matrix(n, seed)), op(A) {}
    Solver* make(Index nev, Index ncv) { return new Solver(op, nev, ncv); }
};
struct RigGenRealShift : RigGenBase
{
    static const char* name() { return "GenEigsRealShiftSolver<DenseGenRealShiftSolve>"; }
    typedef Spectra::DenseGenRealShiftSolve<double> Op;
    typedef Spectra::GenEigsRealShiftSolver<Op> Solver;
    Mat A;
    Op op;
    RigGenRealShift(Index n, int, long seed) :
        A(gen_matrix(n, seed)), op(A) {}
    Solver* make(Index nev, Index ncv) { return new Solver(op, nev, ncv, -0.5); }
};
struct RigGenComplexShift : RigGenBase
{
    static const char* name() { return "GenEigsComplexShiftSolver<DenseGenComplexShiftSolve>"; }
    typedef Spectra::DenseGenComplexShiftSolve<double> Op;
    typedef Spectra::GenEigsComplexShiftSolver<Op> Solver;
    Mat A;
    Op op;
    RigGenComplexShift(Index n, int, long seed) :
        A(gen_matrix(n, seed)), op(A) {}
    Solver* make(Index nev, Index ncv) { return new Solver(op, nev, ncv, -0.5, 0.7); }
};
#endif

#if C12_UNIT == 3
struct RigGCholesky : RigDefaults
{
    static constexpr Family family = FAM_SYM;
    static const char* name() { return "SymGEigsSolver<DenseSymMatProd,DenseCholesky,Cholesky>"; }
    typedef Spectra::DenseSymMatProd<double> Op;
    typedef Spectra::DenseCholesky<double> BOp;
    typedef Spectra::SymGEigsSolver<Op, BOp, Spectra::GEigsMode::Cholesky> Solver;
    Mat A, B;
    Op op;
    BOp Bop;
    RigGCholesky(Index n, int, long seed) :
        A(sym_matrix(n, seed, 0)), B(sym_matrix(n, seed, 1)), op(A), Bop(B) {}
    Solver* make(Index nev, Index ncv) { return new Solver(op, Bop, nev, ncv); }
};
struct RigGRegInv : RigDefaults
{
    static constexpr Family family = FAM_SYM;
    static const char* name() { return "SymGEigsSolver<SparseSymMatProd,SparseRegularInverse,RegularInverse>"; }
    typedef Spectra::SparseSymMatProd<double> Op;
    typedef Spectra::SparseRegularInverse<double> BOp;
    typedef Spectra::SymGEigsSolver<Op, BOp, Spectra::GEigsMode::RegularInverse> Solver;
    SpMat A, B;
    Op op;
    BOp Bop;
    RigGRegInv(Index n, int, long seed) :
        A(sym_matrix(n, seed, 0).sparseView()), B(sym_matrix(n, seed, 1).sparseView()), op(A), Bop(B) {}
    Solver* make(Index nev, Index ncv) { return new Solver(op, Bop, nev, ncv); }
};
template <Spectra::GEigsMode Mode>
struct RigGShiftT : RigDefaults
{
    static constexpr Family family = FAM_SYM;
    static constexpr int NVAR = 4;
    static constexpr bool sigma_variants = true;
    static constexpr bool zero_sigma_rejected = (Mode != Spectra::GEigsMode::ShiftInvert);
    static const char* name()
    {
        return Mode == Spectra::GEigsMode::ShiftInvert ? "SymGEigsShiftSolver<SymShiftInvert,DenseSymMatProd,ShiftInvert>" :
                                                         (Mode == Spectra::GEigsMode::Buckling ? "SymGEigsShiftSolver<SymShiftInvert,DenseSymMatProd,Buckling>" :
                                                                                                 "SymGEigsShiftSolver<SymShiftInvert,DenseSymMatProd,Cayley>");
    }
    static const char* variant_name(int v) { return SIGMA_NAMES[v]; }
    typedef Spectra::SymShiftInvert<double, Eigen::Dense, Eigen::Dense> Op;
    typedef Spectra::DenseSymMatProd<double> BOp;
    typedef Spectra::SymGEigsShiftSolver<Op, BOp, Mode> Solver;
    // shift-invert / Cayley: op = (A - sigma B)^-1, Bop = B.  Buckling: op = (K - sigma KG)^-1, Bop = K (K = A, KG = B)
    Mat A, B;
    Op op;
    BOp Bop;
    double sigma;
    RigGShiftT(Index n, int v, long seed) :
        A(sym_matrix(n, seed, 0)), B(sym_matrix(n, seed, 1)), op(A, B), Bop(Mode == Spectra::GEigsMode::Buckling ? A : B), sigma(SIGMAS[v]) {}
    Solver* make(Index nev, Index ncv) { return new Solver(op, Bop, nev, ncv, sigma); }
};
typedef RigGShiftT<Spectra::GEigsMode::ShiftInvert> RigGShiftInvert;
typedef RigGShiftT<Spectra::GEigsMode::Buckling> RigGBuckling;
typedef RigGShiftT<Spectra::GEigsMode::Cayley> RigGCayley;
#endif

#if C12_UNIT == 4
typedef RigSymEigsT<Spectra::SparseSymMatProd<double>, true> RigSymEigsSparse;
typedef RigSymEigsShiftT<Spectra::SparseSymShiftSolve<double>, true> RigSymEigsShiftSparse;
typedef RigPartialSVDT<SpMat, true> RigPartialSVDSparse;

struct RigGenEigsSparse : RigDefaults
{
    static constexpr Family family = FAM_GEN;
    static constexpr Index nmin = 3;
    static const char* name() { return "GenEigsSolver<SparseGenMatProd>"; }
    typedef Spectra::SparseGenMatProd<double> Op;
    typedef Spectra::GenEigsSolver<Op> Solver;
    SpMat A;
    Op op;
    RigGenEigsSparse(Index n, int, long seed) :
        A(gen_matrix(n, seed).sparseView()), op(A) {}
    Solver* make(Index nev, Index ncv) { return new Solver(op, nev, ncv); }
};
// a user-defined operation class (the documentation allows "define their own that implements all the public members")
struct UserSymOp
{
    typedef double Scalar;
    const Mat& A;
    explicit UserSymOp(const Mat& a) :
        A(a) {}
    Index rows() const { return A.rows(); }
    Index cols() const { return A.cols(); }
    void perform_op(const double* x, double* y) const
    {
        Eigen::Map<const Vec> xv(x, A.cols());
        Eigen::Map<Vec> yv(y, A.rows());
        yv.noalias() = A * xv;
    }
};
struct RigSymEigsUser : RigDefaults
{
    static constexpr Family family = FAM_SYM;
    static const char* name() { return "SymEigsSolver<user functor>"; }
    typedef Spectra::SymEigsSolver<UserSymOp> Solver;
    Mat A;
    UserSymOp op;
    RigSymEigsUser(Index n, int, long seed) :
        A(sym_matrix(n, seed, 0)), op(A) {}
    Solver* make(Index nev, Index ncv) { return new Solver(op, nev, ncv); }
};
#endif

// kinds of this unit
#if C12_UNIT == 1
#define C12_KINDS(X) X(0, RigSymEigs) X(1, RigHermEigs) X(2, RigSymEigsShift) X(3, RigDavidson) X(4, RigPartialSVD)
static const int NKINDS = 5;
#elif C12_UNIT == 2
#define C12_KINDS(X) X(0, RigGenEigs) X(1, RigGenRealShift) X(2, RigGenComplexShift)
static const int NKINDS = 3;
#elif C12_UNIT == 3
#define C12_KINDS(X) X(0, RigGCholesky) X(1, RigGRegInv) X(2, RigGShiftInvert) X(3, RigGBuckling) X(4, RigGCayley)
static const int NKINDS = 5;
#else
#define C12_KINDS(X) X(0, RigSymEigsSparse) X(1, RigGenEigsSparse) X(2, RigSymEigsShiftSparse) X(3, RigPartialSVDSparse) X(4, RigSymEigsUser)
static const int NKINDS = 5;
#endif

// ------------------------------------------------------------------------------------------------------------------
// shared pieces
// ------------------------------------------------------------------------------------------------------------------
template <typename Rig>
static bool spec_accept(Index n, int variant, Index nev, Index ncv)
{
    if (Rig::zero_sigma_rejected && Rig::sigma_variants && SIGMAS[variant] == 0.0)  // true for +0.0 and -0.0
        return false;
    return spec_ctor(Rig::family, n, nev, ncv);
}
// distance <= 1 from the accept/reject boundary: some neighbour in (nev, ncv) (8-neighbourhood), or the same
// arguments with the zero-ness of sigma flipped, gets the other verdict
template <typename Rig>
static bool on_boundary(Index n, int variant, Index nev, Index ncv)
{
    bool a = spec_accept<Rig>(n, variant, nev, ncv);
    for (int dn = -1; dn <= 1; dn++)
        for (int dc = -1; dc <= 1; dc++)
            if (spec_accept<Rig>(n, variant, nev + dn, ncv + dc) != a)
                return true;
    if (Rig::sigma_variants && Rig::zero_sigma_rejected)
    {
        int flipped = (SIGMAS[variant] == 0.0) ? 0 : 1;
        if (spec_accept<Rig>(n, flipped, nev, ncv) != a)
            return true;
    }
    return false;
}

// a valid (nev, ncv) for a given n (n >= Rig::nmin)
template <typename Rig>
static void small_valid(Index n, Index& nev, Index& ncv)
{
    if (Rig::family == FAM_GEN)
    {
        nev = (std::max)(Index(1), n / 4);
        ncv = (std::min)(n, 2 * nev + 3);
    }
    else if (Rig::family == FAM_SYM)
    {
        nev = (std::max)(Index(1), n / 3);
        ncv = (std::min)(n, 2 * nev + 1);
    }
    else
    {
        nev = (std::max)(Index(1), n / 5);
        ncv = 0;  // Davidson: two-argument constructor
    }
}

// everything a caller can observe after compute()
struct Snap
{
    CMat vals, vecs;
    int info = -1;
    long niter = -1, nops = -1;
};
template <typename Rig>
static Snap snap_of(typename Rig::Solver& s)
{
    Snap r;
    r.vals = s.eigenvalues().template cast<cd>();
    r.vecs = s.eigenvectors().template cast<cd>();
    r.info = (int) s.info();
    r.niter = (long) s.num_iterations();
    if constexpr (Rig::has_ops)
        r.nops = (long) s.num_operations();
    return r;
}
static const char* snap_diff(const Snap& a, const Snap& b, bool counters)
{
    if (!vf::bits_equal(a.vals, b.vals))
        return "eigenvalues";
    if (!vf::bits_equal(a.vecs, b.vecs))
        return "eigenvectors";
    if (a.info != b.info)
        return "info";
    if (a.nops != b.nops)
        return "num_operations";
    if (counters && a.niter != b.niter)
        return "num_iterations";
    return nullptr;
}

static const Index MAXIT = 200;
template <typename Rig>
static Index compute_with(typename Rig::Solver& s, int sel, int sort)
{
    if constexpr (Rig::has_sorting)
        return s.compute(RULES[sel], MAXIT, 1e-10, RULES[sort]);
    else
        return s.compute(RULES[sel], MAXIT, 1e-10);
}
// valid rules for prefix / follow-up computes: LargestMagn is documented for every family, as selection and as sorting
static const int VSEL = 0, VSORT = 0;

// nonzero start vectors: 0 = first unit vector, 1 = all ones, 2 = 1e-100 * (1 + i mod 3)
template <typename Scalar>
static Eigen::Matrix<Scalar, Eigen::Dynamic, 1> start_vector(Index n, int kind)
{
    Eigen::Matrix<Scalar, Eigen::Dynamic, 1> v = Eigen::Matrix<Scalar, Eigen::Dynamic, 1>::Zero(n);
    for (Index i = 0; i < n; i++)
    {
        if (kind == 0)
            v[i] = Scalar(i == 0 ? 1.0 : 0.0);
        else if (kind == 1)
            v[i] = Scalar(1.0);
        else
            v[i] = Scalar(1e-100 * (double) (1 + i % 3));
    }
    return v;
}
// zero vectors: 0 = +0.0, 1 = -0.0, 2 = alternating signs of zero
template <typename Scalar>
static Eigen::Matrix<Scalar, Eigen::Dynamic, 1> zero_vector(Index n, int kind)
{
    Eigen::Matrix<Scalar, Eigen::Dynamic, 1> v(n);
    for (Index i = 0; i < n; i++)
        v[i] = Scalar((kind == 1 || (kind == 2 && i % 2)) ? -0.0 : 0.0);
    return v;
}
static const char* START_NAMES[3] = {"e1", "ones", "1e-100*(1+i%3)"};
static const char* ZERO_NAMES[3] = {"+0", "-0", "mixed-sign zeros"};

static void copy_what(char* dst, size_t cap, const char* src)
{
    std::strncpy(dst, src, cap - 1);
    dst[cap - 1] = 0;
}

// ------------------------------------------------------------------------------------------------------------------
// mode 0: constructor with (nev, ncv)
// ------------------------------------------------------------------------------------------------------------------
template <typename Rig>
static void ctor_case(vf::Case& c, Index n, int variant, long seed, Index nev, Index ncv)
{
    const bool accept = spec_accept<Rig>(n, variant, nev, ncv);
    const bool boundary = on_boundary<Rig>(n, variant, nev, ncv);
    {
        std::ostringstream os;
        os << "ctor " << Rig::name();
        if (Rig::NVAR > 1)
            os << " [" << Rig::variant_name(variant) << "]";
        os << " n=" << n << " nev=" << nev << " ncv=" << ncv << " seed=" << seed << " spec=" << (accept ? "accept" : "reject");
        c.add_desc(os.str());
    }
    c.sfeat["solver"] = Rig::name();
    c.sfeat["call"] = "ctor";
    c.cls(std::string("ctor/") + Rig::name());
    c.cls(accept ? "ctor_accept" : "ctor_reject");
    if (boundary)
        c.cls(accept ? "boundary_accept" : "boundary_reject");
    if (Rig::sigma_variants)
        c.cls(std::string("sigma/") + Rig::variant_name(variant));
    if (n > 12)
        c.cls("n>12");
    c.nontrivial = boundary;

    // The measured region covers the operator objects too: shift solvers factorize inside the USER's operator object during
    // construction (memory owned by that object, released with it), which is not a leak of the rejected call.
    bool threw = false;
    char what[160] = "";
    const long L0 = c12::live();
    {
        Rig rig(n, variant, seed);
        typename Rig::Solver* s = nullptr;
        try
        {
            s = rig.make(nev, ncv);
        }
        catch (const std::invalid_argument& e)  // exactly this type: anything else propagates and is a violation
        {
            threw = true;
            copy_what(what, sizeof what, e.what());
        }
        std::unique_ptr<typename Rig::Solver> guard(s);
        if (accept)
        {
            VF_CHECK(!threw, "valid_rejected", Rig::name() << " rejected n=" << n << " nev=" << nev << " ncv=" << ncv << " " << Rig::variant_name(variant) << " inside the documented range: \"" << what << "\"");
            if constexpr (Rig::has_init)
            {
                // the documented default initialisation (random nonzero residual) must be accepted on every valid solver
                bool init_threw = false;
                try
                {
                    s->init();
                }
                catch (const std::invalid_argument& e)
                {
                    init_threw = true;
                    copy_what(what, sizeof what, e.what());
                }
                VF_CHECK(!init_threw, "valid_init_rejected", Rig::name() << " n=" << n << " nev=" << nev << " ncv=" << ncv << " init() threw \"" << what << "\"");
            }
        }
    }
    const long L1 = c12::live();  // exception object, solver (if any) and operators are gone
    if (!accept)
    {
        VF_CHECK(threw, "invalid_accepted", Rig::name() << " accepted n=" << n << " nev=" << nev << " ncv=" << ncv << " " << Rig::variant_name(variant) << " (documented range violated)");
        c.rejected = true;
        c.feat["leak_blocks"] = (double) (L1 - L0);
        VF_CHECK(L1 == L0, "leak_rejected_ctor", Rig::name() << " n=" << n << " nev=" << nev << " ncv=" << ncv << ": " << (L1 - L0) << " heap block(s) still live after the rejected constructor (\"" << what << "\") and the destruction of its operator objects");
        return;
    }
    // accepted: recorded, not asserted (the property speaks about rejected calls)
    vf::report().stat("live_block_delta_after_accepted_ctor_lifecycle", (double) (L1 - L0));
}

// ------------------------------------------------------------------------------------------------------------------
// mode 1: compute() with every (selection, sorting) pair
// follow: 0 = after the rejected call init(w) + compute(valid) must equal a fresh solver's init(w) + compute(valid) in every
//             observable (values, vectors, info, counters);
//         1 = compute() again WITHOUT a new init: after an unsupported selection rule (nothing has been iterated yet)
//             everything must equal a fresh init() + compute(); after an unsupported sorting rule the same selection with a
//             supported sorting rule must return the fresh solver's pairs (compared when the fresh run converged; the iteration
//             counter is not compared because the rejected call may legitimately have done the iterations)
// prefix: the object has already completed a valid init() + compute() before the rejected call
// ------------------------------------------------------------------------------------------------------------------
template <typename Rig>
static void rules_case(vf::Case& c, Index n, long seed, int sel, int sort, int follow, int prefix)
{
    if constexpr (Rig::has_compute)
    {
        typedef typename Rig::Scalar Scalar;
        const bool sel_ok = spec_selection(Rig::family, sel);
        const bool sort_ok = Rig::has_sorting ? spec_sorting(Rig::family, sort) : true;
        const bool accept = sel_ok && sort_ok;
        Index nev, ncv;
        small_valid<Rig>(n, nev, ncv);
        {
            std::ostringstream os;
            os << "compute " << Rig::name() << " n=" << n << " nev=" << nev << " ncv=" << ncv << " seed=" << seed << " selection=" << RULE_NAMES[sel];
            if (Rig::has_sorting)
                os << " sorting=" << RULE_NAMES[sort];
            os << " spec=" << (accept ? "accept" : "reject") << " follow=" << (follow ? "compute-again" : "init+compute") << (prefix ? " after a completed run" : "");
            c.add_desc(os.str());
        }
        c.sfeat["solver"] = Rig::name();
        c.sfeat["call"] = "compute";
        c.sfeat["diff"] = "";  // created here: nothing may be allocated into the case record inside the measured region
        c.feat["sel_ok"] = sel_ok;
        c.feat["sort_ok"] = sort_ok;
        c.feat["follow"] = follow;
        c.cls(std::string("compute/") + Rig::name());
        c.cls(accept ? "rules_accept" : (!sel_ok && !sort_ok ? "rules_reject_both" : (!sel_ok ? "rules_reject_selection" : "rules_reject_sorting")));
        if (!accept)
            c.cls(follow ? "follow/compute_again" : "follow/init+compute");
        if (prefix)
            c.cls("rejected_call_after_completed_run");
        c.nontrivial = true;
        c.rejected = !accept;

        bool skipped_unconverged = false;
        const long L0 = c12::live();
        {
            Rig rx(n, 0, seed), ry(n, 0, seed);
            std::unique_ptr<typename Rig::Solver> X(rx.make(nev, ncv)), Y(ry.make(nev, ncv));
            Eigen::Matrix<Scalar, Eigen::Dynamic, 1> w = start_vector<Scalar>(n, 1);
            if (prefix)
            {
                if constexpr (Rig::has_init)
                    X->init();
                compute_with<Rig>(*X, VSEL, VSORT);
            }
            if constexpr (Rig::has_init)
                X->init();
            bool threw = false;
            char what[160] = "";
            try
            {
                compute_with<Rig>(*X, sel, sort);
            }
            catch (const std::invalid_argument& e)
            {
                threw = true;
                copy_what(what, sizeof what, e.what());
            }
            if (accept)
            {
                VF_CHECK(!threw, "valid_rule_rejected", Rig::name() << " compute(" << RULE_NAMES[sel] << ", sorting " << RULE_NAMES[sort] << ") threw \"" << what << "\" although both rules are documented for this solver");
            }
            else
            {
                VF_CHECK(threw, "invalid_rule_accepted", Rig::name() << " compute(" << RULE_NAMES[sel] << ", sorting " << RULE_NAMES[sort] << ") did not throw although " << (!sel_ok ? "the selection rule" : "the sorting rule") << " is not documented for this solver");
                // --- no partially built object: the same object with valid arguments reproduces a fresh solver ---
                const int sel2 = (follow == 1 && sel_ok) ? sel : VSEL;  // sorting-only rejection: keep the selection
                bool counters = true, compare = true;
                if (follow == 0 || !Rig::has_init)
                {
                    if constexpr (Rig::has_init)
                    {
                        X->init(w.data());
                        Y->init(w.data());
                    }
                }
                else
                {
                    if constexpr (Rig::has_init)
                        Y->init();
                    if (sel_ok)
                        counters = false;
                }
                compute_with<Rig>(*X, sel2, VSORT);
                compute_with<Rig>(*Y, sel2, VSORT);
                Snap sx = snap_of<Rig>(*X), sy = snap_of<Rig>(*Y);
                if (follow == 1 && Rig::has_init && sel_ok && sy.info != (int) Spectra::CompInfo::Successful)
                {
                    compare = false;
                    skipped_unconverged = true;
                }
                if (compare)
                {
                    const char* diff = snap_diff(sx, sy, counters);
                    c.sfeat["diff"].assign(diff ? diff : "");  // <= 15 characters: no allocation
                    VF_CHECK(diff == nullptr, "state_after_rejected_compute", Rig::name() << " after the rejected compute(" << RULE_NAMES[sel] << ", sorting " << RULE_NAMES[sort] << ") the object's " << (follow ? "next compute()" : "next init()+compute()") << " differs from a fresh solver in " << diff << " (nconv " << sx.vals.size() << " vs " << sy.vals.size() << ")");
                }
            }
        }
        const long L1 = c12::live();
        if (skipped_unconverged)
            c.cls("follow_not_compared_fresh_run_unconverged");
        c.feat["leak_blocks"] = (double) (L1 - L0);
        VF_CHECK(L1 == L0, "leak_after_compute_case", Rig::name() << ": " << (L1 - L0) << " heap block(s) still live after the solver that " << (accept ? "accepted" : "rejected") << " compute() was destroyed");
        // The Davidson solver has a second entry point that takes the selection rule, compute_with_guess(): the same rules are documented
        // for it, whatever the user's initial space looks like - unit vectors, or exact eigenvectors (the iteration is over before it starts and
        // only as many Ritz pairs exist as the guess has columns: a single one for nev = 1).
        if constexpr (Rig::family == FAM_DAV)
        {
            Eigen::SelfAdjointEigenSolver<Mat> es(sym_matrix(n, seed, 0));
            for (Index gnev = 1; gnev <= 2; gnev++)
                for (int gkind = 0; gkind < 3; gkind++)
                {
                    const Index gcols = gnev + (gkind == 2 ? 1 : 0);
                    Mat guess = Mat::Zero(n, gcols);
                    if (gkind == 0)
                        for (Index j = 0; j < gcols; j++)
                            guess(j, j) = 1;
                    else
                        guess = es.eigenvectors().rightCols(gcols);  // exact eigenvectors of the largest eigenvalues
                    const long G0 = c12::live();
                    bool threw = false, other = false;
                    {
                        Rig rg(n, 0, seed);
                        std::unique_ptr<typename Rig::Solver> G(rg.make(gnev, 0));
                        try
                        {
                            G->compute_with_guess(guess, RULES[sel], MAXIT, 1e-10);
                        }
                        catch (const std::invalid_argument&)
                        {
                            threw = true;
                        }
                        catch (...)
                        {
                            other = true;
                        }
                    }
                    const long G1 = c12::live();
                    static const char* const GK[3] = {"unit vectors", "exact eigenvectors", "exact eigenvectors, nev+1 columns"};
                    VF_CHECK(!other, "wrong_exception_type", Rig::name() << " compute_with_guess(" << GK[gkind] << ", " << RULE_NAMES[sel] << ") nev=" << gnev << " raised something other than std::invalid_argument");
                    if (sel_ok)
                        VF_CHECK(!threw, "valid_rule_rejected", Rig::name() << " compute_with_guess(" << GK[gkind] << ", " << RULE_NAMES[sel] << ") nev=" << gnev << " threw although the rule is documented for this solver");
                    else
                        VF_CHECK(threw, "invalid_rule_accepted", Rig::name() << " compute_with_guess(" << GK[gkind] << ", " << RULE_NAMES[sel] << ") nev=" << gnev << " did not throw although the selection rule is not documented for this solver");
                    VF_CHECK(G1 == G0, "leak_after_compute_case", Rig::name() << ": " << (G1 - G0) << " heap block(s) still live after compute_with_guess(" << GK[gkind] << ", " << RULE_NAMES[sel] << ")");
                }
            c.cls("davidson_compute_with_guess_rules");
        }
    }
}

// ------------------------------------------------------------------------------------------------------------------
// mode 2: init() with a zero vector (rejected) and then with a nonzero vector (accepted)
// ------------------------------------------------------------------------------------------------------------------
template <typename Rig>
static void init_case(vf::Case& c, Index n, long seed, int zero_kind, int start_kind, int prefix)
{
    if constexpr (Rig::has_init)
    {
        typedef typename Rig::Scalar Scalar;
        typedef Eigen::Matrix<Scalar, Eigen::Dynamic, 1> SVec;
        Index nev, ncv;
        small_valid<Rig>(n, nev, ncv);
        {
            std::ostringstream os;
            os << "init " << Rig::name() << " n=" << n << " nev=" << nev << " ncv=" << ncv << " seed=" << seed << " zero vector (" << ZERO_NAMES[zero_kind] << ") then start=" << START_NAMES[start_kind] << (prefix ? " after a completed run" : "");
            c.add_desc(os.str());
        }
        c.sfeat["solver"] = Rig::name();
        c.sfeat["call"] = "init";
        c.sfeat["diff"] = "";  // created here: nothing may be allocated into the case record inside the measured region
        c.cls(std::string("init/") + Rig::name());
        c.cls(std::string("zero_start/") + ZERO_NAMES[zero_kind]);
        c.cls(std::string("nonzero_start/") + START_NAMES[start_kind]);
        if (prefix)
            c.cls("rejected_call_after_completed_run");
        if (n > 12)
            c.cls("n>12");
        c.nontrivial = true;
        c.rejected = true;

        const long L0 = c12::live();
        {
            Rig rx(n, 0, seed), ry(n, 0, seed);
            std::unique_ptr<typename Rig::Solver> X(rx.make(nev, ncv)), Y(ry.make(nev, ncv));
            SVec z = zero_vector<Scalar>(n, zero_kind), w = start_vector<Scalar>(n, start_kind);
            if (prefix)
            {
                X->init();
                compute_with<Rig>(*X, VSEL, VSORT);
            }
            bool threw = false;
            try
            {
                X->init(z.data());
            }
            catch (const std::invalid_argument&)
            {
                threw = true;
            }
            VF_CHECK(threw, "zero_start_accepted", Rig::name() << " n=" << n << " init() accepted the zero vector (" << ZERO_NAMES[zero_kind] << ")");
            bool threw2 = false;
            char what[160] = "";
            try
            {
                X->init(w.data());
            }
            catch (const std::invalid_argument& e)
            {
                threw2 = true;
                copy_what(what, sizeof what, e.what());
            }
            VF_CHECK(!threw2, "nonzero_start_rejected", Rig::name() << " n=" << n << " init() rejected the nonzero vector " << START_NAMES[start_kind] << ": \"" << what << "\"");
            compute_with<Rig>(*X, VSEL, VSORT);
            Y->init(w.data());
            compute_with<Rig>(*Y, VSEL, VSORT);
            Snap sx = snap_of<Rig>(*X), sy = snap_of<Rig>(*Y);
            const char* diff = snap_diff(sx, sy, true);
            c.sfeat["diff"].assign(diff ? diff : "");  // <= 15 characters: no allocation
            VF_CHECK(diff == nullptr, "state_after_rejected_init", Rig::name() << " n=" << n << " after the rejected init(zero) the object's init(" << START_NAMES[start_kind] << ")+compute() differs from a fresh solver in " << diff);
        }
        const long L1 = c12::live();
        c.feat["leak_blocks"] = (double) (L1 - L0);
        VF_CHECK(L1 == L0, "leak_after_init_case", Rig::name() << ": " << (L1 - L0) << " heap block(s) still live after the solver that rejected init() was destroyed");
    }
}

// ------------------------------------------------------------------------------------------------------------------
// mode 3 (unit 4): wrapper constructors whose contract is a square matrix
// ------------------------------------------------------------------------------------------------------------------
#if C12_UNIT == 4
static const int NWRAP = 14;
static const char* WRAP_NAMES[NWRAP] = {"DenseCholesky", "DenseSymShiftSolve", "DenseGenRealShiftSolve", "DenseGenComplexShiftSolve",
                                        "SparseCholesky", "SparseSymShiftSolve", "SparseGenRealShiftSolve", "SparseGenComplexShiftSolve",
                                        "SparseRegularInverse", "DenseSymShiftSolve<Upper>",
                                        "SymShiftInvert<Dense,Dense>", "SymShiftInvert<Sparse,Dense>", "SymShiftInvert<Dense,Sparse>", "SymShiftInvert<Sparse,Sparse>"};
static bool wrap_two_matrices(int wk) { return wk >= 10; }

// r x c matrix; SPD when square (4 I + 0.5 * ones)
static Mat shape_matrix(Index r, Index c)
{
    Mat M = Mat::Constant(r, c, 0.5);
    for (Index i = 0; i < (std::min)(r, c); i++)
        M(i, i) += 4.0;
    return M;
}

template <typename W, typename M1>
static void construct1(const M1& a)
{
    W w(a);
    (void) w;
}
template <typename W, typename M1, typename M2>
static void construct2(const M1& a, const M2& b)
{
    W w(a, b);
    (void) w;
}

static void wrapper_case(vf::Case& c, int wk, Index rA, Index cA, Index rB, Index cB)
{
    const bool two = wrap_two_matrices(wk);
    const bool accept = two ? (rA == cA && rB == rA && cB == rA) : (rA == cA);
    {
        std::ostringstream os;
        os << "wrapper " << WRAP_NAMES[wk] << " A " << rA << "x" << cA;
        if (two)
            os << " B " << rB << "x" << cB;
        os << " spec=" << (accept ? "accept" : "reject");
        c.add_desc(os.str());
    }
    c.sfeat["solver"] = WRAP_NAMES[wk];
    c.sfeat["call"] = "wrapper_ctor";
    c.cls(std::string("wrapper/") + WRAP_NAMES[wk]);
    c.cls(accept ? "wrapper_accept" : "wrapper_reject");
    // distance 1 from the boundary: one dimension changed by one flips the verdict
    long dist = two ? (std::labs((long) (rA - cA)) + std::labs((long) (rB - rA)) + std::labs((long) (cB - rA))) : std::labs((long) (rA - cA));
    c.nontrivial = dist <= 1;
    if (c.nontrivial)
        c.cls(accept ? "boundary_accept" : "boundary_reject");
    if (rA > 4 || cA > 4)
        c.cls("shape>4");

    Mat A = shape_matrix(rA, cA), B = shape_matrix(rB, cB);
    SpMat As = A.sparseView(), Bs = B.sparseView();
    bool threw = false;
    char what[160] = "";
    const long before = c12::live();
    try
    {
        switch (wk)
        {
            case 0: construct1<Spectra::DenseCholesky<double>>(A); break;
            case 1: construct1<Spectra::DenseSymShiftSolve<double>>(A); break;
            case 2: construct1<Spectra::DenseGenRealShiftSolve<double>>(A); break;
            case 3: construct1<Spectra::DenseGenComplexShiftSolve<double>>(A); break;
            case 4: construct1<Spectra::SparseCholesky<double>>(As); break;
            case 5: construct1<Spectra::SparseSymShiftSolve<double>>(As); break;
            case 6: construct1<Spectra::SparseGenRealShiftSolve<double>>(As); break;
            case 7: construct1<Spectra::SparseGenComplexShiftSolve<double>>(As); break;
            case 8: construct1<Spectra::SparseRegularInverse<double>>(As); break;
            case 9: construct1<Spectra::DenseSymShiftSolve<double, Eigen::Upper>>(A); break;
            case 10: construct2<Spectra::SymShiftInvert<double, Eigen::Dense, Eigen::Dense>>(A, B); break;
            case 11: construct2<Spectra::SymShiftInvert<double, Eigen::Sparse, Eigen::Dense>>(As, B); break;
            case 12: construct2<Spectra::SymShiftInvert<double, Eigen::Dense, Eigen::Sparse>>(A, Bs); break;
            default: construct2<Spectra::SymShiftInvert<double, Eigen::Sparse, Eigen::Sparse>>(As, Bs); break;
        }
    }
    catch (const std::invalid_argument& e)
    {
        threw = true;
        copy_what(what, sizeof what, e.what());
    }
    const long after = c12::live();
    if (!accept)
    {
        VF_CHECK(threw, "nonsquare_accepted", WRAP_NAMES[wk] << " accepted A " << rA << "x" << cA << (two ? " with B " : "") << (two ? std::to_string(rB) + "x" + std::to_string(cB) : std::string()));
        c.rejected = true;
    }
    else
        VF_CHECK(!threw, "square_rejected", WRAP_NAMES[wk] << " rejected a square " << rA << "x" << cA << " matrix: \"" << what << "\"");
    c.feat["leak_blocks"] = (double) (after - before);
    VF_CHECK(after == before, "leak_wrapper_ctor", WRAP_NAMES[wk] << " " << rA << "x" << cA << ": " << (after - before) << " heap block(s) still live after the " << (accept ? "accepted (and destroyed)" : "rejected") << " constructor");
}
#endif

// ------------------------------------------------------------------------------------------------------------------
// decoding of one case.  Draw order (the exhaustive layer writes tapes in exactly this order):
//   mode 0: mode kind variant n seed nev_how nev ncv_how ncv
//   mode 1: mode kind n seed selection [sorting] [follow] prefix
//   mode 2: mode kind n seed zero_kind start_kind prefix
//   mode 3: mode wrapper rA cA [rB cB]
// ------------------------------------------------------------------------------------------------------------------
static Index NMAX = 64;

template <typename Rig>
static void go(int mode, vf::Draw& d, vf::Case& c)
{
    if (mode == 0)
    {
        int variant = (int) d.range("variant", 0, Rig::NVAR - 1);
        Index n = (Index) d.dim("n", 1, NMAX);
        long seed = d.range("seed", 0, 65535);
        // arguments: uniform over [-2, n+3], or anchored at a documented bound (so that large n still meets the boundary)
        Index hi = (Rig::family == FAM_GEN) ? n - 2 : n - 1;
        long how = d.range("nev_how", 0, 2);
        Index nev = (how == 0) ? (Index) d.range("nev", -2, n + 3) : (how == 1 ? 1 + (Index) d.range("nev_off", -3, 3) : hi + (Index) d.range("nev_off", -3, 3));
        how = d.range("ncv_how", 0, 2);
        Index ncv = (how == 0) ? (Index) d.range("ncv", -2, n + 3) : (how == 1 ? nev + (Index) d.range("ncv_off", -2, 4) : n + (Index) d.range("ncv_off", -3, 3));
        ctor_case<Rig>(c, n, variant, seed, nev, ncv);
    }
    else if (mode == 1)
    {
        Index n = (Index) d.range("n", 6, 12);
        long seed = d.range("seed", 0, 65535);
        int sel = (int) d.range("selection", 0, 8);
        int sort = Rig::has_sorting ? (int) d.range("sorting", 0, 8) : 0;
        int follow = (Rig::has_init) ? (int) d.range("follow", 0, 1) : 0;
        int prefix = (int) d.range("prefix", 0, 1);
        rules_case<Rig>(c, n, seed, sel, sort, follow, prefix);
    }
    else
    {
        Index n = (Index) d.dim("n", Rig::nmin, 24);
        long seed = d.range("seed", 0, 65535);
        int zk = (int) d.range("zero_kind", 0, 2);
        int sk = (int) d.range("start_kind", 0, 2);
        int prefix = (int) d.range("prefix", 0, 1);
        init_case<Rig>(c, n, seed, zk, sk, prefix);
    }
}

template <typename Rig>
static bool supports(int mode)
{
    return mode == 0 || (mode == 1 && Rig::has_compute) || (mode == 2 && Rig::has_init);
}
// kinds of this unit that support a mode
static std::vector<int> kinds_for(int mode)
{
    std::vector<int> v;
#define X(ID, RIG)          \
    if (supports<RIG>(mode)) \
        v.push_back(ID);
    C12_KINDS(X)
#undef X
    return v;
}

#if C12_UNIT == 4
static const int NMODES = 4;
#else
static const int NMODES = 3;
#endif

static void run_case(vf::Draw& d, vf::Case& c)
{
    int mode = (int) d.range("mode", 0, NMODES - 1);
#if C12_UNIT == 4
    if (mode == 3)
    {
        int wk = (int) d.range("wrapper", 0, NWRAP - 1);
        Index smax = vf::options().geti("shape_max", 9);
        Index rA = (Index) d.dim("rA", 0, smax), cA = (Index) d.dim("cA", 0, smax), rB = rA, cB = rA;
        if (wrap_two_matrices(wk))
        {
            rB = (Index) d.dim("rB", 0, smax);
            cB = (Index) d.dim("cB", 0, smax);
        }
        wrapper_case(c, wk, rA, cA, rB, cB);
        return;
    }
#endif
    static const std::vector<int> kinds[3] = {kinds_for(0), kinds_for(1), kinds_for(2)};
    const std::vector<int>& ks = kinds[mode];
    int kind = ks[(size_t) d.range("kind", 0, (long) ks.size() - 1)];
    switch (kind)
    {
#define X(ID, RIG)           \
    case ID:                 \
        go<RIG>(mode, d, c); \
        break;
        C12_KINDS(X)
#undef X
    }
}

// ------------------------------------------------------------------------------------------------------------------
// known findings
// ------------------------------------------------------------------------------------------------------------------
static std::string match(const vf::Violation& v, const vf::Case& c)
{
    // KF-C12-1 (D11): PartialSVDSolver's constructor `new`s its operator object and then constructs the inner
    // SymEigsSolver; when that constructor rejects (ncomp, ncv) the operator object (and its cache vector) is never freed.
    if (v.kind == "leak_rejected_ctor" && c.s("solver").rfind("PartialSVDSolver", 0) == 0 && c.f("leak_blocks") >= 1 && c.f("leak_blocks") <= 3)
        return "partial_svd_ctor_leak";
    return "";
}

// ------------------------------------------------------------------------------------------------------------------
// exhaustive layer
// ------------------------------------------------------------------------------------------------------------------
struct Exh
{
    long count = 0;
    int part = 0, parts = 1;
    long combo = 0;
    bool failed = false;
    bool mine() { return (combo++) % parts == part; }
    // returns false when a violation stops the layer
    bool feed(const std::vector<long>& tape)
    {
        vf::TapeDraw d(tape);
        vf::Case c;
        std::string msg, sig;
        int r = vf::execute(run_case, match, d, c, msg, sig);
        vf::report().account_enumerated(c);
        count++;
        if (r == 2)
        {
            vf::report().known_hits[sig]++;
            if (!vf::report().known_example.count(sig))
                vf::report().known_example[sig] = c.desc + " => " + msg;
        }
        else if (r == 1)
        {
            vf::report().violations++;
            vf::report().violation_msgs.push_back(msg + " | " + c.desc);
            if (!vf::options().failtape.empty())
                d.save(vf::options().failtape, std::string("C12 ") + msg + " | " + c.desc);
            failed = true;
            return false;
        }
        return true;
    }
};

template <typename Rig>
static bool exhaustive_kind(Exh& e, int nmax)
{
    static const std::vector<int> kinds[3] = {kinds_for(0), kinds_for(1), kinds_for(2)};
    auto index_of = [&](int mode, int id) -> long {
        for (size_t i = 0; i < kinds[mode].size(); i++)
            if (kinds[mode][i] == id)
                return (long) i;
        return -1;
    };
    int id = -1;
#define X(ID, RIG)                      \
    if (std::is_same<RIG, Rig>::value) \
        id = ID;
    C12_KINDS(X)
#undef X
    // mode 0: variant x n x (nev, ncv) in [-2, n+3]^2
    for (int variant = 0; variant < Rig::NVAR; variant++)
        for (long n = 1; n <= nmax; n++)
        {
            if (!e.mine())
                continue;
            for (long nev = -2; nev <= n + 3; nev++)
                for (long ncv = -2; ncv <= n + 3; ncv++)
                    if (!e.feed({0, index_of(0, id), variant, n, 0, 0, nev, 0, ncv}))
                        return false;
        }
    // mode 1: 9 x 9 rules x follow x prefix on small valid solvers (n = 7, 10, 12)
    if (Rig::has_compute)
        for (long sel = 0; sel < 9; sel++)
        {
            if (!e.mine())
                continue;
            for (long sort = 0; sort < (Rig::has_sorting ? 9 : 1); sort++)
                for (long follow = 0; follow < (Rig::has_init ? 2 : 1); follow++)
                    for (long prefix = 0; prefix < 2; prefix++)
                        for (long n : {7L, 10L, 12L})
                        {
                            std::vector<long> t = {1, index_of(1, id), n, 0, sel};
                            if (Rig::has_sorting)
                                t.push_back(sort);
                            if (Rig::has_init)
                                t.push_back(follow);
                            t.push_back(prefix);
                            if (!e.feed(t))
                                return false;
                        }
        }
    // mode 2: zero / nonzero start vectors, n in [nmin, nmax]
    if (Rig::has_init)
        for (long n = Rig::nmin; n <= nmax; n++)
        {
            if (!e.mine())
                continue;
            for (long zk = 0; zk < 3; zk++)
                for (long sk = 0; sk < 3; sk++)
                    for (long prefix = 0; prefix < 2; prefix++)
                        if (!e.feed({2, index_of(2, id), n, 0, zk, sk, prefix}))
                            return false;
        }
    return true;
}

static int exhaustive(int part, int parts)
{
    Exh e;
    e.part = part;
    e.parts = parts;
    const int nmax = 12;
    bool ok = true;
#define X(ID, RIG) \
    if (ok)        \
        ok = exhaustive_kind<RIG>(e, nmax);
    C12_KINDS(X)
#undef X
#if C12_UNIT == 4
    // mode 3: every shape in [0,4]^2 (0x0 is left out: an empty matrix is outside every documented use);
    // SymShiftInvert: every (A, B) shape pair in [1,4]^4
    for (long wk = 0; ok && wk < NWRAP; wk++)
    {
        if (!e.mine())
            continue;
        if (!wrap_two_matrices((int) wk))
        {
            for (long r = 0; ok && r <= 4; r++)
                for (long cc = 0; ok && cc <= 4; cc++)
                    if (!(r == 0 && cc == 0))
                        ok = e.feed({3, wk, r, cc});
        }
        else
        {
            for (long r = 1; ok && r <= 4; r++)
                for (long cc = 1; ok && cc <= 4; cc++)
                    for (long rb = 1; ok && rb <= 4; rb++)
                        for (long cb = 1; ok && cb <= 4; cb++)
                            ok = e.feed({3, wk, r, cc, rb, cb});
        }
    }
#endif
    if (!ok)
        return 1;
    vf::report().notes["exhaustive_layer"] = "unit " + std::to_string(C12_UNIT) + ": every solver kind x variant x n in [1,12] x (nev,ncv) in [-2,n+3]^2; 9x9 (selection,sorting) x follow-up x prefix at n=7,10,12; "
                                                                                  "zero/nonzero start vectors for n in [nmin,12]; wrapper shapes in [0,4]^2 (unit 4) (part " +
        std::to_string(part) + "/" + std::to_string(parts) + "): " + std::to_string(e.count) + " cases";
    vf::report().exhaustive = true;
    return 0;
}

int main(int argc, char** argv)
{
    vf::parse_args(argc, argv);
    NMAX = (Index) vf::options().geti("nmax", 64);
    if (vf::options().replay.empty() && vf::options().geti("exh", 1) != 0)
    {
        if (exhaustive((int) vf::options().geti("exh_part", 0), (int) vf::options().geti("exh_parts", 1)))
        {
            vf::write_out("C12");
            return 1;
        }
    }
    return vf::run_main(argc, argv, "C12", run_case, match);
}
