#!/usr/bin/env python3
"""tools/coverage.py [IDs...]  -- which lines of include/Spectra do the quick tiers actually execute?

Not a check and not evidence: a measurement of what the generators reach ("measure what the generator actually
produces"). Every g++ harness unit of the named properties (default: all) is rebuilt with --coverage into a scratch
directory outside /verif, the committed replays and the quick-tier run plan are executed, and gcov's per-line
counts are merged over all template instantiations and all units. The report lists, per library header, the
instrumented lines no unit executed. Sanitizer / clang / TSan flags are dropped (coverage only needs the paths).

  VCOV_DIR (default /tmp/vcov) scratch directory, removed at the end unless VCOV_KEEP=1
  VCOV_SCALE (default 1.0) multiplies the quick-tier case counts
"""
import sys, os, json, subprocess, glob, shutil, gzip, concurrent.futures as cf

HERE = os.path.dirname(os.path.dirname(os.path.abspath(__file__)))
sys.path.insert(0, HERE)
from props import PROPS, GUARD  # noqa: E402

REPO = os.environ.get('VERIF_REPO', '/repo')
INC = os.path.realpath(os.path.join(REPO, 'include'))
SCR = os.environ.get('VCOV_DIR', '/tmp/vcov')
SCALE = float(os.environ.get('VCOV_SCALE', '1'))
JOBS = int(os.environ.get('VERIF_JOBS', str(os.cpu_count() or 4)))
BASE = ['-std=gnu++17', '-O1', '-fno-fast-math', '-fno-inline', '--coverage', '-fprofile-update=atomic', '-D' + GUARD,
        '-I' + INC, '-I/usr/include/eigen3', '-I' + os.path.join(HERE, 'harness')]


def build(job):
    pid, u = job
    d = os.path.join(SCR, pid, u['name'])
    os.makedirs(d, exist_ok=True)
    flags = [f for f in u.get('flags', []) if not f.startswith(('-fsanitize', '-fno-sanitize', '-g', '-fno-omit'))]
    obj = os.path.join(d, 'u.o')
    exe = os.path.join(d, 'u')
    libs = [l for l in u.get('libs', ['-lrapidcheck'])] or ['-lrapidcheck']
    r = subprocess.run(['g++'] + BASE + flags + ['-c', os.path.join(HERE, 'harness', u['src']), '-o', obj], capture_output=True, text=True)
    if r.returncode == 0:
        r = subprocess.run(['g++', '--coverage', obj, '-o', exe] + libs + ['-lpthread'], capture_output=True, text=True)
    return pid, u, exe if r.returncode == 0 else None, r.stderr[-2000:]


def run(cmd, env):
    try:
        return subprocess.run(cmd, capture_output=True, text=True, env=env, timeout=3000, errors='replace').returncode
    except subprocess.TimeoutExpired:
        return -999


def open_sigs(pid):
    sig = []
    for line in open(os.path.join(HERE, 'KNOWN_FINDINGS.txt')):
        if line.startswith('finding:') and ('property=%s ' % pid) in line:
            sig += [t.split('=', 1)[1] for t in line.split() if t.startswith('sig=')]
    return ','.join(sorted(set(sig)))


def main():
    ids = [a for a in sys.argv[1:] if a in PROPS] or sorted(PROPS)
    shutil.rmtree(SCR, ignore_errors=True)
    jobs = []
    for pid in ids:
        for u in PROPS[pid]['units']:
            if u.get('cxx', 'g++') != 'g++' or 'tiers' in u:
                continue
            jobs.append((pid, u))
    built = []
    with cf.ThreadPoolExecutor(max_workers=JOBS) as ex:
        for pid, u, exe, err in ex.map(build, jobs):
            if exe is None:
                print('build failed', pid, u['name'], err)
                continue
            built.append((pid, u, exe))
    cmds = []
    for pid, u, exe in built:
        env = dict(os.environ)
        env.update({k: v for k, v in u.get('env', {}).items() if 'SAN_OPTIONS' not in k})
        for tape in sorted(glob.glob(os.path.join(HERE, 'replays', pid, u['name'], '*.tape'))):
            cmds.append(([exe, '--replay', tape, '--open', open_sigs(pid)] + u.get('replay_args', []), env))
        for r in PROPS[pid]['runs']['quick']:
            if r['unit'] != u['name'] or r.get('kind') == 'libfuzzer':
                continue
            nw = r.get('workers', 1)
            nw = JOBS if nw == 'all' else nw
            for w in range(nw):
                d = os.path.dirname(exe)
                cmd = [exe, '--cases', str(max(50, int(r['cases'] * SCALE))), '--seed', str(1000 + w), '--out', os.path.join(d, 'out%d.json' % w),
                       '--failtape', os.path.join(d, 'fail%d.tape' % w), '--hashes', os.path.join(d, 'h%d.bin' % w), '--open', open_sigs(pid)]
                if 'max_size' in r:
                    cmd += ['--max-size', str(r['max_size'])]
                for k, v in r.get('set', {}).items():
                    cmd += ['--set', '%s=%s' % (k, str(v).replace('{w}', str(w)).replace('{nw}', str(nw)))]
                cmds.append((cmd, env))
    with cf.ThreadPoolExecutor(max_workers=JOBS) as ex:
        rcs = list(ex.map(lambda c: run(*c), cmds))
    print('ran %d commands, exit codes: %s' % (len(cmds), sorted(set(rcs))))

    # ---- merge gcov output -------------------------------------------------------------------------------
    lines = {}      # file -> line -> max count
    by_unit = {}    # file -> line -> set(units)
    for pid, u, exe in built:
        d = os.path.dirname(exe)
        if not os.path.exists(os.path.join(d, 'u.gcda')):
            continue
        r = subprocess.run(['gcov', '--json-format', '--stdout', 'u.gcda'], cwd=d, capture_output=True)
        if r.returncode != 0:
            print('gcov failed for', d)
            continue
        for doc in r.stdout.decode(errors='replace').splitlines():
            if not doc.startswith('{'):
                continue
            j = json.loads(doc)
            for f in j.get('files', []):
                p = os.path.realpath(os.path.join(d, f['file']))
                if not p.startswith(INC + os.sep):
                    continue
                rel = os.path.relpath(p, INC)
                L = lines.setdefault(rel, {})
                for ln in f['lines']:
                    n = ln['line_number']
                    L[n] = max(L.get(n, 0), ln['count'])
                    if ln['count'] > 0:
                        by_unit.setdefault(rel, {}).setdefault(n, set()).add(u['name'])
    out = ['# Library line coverage of the quick tiers (%s)' % ', '.join(ids), '',
           'Produced by `tools/coverage.py` (g++ --coverage -O1 -fno-inline, gcov merged over all template instantiations and units).',
           'A line counts as reached when any instantiation in any unit executed it. Not evidence for any property: a map of what the generators reach.', '',
           '| header | instrumented lines | reached | not reached |', '|---|---|---|---|']
    detail = []
    tot = hit = 0
    for rel in sorted(lines):
        L = lines[rel]
        miss = sorted(n for n, c in L.items() if c == 0)
        tot += len(L)
        hit += len(L) - len(miss)
        out.append('| %s | %d | %d | %d |' % (rel, len(L), len(L) - len(miss), len(miss)))
        if miss:
            src = open(os.path.join(INC, rel), errors='replace').read().splitlines()
            detail.append('\n## %s\n' % rel)
            detail.append('```')
            for n in miss:
                detail.append('%5d: %s' % (n, src[n - 1] if n - 1 < len(src) else ''))
            detail.append('```')
    out.append('| **total** | %d | %d | %d |' % (tot, hit, tot - hit))
    os.makedirs(os.path.join(HERE, 'coverage'), exist_ok=True)
    name = 'summary.md' if len(ids) == len(PROPS) else 'summary-%s.md' % '-'.join(ids)
    open(os.path.join(HERE, 'coverage', name), 'w').write('\n'.join(out + detail) + '\n')
    print('\n'.join(out))
    if os.environ.get('VCOV_KEEP') != '1':
        shutil.rmtree(SCR, ignore_errors=True)


if __name__ == '__main__':
    main()
