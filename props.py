# Per-property configuration of the ./check driver: harness translation units, run plans per tier,
# minimum case counts (a run below them is "generator starved", never a pass), evidence texts.
GUARD = 'YIXUAN_SPECTRA_VERIF'

PROPS = {}
NOT_APPLICABLE = {}   # property id -> reason, for properties that are deliberately not claimed
HOOK_COMMITS = []     # commits in /repo that add guarded hooks

PROPS['C18'] = dict(
    level='exploration',
    technique='exhaustive enumeration over small tie-heavy alphabets + rapidcheck random vectors against a specification sort',
    level_text='Every vector of length <= 5 (quick) / <= 7 (thorough) over alphabets built to contain ties, signed zeros, sign pairs and '
               'conjugate pairs is enumerated for every rule and entry point and compared with a specification written from the SortRule '
               'documentation (permutation, key order, BothEnds prefix multiset, rejection of undefined rules); longer vectors are sampled. '
               'Exhaustive inside the stated bounds, sampling beyond them.',
    level_note='Trusts std::sort/IEEE comparisons in the oracle. complex x {LargestAlge, SmallestAlge, BothEnds} does not compile (operator< on '
               'std::complex) and is therefore rejected at compile time, not run.',
    units=[dict(name='c18', src='c18_sort.cpp')],
    runs=dict(
        quick=[dict(unit='c18', cases=4000, set=dict(exh_len=5))],
        thorough=[dict(unit='c18', cases=20000, workers='all', set=dict(exh_len=7, exh_part='{w}', exh_parts='{nw}'))],
    ),
    exhaustive_units=['c18'],
    min=dict(quick=dict(cases=1000000, nontrivial=500000), thorough=dict(cases=20000000, nontrivial=10000000)),
    rule='exhaustive layer: every vector of length 0..5 (quick) / 0..7 (thorough) over the real alphabet {-2,-1,-0.0,+0.0,1,1,2} '
         'and the complex alphabet {0,1,-1,i,-i,1+i,1-i,2} x 9 rules x {SortEigenvalue, argsort, argsort(len<size)}; rapidcheck layer: '
         'lengths <= 200 with heavy ties, plus solver-level rule dispatch. Non-trivial = the vector contains a tie in the rule key, '
         'or an undefined rule/type combination must be rejected; distinct = enumerated (distinct by construction) or 64-bit hash of the draw log.',
    tolerances='none (exact comparisons of keys)',
    assumptions=['std::sort and IEEE comparisons in the specification oracle'],
)
