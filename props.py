# Per-property configuration of the ./check driver: harness translation units, run plans per tier,
# minimum case counts (a run below them is "generator starved", never a pass), evidence texts.
GUARD = 'YIXUAN_SPECTRA_VERIF'

PROPS = {}
NOT_APPLICABLE = {}   # property id -> reason, for properties that are deliberately not claimed
HOOK_COMMITS = ['475b2b1', 'ccff399']     # commits in /repo that add guarded hooks
# checks that have been calibrated on the unchanged tree (several seeds, both tiers) and are claimed in MANIFEST.json
REGISTERED = ['C%02d' % i for i in range(1, 21)]

PROPS['C18'] = dict(
    level='exploration',
    technique='exhaustive enumeration over small tie-heavy alphabets + rapidcheck random vectors against a specification sort',
    level_text='Every vector of length <= 5 (quick) / <= 7 (thorough) over alphabets built to contain ties, signed zeros, sign pairs and '
               'conjugate pairs is enumerated for every rule and entry point and compared with a specification written from the SortRule '
               'documentation (permutation, key order, BothEnds prefix multiset, rejection of undefined rules); longer vectors are sampled, and so are vectors of values m*10^e over the whole exponent range of double '
               '(denormals to the largest finite values: magnitudes whose squares leave the range), and vectors of values that differ by one to six units in the last place (keys that are almost but not exactly equal). '
               'Exhaustive inside the stated bounds, sampling beyond them.',
    level_note='Trusts std::sort/IEEE comparisons in the oracle. complex x {LargestAlge, SmallestAlge, BothEnds} does not compile (operator< on '
               'std::complex) and is therefore rejected at compile time, not run.',
    units=[dict(name='c18', src='c18_sort.cpp')],
    runs=dict(
        quick=[dict(unit='c18', cases=4000, set=dict(exh_len=5))],
        thorough=[dict(unit='c18', cases=20000, workers='all', set=dict(exh_len=7, exh_part='{w}', exh_parts='{nw}'))],
    ),
    exhaustive_units=['c18'],
    min=dict(quick=dict(cases=1000000, nontrivial=500000, classes={'near_ties': 500, 'wide_range/huge': 150}), thorough=dict(cases=20000000, nontrivial=10000000)),
    rule='exhaustive layer: every vector of length 0..5 (quick) / 0..7 (thorough) over the real alphabet {-2,-1,-0.0,+0.0,1,1,2} '
         'and the complex alphabet {0,1,-1,i,-i,1+i,1-i,2} x 9 rules x {SortEigenvalue, argsort, argsort(len<size)}; rapidcheck layer: '
         'lengths <= 200 with heavy ties, wide-range values (tiny / huge / any band, real and complex, length <= 24), near ties (values a few ulp apart next to exactly equal ones, real and complex 3-4-5 multiples), plus solver-level rule dispatch. Non-trivial = the vector contains a tie in the rule key, '
         'or an undefined rule/type combination must be rejected; distinct = enumerated (distinct by construction) or 64-bit hash of the draw log.',
    tolerances='none (exact comparisons of keys)',
    assumptions=['std::sort and IEEE comparisons in the specification oracle'],
)

PROPS['C19'] = dict(
    level='exploration',
    technique='state-space enumeration (all 2^31-2 generator states in the thorough tier) + rapidcheck model-based histories against 64-bit modular arithmetic',
    level_text='Thorough: every generator state 1..2^31-2 is pushed through next_long_rand and the float/double scalar map and compared with '
               '(16807*s) mod (2^31-1) computed in 64-bit arithmetic (exhaustive); quick: every 127th state plus both ends. Every seed the library '
               'itself forms (0 and 2i+123j, i<2^20, j<5) is checked for a non-degenerate state. A rapidcheck state-machine layer draws scalar type, '
               'seeds, and interleavings of single / vector draws over several generator objects and threads, and compares each object with its own '
               'reference model (purity, range [-0.5,0.5], real-then-imaginary order for complex). A fourth mode records the start vector that init() without an argument hands to the operator (SymEigsSolver<double|float>, HermEigsSolver<complex<double>>, GenEigsSolver<double>) in the calling thread, in 1-4 consecutive or concurrent other threads (each initialising a solver of another size first) and in the calling thread again: all recordings must be bit-identical (which seed the library uses is not asserted).',
    level_note='Trusts 64-bit unsigned integer arithmetic of the compiler for the reference model. Seeds whose low 31 bits are all ones or all zeros '
               '(degenerate state) are outside the library\'s seed forms and are counted as rejected.',
    units=[dict(name='c19', src='c19_rand.cpp', libs=['-lrapidcheck', '-lpthread'])],
    runs=dict(
        quick=[dict(unit='c19', cases=6000, set=dict(stride=127))],
        thorough=[dict(unit='c19', cases=20000, workers='all', set=dict(stride=1, exh_part='{w}', exh_parts='{nw}'))],
    ),
    exhaustive_units=['c19'], exhaustive_tiers=['thorough'],
    min=dict(quick=dict(cases=10000000, nontrivial=1000000, classes={'default_start_vector': 800}), thorough=dict(cases=2000000000, nontrivial=100000000)),
    rule='enumeration layer: generator states s in [1, 2^31-2] (all of them in thorough, every 127th + 64 at each end in quick), each compared with '
         '16807*s mod (2^31-1) and with the float/double scalar map; non-trivial = the 16-bit split multiplication carries past 2^31-1 (either '
         'reduction branch taken), distinct by construction. rapidcheck layer: histories over 1-4 generator objects x 6 scalar types x seed forms x '
         'interleaved random()/random_vec() calls, and 2-8 concurrent threads; non-trivial = at least two draws; distinct = 64-bit hash of the draw log.',
    tolerances='none (bitwise equality with the reference model)',
    assumptions=['64-bit unsigned arithmetic in the reference model'],
)

KERNEL_ASSUME = ['long double products and Eigen 3.4 dense eigen-solvers (long double) as the reference']

PROPS['C08'] = dict(
    level='exploration',
    technique='rapidcheck generation of element-wise drawn Hessenberg / tridiagonal matrices and shifts; every identity recomputed in long double from the Q the class exposes',
    level_text='Random search with integrated shrinking over (class, scalar type, n <= 24, five entry patterns incl. exact-zero / negligible / '
               'Taylor-branch subdiagonals and scales 1e-100..1e100, four shift kinds incl. exact eigenvalues) checking Q orthogonal, R triangular with '
               'exact zeros, QR = H - sI, matrix_QtHQ = Q\'HQ with the documented shape (the destination is handed over empty, pre-filled with a constant at the same or another size, or NaN-filled; '
               'the object may have decomposed another matrix before), every apply_* overload against the explicit product (the matrix overloads on a plain matrix and on a row block of a taller matrix, i.e. an Eigen::Ref whose outer stride exceeds its row count, whose other rows must stay untouched), and the '
               'double-shift first-column condition, all to 64 n eps (||H||+|s|). Sampling, not a proof; the class histogram in evidence shows what was reached.',
    level_note='Reference products are formed in long double (for the long double instantiation the reference has the same precision; the asserted constant 64 '
               'leaves >15x headroom over the worst ratio observed). DoubleShiftQR is generated for n >= 3 and the other two for n >= 2 (the sizes their callers can produce).',
    units=[dict(name='c08', src='c08_qr.cpp')],
    runs=dict(
        quick=[dict(unit='c08', cases=5000, workers=4)],
        thorough=[dict(unit='c08', cases=100000, workers='all')],
    ),
    min=dict(quick=dict(cases=15000, nontrivial=8000, classes={'dest_prefilled_same_size': 3000, 'object_reused_after_other_compute': 1500, 'DoubleShiftQR/double': 300, 'TridiagQR/float': 300, 'negligible_subdiagonal': 500, 'exact_eigenvalue_shift': 500, 'first_column_checked': 500, 'operand/middle_rows_of_taller_matrix': 2000, 'operand/top_rows_of_taller_matrix': 2000}),
             thorough=dict(cases=1000000, nontrivial=500000)),
    rule='case = (class in {UpperHessenbergQR, TridiagQR, DoubleShiftQR}, scalar in {float,double,long double}, n, entry pattern, entries drawn one by one, '
         'subdiagonal treatment, content of the part documented as ignored, shift kind / shifts, constructor path, apply-operand shape). Non-trivial = at least one nonzero '
         'subdiagonal entry (otherwise Q is a signed identity); distinct = 64-bit hash of the draw log.',
    tolerances='all identities: 64*n*eps*(||H||_F+|s|) resp. 64*n*eps*||Y||_F; R below-diagonal and UpperHessenbergQR/TridiagQR band zeros exact; first column: sin(angle) <= 64 n eps (||H||^2+|s|||H||+|t|)/||Me1||, asserted when ||Me1|| >= sqrt(eps)*scale',
    assumptions=KERNEL_ASSUME,
)

PROPS['C09'] = dict(
    level='exploration',
    technique='rapidcheck generation of tridiagonal / Hessenberg matrices from ten structural classes (incl. defective, companion, zero, graded) against long double residual and structure oracles',
    level_text='Random search with shrinking over (class, scalar type, n <= 64, ten entry patterns incl. exact-zero subdiagonals, Jordan-like and companion matrices, '
               'equal-diagonal 2x2 blocks, the zero matrix, scales 1e-100..1e100) checking T Z = Z diag(d) and Z orthogonal, U T U\' = H with U orthogonal and T '
               'quasi-triangular, unit-norm Hessenberg eigenpairs with small residual, exact-zero imaginary parts / adjacent exact conjugate pairs (positive first), '
               'pairing of the eigenvalue list with the Schur diagonal blocks, trace, and that an iteration-limit failure is an exception, never numbers. History: with probability 1/2 the same object then '
               'decomposes another matrix of another size and the target again; the second result must be bit-identical to the first.',
    level_note='Reference arithmetic in long double; Eigen SelfAdjointEigenSolver<long double> for the symmetric eigenvalue cross-check. The iteration-limit exception is '
               'accepted and counted, as the property allows.',
    units=[dict(name='c09', src='c09_eigen.cpp')],
    runs=dict(
        quick=[dict(unit='c09', cases=4000, workers=4)],
        thorough=[dict(unit='c09', cases=60000, workers='all')],
    ),
    min=dict(quick=dict(cases=12000, nontrivial=5000, classes={'UpperHessenbergEigen/double': 300, 'TridiagEigen/float': 300, 'complex_pairs': 500, 'near_multiple_eigenvalue': 300, 'UpperHessenbergEigen/jordan_like': 100, 'UpperHessenbergSchur/reducible_small_int_blocks': 200, 'object_reused_after_other_matrix': 4000}),
             thorough=dict(cases=600000, nontrivial=300000)),
    rule='case = (class in {TridiagEigen, UpperHessenbergSchur, UpperHessenbergEigen}, scalar in {float,double,long double}, pattern (10 classes), n, entries / content seed, '
         'scale, constructor path). Non-trivial = n >= 3 and the matrix is not diagonal; distinct = 64-bit hash of the draw log.',
    tolerances='64*n*eps*||.||_F for every identity; unit norm 64 n eps; pairing with Schur blocks: delta=64 n eps ||H||, allowed max(delta, min(sqrt(delta*||block||), delta*||block||/sqrt|q|)) for a 2x2 block with discriminant 4q (its eigenvalues are that ill-conditioned)',
    assumptions=KERNEL_ASSUME,
)

PROPS['C10'] = dict(
    level='exploration',
    technique='rapidcheck generation of symmetric / Hermitian matrices (small-integer, zero-diagonal, graded, block, SPD, indefinite, entry-wise wild scales) x shifts x storage forms; backward-error, exact-determinant (Bareiss) and metamorphic oracles',
    level_text='Random search with shrinking over scalar type (real and complex, three precisions), n <= 40, eight matrix classes (entries m*10^e drawn one by one with arbitrary relative magnitudes, n <= 7; element-wise drawn small integers where '
               'singularity is decided exactly by a Bareiss determinant; zero diagonals that force 2x2 pivots; graded; block diagonal), four shift kinds, five argument forms '
               '(col/row major, block, Map, expression), both triangles, right-hand sides that are random or of the form M y (solution with order-one components on every row), recompute-after-failure histories and reuse of one object after it factorized and solved another system of another size '
               '(status and solution bit-identical to a fresh object). Asserts: success whenever sigma_min >= 1e-6 ||M||; backward error <= 64 n eps '
               '(||M|| ||x|| + ||b||) for every Successful solve; lower/upper status equal and solutions within 64 n eps cond; unused triangle never read (bit-identical); '
               'DenseSymShiftSolve::set_shift throws invalid_argument exactly when the factorization reports non-success.',
    level_note='sigma_min from Eigen SelfAdjointEigenSolver<complex long double>; exact singularity only for real integer matrices with integer shift (128-bit Bareiss).',
    units=[dict(name='c10', src='c10_bkldlt.cpp')],
    runs=dict(
        quick=[dict(unit='c10', cases=15000, workers=4)],
        thorough=[dict(unit='c10', cases=80000, workers='all', set=dict(nmax=80))],
    ),
    min=dict(quick=dict(cases=15000, nontrivial=8000, classes={'class/small_integer': 1000, 'class/zero_diagonal': 500, 'DenseSymShiftSolve wrapper': 1000, 'n=1': 50, 'reported_singular': 100, 'recompute_after_failure': 1000, 'exact_zero_line': 1000, 'exact_zero_line_at_n-2': 100, 'object_reused_after_other_system': 3000, 'class/wild_entry_scales': 1200, 'rhs_is_M_times_y': 4000}),
             thorough=dict(cases=1000000, nontrivial=500000)),
    rule='case = (scalar type, matrix class, n, entries or content seed, scale, shift kind, argument form, first triangle, constructor path, optional failing factorization first, rhs seed) '
         'or a DenseSymShiftSolve wrapper case. Each case factorizes three times (given triangle, other triangle, given triangle with garbage in the unused one). '
         'Non-trivial = n >= 2; distinct = 64-bit hash of the draw log.',
    tolerances='backward error 64 n eps (||A-sI||_F ||x|| + ||b||); lower/upper agreement 64 n eps cond_2 ||x||; "nonsingular" = sigma_min >= 1e-6 ||A-sI||_F',
    assumptions=KERNEL_ASSUME,
)

SOLVER_ASSUME = ['long double residuals / Gram matrices; Eigen SelfAdjointEigenSolver<complex long double> for reference spectra',
                 'H1 observer (guarded hook) used only to count restarts and to classify breakdown handling, never for the verdict on a pair']

def real_units(prefix, src, extra=None):
    return [dict(name=prefix + '_' + tag, src=src, flags=['-DVF_REAL=' + ty] + (extra or []))
            for tag, ty in (('d', 'double'), ('f', 'float'), ('l', 'long double'))]

PROPS['C01'] = dict(
    level='exploration',
    technique='rapidcheck stateful generation: spectrum recipe x solver/operator form x argument space x init/compute histories; long double residual and Gram oracles after every compute()',
    level_text='Random search with shrinking over {SymEigsSolver, HermEigsSolver, SymEigsShiftSolver} x {float, double, long double (and their complex types)} x '
               '{dense wrapper, sparse wrapper, user functor} x nine spectrum classes (ties, clusters, graded over 16 decades, exactly low rank, decoupled blocks) x scale 1e-8..1e8 x '
               'legal (nev, ncv) incl. ncv = nev+1 and ncv = n x 5 selection rules x tol from 8 eps to 1e-3 x maxit 0..20/1000 x start vectors (default, random, eigenvector, '
               'combination of eigenvectors, unit vector) x histories of up to 5 init()/compute() calls. After EVERY compute() each returned pair must have unit norm, residual '
               '<= tol*documented scale + 64 n eps (1+restarts) ||A||, and the vectors must be orthonormal to 64 n eps (1+restarts).',
    level_note='Shift mode: the bound is the exact consequence of the documented test in nu, pushed through lambda = sigma + 1/nu, with cond(A - sigma I) taken from a long double reference spectrum. '
               'Restart count comes from the guarded observer. Zero matrices are left to C13.',
    units=real_units('c01', 'c01_sym.cpp'),
    runs=dict(
        quick=[dict(unit='c01_d', cases=6000, workers=2), dict(unit='c01_f', cases=6000, workers=1), dict(unit='c01_l', cases=6000, workers=1)],
        thorough=[dict(unit='c01_d', cases=40000, workers=8, set=dict(nmax=100)), dict(unit='c01_f', cases=40000, workers=4, set=dict(nmax=60)), dict(unit='c01_l', cases=40000, workers=4, set=dict(nmax=60))],
    ),
    min=dict(quick=dict(cases=10000, nontrivial=4000, classes={'partial_convergence': 20, 'history_with_2+_computes': 500, 'compute_without_fresh_init': 300, 'breakdown_seen_by_observer': 100,
                                                             'form/sparse_wrapper': 500, 'form/user_functor': 500, 'start/eigenvector': 100}),
             thorough=dict(cases=400000, nontrivial=150000)),
    rule='case = (solver, scalar, operator form, spectrum class, n <= 40, content seed, scale, nev, ncv, history of init/compute ops each with its own start vector / selection / sorting / maxit / tol, sigma position). '
         'Every compute() in the history is checked. Non-trivial = some compute returned >= 1 pair and n >= 4; distinct = 64-bit hash of the draw log.',
    tolerances='unit norm 8 n eps (1+r); residual tol*max(eps^(2/3),|theta|) + 64 n eps (1+r) ||A||_F (plain) / tol*||A-sI||_2*max(1,eps^(2/3)/|nu|) + 64 n eps (1+r)(||A|| + cond(A-sI) ||A-sI|| numax/|nu|) (shift); orthonormality 64 n eps (1+r); r = restarts seen by the observer since init',
    assumptions=SOLVER_ASSUME,
)

PROPS['C07'] = dict(
    level='exploration',
    technique='rapidcheck stateful generation of restart / extension sequences on Arnoldi and Lanczos (direct drive) plus observed solver runs; the guarded observer hands every passed-on factorization to a long double invariant oracle',
    level_text='Mode A drives Arnoldi<real>, Lanczos<real>, Lanczos<complex> and Lanczos with a B inner product through init / factorize_from / compress_H / compress_V with drawn '
               'sequences of up to 30 extensions and implicit restarts (exact Ritz shifts as the solvers use, arbitrary real shifts, arbitrary conjugate pairs via DoubleShiftQR), start '
               'vectors in invariant subspaces, nine spectrum classes and scales 1e-8..1e8. Mode B runs SymEigs/HermEigs/GenEigs/SymEigsShift/SymGEigs(RegularInverse)/SymGEigsShift(ShiftInvert) '
               'solvers. At every EvInit / EvExtended / EvCompressed event the observer checks ||OP V - V H - f e_k\'||_F, V^H B V - I, V^H B f, the band structure of H, the advertised k and ||f||.',
    level_note='The reference operator (A, (A - sigma I)^-1, B^-1 A, (A - sigma B)^-1 B) is formed in long double; where the user operator itself solves a linear system in working precision the '
               'constant is multiplied by that system\'s condition number (taken from the reference, not from the code under test).',
    units=real_units('c07', 'c07_krylov.cpp'),
    runs=dict(
        quick=[dict(unit='c07_d', cases=2500, workers=2), dict(unit='c07_f', cases=2500, workers=1), dict(unit='c07_l', cases=2500, workers=1)],
        thorough=[dict(unit='c07_d', cases=30000, workers=8), dict(unit='c07_f', cases=30000, workers=4), dict(unit='c07_l', cases=30000, workers=4)],
    ),
    min=dict(quick=dict(cases=8000, nontrivial=3000, classes={'with_restart': 2000, 'double_shift': 100, 'B_inner_product': 500, 'direct/Lanczos<complex Hermitian>': 300}),
             thorough=dict(cases=300000, nontrivial=100000)),
    rule='case = direct drive (factorization kind, n <= 30, m, matrix recipe, start vector kind, op sequence of extensions / restarts with shift source and single/double shifts) or observed solver run '
         '(solver, recipe, nev, ncv, start, 1-2 computes with selection / maxit <= 50 / tol). Non-trivial = at least one implicit restart (or >= 3 checked hand-over points); distinct = 64-bit hash of the draw log.',
    tolerances='||OP V - V H - f e_k\'||_F <= c (1+r) n eps ||OP||_F; max|V^H B V - I| <= c (1+r) n eps kappa(B); max|V^H B f| <= c (1+r) n eps kappa(B) ||OP||; H outside its band <= c n eps ||OP||; '
               'c = 64, times cond of the linear system a user operator solves in working precision; r = implicit restarts since init',
    assumptions=SOLVER_ASSUME,
)

# per-property snippets (one file per property, same PROPS[...] = dict(...) form as above)
import glob as _glob, os as _os
for _f in sorted(_glob.glob(_os.path.join(_os.path.dirname(_os.path.abspath(__file__)), 'props_d', '*.py'))):
    exec(compile(open(_f).read(), _f, 'exec'))
