#!/usr/bin/env python3
"""Regenerates MANIFEST.json from props.py (single source of truth for the registered checks)."""
import json, os, subprocess
from props import PROPS, GUARD, NOT_APPLICABLE, HOOK_COMMITS, REGISTERED
HERE = os.path.dirname(os.path.abspath(__file__))
ids = [json.loads(l)['id'] for l in open(os.path.join(HERE, 'properties.jsonl'))]
checks = []
for pid in ids:
    if pid not in PROPS or pid not in REGISTERED:
        continue
    P = PROPS[pid]
    checks.append({
        'property_id': pid,
        'quick_cmd': './check %s --tier quick' % pid,
        'thorough_cmd': './check %s --tier thorough' % pid,
        'evidence_file': '/verif/evidence/%s.json' % pid,
        'replay_cmd_template': './check %s --replay {path}' % pid,
        'engine': P.get('engine', 'rapidcheck'),
        'level_claimed': {'category': P['level'], 'text': P['level_text'], 'design_ref': 'DESIGN.md section 6, ' + pid},
        'level_note': P['level_note'],
        'technique': P['technique'],
    })
na = []
for pid in ids:
    if pid in PROPS and pid in REGISTERED:
        continue
    na.append({'property_id': pid, 'reason': NOT_APPLICABLE.get(pid, 'check not built yet; planned in DESIGN.md section 6 (property-based testing applies, no check is registered until it is calibrated on the unchanged tree)')})
m = {
    'version': 1,
    'setup_cmd': 'mkdir -p build evidence && chmod +x check mutants/run.py',
    'hooks': {
        'guard': GUARD,
        'enable': 'every harness TU is compiled with -D%s -I/repo/include (see check: BASE_FLAGS)' % GUARD,
        'baseline_off_cmd': 'cmake --build /repo/_build && ctest --test-dir /repo/_build -j8 --timeout 900',
        'source_commits': HOOK_COMMITS,
        'add_only': True,
    },
    'engines': [
        {'name': 'rapidcheck', 'path': '/usr/include/rapidcheck', 'serves_properties': [c['property_id'] for c in checks], 'kind_free_text': 'property-based generation with integrated shrinking; every choice of a case is a logged bounded integer draw (harness/vf/draw.hpp), replayable without the library'},
        {'name': 'libFuzzer+ASan+UBSan', 'path': 'clang++ -fsanitize=fuzzer,address,undefined', 'serves_properties': [p for p in ('C13',) if p in PROPS], 'kind_free_text': 'coverage-guided structure-aware fuzzing of the same run_case'},
    ],
    'checks': checks,
    'not_applicable': na,
    'notes': 'All checks: ./check <ID> --tier quick|thorough; env VERIF_SEED, VERIF_REPO (default /repo), VERIF_JOBS. Known findings: KNOWN_FINDINGS.txt. Mutation self-test: mutants/run.py.',
}
json.dump(m, open(os.path.join(HERE, 'MANIFEST.json'), 'w'), indent=1)
print('checks:', [c['property_id'] for c in checks], 'not_applicable:', len(na))
