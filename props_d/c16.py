PROPS['C16'] = dict(
    level='exploration',
    technique='rapidcheck stateful generation: matrix recipe (prescribed / exactly rank-deficient / repeated / graded singular values) x shape x storage form x (ncomp, ncv) x histories of '
              'compute(maxit, tol) with matrix_U/V(k) calls in between; long double JacobiSVD reference, long double residual / Gram oracles, and a fresh-solver differential oracle',
    level_text='Random search with shrinking over PartialSVDSolver<MatrixType> for MatrixType in {dense column-major, dense row-major, sparse column-major, sparse row-major, block of a larger dense matrix} x '
               '{float, double} x {tall, wide, square} (2 <= min(m,n) <= 39, max(m,n) <= 40) x nine matrix classes (small integers, geometrically separated, uniform random, exactly rank-deficient integer '
               'products, exact / approximate multiplicities, graded over up to 16 decades, tight top cluster, banded, numerically zero tail) x scale 1e-8..1e8 (float 1e-4..1e4) x every legal (ncomp, ncv) x '
               'histories of 1-3 compute() calls (default arguments, maxit 0..20/1000, tol 8 eps..1e-3) with matrix_U(k)/matrix_V(k) for k below, at and above nconv after any of them. After EVERY compute(): '
               'count consistency; singular values finite, >= 0, non-increasing; an order-preserving injective matching of the returned values into the reference singular values (genuine, with multiplicity) within '
               'delta/(sigma+s); the largest ones where that is decidable (see tolerances). After every factor request: shapes m x min(k,nconv) / n x min(k,nconv); bit-identity with a fresh solver given the '
               'arguments of the most recent compute(); eigenvector-side factor orthonormal; for sigma >= 1e-4 ||A||_F the derived factor orthonormal and A V = U S, A\'U = V S.',
    level_note='All bounds are consequences of the documented SymEigsSolver test applied to the Gram operator (delta = tol*max(eps^(2/3), sigma^2) + 64 (m+n) eps (1+restarts) ||A||_F^2) pushed through sigma = sqrt(theta) '
               'and y = B x / sigma; no free constants besides the 64 of DESIGN section 3. Restart counts come from the guarded observer. Consequence worth knowing: below sigma^2 = eps^(2/3) '
               '(sigma < 6e-6 in double, 5e-3 in float) the inner test is absolute, so accuracy relative to ||A|| degrades and the "largest" clause is not asserted there. Non-increasing order is asserted up to 4 ulp '
               '(Eigen\'s default vectorised float sqrt is 1-2 ulp off and differs from the scalar path). The zero matrix is left to C13; leaks in the constructor to C12.',
    units=[dict(name='c16_d', src='c16_svd.cpp', flags=['-DVF_REAL=double']), dict(name='c16_f', src='c16_svd.cpp', flags=['-DVF_REAL=float'])],
    runs=dict(
        quick=[dict(unit='c16_d', cases=15000, workers=2), dict(unit='c16_f', cases=15000, workers=2)],
        thorough=[dict(unit='c16_d', cases=60000, workers=8), dict(unit='c16_f', cases=60000, workers=8)],
    ),
    min=dict(quick=dict(cases=50000, nontrivial=25000,
                        classes={'shape/tall': 8000, 'shape/wide': 8000, 'shape/square': 8000, 'form/dense_rowmajor': 5000, 'form/sparse_colmajor': 5000, 'form/sparse_rowmajor': 5000,
                                 'form/dense_colmajor_block': 5000, 'history_with_2+_computes': 20000, 'factors_requested_after_a_later_compute_(cache_populated_earlier)': 8000,
                                 'ncomp_beyond_exact_rank': 500, 'ncomp_beyond_numerical_rank_of_the_Gram_matrix': 1500, 'partial_convergence': 1500, 'k<nconv': 15000, 'k>nconv': 15000,
                                 'largest_asserted/ncv=p/all_converged': 10000, 'largest_asserted/ncv<p_separated/all_converged': 5000, 'some_requested_sigma_below_1e-4_normA': 2500,
                                 'class/exact_low_rank': 3000, 'class/repeated': 3000, 'class/graded': 3000}),
             thorough=dict(cases=900000, nontrivial=400000)),
    rule='case = (scalar type, shape, matrix class, p = min(m,n), extra rows/columns, content seed / class parameters, scale, ncomp, ncv, storage form, 1-3 computes each with (default | maxit, tol), '
         'optional matrix_U(k)/matrix_V(k) after each compute (always after the last) with k in {ncomp, ncomp+3, nconv-1, drawn}, call order). Every compute() in the history is checked. '
         'Non-trivial = at least one factor request returned >= 1 triplet and was checked, and (the history has >= 2 computes, or the input is exactly rank deficient, or ncomp exceeds the number of singular '
         'values >= 1e-4 ||A||_F); distinct = 64-bit hash of the draw log.',
    tolerances='delta(sigma) = tol*max(eps^(2/3), sigma^2) + 64 (m+n) eps (1+r) ||A||_F^2, r = restarts seen by the observer; values: |sigma - s| <= delta/(sigma+s) + 64 eps max(sigma,s); '
               'eigenvector-side factor: max|X\'X-I| <= 64 min(m,n) eps (1+r); product by construction: 64 (m+n) eps ||A||_F; inherited product: delta/sigma + 64 (m+n) eps ||A||_F; derived-side Gram entry (i,j): '
               'min over the two orderings of 64 p eps (1+r) sigma_j/sigma_i + delta(sigma_j)/(sigma_i sigma_j), plus 64 (m+n) eps ||A||_F (1/sigma_i + 1/sigma_j); factor identities only for sigma >= 1e-4 ||A||_F; '
               '"largest" asserted iff ncv = min(m,n) (complete factorization), or the leading ncomp+1 reference values are separated by >= 1e-2 sigma_1 and sigma_ncomp^2 >= eps^(2/3); order up to 4 ulp',
    assumptions=['long double residuals / Gram matrices; Eigen JacobiSVD<long double> for the reference singular values',
                 'H1 observer (guarded hook) used only to count restarts, never for the verdict on a triplet',
                 'a second PartialSVDSolver object on the same input as the reference for "describes the most recent compute()" (differential, bitwise)'],
)
