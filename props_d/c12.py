def _c12_units():
    # one source, four translation units (solver instantiations compile in parallel); UNSANITISED on purpose:
    # the harness interposes the malloc family to count live heap blocks (ASan would own malloc)
    return [dict(name='c12_' + tag, src='c12_args.cpp', flags=['-DC12_UNIT=%d' % k])
            for k, tag in ((1, 'a'), (2, 'b'), (3, 'c'), (4, 'd'))]


PROPS['C12'] = dict(
    level='exploration',
    technique='exhaustive enumeration of (solver, n, nev, ncv), (selection, sorting) rule pairs, zero/nonzero start vectors and wrapper shapes against a '
              'specification predicate written from the doxygen text + rapidcheck layer with larger n and sparse / user operators; in-process live-heap-block '
              'counter (interposed malloc family) as leak oracle; bitwise comparison with a fresh solver after every rejected init()/compute()',
    level_text='Every solver class (SymEigs, HermEigs, SymEigsShift, GenEigs, GenEigsRealShift, GenEigsComplexShift, SymGEigs Cholesky/RegularInverse, '
               'SymGEigsShift ShiftInvert/Buckling/Cayley, Davidson, PartialSVD square/tall/wide; plus sparse-wrapper and user-functor operators) is constructed for every '
               'n in 1..12 and every (nev, ncv) in [-2, n+3]^2 (Buckling/Cayley/ShiftInvert additionally with sigma in {-0.5, +0, -0, 1e-300}); compute() is called with all 9 x 9 '
               '(selection, sorting) SortRule pairs on valid solvers of size 7, 10 and 12 (Davidson also through compute_with_guess() with unit-vector and exact-eigenvector guesses of nev and nev+1 columns, nev = 1, 2: every selection rule must be accepted or rejected there exactly as by compute()); init() is given three kinds of zero vector and three kinds of nonzero vector for every n up to 12; the '
               'ten wrapper constructors whose contract is a square matrix get every shape in [0,4]^2 (SymShiftInvert every (A,B) shape pair in [1,4]^4). The verdict of each call is '
               'compared with a predicate written from the documentation: reject => exactly std::invalid_argument (any other exception type or an Eigen assertion is a violation), '
               'accept => no exception (and the default init() is accepted). After a rejected call the number of live heap blocks must be back to its value before the operators were '
               'built, and after a rejected init()/compute() the same object given valid arguments must reproduce a fresh solver bit for bit (values, vectors, info, counters). '
               'Exhaustive inside the stated bounds; a rapidcheck layer samples n up to 64 (160 in thorough) with arguments anchored at the documented bounds and random operator content.',
    level_note='Double precision only (the validation code does not depend on the scalar type). Davidson and PartialSVD constructors have no doxygen text: their ranges are taken from the '
               'property statement / the message of the exception (Davidson: 1 <= nev <= n-1, search-space sizes unconstrained; PartialSVD: as SymEigsSolver on min(rows, cols)). '
               'Wrappers without a squareness contract (the *MatProd classes) are not claimed. Memory owned by the user\'s operator object (a factorization made by set_shift during '
               'construction) is not counted as a leak: the measured region ends after the operators are destroyed. A compute() repeated without init() after an unsupported *sorting* '
               'rule is compared in values/vectors/info/operation count only (the rejected call may legitimately have iterated).',
    units=_c12_units(),
    runs=dict(
        quick=[dict(unit='c12_' + t, cases=25000) for t in 'abcd'],
        thorough=[dict(unit='c12_' + t, cases=100000, workers=4, set=dict(nmax=160, shape_max=24, exh_part='{w}', exh_parts='{nw}')) for t in 'abcd'],
    ),
    exhaustive_units=['c12_a', 'c12_b', 'c12_c', 'c12_d'],
    min=dict(quick=dict(cases=150000, nontrivial=60000,
                        classes={'boundary_accept': 5000, 'boundary_reject': 8000, 'ctor_accept': 6000, 'rules_accept': 1500, 'rules_reject_selection': 1000,
                                 'rules_reject_sorting': 1500, 'rules_reject_both': 1000, 'follow/compute_again': 2000, 'follow/init+compute': 2000,
                                 'rejected_call_after_completed_run': 4000, 'zero_start/-0': 1000, 'nonzero_start/1e-100*(1+i%3)': 1000,
                                 'sigma/sigma=0': 5000, 'sigma/sigma=-0.0': 5000, 'wrapper_reject': 1500, 'wrapper_accept': 150, 'n>12': 2000,
                                 'ctor/PartialSVDSolver<MatrixXd>': 6000, 'ctor/DavidsonSymEigsSolver<DenseSymMatProd>': 2000}),
             thorough=dict(cases=1500000, nontrivial=500000)),
    rule='exhaustive layer: (solver kind, variant, n in [1,12], nev, ncv in [-2,n+3]) for 18 solver/operator kinds; (kind, selection, sorting, follow-up in {init+compute, compute again}, '
         'rejected call on a fresh object / after a completed run) at n in {7, 10, 12}; (kind, n, zero-vector kind, nonzero-vector kind, fresh / after a completed run); (wrapper, shape). rapidcheck layer: the same '
         'case forms with n <= 64, random content seed, nev/ncv uniform or anchored at a documented bound +-3. Non-trivial = the verdict changes within distance 1 (some neighbour in the '
         '(nev, ncv) 8-neighbourhood, or sigma zero <-> nonzero, or one matrix dimension +-1), every rule-pair case and every start-vector case; distinct = enumerated (distinct by '
         'construction) or 64-bit hash of the draw log.',
    tolerances='none (exception type, exact live-block count, bitwise equality)',
    assumptions=['glibc __libc_malloc/__libc_free entry points behind the interposed malloc family (every allocation of Eigen, libstdc++ and the library goes through them)',
                 'the specification predicate transcribed from the doxygen comments'],
)
