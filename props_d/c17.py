PROPS['C17'] = dict(
    level='exploration',
    technique='rapidcheck generation of sparse symmetric pencils (L S L\', L L\') with prescribed well-separated smallest eigenvalues x block size x B / preconditioner / constraints x start-block kinds x compute(maxit, tol) '
              '(optionally twice); dense long double generalized reference, residual and Gram identities on the private iterate (guarded friend hook) and on the public accessors',
    level_text='Random search with shrinking over LOBPCGSolver<float|double|long double>, n <= 60, block size k with 5k < n, six spectrum classes (prescribed gaps >= 1 between the k+1 smallest values; clustered, spread, '
               'linear, geometric, indefinite remainder; a Laplacian stencil), four eigenvector bases (permutation = diagonal A, Givens product, block orthogonal, dense), B absent / identity via setB / diagonal / '
               'bidiagonal L L\' / dense SPD with kappa(B) <= 1e3, scales 1e-4..1e4, preconditioner absent / Jacobi / scaled identity / |A|^-1, six start-block kinds (dense, sparse, unit vectors, perturbed / rotated / '
               'exact eigenvectors), optional constraints (already found eigenvectors, also as a rotated basis), maxit 0..200, tol from 1e-2 down to the precision limit relative to the natural residual scale, and an optional second compute(). Second unit (c17s, double): histories compute() -> setB(another SPD matrix) [-> setPreconditioner] -> compute(), up to three rounds on one object, on benign pencils; after every successful round the results must describe the pencil in force at that call. '
               'After every compute(): Success => eigenvalues() has k finite ascending entries equal to the k smallest (deflated) reference eigenvalues within tol*n/sqrt(lambda_min(B)) + rounding; the private iterate is n-by-k with '
               'X\'BX = I; residuals() is n-by-k, equals A X - B X diag(eigenvalues) and every column norm is below tol*n; eigenvectors() is n-by-k, B-orthonormal and consistent with residuals(). An exception leaving compute() is a '
               'non-success outcome: info() must not say Success afterwards.',
    level_note='The statement is conditional on info()==Success; the fraction of cases reaching Success (and with >= 2 iterations) is in the class histogram. "Which" eigenvalues is asserted only when the start block has a component along every '
               'wanted eigenvector (cosine of the largest principal angle >= 1e-3) and the tolerance is below 1/8 of the smallest gap; otherwise only membership in the reference spectrum is asserted. The iteration count is not observable, '
               'so rounding terms carry the factor 1 + min(n, maxit). The public-eigenvectors checks run last in a case, so the open D12 finding does not mask anything else.',
    units=real_units('c17', 'c17_lobpcg.cpp') + [dict(name='c17s', src='c17_setters.cpp')],
    runs=dict(
        quick=[dict(unit='c17_d', cases=4000, workers=2), dict(unit='c17_f', cases=4000, workers=1), dict(unit='c17_l', cases=4000, workers=1), dict(unit='c17s', cases=1500, workers=2)],
        thorough=[dict(unit='c17_d', cases=10000, workers=8), dict(unit='c17_f', cases=10000, workers=4), dict(unit='c17_l', cases=10000, workers=4), dict(unit='c17s', cases=6000, workers=4)],
    ),
    min=dict(quick=dict(cases=14000, nontrivial=3000, classes={'Success_after_setB_between_computes': 600, 'outcome/Success': 6000, 'Success_after_2+_iterations': 3000, 'eigenvalue_identity_asserted': 3000, 'B/bidiagonal_LLt': 300,
                                                            'preconditioner/jacobi': 300, 'constraints': 200, 'second_compute': 300}),
             thorough=dict(cases=150000, nontrivial=40000)),
    rule='case = (scalar, n, k, constraints m / rotated / skip-lowest, spectrum class, basis kind, B kind and kappa decades, content seed, position of the lowest eigenvalue, scales of A and B, preconditioner, start-block kind, '
         'tol exponent, maxit kind, optional second compute with its own tol / maxit). Non-trivial = Success reached after at least two Rayleigh-Ritz iterations (or Success only on the second compute); distinct = 64-bit hash of the draw log.',
    tolerances='X\'BX - I: min(1/4, 64 n eps kappa(B) (1+its)); residuals() - (A X - B X diag(ev)): 64 n eps (||A||_F + max|ev| ||B||_F) max(||X||_F, sqrt(k/lambda_min(B))) (1+its); column norms: < tol*n (reported) and <= tol*n + that rounding term (recomputed); '
               'eigenvalues: tol*n/sqrt(lambda_min(B)) + 64 n eps (||A||_F + max|ev| ||B||_F)/lambda_min(B) (1+its); its = min(n, maxit)',
    assumptions=['Eigen GeneralizedSelfAdjointEigenSolver / SelfAdjointEigenSolver / JacobiSVD in long double as the reference', 'guarded friend hook (Spectra::verif::Access) reads the private iterate X; never used to modify the solver'],
)
