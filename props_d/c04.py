def _c04_units():
    # one TU per real scalar and family group (the groups are separate TUs only to keep each compilation short):
    #   p = the six standard-problem solvers, g = the five generalized modes, c = Davidson / PartialSVD / LOBPCG (double only)
    us = []
    us += real_units('c04p', 'c04_selection.cpp', ['-DC04_PLAIN'])
    us += real_units('c04g', 'c04_selection.cpp', ['-DC04_GENERALIZED'])
    us += [dict(name='c04c_d', src='c04_selection.cpp', flags=['-DVF_REAL=double', '-DC04_CONTRIB'])]
    return us


def _c04_min_classes():
    sym = ['LargestMagn', 'LargestAlge', 'SmallestMagn', 'SmallestAlge', 'BothEnds']
    gen = ['LargestMagn', 'LargestReal', 'LargestImag', 'SmallestMagn', 'SmallestReal', 'SmallestImag']
    fams = {'SymEigsSolver': sym, 'HermEigsSolver': sym, 'SymEigsShiftSolver': sym, 'GenEigsSolver': gen, 'GenEigsRealShiftSolver': gen,
            'GenEigsComplexShiftSolver': gen, 'SymGEigsSolver<Cholesky>': sym, 'SymGEigsSolver<RegularInverse>': sym,
            'SymGEigsShiftSolver<ShiftInvert>': sym, 'SymGEigsShiftSolver<Buckling>': sym, 'SymGEigsShiftSolver<Cayley>': sym}
    m = {}
    for f, rules in fams.items():
        for r in rules:
            m['R1/%s/%s' % (f, r)] = 30          # DESIGN 6/C04: >= 30 R1 cases per (family, rule), oracle applied and passed
            if f not in ('GenEigsSolver', 'GenEigsRealShiftSolver', 'GenEigsComplexShiftSolver') and r != 'SmallestMagn':
                m['R2/%s/%s' % (f, r)] = 30      # exterior rules, ncv < n
    m.update({'matrix/reflection_symmetric': 1500, 'R1/float': 1000, 'R1/long double': 1000, 'R2/float': 500, 'R2/long double': 500, 'selection_verified/R3': 1000,
              'singular_class/R1/zero_wanted': 300, 'singular_class/R3/zero_wanted': 100, 'interior_target/R3': 100, 'two_sided_magnitude_target/R3': 100,
              'R2/DavidsonSymEigsSolver/LargestAlge': 100, 'R2/DavidsonSymEigsSolver/SmallestAlge': 100, 'R2/DavidsonSymEigsSolver/LargestMagn': 100,
              'R2/DavidsonSymEigsSolver/SmallestMagn': 100, 'R1/PartialSVDSolver/largest': 200, 'R2/PartialSVDSolver/largest': 200,
              'R2/LOBPCGSolver/smallest': 200, 'extreme_scale/huge': 200, 'extreme_scale/tiny': 100})
    return m


PROPS['C04'] = dict(
    level='exploration',
    technique='rapidcheck generation of prescribed spectra (key grids spaced >= 1 % of the key spread, in the variable the rule is documented to act on) x every solver family x every supported rule x three '
              'regimes (ncv = n exactly decidable; ncv < n one-ended target; ncv < n general / interior / two-ended / singular); long double reference spectrum of the rounded input; multiset-of-keys oracle',
    level_text='(A quarter of the plain symmetric / Hermitian / shift-invert matrices are exactly reflection-symmetric, J A J = A, with the prescribed eigenvalues alternating between the two symmetry classes: the documented random default start vector must reach both.) Random search with shrinking over {SymEigsSolver, HermEigsSolver, GenEigsSolver, SymEigsShiftSolver, GenEigsRealShiftSolver, GenEigsComplexShiftSolver (user functor operators), SymGEigsSolver '
               'Cholesky / RegularInverse, SymGEigsShiftSolver ShiftInvert / Buckling / Cayley (library wrappers)} x {float, double, long double}, plus DavidsonSymEigsSolver, PartialSVDSolver and LOBPCGSolver in double. '
               'The spectrum is built in the variable the rule acts on (lambda, or nu = 1/(lambda-sigma), lambda/(lambda-sigma), (lambda+sigma)/(lambda-sigma); for the complex shift lambda is prescribed and the groups are '
               'picked so that the keys of nu are spaced): keys |nu|, nu, Re nu, |Im nu| on jittered grids with consecutive gaps >= 1.25 % of the spread, definite / indefinite / mixed-sign shapes, conjugate pairs for the '
               'general family (nev never splits a pair), a class with one exactly-zero eigenvalue, scale 1e-6..1e6 (plain symmetric / Hermitian solvers in regime R1 also at scales 1e+-150..250, float 1e20..1e30, where squares of eigenvalues leave the floating-point range), pencils (M D M^T, M M^T) with cond(M) <= 3. Symmetric A = Q D Q^T, normal A = Q blockdiag Q^T. '
               'n <= 24, 1 <= nev <= (n-1)/2, ncv = n (regime R1) or 2 nev + 1 <= ncv < n, default start vector, maxit 3000, tol 1e-10 (float: 64 eps). When the solver reports Successful: it returned nev '
               'values, every returned value is a genuine reference eigenvalue (distinct ones for distinct values; complex shift: the right root of the back-transformation), and the multiset of their keys equals '
               'the multiset of the keys of the nev eigenvalues the rule names (BothEnds: ceil(nev/2) largest + floor(nev/2) smallest). R1 (ncv = n) and R2 (ncv < n, one-ended targets of the symmetric / Hermitian / generalized families) are asserted strictly; '
               'in R3 (ncv < n and: general family, or SmallestMagn / LargestMagn on a sign-indefinite spectrum, or a wanted exactly-zero eigenvalue of a singular operator) a wrong set made only of genuine '
               'distinct eigenvalues is the known finding D13, anything else is a violation.',
    level_note='The reference spectrum is that of the rounded input (Eigen SelfAdjointEigenSolver / EigenSolver / GeneralizedSelfAdjointEigenSolver in long double) and must reproduce the prescription; the oracle is '
               'skipped (and counted) if the tolerance is not below a quarter of the smallest key gap. PartialSVDSolver has no info(): success = all requested values converged. Davidson is run on strictly diagonally '
               'dominant definite matrices only, LOBPCG without B / preconditioner / constraints on spectra whose k smallest eigenvalues are well separated (their property texts restrict them; C15 / C17 cover the rest).',
    units=_c04_units(),
    runs=dict(
        quick=[dict(unit='c04p_d', cases=10000, workers=2), dict(unit='c04g_d', cases=10000, workers=2), dict(unit='c04c_d', cases=8000, workers=1),
               dict(unit='c04p_f', cases=8000, workers=1), dict(unit='c04g_f', cases=8000, workers=1),
               dict(unit='c04p_l', cases=8000, workers=1), dict(unit='c04g_l', cases=8000, workers=1)],
        thorough=[dict(unit='c04p_d', cases=20000, workers=4, set=dict(nmax=40)), dict(unit='c04g_d', cases=20000, workers=3, set=dict(nmax=40)), dict(unit='c04c_d', cases=20000, workers=2, set=dict(nmax=40)),
                  dict(unit='c04p_f', cases=20000, workers=2, set=dict(nmax=40)), dict(unit='c04g_f', cases=20000, workers=1, set=dict(nmax=40)),
                  dict(unit='c04p_l', cases=20000, workers=2, set=dict(nmax=40)), dict(unit='c04g_l', cases=20000, workers=2, set=dict(nmax=40))],
    ),
    min=dict(quick=dict(cases=80000, nontrivial=60000, classes=_c04_min_classes()),
             thorough=dict(cases=300000, nontrivial=200000, classes=_c04_min_classes())),
    rule='case = (family, rule, regime, n, singular class, content seed, scale, shift, spectrum shape (interval / sign kind), cond(M) and B scale for pencils, nev among the sizes that do not split a key group, ncv). '
         'Non-trivial = the solver reported Successful (so the oracle applied) with nev < n; distinct = 64-bit hash of the draw log. Classes R1|R2|R3/<family>/<rule> count cases whose oracle was applied and passed.',
    tolerances='keys and values are compared in the transformed variable: max(1e-6 * key spread, 100 * tol * max|nu|) (Davidson: 100 * tol, its test is absolute; LOBPCG: 100 * tol * n; SVD: on the singular values), '
               'required to be <= 1/4 of the smallest key gap (>= 1 % of the spread by construction); "exactly zero" = |lambda| <= 64 n eps max|lambda|',
    assumptions=['long double reference spectra of the rounded input: Eigen SelfAdjointEigenSolver<complex long double>, EigenSolver<long double> (normal matrices), GeneralizedSelfAdjointEigenSolver<long double> (Ax_lBx), '
                 'Gram-matrix eigenvalues for the singular values (cond <= 6)',
                 'the user-functor operators of vf/families.hpp (dense product / LU solves in the working precision) for the six standard-problem solvers; the library wrappers DenseSymMatProd, SparseSymMatProd, '
                 'DenseCholesky, SparseRegularInverse, SymShiftInvert for the generalized modes (their own correctness is C11)'],
)
