SAN = ['-fsanitize=address,undefined', '-fno-sanitize-recover=undefined', '-fno-omit-frame-pointer', '-g1']
PROPS['C13'] = dict(
    level='exploration',
    engine='rapidcheck + libFuzzer (ASan, UBSan)',
    technique='structure-aware fuzzing: one decoded recipe (solver kind, adversarial small matrix, legal nev/ncv extremes, rule, maxit, tol, start vector) driven by rapidcheck under ASan+UBSan (quick) and by coverage-guided libFuzzer+ASan+UBSan (thorough); oracle inside the target',
    level_text='The target decodes a recipe for one of 12 solver kinds (six standard classes through counting user functors, the five generalized modes through the library wrappers, PartialSVD) on an adversarial matrix (explicit small '
               'integers, zero, identity, nilpotent, rank 1/2, permutation, signed permutation / 3-4-5 orthogonal, skew, diagonal with ties; scale 1e-8..1e8; n <= 16) with legal (nev, ncv) incl. the extremes, any supported rule, maxit 0..8, '
               'any tol >= 8 eps, default / unit / small-integer start vectors and one or two compute() calls. Inside the target: the operator wrapper validates its operand pointers (non-null, disjoint, every element read and written so '
               'ASan checks the ranges) and throws a harness exception beyond 2 + sum 2*ncv*(maxit+1) applications; outcome must be finite results with info() in {Successful, NotConverging} or std::invalid_argument / logic_error / '
               'runtime_error; Eigen index assertions are turned into failures; ASan / UBSan reports are violations. A second mode drives nev_adjusted() through the guarded friend access with drawn zero-estimate / conjugate-pair patterns.',
    level_note='"Valid, distinct, length-n vectors" is decided as a statement about memory (pointer ranges, ASan) and, since every drawn input is finite and the harness operators map finite to finite, also about values: a NaN/Inf operand is a violation (signature nan_operand). The work bound is enforced where the A-side operator is a counting user functor (the six standard classes, Cholesky and RegularInverse modes); in the generalized shift modes the operator is the library wrapper SymShiftInvert and only the operands handed to the B operator of the user are checked.',
    units=[dict(name='c13', src='c13_safety.cpp', flags=SAN, env={'ASAN_OPTIONS': 'abort_on_error=1:detect_leaks=1', 'UBSAN_OPTIONS': 'print_stacktrace=1'}, crash_handler='sanitizer'),
           dict(name='c13_fuzz', src='c13_safety.cpp', cxx='clang++', flags=['-fsanitize=fuzzer,address,undefined', '-fno-sanitize-recover=undefined', '-DVF_LIBFUZZER'], libs=[], tiers=['thorough'])],
    replay_unit='c13',
    runs=dict(
        quick=[dict(unit='c13', cases=1500, workers=4)],
        thorough=[dict(unit='c13', cases=20000, workers=4), dict(unit='c13_fuzz', kind='libfuzzer', workers=12, seconds=300, decode_unit='c13')],
    ),
    min=dict(quick=dict(cases=5000, nontrivial=3000, classes={'solver/GenEigsSolver': 200, 'solver/PartialSVDSolver': 200, 'solver/SymGEigsShiftSolver<Cayley>': 200, 'restart_size/general': 300, 'class/permutation': 200}),
             thorough=dict(cases=500000, nontrivial=50000)),
    rule='case = decoded recipe (solver kind, n <= 16, matrix class / explicit entries, scale, nev, ncv, shift, start vector, 1-2 x (selection, sorting, maxit <= 8, tol)) or a restart-size pattern (family, ncv <= 12, nev, nconv, '
         'zero-estimate and conjugate-pair pattern). Non-trivial = compute() was reached (returned or raised); distinct = 64-bit hash of the decoded choice log. libFuzzer executions are counted from its final stats.',
    tolerances='none (exact outcome classification; work bound 2 + sum over computes of 2*ncv*(maxit+1) [+2*nev root-selection probes for the complex-shift solver])',
    assumptions=['AddressSanitizer / UndefinedBehaviorSanitizer runtimes (gcc 12 and clang 14)', 'libFuzzer coverage feedback'],
)
