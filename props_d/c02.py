PROPS['C02'] = dict(
    level='exploration',
    technique='rapidcheck stateful generation: eleven general-matrix classes (incl. prescribed conjugate-closed spectra, orthogonal / permutation matrices with magnitude ties, S D S^-1) x plain / real-shift / complex-shift solvers x init/compute histories; long double residual, Bauer-Fike and distinctness oracles',
    level_text='Random search with shrinking over {GenEigsSolver, GenEigsRealShiftSolver, GenEigsComplexShiftSolver} x {float,double,long double} x {dense, sparse, user functor} x eleven matrix classes x '
               'scale 1e-8..1e8 x legal (nev, ncv) x six rules x tol x maxit x start vectors x histories of up to 5 init()/compute() calls, and real / complex shifts placed by construction >= 1 % of the spectral '
               'radius from every eigenvalue (plus the constructed case |lambda0 - Re sigma| = |Im sigma| exactly). After every compute(): unit norm, residual within the documented test pushed through the back-transformation, '
               'lambda within Bauer-Fike distance of the reference spectrum, and on simple separated spectra no two returned pairs carry the same eigenvalue.',
    level_note='Complex shift: nu(lambda) has critical points, so the residual scale uses the known spectrum (K = max |lambda_j - theta| / |nu_j - nu|, 1/|nu\'| for the nearest) and is asserted only on the normal and S D S^-1 classes '
               'and only while K is bounded; elsewhere unit norm, finiteness and distinctness are asserted. Reference spectra from Eigen EigenSolver<long double>.',
    units=real_units('c02', 'c02_gen.cpp'),
    runs=dict(
        quick=[dict(unit='c02_d', cases=6000, workers=2), dict(unit='c02_f', cases=6000, workers=1), dict(unit='c02_l', cases=6000, workers=1)],
        thorough=[dict(unit='c02_d', cases=30000, workers=8, set=dict(nmax=64)), dict(unit='c02_f', cases=30000, workers=4, set=dict(nmax=48)), dict(unit='c02_l', cases=30000, workers=4, set=dict(nmax=48))],
    ),
    min=dict(quick=dict(cases=10000, nontrivial=3000, classes={'complex_pairs_returned': 300, 'history_with_2+_computes': 500, 'distinctness_decided': 300,
                                                             'GenEigsComplexShiftSolver/double': 300, 'class/orthogonal_345': 200}),
             thorough=dict(cases=300000, nontrivial=100000)),
    rule='case = (solver, scalar, operator form, matrix class, n <= 32, content seed, scale, nev, ncv, shift position, history of init/compute ops each with its own start vector / selection / sorting / maxit / tol). '
         'Every compute() in the history is checked. Non-trivial = some compute returned >= 1 pair and n >= 5; distinct = 64-bit hash of the draw log.',
    tolerances='unit norm 8 n eps (1+r); plain: tol*max(eps^(2/3),|theta|) + 64 n eps (1+r) ||A||_F; real shift: tol*||A-sI||_2*max(1,eps^(2/3)/|nu|) + 64 n eps (1+r)(||A|| + cond ||A-sI|| ||OP||/|nu|); '
               'complex shift: cond(S) K (tol max(eps^(2/3),|nu|) + 64 n eps (1+r) cond ||OP||) + rounding; spectrum membership: cond(S)*measured residual*2; distinctness decided only within gap/4 of a reference eigenvalue',
    assumptions=SOLVER_ASSUME,
)
