def _c03_units():
    # -g0: debug information for ~60 solver instantiations costs 40 % of the build time and is never used (failures are reproduced from
    # the tape, which prints a decoded recipe). The double unit is split by solver family so that every TU builds in < 3 min; the
    # float / long double units carry the dense-only subset of the instantiation list (C03_SPARSE=0).
    fast = ['-g0']
    return [
        dict(name='c03_d1', src='c03_geigs.cpp', flags=['-DVF_REAL=double', '-DC03_PART=1'] + fast),
        dict(name='c03_d2', src='c03_geigs.cpp', flags=['-DVF_REAL=double', '-DC03_PART=2'] + fast),
        dict(name='c03_f', src='c03_geigs.cpp', flags=['-DVF_REAL=float', '-DC03_SPARSE=0'] + fast),
        dict(name='c03_l', src='c03_geigs.cpp', flags=['-DVF_REAL=long double', '-DC03_SPARSE=0'] + fast),
    ]


PROPS['C03'] = dict(
    level='exploration',
    technique='rapidcheck stateful generation: pencil recipe (nine spectrum classes for A x five structures of a positive-definite B/K with prescribed condition number) x five solver modes x '
              'a fixed list of wrapper instantiations x shift placed by construction x init/compute histories; long double pencil-residual and Gram oracles after every compute()',
    level_text='Random search with shrinking over {Cholesky, RegularInverse, ShiftInvert, Buckling, Cayley} x {float, double, long double} x 14 (A-operator, B-operator) storage instantiations per mode '
               'in the double units (dense/sparse x Lower/Upper x Col/RowMajor, unused triangle filled with garbage or absent; dense-only subset in float / long double; a user-defined B operator in the '
               'regular-inverse mode) x A = scaled prescribed-spectrum symmetric matrix (nine classes, scale 1e-8..1e8) x B (K) = positive definite with kappa = 10^[0,8] (float 10^[0,4]; 10^[0,2] when '
               'the wrapper\'s conjugate-gradient solver is involved) in five structures (Q diag Q\', diagonal, block diagonal, tridiagonal, arrow) and scale 1e-3..1e3 x legal (nev, ncv) x 5 selection rules x '
               'tol from 8 eps to 1e-3 x maxit 0..20/1000 x start vectors (default, random, eigenvector of the iteration operator, combination, unit vector, ones) x histories of up to 3 compute() and '
               '5 init() calls. The shift is nonzero and >= 1e-3*spread away from every reference generalized eigenvalue (from Eigen GeneralizedSelfAdjointEigenSolver<long double>; in buckling mode 1/sigma '
               'is placed among the reciprocal eigenvalues so that a singular K_G is allowed). After EVERY compute() each returned pair is put into the ORIGINAL pencil (K x = lambda K_G x in buckling mode) '
               'and the vectors must be orthonormal in the inner product of the positive-definite matrix (B; K in buckling mode).',
    level_note='tol*C_mode is the exact consequence of the documented convergence test pushed through each back-transformation (DESIGN section 6, C03). kappa_F = condition number of the matrix that is '
               'factorized (B, or A - sigma B / K - sigma K_G) from a long double reference eigen-decomposition, never from the code under test. The rounding scale G_mode is ||A|| + |lambda| ||B|| (times ||x||) in the '
               'Cholesky mode; in the other modes calibration showed that scale to be exceeded by up to 1e5 on healthy runs for reasons that are inherent to the mode, so the term the mode itself works with is added: '
               'regular inverse: rho ||B|| with rho = max |lambda_i| (y = B^-1 A v is accurate relative to ||y|| ~ rho ||v|| for the Lanczos vectors, not relative to |lambda| ||x||); shift modes: '
               '||A - sigma B||_2 pushed through the same back-transformation as the tol term (1, |lambda/sigma|, |(lambda+sigma)/(2 sigma)|), because the backward error of the solve is relative to ||A - sigma B||, '
               'which ||A|| + |lambda| ||B|| does not bound when |sigma| >> |lambda| or |lambda| >> |sigma|. With these scales the worst observed rounding ratio over 8e5 cases is 0.77 (asserted constant 64). '
               'A returned lambda = +-inf is accepted only in buckling mode when K_G is singular to working precision (nu = 1). Pairs whose bound exceeds 1e-3 (||A|| + |lambda| ||B||) ||x|| are checked but do not '
               'count as non-trivial. Zero A is left to C13. Restart counts come from the guarded observer.',
    units=_c03_units(),
    runs=dict(
        quick=[dict(unit='c03_d1', cases=20000, workers=2), dict(unit='c03_d2', cases=20000, workers=2), dict(unit='c03_f', cases=20000, workers=1), dict(unit='c03_l', cases=20000, workers=1)],
        thorough=[dict(unit='c03_d1', cases=100000, workers=5, set=dict(nmax=40)), dict(unit='c03_d2', cases=100000, workers=5, set=dict(nmax=40)),
                  dict(unit='c03_f', cases=100000, workers=3, set=dict(nmax=40)), dict(unit='c03_l', cases=100000, workers=3, set=dict(nmax=40))],
    ),
    min=dict(quick=dict(cases=100000, nontrivial=60000,
                        classes={'Cholesky/dense_B': 3000, 'Cholesky/sparse_B': 3000, 'RegularInverse/sparse_B': 3000, 'RegularInverse/user_functor_B': 3000,
                                 'ShiftInvert/dense_B': 3000, 'ShiftInvert/sparse_B': 3000, 'Buckling/dense_B': 3000, 'Buckling/sparse_B': 3000, 'Cayley/dense_B': 3000, 'Cayley/sparse_B': 3000,
                                 'kappa(P)>=1e6': 5000, 'kappa_F>=1e6': 2000, 'Upper': 20000, 'RowMajor': 20000, 'unused_triangle_garbage_or_absent': 20000,
                                 'repeated_compute/Cholesky': 2000, 'repeated_compute/RegularInverse': 2000, 'repeated_compute/ShiftInvert': 2000, 'repeated_compute/Buckling': 2000,
                                 'repeated_compute/Cayley': 2000, 'compute_without_fresh_init': 10000, 'partial_convergence': 3000, 'with_restart': 20000,
                                 'SymShiftInvert/sparse-sparse': 2000, 'SymShiftInvert/dense-sparse': 2000, 'SymShiftInvert/sparse-dense': 2000}),
             thorough=dict(cases=1500000, nontrivial=900000)),
    rule='case = (mode, wrapper instantiation, A spectrum class, n <= 24 (thorough 40), content seed, scale, structure / kappa / seed / scale of the positive-definite matrix, nev, ncv, content of the unused '
         'triangle of every typed matrix, shift position, history of init/compute ops each with its own start vector / selection / sorting / maxit / tol). Every compute() in the history is checked. '
         'Non-trivial = some compute returned >= 1 pair whose asserted residual bound is below 1e-3 (||A|| + |lambda| ||B||) ||x|| (the bound constrains the pair); distinct = 64-bit hash of the draw log.',
    tolerances='residual in the original pencil <= tol*C_mode + 64 n eps (1+r) kappa_F G_mode ||x||; C_mode: Cholesky / regular inverse sqrt(lambda_max(B)) max(eps^(2/3),|lambda|); shift-invert '
               '||A-sigma B||_2/sqrt(lambda_min(B)) max(1,eps^(2/3)/|nu|); buckling |lambda/sigma| ||K-sigma K_G||_2/sqrt(lambda_min(K)) max(1,eps^(2/3)/|nu|); Cayley |(lambda+sigma)/(2 sigma)| ||A-sigma B||_2/sqrt(lambda_min(B)) '
               'max(1,eps^(2/3)/|nu|); G_mode: Cholesky ||A||_F+|lambda| ||B||_F; regular inverse ||A||_F+max|lambda_i| ||B||_F; shift modes ||A||_F+|lambda| ||B||_F + {1, |lambda/sigma|, |(lambda+sigma)/(2 sigma)|} ||A-sigma B||_2; '
               'max|X\'BX - I| (X\'KX in buckling mode) <= 64 n eps (1+r) max(kappa(B), kappa_F); r = restarts seen by the observer since init; kappa_F = cond(B) resp. cond(A - sigma B) from the long double reference',
    assumptions=SOLVER_ASSUME + ['Eigen GeneralizedSelfAdjointEigenSolver / SelfAdjointEigenSolver / LLT / FullPivLU in long double for reference spectra, condition numbers and shift placement'],
)
