PROPS['C15'] = dict(
    level='exploration',
    technique='rapidcheck generation of symmetric matrices (nine structural classes) x search-space sizes x rules x tolerances x default / user-supplied initial spaces; long double residual, Gram and ordering oracles; finiteness under every outcome',
    level_text='TODO',
    level_note='TODO',
    units=real_units('c15', 'c15_davidson.cpp'),
    runs=dict(
        quick=[dict(unit='c15_d', cases=3000, workers=2), dict(unit='c15_f', cases=3000, workers=1), dict(unit='c15_l', cases=3000, workers=1)],
        thorough=[dict(unit='c15_d', cases=40000, workers=8, set=dict(nmax=60)), dict(unit='c15_f', cases=40000, workers=4, set=dict(nmax=60)), dict(unit='c15_l', cases=40000, workers=4, set=dict(nmax=60))],
    ),
    min=dict(quick=dict(cases=10000, nontrivial=4000), thorough=dict(cases=500000, nontrivial=200000)),
    rule='TODO',
    tolerances='TODO',
    assumptions=SOLVER_ASSUME,
)
