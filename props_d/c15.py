PROPS['C15'] = dict(
    level='exploration',
    technique='rapidcheck generation of symmetric matrices (nine structural classes incl. decoupled coordinates, block diagonal, small-integer, tridiagonal) x '
              'search-space sizes (constructor forms and setters) x 4 rules x tolerances x default / user-supplied initial spaces; long double residual, Gram, '
              'ordering and count oracles under Successful, finiteness under every outcome',
    level_text='Random search with shrinking over DavidsonSymEigsSolver<{float,double,long double}> on the dense and the sparse product wrapper x nine matrix classes '
               '(diagonally dominant dense/sparse, generic, prescribed spectrum with ties / null space / cluster, block diagonal with 1x1 blocks, 1-3 exactly decoupled '
               'coordinates whose diagonal value is extreme / zero / a copy of another entry, small integers, tridiagonal, diagonal, dominant with tied diagonal) x scale 1e-4..1e4 x '
               'nev <= 8 x (initial, correction, maximal) sizes reached through (op,nev), (op,nev,nvec_init,nvec_max) or the three setters, with nev <= initial, correction <= initial, '
               'initial + correction <= n, initial <= max (max above n through the setter included) x LargestAlge/SmallestAlge/LargestMagn/SmallestMagn x tol from 8 eps to 1 and the '
               'default x maxit 1..40/100/1000 x initial space: default, unit vectors (also on the decoupled coordinates), random orthonormal, containing exact eigenvectors, and '
               'non-orthonormal ones (random, unit columns that are not orthogonal, scaled columns, a zero / repeated / dependent column, orthonormal + perturbation 1e-2..1e-9) with '
               'any admissible number of columns; optionally a second compute on the same object. After every compute: all returned numbers finite; if info()==Successful then '
               'compute()==nev, ||A x - theta x|| < tol + 64 n eps ||A||_F with A applied in long double, | ||x|| - 1 | <= 64 n eps, max|X\'X - I| <= 64 n eps, values ordered by the rule. '
               'An Eigen assertion inside the solver is a violation. Sampling, not a proof; the class histogram in evidence shows what was reached.',
    level_note='The operator handed to the solver is the library wrapper sub-classed to record product requests (size of the space, restarts, first non-finite basis vector) and the solver is '
               'sub-classed to read the protected search space after compute(); both records only classify cases and key the known-finding signatures, never a verdict. '
               'Sizes the constructor fallback (n/3) pushes outside the quantifier (initial < nev) are counted as rejected. maxit = 0 is not generated. '
               'While KF-C15-5 is open, a change that damages the orthogonalisation of new directions is indistinguishable from it (same signature: final basis not orthonormal).',
    units=real_units('c15', 'c15_davidson.cpp'),
    runs=dict(
        quick=[dict(unit='c15_d', cases=3000, workers=2), dict(unit='c15_f', cases=3000, workers=1), dict(unit='c15_l', cases=3000, workers=1)],
        thorough=[dict(unit='c15_d', cases=25000, workers=8, set=dict(nmax=60)), dict(unit='c15_f', cases=25000, workers=4, set=dict(nmax=60)),
                  dict(unit='c15_l', cases=15000, workers=4, set=dict(nmax=60))],
    ),
    min=dict(quick=dict(cases=10000, nontrivial=5000, classes={'info/Successful': 2500, 'info/NotConverging': 1500, 'restarted': 1500, 'Successful/after_restart': 200,
                                                                 'Successful/user_space_orthonormal': 800, 'user_space/unit_columns_not_orthogonal': 800,
                                                                 'user_space/columns_not_normalized': 800, 'matrix_with_decoupled_coordinate': 1500,
                                                                 'initial_space/with_exact_eigenvectors': 300, 'wrapper/sparse': 2000, 'search_space_reached_n': 500,
                                                                 'class/block_diagonal': 400, 'class/decoupled_coordinates': 400, 'initial_size_1': 300,
                                                                 'max_size_above_n_via_setter': 300, 'two_computes_on_one_object': 500}),
             thorough=dict(cases=300000, nontrivial=150000)),
    rule='case = (matrix class, n in [2,40] (thorough 60), content seed / drawn structure, scale, size form and sizes, wrapper, then per compute: rule, maxit, tol, initial-space kind, '
         'its number of columns and content seed). Non-trivial = the search space was restarted at least once or the initial space was supplied by the caller; '
         'distinct = 64-bit hash of the draw log.',
    tolerances='Successful: ||A x - theta x|| < tol + 64 n eps ||A||_F (tol as rounded to the scalar type; observed rounding excess <= 0.04 n eps ||A||); | ||x||-1 | <= 64 n eps and '
               'max|X\'X - I| <= 64 n eps (observed <= 16 resp. 31 n eps for orthonormal initial spaces); ordering and counts exact; finiteness exact',
    assumptions=['long double residuals / Gram matrices formed from the matrix as rounded to the scalar type',
                 'Eigen SelfAdjointEigenSolver<long double> only to build user spaces that contain exact eigenvectors (generator, not oracle)'],
)
