PROPS['C05'] = dict(
    level='exploration',
    technique='rapidcheck stateful generation of init / compute / accessor histories on the six Krylov solver classes with counting user operators; exact bookkeeping oracles plus a Rayleigh-quotient pairing oracle in long double',
    level_text='(One in eight cases of the plain symmetric / Hermitian / general solvers is scaled by 1e+-150..250 (float: 1e20..1e30), where squares of eigenvalues leave the floating-point range while the matrix is representable. A quarter of the cases run the five generalized symmetric modes through the library wrappers with the same clauses; ordering is checked on the back-transformed values and pairing through the Rayleigh quotient of the mode\'s operator in its inner product.) Random search with shrinking over the six Arnoldi/Lanczos solver classes (counting user-functor operators, incl. shift-and-invert functors) x matrix recipes x legal (nev, ncv) x supported (selection, sorting) '
               'x maxit in {0,1,2,3,5,1000} x tol 1e-14..1e-2 (to force partial convergence) x histories of up to 5 init / compute / accessor calls. After every compute(): return value = eigenvalues().size() = '
               'eigenvectors().cols() <= nev; Successful iff that number is nev, else NotConverging; eigenvectors(m) = first min(m, count) columns (to 8 n eps; the product V*Y is evaluated with another shape) for m = 0..nev+2; values in the order of the sorting rule; '
               'the Rayleigh quotient of column i through the iterated operator equals nu(lambda_i) (pairing, valid for every Ritz pair converged or not); num_operations() = applications counted by the operator since init() '
               '(root-selection probes of the complex-shift solver excluded); at most maxit restarts (observer); NotComputed and empty accessors before the first compute().',
    level_note='Negative nvec is not generated (the statement speaks of min(m, count)). Unsupported rules belong to C12. The pairing tolerance carries the conditioning of the shift-and-invert system (Frobenius bound).',
    units=[dict(name='c05', src='c05_consistency.cpp')],
    runs=dict(
        quick=[dict(unit='c05', cases=8000, workers=4)],
        thorough=[dict(unit='c05', cases=40000, workers='all')],
    ),
    min=dict(quick=dict(cases=12000, nontrivial=4000, classes={'partial_convergence': 500, 'maxit<=1': 2000, 'accessor_between_computes': 300, 'GenEigsComplexShiftSolver': 800, 'SymGEigsShiftSolver<Cayley>': 300, 'SymGEigsShiftSolver<Buckling>': 300, 'extreme_scale/tiny': 150, 'extreme_scale/huge': 300}),
             thorough=dict(cases=400000, nontrivial=150000)),
    rule='case = (solver class, matrix recipe, n <= 24, nev, ncv, shift, history of init / compute(selection, sorting, maxit, tol) / accessor ops). Non-trivial = a compute returned 0 < count < nev, or maxit <= 1, '
         'or accessors were called between computes; distinct = 64-bit hash of the draw log.',
    tolerances='bookkeeping: exact; pairing: |x^H OP x - nu(lambda)| <= 64 n eps (1+r) cond ||OP||_F (+ 64 eps |nu| max(1, |nu|(|lambda|+|sigma|)) for the back-transformation)',
    assumptions=SOLVER_ASSUME,
)
