PROPS['C14'] = dict(
    level='fault_enumeration',
    technique='fault injection with exhaustive enumeration of the fault position per generated configuration (rapidcheck draws the configuration); bitwise recovery oracle and interposed-malloc leak oracle',
    level_text='rapidcheck draws a configuration (one of the six Krylov solver classes or SymGEigsSolver<RegularInverse> with faults in the A or the B operator; second unit c14m: SymGEigsSolver<Cholesky> and SymGEigsShiftSolver<ShiftInvert|Buckling|Cayley> on user-defined operators with faults in A x, the triangular solves, the shift-solve or B x, and DavidsonSymEigsSolver on a user-defined operator with faults in its block product; matrix recipe, n <= 14, nev, ncv, start vector, rule, maxit <= 5, tol; dynamic type of the injected exception: a plain class, a std::exception subclass, a std::runtime_error subclass or a std::invalid_argument subclass). '
               'The fault-free run is executed once to count N operator applications; then FOR EVERY k in 1..N a fresh solver is run with an operator that throws a private exception type carrying a nonce at its k-th application '
               '(optionally a second fault during the recovery run). Asserted: that very exception (dynamic type and nonce) reaches the caller from init() or compute() as the position predicts; once the fault is removed, init(); compute() on the '
               'same solver object is bit-identical (values, vectors, count, info, iteration and operation counters) to the fault-free run; the live-heap-block count (malloc family interposed) returns to its starting value after '
               'solver and operator are destroyed.',
    level_note='Exhaustive in the fault position for each generated configuration, sampling over configurations. Unsanitised build (the leak oracle owns malloc). PartialSVDSolver and LOBPCGSolver take matrices, not user operators, so there is no user code that could fail inside them; they are outside this property\'s quantifier.',
    units=[dict(name='c14', src='c14_faults.cpp'), dict(name='c14m', src='c14_more.cpp')],
    runs=dict(
        quick=[dict(unit='c14', cases=8000, workers=4), dict(unit='c14m', cases=6000, workers=4)],
        thorough=[dict(unit='c14', cases=30000, workers='all'), dict(unit='c14m', cases=12000, workers='all')],
    ),
    exhaustive_units=['c14', 'c14m'],
    min=dict(quick=dict(cases=50000, nontrivial=25000, classes={'fault_positions_enumerated': 500000, 'fault_positions_inside_compute': 120000, 'fault_in_B_operator': 1000, 'two_faults': 10000, 'DavidsonSymEigsSolver': 3000, 'SymGEigsSolver<Cholesky>': 3000, 'SymGEigsShiftSolver<Buckling>': 3000, 'SymGEigsShiftSolver<Cayley>': 3000, 'SymGEigsShiftSolver<ShiftInvert>': 3000, 'fault_in:B operator (triangular solves)': 1000, 'fault_type:std::runtime_error subclass': 8000, 'fault_type:plain class': 8000}),
             thorough=dict(cases=400000, nontrivial=200000)),
    rule='case = configuration (solver class, recipe, n <= 14, nev, ncv, start, selection, sorting, maxit <= 5, tol, second-fault choice); within a case every fault position 1..N is enumerated (classes fault_positions_enumerated / '
         '_inside_compute count them). Non-trivial = at least one fault position falls inside compute() rather than init(); distinct = 64-bit hash of the draw log.',
    tolerances='none (bitwise equality, exact block counts)',
    assumptions=['glibc __libc_* entry points for the interposed malloc family', 'deterministic user operators'],
)
