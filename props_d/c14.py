PROPS['C14'] = dict(
    level='fault_enumeration',
    technique='fault injection with exhaustive enumeration of the fault position per generated configuration (rapidcheck draws the configuration); bitwise recovery oracle and interposed-malloc leak oracle',
    level_text='rapidcheck draws a configuration (one of the six Krylov solver classes or SymGEigsSolver<RegularInverse> with faults in the A or the B operator; matrix recipe, n <= 14, nev, ncv, start vector, rule, maxit <= 5, tol). '
               'The fault-free run is executed once to count N operator applications; then FOR EVERY k in 1..N a fresh solver is run with an operator that throws a private exception type carrying a nonce at its k-th application '
               '(optionally a second fault during the recovery run). Asserted: that very exception (type and nonce) reaches the caller from init() or compute() as the position predicts; once the fault is removed, init(); compute() on the '
               'same solver object is bit-identical (values, vectors, count, info, iteration and operation counters) to the fault-free run; the live-heap-block count (malloc family interposed) returns to its starting value after '
               'solver and operator are destroyed.',
    level_note='Exhaustive in the fault position for each generated configuration, sampling over configurations. Unsanitised build (the leak oracle owns malloc). PartialSVD and Davidson are not part of this harness.',
    units=[dict(name='c14', src='c14_faults.cpp')],
    runs=dict(
        quick=[dict(unit='c14', cases=4000, workers=4)],
        thorough=[dict(unit='c14', cases=30000, workers='all')],
    ),
    exhaustive_units=['c14'],
    min=dict(quick=dict(cases=12000, nontrivial=6000, classes={'fault_positions_enumerated': 150000, 'fault_positions_inside_compute': 60000, 'fault_in_B_operator': 1000, 'two_faults': 3000}),
             thorough=dict(cases=400000, nontrivial=200000)),
    rule='case = configuration (solver class, recipe, n <= 14, nev, ncv, start, selection, sorting, maxit <= 5, tol, second-fault choice); within a case every fault position 1..N is enumerated (classes fault_positions_enumerated / '
         '_inside_compute count them). Non-trivial = at least one fault position falls inside compute() rather than init(); distinct = 64-bit hash of the draw log.',
    tolerances='none (bitwise equality, exact block counts)',
    assumptions=['glibc __libc_* entry points for the interposed malloc family', 'deterministic user operators'],
)
