def _c11_open_sigs():
    # Compile-time findings cannot be skipped per case: while KNOWN_FINDINGS.txt lists them as open the affected
    # instantiations are built with a workaround / left out (the binary then reports the finding as hit once);
    # as soon as the line is removed or turned into 'fixed:' the strict form is compiled again and a compiler error is a VIOLATION.
    import os
    sigs = set()
    try:
        for ln in open(os.path.join(os.path.dirname(os.path.abspath(__file__)), 'KNOWN_FINDINGS.txt')):
            ln = ln.strip()
            if ln.startswith('finding:') and 'property=C11' in ln:
                for tok in ln.split():
                    if tok.startswith('sig='):
                        sigs.add(tok[4:])
    except OSError:
        pass
    return sigs


_C11_MATOP_HEADERS = ['DenseCholesky', 'DenseGenComplexShiftSolve', 'DenseGenMatProd', 'DenseGenRealShiftSolve', 'DenseHermMatProd', 'DenseSymMatProd',
                      'DenseSymShiftSolve', 'SparseCholesky', 'SparseGenComplexShiftSolve', 'SparseGenMatProd', 'SparseGenRealShiftSolve', 'SparseHermMatProd',
                      'SparseRegularInverse', 'SparseSymMatProd', 'SparseSymShiftSolve', 'SymShiftInvert', 'internal/ArnoldiOp', 'internal/SymGEigsBucklingOp',
                      'internal/SymGEigsCayleyOp', 'internal/SymGEigsCholeskyOp', 'internal/SymGEigsRegInvOp', 'internal/SymGEigsShiftInvertOp']


def _c11_units():
    sigs = _c11_open_sigs()
    hdr_open = 'reginv_header_not_self_contained' in sigs
    hdr_wa = ['-DC11_KF_REGINV_HEADER'] if hdr_open else []
    mixed = [] if 'ssi_mixed_storage_index_does_not_compile' in sigs else ['-DC11_MIXED_STORAGE_INDEX']
    reals = (('d', 'double', 1), ('f', 'float', 0), ('l', 'long double', 0))
    units = []
    # -g0: debug information for ~100 template instantiations per binary costs 40 % of the build time and is never used
    # (failures are reproduced from the tape, which prints a decoded recipe)
    fast = ['-g0']
    # slowest translation units first (they all build in parallel; none needs more than ~2 min)
    for tag, ty, li in reals:
        for part in (1, 2):
            units.append(dict(name='c11_solve_%s%d' % (tag, part), src='c11_solve.cpp',
                              flags=['-DVF_REAL=' + ty, '-DC11_PART=%d' % part, '-DC11_LONG_INDEX=%d' % li] + hdr_wa + fast))
    for tag, ty, li in reals:
        for part in (1, 2):
            units.append(dict(name='c11_composite_%s%d' % (tag, part), src='c11_composite.cpp', flags=['-DVF_REAL=' + ty, '-DC11_PART=%d' % part] + hdr_wa + fast))
    for tag, ty, li in reals:
        for part in (1, 2):
            units.append(dict(name='c11_ssi_%s%d' % (tag, part), src='c11_symshiftinvert.cpp',
                              flags=['-DVF_REAL=' + ty, '-DC11_PART=%d' % part, '-DC11_LONG_INDEX=%d' % li] + (mixed if (li and part == 2) else []) + fast))
    for part, tag in ((1, 'dense_real'), (2, 'dense_complex'), (3, 'sparse_real'), (4, 'sparse_complex')):
        units.append(dict(name='c11_prod_' + tag, src='c11_prod.cpp', flags=['-DC11_PART=%d' % part] + fast))
    # header self-containment: one tiny binary per MatOp header, built only (never run)
    for h in _C11_MATOP_HEADERS:
        if hdr_open and h in ('SparseRegularInverse', 'internal/SymGEigsRegInvOp'):
            continue
        units.append(dict(name='c11_hdr_' + h.replace('internal/', 'internal_'), src='c11_header.cpp', flags=['-DC11_HDR=<Spectra/MatOp/%s.h>' % h], libs=[]))
    return units


def _c11_runs(cases_prod, cases_other, workers):
    runs = []
    for u in _c11_units():
        if u['name'].startswith('c11_hdr_'):
            continue
        runs.append(dict(unit=u['name'], cases=cases_prod if u['name'].startswith('c11_prod_') else cases_other, workers=workers))
    return runs


PROPS['C11'] = dict(
    level='exploration',
    technique='compile-time cross product of the wrapper template options (macro-generated instantiation tables spread over 26 binaries) x rapidcheck generation of matrices, '
              'shifts, operands and argument forms; dense long double reference built from the full symmetric matrix; metamorphic overwrite of the triangle a wrapper must not read '
              '(bitwise comparison); adaptor-vs-components bitwise comparison for the composite operators; one build-only binary per MatOp header',
    level_text='All 16 wrapper classes are instantiated for the full cross product of their options in double (Lower/Upper x ColMajor/RowMajor x StorageIndex int/long x real/complex where the class '
               'takes them; all 64 (TypeA, TypeB, UploA, UploB, FlagsA, FlagsB) combinations of SymShiftInvert in float, double and long double; Uplo x Flags with int indices for the other '
               'wrappers in float and long double), the five SymGEigs*Op adaptors and ArnoldiOp over a covering set of component combinations. Every instantiation is driven by random cases: '
               'n <= 30 (rectangular for the general products), six sparsity patterns (unsymmetric ones for general matrices), small-integer or random entries, explicit stored zeros, scales '
               '1e-60..1e60 (1e-8..1e8 in float), shifts at zero / random / next to an eigenvalue of the (generalized) problem / complex, shift set twice, operands with zeros and unit vectors, '
               'four dense argument forms (plain, block of a larger matrix, Map, expression) and five sparse ones (compressed, uncompressed, Map, expression, inner-panel block; Ref for SymShiftInvert). '
               'Asserted: rows()/cols(); y = A x, operator* and operator() for the product wrappers (64 n eps ||A||_F ||x||); every solve against the long double reference (64 n eps cond ||x_ref||, '
               'cond measured against the data the wrapper receives); Cholesky wrappers: info(), L^-1 x and L^-T x against the long double factor of P B P^T where the permutation P is recovered from '
               'the wrapper and verified to be one (identity for the dense class), L^-T L^-1 x = B^-1 x, NumericalIssue for a matrix with a negative diagonal entry; SparseRegularInverse: B x, B^-1 x, info(); '
               'composite operators: reference formula with the error bound implied by backward stability of each step, bit-identity with the components called by hand in the documented order, '
               'bit-identity of a move-constructed adaptor; invalid_argument for non-square / mismatched input of the ten wrappers that check it. Metamorphic: the triangle a wrapper must not read is '
               '(a) filled with finite garbage, (b) emptied, (c) given a different sparsity pattern with garbage, and every output, status and exception must be bit-identical to the run on the '
               'mirrored matrix; NaN poison is run as well but only reported. Sampling per instantiation, exhaustive over the instantiation table; the class histogram lists every instantiation.',
    level_note='Not asserted (reported in the class histogram only): operator()(i, j) of the symmetric product wrappers returns the raw stored entry, also for (i, j) in the triangle the wrapper '
               'is told not to use. Complex scalars on DenseGenMatProd / SparseGenMatProd are exercised although the doxygen text names real types only. The sparse Cholesky factor is checked up '
               'to its fill-reducing permutation (B = (P\'L)(P\'L)\'), which is what the generalized solver needs. SparseRegularInverse is generated with cond(B) <= 1e2 and a runtime_error '
               '(CG not converged) counts as an allowed rejection. Cases whose reference condition number exceeds 1e3 (float) / 1e9 (double) / 1e11 (long double) are counted as rejected because '
               'the bound would be vacuous. Compile-time findings (a header that is not self-contained, a template combination that does not compile) are handled through KNOWN_FINDINGS.txt: '
               'while listed, the affected code is built with a workaround and reported once per binary; otherwise a compiler error is the violation.',
    units=_c11_units(),
    compile_error_is_violation=True,
    replay_unit='c11_solve_d1',
    runs=dict(
        quick=_c11_runs(60000, 25000, 1),
        thorough=_c11_runs(400000, 150000, 2),
    ),
    min=dict(quick=dict(cases=600000, nontrivial=300000,
                        classes={'wrapper/DenseGenMatProd': 2000, 'wrapper/SparseHermMatProd': 2000, 'wrapper/SparseRegularInverse': 2000, 'wrapper/SparseCholesky': 2000,
                                 'wrapper/SparseGenComplexShiftSolve': 1000, 'wrapper/DenseSymShiftSolve': 1000, 'types/Dense,Sparse': 5000, 'types/Sparse,Dense': 5000,
                                 'composite/SymGEigsCayleyOp': 2000, 'composite/SymGEigsCholeskyOp': 2000, 'composite/ArnoldiOp': 1000,
                                 'unused_triangle/other_triangle_empty': 10000, 'unused_triangle/garbage_other_pattern': 10000, 'unused_triangle_B/garbage_values': 10000,
                                 'sparse_form/inner_panel_block': 3000, 'sparse_form/plain_uncompressed': 3000, 'dense_form/expression': 2000, 'form/Ref': 3000,
                                 'sparse_cholesky/nontrivial_permutation': 500, 'shift/near_eigenvalue': 3000, 'rectangular': 2000, 'nonsquare_rejected': 500,
                                 'inst/SymShiftInvert<float,Sparse,Dense,Upper,Lower,RowMajor,ColMajor>': 30, 'inst/SparseSymShiftSolve<double,Upper,RowMajor,long>': 30,
                                 'inst/DenseCholesky<long double,Upper,RowMajor>': 30}),
             thorough=dict(cases=8000000, nontrivial=3000000)),
    rule='case = (instantiation drawn uniformly from the table of the binary, n or rows x cols, sparsity pattern, content seed, integer/random entries, explicit zeros, scale, operand seeds, '
         'argument form, shift kind and position, shift-set-twice flag, kind of overwrite of the unused triangle(s), NaN-poison run, occasionally a non-square input). Each case runs the wrapper '
         'on the mirrored matrix and on at least one overwritten variant. Non-trivial = n >= 2 (both dimensions for products) and the case was not rejected; distinct = 64-bit hash of the draw log.',
    tolerances='products 64 n eps ||A||_F ||x||; solves 64 n eps cond ||x_ref|| with cond = ||M^-1||_2 (||A||_F + |sigma| ||B or I||_F); Cholesky solves 64 n eps cond(B) ||y_ref||; '
               'L^-1 A L^-T x: 64 n eps cond(B)^1.5 ||B^-1|| ||A|| ||x||; B^-1 A x and (A - sigma B)^-1 B x: 64 n eps (cond ||y|| + ||M^-1|| ||A or B|| ||x||); Cayley adds 2|sigma| times that plus ||x|| + ||y||; '
               'inner products 64 n eps ||B|| ||x|| ||y||; metamorphic and adaptor-vs-components comparisons are bitwise',
    assumptions=KERNEL_ASSUME + ['Eigen 3.4 FullPivLU / LLT / SelfAdjointEigenSolver / JacobiSVD / GeneralizedSelfAdjointEigenSolver in (complex) long double for references and condition numbers'],
)
