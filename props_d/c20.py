PROPS['C20'] = dict(
    level='exploration',
    engine='rapidcheck + ThreadSanitizer',
    technique='rapidcheck generation of thread teams (2-16 threads, solver class per thread, private operators or one shared read-only product wrapper, start skew, repetitions) under ThreadSanitizer; race oracle = TSan report hook, result oracle = bitwise equality with the sequential baseline',
    level_text='Each case draws a team of threads; every thread gets its own solver configuration from the six Krylov classes (private user-functor operators), or a solver on ONE shared read-only DenseSymMatProd / DenseGenMatProd / '
               'SparseSymMatProd object, or a PartialSVD / Davidson solver, plus a start skew and 1-3 repetitions. All jobs are first run sequentially, then concurrently behind a barrier. Every concurrent result (values, vectors, '
               'count, info, iteration and operation counters) must equal its sequential baseline bit for bit, and ThreadSanitizer must not produce a report during the concurrent phase (its __tsan_on_report hook is counted). '
               'The guarded observer hook is compiled in but disabled (null thread-local pointer).',
    level_note='Schedules are sampled: the harness owns team size, sharing pattern and start skew, the OS owns the interleaving. TSan detects unsynchronised conflicting accesses by happens-before, so a race does not have to manifest, '
               'but absence of reports is not a proof. steady_clock readings are used only to classify whether threads overlapped.',
    replay_any=True,   # a race is schedule dependent: a failure that reproduces in at least one of three replays counts
    units=[dict(name='c20', src='c20_threads.cpp', flags=['-fsanitize=thread', '-g1'], libs=['-lrapidcheck', '-lpthread'], env={'TSAN_OPTIONS': 'halt_on_error=0:report_signal_unsafe=0:exitcode=0'}, crash_handler='crash')],
    runs=dict(
        quick=[dict(unit='c20', cases=500, workers=4, set=dict(tmax=8))],
        thorough=[dict(unit='c20', cases=4000, workers='all', set=dict(tmax=16))],
    ),
    min=dict(quick=dict(cases=2000, nontrivial=1000, classes={'shared_product_wrapper': 1000, 'threads_overlapped': 1000}),
             thorough=dict(cases=60000, nontrivial=30000)),
    rule='case = (thread count, per-thread job: solver class / shared wrapper / PartialSVD / Davidson, recipe, nev, ncv, args, start skew, repetitions; shared matrix seed). Non-trivial = at least two threads actually '
         'overlapped in time (classification by steady_clock, not part of the verdict); distinct = 64-bit hash of the draw log.',
    tolerances='none (bitwise equality; zero ThreadSanitizer reports)',
    assumptions=['ThreadSanitizer runtime (gcc 12) and its __tsan_on_report hook', 'std::thread scheduling of the host'],
)
