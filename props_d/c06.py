PROPS['C06'] = dict(
    level='exploration',
    technique='rapidcheck stateful generation of prefix histories (other arguments, rejected calls, computes without init) on the six Krylov solver classes with user functors and on nineteen solver / library-wrapper combinations (every class in Spectra/MatOp, five generalized modes), plus Davidson (three operator forms) and LOBPCG; bitwise differential oracle fresh vs reused vs second solver on a shared operator, and a bitwise fingerprint of every public operation of the operator',
    level_text='For a drawn (operator, nev, ncv, start vector, selection, sorting, maxit, tol) the observed init(v); compute(args) is executed (i) by a fresh solver on a fresh operator, (ii) by a solver that first went through a drawn '
               'history of up to 4 other operations (init+compute with other arguments, compute without init, init with a zero vector, compute with an unsupported rule, init only), (iii) by a second solver constructed on the same '
               'operator object, and (iv) by the first solver again afterwards. Eigenvalues, eigenvectors, return value, info(), num_iterations() and num_operations() must agree bit for bit with (i). The operator is '
               'fingerprinted (its answer to a fixed vector, bitwise) after construction, after every prefix step and after every observed compute(): the shift installed at construction must still be in force.'
               ' Second unit (c06w): the same differential for the wrapper classes the library ships - DenseSym/SparseSym/DenseHerm/SparseHerm/DenseGen/SparseGen products, the six shift-solve wrappers, Dense/SparseCholesky, '
               'SparseRegularInverse and SymShiftInvert in four storage combinations - under SymEigs/HermEigs/SymEigsShift/GenEigs/GenEigsRealShift/GenEigsComplexShift/SymGEigs<Cholesky|RegularInverse>/'
               'SymGEigsShift<ShiftInvert|Buckling|Cayley>. The prefix history there also contains the user calling the wrapper on vectors of their own and another solver object constructed (re-installing the shift), run and destroyed '
               'on the same wrapper objects; the fingerprint covers perform_op, solve, both triangular solves, operator* and operator().',
    level_note='Operators are deterministic user functors (dense LU solves for the shift families), so bitwise equality is the right oracle. c06w uses double only (the wrappers are exercised in three scalar types by C11). PartialSVD reuse is covered by C16. Third unit (c06o): DavidsonSymEigsSolver on DenseSymMatProd / SparseSymMatProd / a user operator (fresh vs reused after a prefix of other compute() / compute_with_guess() calls vs second solver on the shared operator vs first solver again, operator fingerprint) and LOBPCGSolver (no init(), continues from its iterate by design: two objects built from the same inputs must agree bit for bit, also with other runs in between).',
    units=[dict(name='c06', src='c06_purity.cpp'), dict(name='c06w', src='c06_wrappers.cpp'), dict(name='c06o', src='c06_others.cpp')],
    runs=dict(
        quick=[dict(unit='c06', cases=5000, workers=4), dict(unit='c06w', cases=3000, workers=4), dict(unit='c06o', cases=5000, workers=4)],
        thorough=[dict(unit='c06', cases=25000, workers='all'), dict(unit='c06w', cases=12000, workers='all'), dict(unit='c06o', cases=20000, workers='all')],
    ),
    min=dict(quick=dict(cases=18000, nontrivial=8000, classes={'prefix_with_compute': 3000, 'prefix_with_rejected_call': 1000, 'GenEigsComplexShiftSolver': 800, 'pairs_returned': 2000, 'wrapper_used_before': 2500, 'prefix_with_other_solver': 1500, 'prefix_with_user_calls': 1500, 'SymGEigsSolver<SparseSymMatProd,SparseRegularInverse>': 150, 'DavidsonSymEigsSolver<user operator>': 1500, 'DavidsonSymEigsSolver<SparseSymMatProd>': 1500, 'davidson_iterated': 3000, 'LOBPCGSolver': 1500, 'lobpcg_runs_between': 1000, 'lobpcg_success': 300, 'GenEigsComplexShiftSolver<SparseGenComplexShiftSolve>': 150}),
             thorough=dict(cases=250000, nontrivial=100000)),
    rule='case = (solver class, matrix recipe, n <= 24, nev, ncv, shift, target arguments and start vector, prefix history of up to 4 operations). Non-trivial = the prefix contains at least one compute(); every case also shares '
         'the operator between two solvers. Distinct = 64-bit hash of the draw log.',
    tolerances='none (bitwise equality)',
    assumptions=['deterministic user operators (Eigen PartialPivLU / dense products) so that bitwise reproducibility is a property of the solver alone'],
)
